//go:build verif

package server

// C06, units "redundant" and "redundant-restart": operations that the MODEL of
// c06_test.go would never draw because they are redundant, repeated, no-ops or
// ill-timed in the state reached — ExpandISR of a replica that already is in
// the ISR (a partition leader whose own FSM lags re-sends it), ShrinkISR of a
// replica that is not in the ISR, an ISR change that is committed after the
// partition was paused, pause of paused partitions, resume of running ones,
// read-only set to the value it already has, join of a member, leave of a
// non-member, create of an existing stream / group, delete of a missing stream —
// but that the REAL precondition function (metadataAPI.check…Preconditions, the
// function raftNode.applyOperation runs under the proposal lock; Level 2: the
// metadata API of the running server) may still let through.  Whether such an
// operation becomes part of the history is decided by asking the real function,
// never the model; the model's partition / group state is re-read from the
// server that has applied the history so far before every draw.  The accepted
// ones are interleaved with the ordinary operations and the history goes through
// the usual C06 oracles (twin servers, late notification, every snapshot/replay
// split, continuation, marker survival; Level 2: forced Raft snapshots and real
// restarts), plus a self-consistency oracle: what a server would persist in a
// snapshot (the protobuf ISR list) is its live in-sync set.

import (
	"fmt"
	"sort"
	"strings"
	"testing"

	kit "github.com/liftbridge-io/liftbridge/internal/verifkit"
	proto "github.com/liftbridge-io/liftbridge/server/protocol"
)

// c06SelfCheck: the in-sync set a server works with (partition.isr: GetISR,
// FetchMetadata, leader election, commit rule) and the in-sync set it stores in
// snapshots and hands to the partition object recreated on resume
// (proto.Partition.Isr) are the same set.
func c06SelfCheck(d c06Digest) []c06Diff {
	var out []c06Diff
	for _, s := range d.Streams {
		for _, p := range s.Parts {
			// compared as sets: a repetition in the list is harmless by itself
			// (Restore and resume build a map from it)
			var set []string
			for i, r := range p.ProtoISR {
				if i == 0 || r != p.ProtoISR[i-1] {
					set = append(set, r)
				}
			}
			if strings.Join(p.ISR, ",") != strings.Join(set, ",") {
				class := "isr-live-vs-persisted"
				if len(set) > len(p.ISR) {
					class += ":persisted-larger"
				} else if len(set) < len(p.ISR) {
					class += ":persisted-smaller"
				}
				out = append(out, c06Diff{class, fmt.Sprintf("%s/%d live ISR %v, persisted (protobuf) ISR %v", s.Name, p.ID, p.ISR, p.ProtoISR)})
				return out
			}
		}
	}
	return out
}

// syncFromReal re-reads what later draws depend on from the server that has
// applied every operation so far.  On a tree where the model of c06_test.go is
// right this changes nothing after an ordinary operation.
func (m *c06Model) syncFromReal() {
	s := m.real
	for name, ms := range m.Streams {
		st := s.metadata.GetStream(name)
		if st == nil {
			continue
		}
		for id, mp := range ms.Parts {
			p := st.GetPartition(int32(id))
			if p == nil {
				continue
			}
			isr := map[string]bool{}
			for _, r := range p.GetISR() {
				isr[r] = true
			}
			mp.ISR = isr
			mp.Leader, mp.LeaderEpoch = p.GetLeader()
			mp.Paused = p.IsPaused()
		}
	}
	groups := map[string]*c06MGroup{}
	for _, g := range s.metadata.GetConsumerGroups() {
		mg := &c06MGroup{Members: map[string][]string{}}
		mg.Coord, _ = g.GetCoordinator()
		for c, ss := range g.GetMembers() {
			mg.Members[c] = c06Sorted(ss)
		}
		groups[g.GetID()] = mg
	}
	m.Groups = groups
}

// c06RealPrecondition asks the function that raftNode.applyOperation would run
// for this entry.  ShrinkISR has one more check in the API function itself (the
// leader cannot be removed); it is evaluated against the real partition too.
func c06RealPrecondition(s *Server, l *proto.RaftLog) error {
	switch l.Op {
	case proto.Op_CREATE_STREAM:
		return s.metadata.checkCreateStreamPreconditions(l)
	case proto.Op_DELETE_STREAM:
		return s.metadata.checkDeleteStreamPreconditions(l)
	case proto.Op_PAUSE_STREAM:
		return s.metadata.checkPauseStreamPreconditions(l)
	case proto.Op_RESUME_STREAM:
		return s.metadata.checkResumeStreamPreconditions(l)
	case proto.Op_SET_STREAM_READONLY:
		return s.metadata.checkSetStreamReadonlyPreconditions(l)
	case proto.Op_SHRINK_ISR:
		if err := s.metadata.checkShrinkISRPreconditions(l); err != nil {
			return err
		}
		if p := s.metadata.GetPartition(l.ShrinkISROp.Stream, l.ShrinkISROp.Partition); p != nil {
			if leader, _ := p.GetLeader(); leader == l.ShrinkISROp.ReplicaToRemove {
				return fmt.Errorf("cannot remove leader %s from ISR", leader)
			}
		}
		return nil
	case proto.Op_EXPAND_ISR:
		return s.metadata.checkExpandISRPreconditions(l)
	case proto.Op_CREATE_CONSUMER_GROUP:
		return s.metadata.checkCreateConsumerGroupPreconditions(l)
	case proto.Op_JOIN_CONSUMER_GROUP:
		return s.metadata.checkJoinConsumerGroupPreconditions(l)
	case proto.Op_LEAVE_CONSUMER_GROUP:
		return s.metadata.checkLeaveConsumerGroupPreconditions(l)
	}
	return fmt.Errorf("c06: no precondition function known for %s", l.Op)
}

// genRedundant draws candidates of the class described at the top of the file
// until the real precondition function accepts one; nil if none was accepted.
// The model needs no update for them beyond what syncFromReal re-reads.
func (m *c06Model) genRedundant(rng *kit.RNG, index uint64) *c06Op {
	type part struct {
		s  string
		p  int
		mp *c06MPart
	}
	var parts, multi, pausedMulti []part
	for _, n := range m.streamNames() {
		for i, mp := range m.Streams[n].Parts {
			pt := part{n, i, mp}
			parts = append(parts, pt)
			if len(mp.Replicas) > 1 {
				multi = append(multi, pt)
				if mp.Paused {
					pausedMulti = append(pausedMulti, pt)
				}
			}
		}
	}
	level2 := m.apiStream != ""
	outOfISR := func(mp *c06MPart) []string {
		var out []string
		for _, r := range mp.Replicas {
			if !mp.ISR[r] {
				out = append(out, r)
			}
		}
		sort.Strings(out)
		return out
	}
	followers := func(mp *c06MPart) []string {
		var out []string
		for _, r := range c06SortedKeysB(mp.ISR) {
			if r != mp.Leader {
				out = append(out, r)
			}
		}
		return out
	}
	expand := func(c part, r string) *proto.RaftLog {
		return &proto.RaftLog{Op: proto.Op_EXPAND_ISR, ExpandISROp: &proto.ExpandISROp{Stream: c.s, Partition: int32(c.p),
			ReplicaToAdd: r, Leader: c.mp.Leader, LeaderEpoch: c.mp.LeaderEpoch}}
	}
	shrink := func(c part, r string) *proto.RaftLog {
		return &proto.RaftLog{Op: proto.Op_SHRINK_ISR, ShrinkISROp: &proto.ShrinkISROp{Stream: c.s, Partition: int32(c.p),
			ReplicaToRemove: r, Leader: c.mp.Leader, LeaderEpoch: c.mp.LeaderEpoch}}
	}
	for try := 0; try < 60; try++ {
		var l *proto.RaftLog
		var kind, class, desc, stream, group string
		switch x := rng.Intn(100); {
		case x < 26: // ExpandISR of a replica that already is in the ISR (paused or running partition)
			if len(multi) == 0 {
				continue
			}
			c := multi[rng.Intn(len(multi))]
			isr := c06SortedKeysB(c.mp.ISR)
			if len(isr) == 0 {
				continue
			}
			r := c06Pick(rng, isr)
			l, kind, class, stream = expand(c, r), "expand", "expand-of-isr-member", c.s
			desc = fmt.Sprintf("dup-expand(%s/%d,%s)", c.s, c.p, r)
		case x < 44: // ShrinkISR of a replica that is not in the ISR
			if len(multi) == 0 {
				continue
			}
			c := multi[rng.Intn(len(multi))]
			out := outOfISR(c.mp)
			if len(out) == 0 {
				continue
			}
			r := c06Pick(rng, out)
			l, kind, class, stream = shrink(c, r), "shrink", "shrink-of-non-member", c.s
			desc = fmt.Sprintf("dup-shrink(%s/%d,%s)", c.s, c.p, r)
		case x < 54: // an ordinary ISR change that is committed after the partition was paused
			if len(pausedMulti) == 0 {
				continue
			}
			c := pausedMulti[rng.Intn(len(pausedMulti))]
			if out := outOfISR(c.mp); len(out) > 0 && rng.Bool() {
				r := c06Pick(rng, out)
				l, kind, class, stream = expand(c, r), "expand", "expand-on-paused-partition", c.s
				desc = fmt.Sprintf("paused-expand(%s/%d,%s)", c.s, c.p, r)
			} else if f := followers(c.mp); len(f) > 0 {
				r := c06Pick(rng, f)
				l, kind, class, stream = shrink(c, r), "shrink", "shrink-on-paused-partition", c.s
				desc = fmt.Sprintf("paused-shrink(%s/%d,%s)", c.s, c.p, r)
			} else {
				continue
			}
		case x < 66: // pause naming only partitions that are paused already
			var cands []string
			for _, n := range m.streamNames() {
				for _, mp := range m.Streams[n].Parts {
					if mp.Paused {
						cands = append(cands, n)
						break
					}
				}
			}
			if len(cands) == 0 {
				continue
			}
			name := c06Pick(rng, cands)
			var ids []int32
			all := true
			for i, mp := range m.Streams[name].Parts {
				if mp.Paused {
					ids = append(ids, int32(i))
				} else {
					all = false
				}
			}
			if all && rng.Bool() {
				ids = nil // "all partitions"
			}
			ra := rng.Bool()
			l = &proto.RaftLog{Op: proto.Op_PAUSE_STREAM, PauseStreamOp: &proto.PauseStreamOp{Stream: name, Partitions: ids, ResumeAll: ra}}
			kind, class, stream = "pause", "pause-of-paused", name
			desc = fmt.Sprintf("dup-pause(%s,%v,resumeAll=%v)", name, ids, ra)
		case x < 74: // resume naming only partitions that are not paused
			if len(parts) == 0 {
				continue
			}
			name := parts[rng.Intn(len(parts))].s
			var ids []int32
			for i, mp := range m.Streams[name].Parts {
				if !mp.Paused {
					ids = append(ids, int32(i))
				}
			}
			if len(ids) == 0 {
				continue
			}
			l = &proto.RaftLog{Op: proto.Op_RESUME_STREAM, ResumeStreamOp: &proto.ResumeStreamOp{Stream: name, Partitions: ids}}
			kind, class, stream = "resume", "resume-of-running", name
			desc = fmt.Sprintf("dup-resume(%s,%v)", name, ids)
		case x < 86: // read-only set to the value the partitions already have
			if len(parts) == 0 {
				continue
			}
			c := parts[rng.Intn(len(parts))]
			flag := func(id int) (bool, bool) {
				p := m.real.metadata.GetPartition(c.s, int32(id))
				if p == nil {
					return false, false
				}
				p.mu.RLock()
				defer p.mu.RUnlock()
				return p.Partition.Readonly, true
			}
			ro, ok := flag(c.p)
			if !ok {
				continue
			}
			var ids []int32
			all := true
			for i := range m.Streams[c.s].Parts {
				if v, ok := flag(i); ok && v == ro {
					ids = append(ids, int32(i))
				} else {
					all = false
				}
			}
			if all && rng.Bool() {
				ids = nil
			}
			l = &proto.RaftLog{Op: proto.Op_SET_STREAM_READONLY, SetStreamReadonlyOp: &proto.SetStreamReadonlyOp{Stream: c.s, Partitions: ids, Readonly: ro}}
			kind, class, stream = "readonly", "readonly-same-value", c.s
			desc = fmt.Sprintf("dup-readonly(%s,%v,%v)", c.s, ids, ro)
		case x < 90: // join of a consumer that is a member already
			gs := m.groupNames()
			if len(gs) == 0 || len(m.Streams) == 0 {
				continue
			}
			g := c06Pick(rng, gs)
			mem := kit.SortedKeys(m.Groups[g].Members)
			if len(mem) == 0 {
				continue
			}
			cons := c06Pick(rng, mem)
			ss := c06StreamSubset(rng, m.streamNames())
			l = &proto.RaftLog{Op: proto.Op_JOIN_CONSUMER_GROUP, JoinConsumerGroupOp: &proto.JoinConsumerGroupOp{GroupId: g, ConsumerId: cons, Streams: ss}}
			kind, class, group = "join", "join-of-member", g
			desc = fmt.Sprintf("dup-join(%s,%s,%v)", g, cons, ss)
		case x < 93: // leave of a consumer that is not a member
			gs := m.groupNames()
			if len(gs) == 0 {
				continue
			}
			g := c06Pick(rng, gs)
			var free []string
			for _, c := range c06Cons {
				if _, ok := m.Groups[g].Members[c]; !ok {
					free = append(free, c)
				}
			}
			if len(free) == 0 {
				continue
			}
			cons := c06Pick(rng, free)
			l = &proto.RaftLog{Op: proto.Op_LEAVE_CONSUMER_GROUP, LeaveConsumerGroupOp: &proto.LeaveConsumerGroupOp{GroupId: g, ConsumerId: cons}}
			kind, class, group = "leave", "leave-of-non-member", g
			desc = fmt.Sprintf("dup-leave(%s,%s)", g, cons)
		case x < 95: // create of a group that exists (Level 1 only: the API folds create into join)
			gs := m.groupNames()
			if level2 || len(gs) == 0 || len(m.Streams) == 0 {
				continue
			}
			g := c06Pick(rng, gs)
			cons := c06Pick(rng, c06Cons)
			ss := c06StreamSubset(rng, m.streamNames())
			l = &proto.RaftLog{Op: proto.Op_CREATE_CONSUMER_GROUP, CreateConsumerGroupOp: &proto.CreateConsumerGroupOp{
				ConsumerGroup: &proto.ConsumerGroup{Id: g, Coordinator: c06Pick(rng, c06Brokers), Members: []*proto.Consumer{{Id: cons, Streams: ss}}}}}
			kind, class, group = "gcreate", "create-of-existing-group", g
			desc = fmt.Sprintf("dup-gcreate(%s,%s,%v)", g, cons, ss)
		case x < 98: // create of a stream that exists
			names := m.streamNames()
			if len(names) == 0 {
				continue
			}
			name := c06Pick(rng, names)
			reps := []string{c06Brokers[0], c06Brokers[1]}
			if name == m.apiStream {
				reps = []string{m.local}
			}
			ps := &proto.Stream{Name: name, Subject: "subj." + name + "x", CreationTimestamp: int64(1600000000000000000) + int64(index)*1000,
				Partitions: []*proto.Partition{{Subject: "subj." + name + "x", Stream: name, Id: 0, ReplicationFactor: int32(len(reps)),
					Replicas: append([]string(nil), reps...), Isr: append([]string(nil), reps...), Leader: reps[0]}}}
			l = &proto.RaftLog{Op: proto.Op_CREATE_STREAM, CreateStreamOp: &proto.CreateStreamOp{Stream: ps}}
			kind, class, stream = "create", "create-of-existing-stream", name
			desc = fmt.Sprintf("dup-create(%s)", name)
		default: // delete of a stream that does not exist
			var free []string
			for _, n := range c06Streams {
				if m.Streams[n] == nil {
					free = append(free, n)
				}
			}
			if len(free) == 0 {
				continue
			}
			name := c06Pick(rng, free)
			l = &proto.RaftLog{Op: proto.Op_DELETE_STREAM, DeleteStreamOp: &proto.DeleteStreamOp{Stream: name}}
			kind, class, stream = "delete", "delete-of-missing-stream", name
			desc = fmt.Sprintf("dup-delete(%s)", name)
		}
		err := c06RealPrecondition(m.real, l)
		if m.redStats != nil {
			m.redStats(class, err == nil)
		}
		if err != nil {
			continue
		}
		op := c06MkOp(kind, index, desc, l)
		op.Redundant, op.Stream, op.Group = true, stream, group
		m.follow = nil
		if rng.Chance(3, 5) {
			m.follow = c06FollowOf(l, 1+rng.Intn(3))
		}
		return op
	}
	return nil
}

// c06Follow: after an accepted redundant operation X the ORDINARY inverse of X
// on the same object (shrink of the replica that was expanded twice, expand of
// the one that was shrunk twice, resume after a repeated pause, pause after a
// repeated resume, the other read-only value, resume of the partition whose ISR
// was changed while paused) is drawn within the next few operations — again only
// if the real precondition function accepts it in the state reached by then.
type c06Follow struct {
	l   *proto.RaftLog // the redundant operation
	ttl int            // draws left
}

func c06FollowOf(l *proto.RaftLog, ttl int) *c06Follow {
	switch l.Op {
	case proto.Op_EXPAND_ISR, proto.Op_SHRINK_ISR, proto.Op_PAUSE_STREAM, proto.Op_RESUME_STREAM, proto.Op_SET_STREAM_READONLY:
		return &c06Follow{l: l, ttl: ttl}
	}
	return nil
}

func (m *c06Model) genFollowUp(rng *kit.RNG, index uint64) *c06Op {
	f := m.follow
	if f == nil {
		return nil
	}
	f.ttl--
	if f.ttl > 0 && rng.Bool() {
		return nil // later
	}
	m.follow = nil
	isrOp := func(stream string, part int32, r string, wasExpand bool) (*proto.RaftLog, string, string) {
		ms := m.Streams[stream]
		if ms == nil || int(part) >= len(ms.Parts) {
			return nil, "", ""
		}
		mp := ms.Parts[part]
		if mp.Paused { // an ISR change made while paused: the inverse is to resume the partition
			return &proto.RaftLog{Op: proto.Op_RESUME_STREAM, ResumeStreamOp: &proto.ResumeStreamOp{Stream: stream, Partitions: []int32{part}}},
				"resume", fmt.Sprintf("resume(%s,[%d])", stream, part)
		}
		if wasExpand {
			if !mp.ISR[r] || r == mp.Leader {
				return nil, "", ""
			}
			return &proto.RaftLog{Op: proto.Op_SHRINK_ISR, ShrinkISROp: &proto.ShrinkISROp{Stream: stream, Partition: part,
				ReplicaToRemove: r, Leader: mp.Leader, LeaderEpoch: mp.LeaderEpoch}}, "shrink", fmt.Sprintf("shrink(%s/%d,%s)", stream, part, r)
		}
		if mp.ISR[r] {
			return nil, "", ""
		}
		return &proto.RaftLog{Op: proto.Op_EXPAND_ISR, ExpandISROp: &proto.ExpandISROp{Stream: stream, Partition: part,
			ReplicaToAdd: r, Leader: mp.Leader, LeaderEpoch: mp.LeaderEpoch}}, "expand", fmt.Sprintf("expand(%s/%d,%s)", stream, part, r)
	}
	var l *proto.RaftLog
	var kind, desc, stream string
	switch f.l.Op {
	case proto.Op_EXPAND_ISR:
		o := f.l.ExpandISROp
		stream = o.Stream
		l, kind, desc = isrOp(o.Stream, o.Partition, o.ReplicaToAdd, true)
	case proto.Op_SHRINK_ISR:
		o := f.l.ShrinkISROp
		stream = o.Stream
		l, kind, desc = isrOp(o.Stream, o.Partition, o.ReplicaToRemove, false)
	case proto.Op_PAUSE_STREAM:
		o := f.l.PauseStreamOp
		ms := m.Streams[o.Stream]
		if ms == nil {
			return nil
		}
		var ids []int32
		for i, mp := range ms.Parts {
			if mp.Paused {
				ids = append(ids, int32(i))
			}
		}
		if len(ids) == 0 {
			return nil
		}
		stream, kind, desc = o.Stream, "resume", fmt.Sprintf("resume(%s,%v)", o.Stream, ids)
		l = &proto.RaftLog{Op: proto.Op_RESUME_STREAM, ResumeStreamOp: &proto.ResumeStreamOp{Stream: o.Stream, Partitions: ids}}
	case proto.Op_RESUME_STREAM:
		o := f.l.ResumeStreamOp
		if m.Streams[o.Stream] == nil {
			return nil
		}
		stream, kind, desc = o.Stream, "pause", fmt.Sprintf("pause(%s,%v,resumeAll=false)", o.Stream, o.Partitions)
		l = &proto.RaftLog{Op: proto.Op_PAUSE_STREAM, PauseStreamOp: &proto.PauseStreamOp{Stream: o.Stream, Partitions: o.Partitions}}
	case proto.Op_SET_STREAM_READONLY:
		o := f.l.SetStreamReadonlyOp
		if m.Streams[o.Stream] == nil {
			return nil
		}
		stream, kind, desc = o.Stream, "readonly", fmt.Sprintf("readonly(%s,%v,%v)", o.Stream, o.Partitions, !o.Readonly)
		l = &proto.RaftLog{Op: proto.Op_SET_STREAM_READONLY, SetStreamReadonlyOp: &proto.SetStreamReadonlyOp{Stream: o.Stream, Partitions: o.Partitions, Readonly: !o.Readonly}}
	}
	if l == nil {
		return nil
	}
	err := c06RealPrecondition(m.real, l)
	if m.redStats != nil {
		m.redStats("inverse-after-redundant-"+kind, err == nil)
	}
	if err != nil {
		return nil
	}
	op := c06MkOp(kind, index, desc, l)
	op.Stream = stream
	return op
}

const c06RedundantRule = "same histories and oracles as the %s unit, but %d%% of the draws are operations that are redundant / repeated / no-ops / ill-timed in the state reached (ExpandISR of an ISR member, ShrinkISR of a non-member, ISR change on a paused partition, pause of paused partitions, resume of running ones, read-only to the value it has, join of a member, leave of a non-member, create of an existing stream or group, delete of a missing stream) and become part of the history only if the REAL precondition function (metadataAPI.check*Preconditions%s) accepts them in the state the server is in; the model's partition / group state is re-read from that server before every draw; extra oracle: after every step the live in-sync set equals the in-sync set the server would persist (protobuf list, as a set); non-trivial = the usual rule AND at least one redundant operation was accepted; distinct = history text"

// TestVerifC06Redundant: Level 1 (never-started servers, every snapshot/replay split).
func TestVerifC06Redundant(t *testing.T) {
	rep := kit.NewReport("C06", "redundant")
	defer rep.Write()
	const pct = 35
	rep.SetRule(fmt.Sprintf(c06RedundantRule, "replay", pct, ""))
	rep.Assume("a redundant operation is part of a valid history exactly when the real precondition function accepts it (for ShrinkISR also the API's own 'leader cannot be removed' check); operations it refuses are counted and dropped")
	rep.Assume("restart model and compared digest as in the replay unit")
	c06VolatileNote(rep, 1)
	root := kit.NewRNG(kit.Mix(kit.Seed(), 0xC06D))
	nh := kit.EnvInt("C06_RED_HISTORIES", kit.Scale(90, 900))
	seeds := make([]uint64, nh)
	for i := range seeds {
		seeds[i] = root.Uint64()
	}
	kit.Parallel(nh, kit.Workers(), func(i int) {
		if rep.NumViolations() >= 60 {
			return
		}
		c06RunHistoryMode(rep, i, seeds[i], pct)
	})
}

// TestVerifC06RedundantRestart: Level 2 (real Raft, forced snapshots, real restarts).
func TestVerifC06RedundantRestart(t *testing.T) {
	rep := kit.NewReport("C06", "redundant-restart")
	defer rep.Write()
	const pct = 40
	rep.SetRule(fmt.Sprintf(c06RedundantRule, "restart", pct, ", then the metadata API of the running server, which is the judge"))
	rep.Assume("Level 2 waits for logical conditions only (leader elected, Raft barrier applied, group members no longer list a deleted stream); a watchdog expiry is reported as inconclusive")
	c06VolatileNote(rep, 2)
	root := kit.NewRNG(kit.Mix(kit.Seed(), 0xC06E))
	nsc := kit.EnvInt("C06_RED_L2_SCENARIOS", kit.Scale(6, 48))
	seeds := make([]uint64, nsc)
	for i := range seeds {
		seeds[i] = root.Uint64()
	}
	workers := kit.EnvInt("C06_L2_WORKERS", 3)
	kit.Parallel(nsc, workers, func(i int) {
		if rep.NumViolations() >= 60 {
			return
		}
		c06RunL2Mode(rep, i, seeds[i], pct)
	})
}
