//go:build verif

package server

import (
	"encoding/json"
	"fmt"
	"os"
	"strings"
	"sync/atomic"
	"testing"
	"time"

	kit "github.com/liftbridge-io/liftbridge/internal/verifkit"
)

const c11Rule = "seeded histories on a real single-node server with the __cursors stream on: config drawn per history " +
	"(1-3 cursors partitions, segment size 300-6000 B so the cursors log rolls, cache on / off (cursorManager.disableCache), 3-10 clients, " +
	"60% forced Clean() / 20% the log's own cleaner ticker (which also rolls a full active segment; these histories only compact) / 20% auto-pause timer on (these do not compact)); " +
	"phases: concurrent clients (55% hot / 25% warm / 20% cold keys, set:fetch 1:1, background Clean() and cache purges at seeded operation counts), then a seeded order of " +
	"{compact, evict the LRU with >512 acknowledged keys, pause+resume (PauseStream or the auto-pause timer), restart on the same data dir}, each followed by sequential checks " +
	"(fetch as-is, fetch after a cache purge, write->read), a second concurrent phase and a final check. " +
	"Every op is stamped call/return from one monotonic clock, set values are unique; oracle = direct 'definitely overwritten' rule per fetch + porcupine register model per key " +
	"(failed sets stay open to the end). non-trivial = the history completed, the cursors log had >=3 segments in one partition, compaction removed >=1 record and >=1 of " +
	"{eviction reached 512 entries, pause, restart} happened (auto-pause histories do not compact: the timer paused the partitions); distinct = config signature + history seed"

func c11GenCfg(rng *kit.RNG, g int) c11Cfg {
	cfg := c11Cfg{}
	cfg.Parts = int32(1 + g%3)
	cfg.CacheOff = (g/3)%2 == 1
	cfg.SegBytes = []int64{300, 600, 1500, 6000}[rng.Intn(4)]
	cfg.Clients = []int{3, 6, 10}[rng.Intn(3)]
	total := kit.Scale(360, 600)
	cfg.Ops = total / cfg.Clients
	cfg.Hot = rng.Range(4, 8)
	cfg.Warm = rng.Range(12, 30)
	cfg.CleanMode = "forced"
	steps := []string{"compact", "evict", "pause", "restart"}
	switch x := rng.Intn(10); {
	case x < 2:
		// The log's own cleaner ticker (which also rolls a full active
		// segment).  Close() does not wait for a cleaner pass in progress, so
		// these histories do not stop or pause the log (that schedule is the
		// subject of the closerace unit).
		cfg.CleanMode = "ticker"
		// Every cleaner pass rewrites every segment, and while a pass runs
		// FetchCursor that has to read the log fails (it gets segments the
		// cleaner has already replaced).  Keep the log short so that passes
		// are short: fewer operations, no eviction step.
		steps = []string{"compact", "compact"}
		cfg.Ops = (total * 2 / 3) / cfg.Clients
		if cfg.SegBytes < 600 {
			cfg.SegBytes = 600
		}
	case x < 4:
		// The auto-pause timer closes the log whenever the partition has been
		// idle; a forced Clean() could not be kept apart from it, so these
		// histories do not compact (pause on a compacted log is covered by
		// the PauseStream histories, pause during a cleaner pass by the
		// closerace unit).
		cfg.AutoPause = 500 * time.Millisecond
		steps = []string{"evict", "pause", "restart", "pause"}
	}
	for i := len(steps) - 1; i > 0; i-- {
		j := rng.Intn(i + 1)
		steps[i], steps[j] = steps[j], steps[i]
	}
	keep := rng.Range(2, 3)
	if kit.Thorough() {
		keep = rng.Range(3, 4)
	}
	if keep > len(steps) {
		keep = len(steps)
	}
	steps = steps[:keep]
	// a compaction before the other steps is what makes them interesting
	has := cfg.AutoPause > 0
	for _, s := range steps {
		if s == "compact" {
			has = true
		}
	}
	if !has {
		steps = append([]string{"compact"}, steps[:len(steps)-1]...)
	}
	if cfg.AutoPause > 0 {
		has = false
		for _, s := range steps {
			if s == "pause" {
				has = true
			}
		}
		if !has {
			steps[len(steps)-1] = "pause"
		}
	}
	cfg.Steps = steps
	return cfg
}

func c11NewSingle(rep *kit.Report, unit string, seed uint64, cfg c11Cfg) (*c11Env, error) {
	e := &c11Env{rep: rep, seed: seed, cfg: cfg, unit: unit, val: 1000}
	c, srv, err := vfSingle("c11", func(c *Config) {
		c.CursorsStream.Partitions = cfg.Parts
		c.CursorsStream.ReplicationFactor = 1
		c.CursorsStream.AutoPauseTime = cfg.AutoPause
		c.Streams.SegmentMaxBytes = cfg.SegBytes
		if cfg.CleanMode == "ticker" {
			c.Streams.CleanerInterval = time.Second
		} else {
			c.Streams.CleanerInterval = time.Hour
		}
	})
	if err != nil {
		return nil, err
	}
	e.c = c
	e.applyServerKnobs(srv)
	e.removers = append(e.removers, vfHooks.On("clean.afterCleanSegments", func(a ...interface{}) error {
		atomic.AddInt64(&e.cleanTicks, 1)
		return nil
	}))
	if !c11Ready(srv, cfg.Parts, 30*time.Second) {
		e.close()
		return nil, fmt.Errorf("cursors partitions not led: %w", errVfTimeout)
	}
	return e, nil
}

func c11RunSingle(rep *kit.Report, unit string, g int, seed uint64) {
	rng := kit.NewRNG(seed)
	cfg := c11GenCfg(rng, g)
	e, err := c11NewSingle(rep, unit, seed, cfg)
	if err != nil {
		rep.Inconc(fmt.Sprintf("server start failed: %v", err))
		return
	}
	defer e.close()
	rep.Eval()
	n := e.c.Nodes["a"]
	hot, warm := c11HotKeys(cfg.Hot), c11WarmKeys(cfg.Warm)
	alive := func() bool {
		e.mu.Lock()
		defer e.mu.Unlock()
		return !e.inconc
	}
	e.concurrent(n, rng, "concurrent-1", hot, warm)
	e.checkpoint(n, rng, "after-concurrent", hot, warm)
	for _, s := range cfg.Steps {
		if !alive() {
			break
		}
		switch s {
		case "compact":
			e.step("compact")
			e.compactQuiescent(n.Server())
			e.checkpoint(n, rng, "after-compaction", hot, warm)
		case "evict":
			e.evict(n, rng)
			e.checkpoint(n, rng, "after-eviction", hot, warm)
		case "pause":
			if e.pauseAll(n) {
				e.checkpoint(n, rng, "after-resume", hot, warm)
			}
		case "restart":
			if e.restartSingle() {
				e.checkpoint(n, rng, "after-restart", hot, warm)
			}
		}
	}
	if alive() {
		e.concurrent(n, rng, "concurrent-2", hot, warm)
		if srv := n.Server(); srv != nil && cfg.AutoPause == 0 {
			e.compactQuiescent(srv)
		}
		e.checkpoint(n, rng, "final", hot, warm)
	}
	e.finish()

	e.mu.Lock()
	complete := !e.inconc
	removed, segs := atomic.LoadInt64(&e.compactRemoved), atomic.LoadInt64(&e.maxSegments)
	events := 0
	if e.cacheFull {
		events++
	}
	events += e.pauses + e.restarts
	steps := append([]string(nil), e.steps...)
	nops := len(e.ops)
	e.mu.Unlock()
	rep.Count("ops", int64(nops))
	rep.Count("compaction_removed_records", removed)
	rep.Max("max_segment_files_all_partitions", segs)
	rep.Count("clean_calls", atomic.LoadInt64(&e.cleans))
	rep.Count("cleaner_ticks_seen", atomic.LoadInt64(&e.cleanTicks))
	rep.Count("cache_purges", atomic.LoadInt64(&e.purges))
	rep.Count("restarts", int64(e.restarts))
	rep.Count("pause_resume", int64(e.pauses))
	if e.cacheFull {
		rep.Count("lru_filled_to_capacity", 1)
	}
	rep.Count("fetch_errors_in_concurrent_phases", atomic.LoadInt64(&e.fetchErrConc))
	rep.Count("sets_with_unknown_outcome", atomic.LoadInt64(&e.setUnknown))
	if cfg.CacheOff {
		rep.Count("histories_cache_off", 1)
	} else {
		rep.Count("histories_cache_on", 1)
	}
	if cfg.AutoPause > 0 {
		// no compaction in these histories: non-trivial = the timer paused the partitions at least once
		if complete && e.pauses > 0 {
			rep.Nontrivial(fmt.Sprintf("%s/%d", cfg.sig(), seed))
		}
	} else if complete && removed > 0 && segs >= int64(3*cfg.Parts) && events > 0 {
		rep.Nontrivial(fmt.Sprintf("%s/%d", cfg.sig(), seed))
	}
	rep.Sample(map[string]any{"history_seed": seed, "config": cfg.sig(), "steps": steps, "ops": nops})
}

// TestVerifC11Single runs the single-node histories of one shard
// (C11_SHARD of C11_SHARDS).
func TestVerifC11Single(t *testing.T) {
	shard, shards := kit.EnvInt("C11_SHARD", 0), kit.EnvInt("C11_SHARDS", 1)
	unit := os.Getenv("VERIF_UNIT")
	if unit == "" {
		unit = fmt.Sprintf("single%d", shard)
	}
	rep := kit.NewReport("C11", unit)
	defer rep.Write()
	rep.SetRule(c11Rule)
	rep.Assume("a FetchCursor that returns an error observed nothing (it is not a wrong answer); only at quiescent points a persistently failing fetch on a ready leader is reported")
	rep.Assume("a SetCursor that failed or timed out may or may not take effect; it is kept open to the end of the history")
	total := kit.Scale(18, 150)
	root := kit.NewRNG(kit.Mix(kit.Seed(), 0xC11))
	for g := 0; g < total; g++ {
		seed := root.Uint64()
		if g%shards != shard {
			continue
		}
		if only := c11ReplaySeed(); only != "" && only != fmt.Sprint(seed) {
			continue // replaying one history (its seed is in every witness)
		}
		if rep.NumViolations() >= 4 {
			break
		}
		c11RunSingle(rep, unit, g, seed)
	}
}

// c11ReplaySeed: ./check C11 --replay <file> (VERIF_REPLAY) or
// C11_ONLY_HISTORY=<history_seed> re-runs the one history named by a witness
// (same configuration and client programs; the interleaving is not replayed).
func c11ReplaySeed() string {
	if s := os.Getenv("C11_ONLY_HISTORY"); s != "" {
		return s
	}
	f := os.Getenv("VERIF_REPLAY")
	if f == "" {
		return ""
	}
	b, err := os.ReadFile(f)
	if err != nil {
		return ""
	}
	var r struct {
		Witness struct {
			HistorySeed json.Number `json:"history_seed"`
		} `json:"witness"`
	}
	if json.Unmarshal(b, &r) != nil {
		return ""
	}
	return r.Witness.HistorySeed.String()
}

var _ = strings.Join
