//go:build verif

package server

// C02, family F16 — an ISR EXPANSION applied on the leader while UNCOMMITTED
// messages sit above the high watermark.
//
// The other families that re-add a replica (F4, F6, F5's walks) let the
// expansion happen on a quiet partition: everything the leader holds is
// committed when the replica comes back, or the leader is alone in the ISR
// (then the HW is the log end).  Here the expansion meets a leader whose log
// end is AHEAD of its HW because another in-sync follower lags:
//
//	RF 3, leader a.  Follower b is held at the fetch gate until a removes it
//	from the ISR; a and c commit more (b is behind the HW).  Then, right after
//	the removal (the leader's next health tick for b is one lag period away):
//	[c is held, `below` ALL messages are published: above the HW,] b is released,
//	catches up with a's log end and is held again; c is held; `above` ALL
//	messages are published: a holds them, nobody else, HW unchanged.  b stands
//	at or above the HW, so the leader's condition for re-adding it holds, and
//	the ExpandISR is applied with `above` messages pending that b does not
//	store — either proposed by the harness through the leader's metadata API
//	at that moment (the call replicator.expandISR makes, after checking the
//	leader's own condition on the replicator's state: mode forced), or by the
//	leader's own tick (the same steps scheduled shortly before that tick: mode
//	leader-tick).  From then on b counts: a pending message is committed (HW,
//	ALL ack) only once b stores it as well, because b can be elected.
//
// Then the followers are released in every order (c only — b stays held and
// behind —, c then b, b then c, both at once), and the leadership moves while
// the re-added replica may still lack the tail: the leader is stopped and the
// controller elects whom it likes, or the controller's decision is played as a
// CHANGE_LEADER to the re-added / to the lagging replica (committed only if
// that replica is in the controller's ISR at the proposal, which is all an
// election requires).
//
// Oracle: nothing new — the committed table fed from every replica's HW, the
// ALL acks collected at the client boundary (including the ones of the
// pending messages, harvested whenever they arrive), and leader completeness
// after the change and at the end.

import (
	"context"
	"fmt"
	"os"
	"strings"
	"testing"
	"time"

	client "github.com/liftbridge-io/liftbridge-api/v2/go"

	kit "github.com/liftbridge-io/liftbridge/internal/verifkit"
	proto "github.com/liftbridge-io/liftbridge/server/protocol"
)

const (
	c02xFamily  = "F16"
	c02xLag     = 3 * time.Second
	c02xFPClass = ":isr-expanded-with-uncommitted-above-hw"
)

func init() {
	c02FamilyCfg[c02xFamily] = func(cfg *Config) { cfg.Clustering.ReplicaMaxLagTime = c02xLag }
}

type c02xPlan struct {
	mode  string // forced | leader-tick
	below int    // pending messages the re-added replica holds too (above the HW, at or below its log end)
	above int    // pending messages above the re-added replica's log end
	order string // c-only | c-then-b | b-then-c | both
	elect string // stop-leader | change-to-readded | change-to-lagging
}

func (pl c02xPlan) String() string {
	return fmt.Sprintf("%s/below=%d/above=%d/release=%s/%s", pl.mode, pl.below, pl.above, pl.order, pl.elect)
}

var (
	c02xModes  = []string{"forced", "leader-tick"}
	c02xOrders = []string{"c-only", "c-then-b", "b-then-c", "both"}
	c02xElects = []string{"stop-leader", "change-to-readded", "change-to-lagging"}
)

// c02xPlans: the first scenario of every run is the order in which the
// re-added replica is the only one that lacks the tail when it takes over; the
// others are drawn from the grid mode x below x above x release order x who
// leads next (the order that keeps the re-added replica behind has half of the
// weight, the others are the neighbours).
func c02xPlans(n int, rng *kit.RNG) []c02xPlan {
	var out []c02xPlan
	for i := 0; i < n; i++ {
		pl := c02xPlan{mode: "forced", below: rng.Intn(3), above: rng.Range(1, 3), order: "c-only", elect: "change-to-readded"}
		if i > 0 {
			pl.mode = c02xModes[rng.Intn(2)]
			if rng.Intn(2) == 0 {
				pl.order = c02xOrders[rng.Intn(len(c02xOrders))]
			}
			pl.elect = c02xElects[rng.Intn(len(c02xElects))]
			if i == 1 {
				pl.elect = "stop-leader"
			}
		}
		if pl.mode == "leader-tick" {
			// the steps are scheduled against the leader's tick: keep them few
			pl.below = 0
		}
		out = append(out, pl)
	}
	return out
}

// c02xReplicatorView is the leader's bookkeeping for one follower: what
// replicator.tick decides on.
func c02xReplicatorView(lp *partition, id string) (lastOffset int64, inSyncByTime bool, ok bool) {
	lp.mu.RLock()
	r := lp.replicators[id]
	lp.mu.RUnlock()
	if r == nil {
		return 0, false, false
	}
	r.mu.RLock()
	seen, caught, last := r.lastSeen, r.lastCaughtUp, r.lastOffset
	r.mu.RUnlock()
	now := time.Now()
	return last, now.Sub(seen) <= r.maxLagTime && now.Sub(caught) <= r.maxLagTime, true
}

func (e *c02Env) c02xBad() bool {
	e.mu.Lock()
	defer e.mu.Unlock()
	return e.failed || e.inconc
}

func (e *c02Env) c02xWaitCaughtUp(id string, p, lp *partition, target int64) bool {
	ok := vfWait(30*time.Second, func() bool { return p.log.NewestOffset() >= target })
	if !ok {
		e.inconclusive(fmt.Sprintf("released follower %s did not reach offset %d (has %d, leader %d)", id, target, p.log.NewestOffset(), lp.log.NewestOffset()))
	}
	return ok
}

// c02xChangeLeader plays the controller's election result "x leads": the
// CHANGE_LEADER is proposed under the proposal mutex after a barrier, and only
// if the partition still has the leader (and leader epoch) that is being
// replaced and x is in the ISR the controller knows — the preconditions of
// electNewPartitionLeader.  refused != "" : not proposed.
func (e *c02Env) c02xChangeLeader(x, cur string, curEpoch uint64) (done bool, refused string) {
	e.step("controller: CHANGE_LEADER -> %s (if in sync)", x)
	ml, err := e.c.MetaLeader(20 * time.Second)
	if err != nil {
		e.inconclusive("no metadata leader for the leader change")
		return false, ""
	}
	ctx, cancel := context.WithTimeout(context.Background(), 20*time.Second)
	defer cancel()
	op := &proto.RaftLog{Op: proto.Op_CHANGE_LEADER, ChangeLeaderOp: &proto.ChangeLeaderOp{Stream: e.stream, Partition: 0, Leader: x}}
	f, err := ml.getRaft().applyOperation(ctx, op, func(*proto.RaftLog) error {
		p := ml.metadata.GetPartition(e.stream, 0)
		if p == nil {
			return fmt.Errorf("no partition")
		}
		if ld, ep := p.GetLeader(); ld != cur || ep != curEpoch {
			return fmt.Errorf("leader is %s/e%d, not %s/e%d any more", ld, ep, cur, curEpoch)
		}
		if !p.inISR(x) {
			return fmt.Errorf("%s is not in the controller's ISR %v", x, p.GetISR())
		}
		return nil
	})
	if err != nil {
		return false, err.Error()
	}
	if err := f.Error(); err != nil {
		e.inconclusive("leader change to " + x + " could not be committed: " + err.Error())
		return false, ""
	}
	return true, ""
}

// c02xRun executes one scenario; reached = the expansion was applied on the
// leader with messages above the HW that the re-added replica does not store,
// and leadership moved afterwards.
func c02xRun(e *c02Env, rng *kit.RNG, pl c02xPlan) (reached bool) {
	l := e.leader()
	if l == nil {
		return
	}
	if !e.publishAcked(rng.Range(2, 4), client.AckPolicy_ALL, 30*time.Second) {
		e.inconclusive("initial publishes not acked")
		return
	}
	e.settle("f16-initial")
	if e.c02xBad() {
		return
	}
	fol := c02Others(e.c, l.ID)
	b, c := fol[0], fol[1]
	if rng.Bool() {
		b, c = c, b
	}
	lp, bp, cp := l.Partition(e.stream, 0), e.c.Nodes[b].Partition(e.stream, 0), e.c.Nodes[c].Partition(e.stream, 0)
	if lp == nil || bp == nil || cp == nil {
		e.inconclusive("partition objects missing")
		return
	}
	_, lepoch := lp.GetLeader()
	e.step("leader=%s/e%d readded=%s lagging=%s", l.ID, lepoch, b, c)

	// ---- b falls out of the ISR
	e.hold(b)
	if !vfWait(40*time.Second, func() bool { return !lp.inISR(b) }) {
		e.inconclusive("held follower was not removed from the ISR")
		return
	}
	removedAt := time.Now() // the leader's health tick for b has just run: the next one is a lag period away
	if !lp.inISR(c) {
		e.step("not reached: %s left the ISR as well", c)
		e.count("f16_not_reached:other-follower-left-the-isr-too", 1)
		return
	}
	if !e.publishAcked(rng.Range(1, 3), client.AckPolicy_ALL, 40*time.Second) {
		e.inconclusive("publishes with an ISR of 2 not acked")
		return
	}
	if pl.mode == "leader-tick" {
		// scheduling only: b has to be seen by the leader shortly before the
		// tick, otherwise the same tick sequence removes it again at once
		if d := time.Until(removedAt.Add(c02xLag - 1300*time.Millisecond)); d > 0 {
			time.Sleep(d)
		}
	}
	var pends []*c02Pending
	defer func() {
		for _, pd := range pends {
			pd.close()
		}
	}()
	harvest := func(wait time.Duration) {
		for _, pd := range pends {
			pd.collect(wait)
		}
	}
	written := func(n int64) bool {
		ok := vfWait(20*time.Second, func() bool { return lp.log.NewestOffset() >= n })
		if !ok {
			e.inconclusive(fmt.Sprintf("leader did not write the pending messages (newest %d, want %d)", lp.log.NewestOffset(), n))
		}
		return ok
	}
	// ---- pending messages the re-added replica will hold too
	if pl.below > 0 {
		e.hold(c)
		if !e.waitParked(c) {
			e.inconclusive(c + " never reached the fetch gate")
			return
		}
		base := lp.log.NewestOffset()
		pd := e.publishStart(pl.below, client.AckPolicy_ALL)
		if pd == nil {
			return
		}
		pends = append(pends, pd)
		if !written(base + int64(pl.below)) {
			return
		}
	}
	// ---- b catches up with the leader's log end and stops fetching again
	e.release(b)
	if !e.c02xWaitCaughtUp(b, bp, lp, lp.log.NewestOffset()) {
		return
	}
	// the leader must have SEEN b at its log end (b's next request)
	if !vfWait(20*time.Second, func() bool {
		last, _, ok := c02xReplicatorView(lp, b)
		return ok && last >= bp.log.NewestOffset()
	}) {
		e.inconclusive("the leader never saw the released follower caught up")
		return
	}
	e.hold(b)
	if !e.waitParked(b) {
		e.inconclusive(b + " never reached the fetch gate again")
		return
	}
	if pl.below == 0 {
		e.hold(c)
		if !e.waitParked(c) {
			e.inconclusive(c + " never reached the fetch gate")
			return
		}
	}
	if lp.inISR(b) {
		e.step("not reached: the leader re-added %s before anything was pending above its log end", b)
		e.count("f16_not_reached:readded-before-the-pending-messages", 1)
		return
	}
	// ---- pending messages above b's log end
	bEnd := bp.log.NewestOffset()
	pd := e.publishStart(pl.above, client.AckPolicy_ALL)
	if pd == nil {
		return
	}
	pends = append(pends, pd)
	if !written(bEnd + int64(pl.above)) {
		return
	}
	target := lp.log.NewestOffset()
	hw0 := lp.log.HighWatermark()
	if hw0 >= target || lp.inISR(b) {
		e.step("not reached: HW %d / log end %d / %s in ISR: %v before the expansion", hw0, target, b, lp.inISR(b))
		e.count("f16_not_reached:nothing-uncommitted-before-the-expansion", 1)
		return
	}
	// ---- the expansion
	switch pl.mode {
	case "forced":
		last, timely, ok := c02xReplicatorView(lp, b)
		if !ok || !timely || last < lp.log.HighWatermark() {
			e.step("not reached: the leader's own condition for re-adding %s does not hold (last fetch offset %d, HW %d, seen and caught up within the lag time: %v)", b, last, lp.log.HighWatermark(), timely)
			e.count("f16_not_reached:leaders-readd-condition-not-met", 1)
			return
		}
		e.step("leader proposes ExpandISR(%s): its last fetch offset %d >= HW %d, log end %d", b, last, hw0, target)
		ctx, cancel := context.WithTimeout(context.Background(), 20*time.Second)
		st := l.Server().metadata.ExpandISR(ctx, &proto.ExpandISROp{Stream: e.stream, Partition: 0, ReplicaToAdd: b, Leader: l.ID, LeaderEpoch: lepoch})
		cancel()
		if st != nil {
			e.inconclusive("ExpandISR refused: " + st.Message())
			return
		}
		if !vfWait(20*time.Second, func() bool { return lp.inISR(b) }) {
			e.inconclusive("the expansion was not applied on the leader")
			return
		}
	case "leader-tick":
		if !vfWait(2*c02xLag, func() bool { return lp.inISR(b) }) {
			e.step("not reached: the leader's tick did not re-add %s", b)
			e.count("f16_not_reached:leader-tick-did-not-readd", 1)
			return
		}
	}
	hw1, isr := lp.log.HighWatermark(), lp.GetISR()
	if hw1 >= target || bp.log.NewestOffset() >= target || !lp.inISR(c) {
		e.step("not reached: after the expansion HW %d, log end %d, %s has %d, ISR %v", hw1, target, b, bp.log.NewestOffset(), isr)
		e.count("f16_not_reached:nothing-uncommitted-at-the-expansion", 1)
		return
	}
	where := "above-hw"
	if bEnd == hw1 {
		where = "at-hw"
	}
	e.step("expansion applied: ISR %v, HW %d, leader log end %d, re-added %s holds up to %d (%s)", isr, hw1, target, b, bEnd, where)
	e.count("f16_expansion_applied_with_uncommitted_above_hw", 1)
	e.count("f16_expansion:"+pl.mode+":readded-replica-"+where, 1)
	e.observe("f16-after-expansion")

	// ---- the followers come back, in the order of the plan
	switch pl.order {
	case "c-only":
		e.release(c)
		if !e.c02xWaitCaughtUp(c, cp, lp, target) {
			return
		}
	case "c-then-b":
		e.release(c)
		if !e.c02xWaitCaughtUp(c, cp, lp, target) {
			return
		}
		vfWait(300*time.Millisecond, func() bool { return lp.log.HighWatermark() >= target })
		e.observe("f16-lagging-follower-caught-up")
		e.release(b)
		if !e.c02xWaitCaughtUp(b, bp, lp, target) {
			return
		}
	case "b-then-c":
		e.release(b)
		if !e.c02xWaitCaughtUp(b, bp, lp, target) {
			return
		}
		e.release(c)
		if !e.c02xWaitCaughtUp(c, cp, lp, target) {
			return
		}
	case "both":
		e.release(b)
		e.release(c)
		if !e.c02xWaitCaughtUp(b, bp, lp, target) || !e.c02xWaitCaughtUp(c, cp, lp, target) {
			return
		}
	}
	// scheduling only: give the leader's commit loop the chance to act on the
	// followers' next requests (whatever it does is observed, not assumed)
	vfWait(500*time.Millisecond, func() bool { return lp.log.HighWatermark() >= target })
	harvest(150 * time.Millisecond)
	e.observe("f16-before-leader-change")
	e.mu.Lock()
	nacked := len(e.acked)
	e.mu.Unlock()
	e.step("before the leader change: HW %d, log end %d, %s has %d, %s has %d, ISR %v, ALL acks so far %d", lp.log.HighWatermark(), target, b, bp.log.NewestOffset(), c, cp.log.NewestOffset(), lp.GetISR(), nacked)
	if bp.log.NewestOffset() < target && lp.inISR(b) {
		e.count("f16_leadership_moved_while_readded_replica_lacked_the_tail", 1)
	}

	// ---- leadership moves
	stopped := false
	switch pl.elect {
	case "stop-leader":
		e.stop(l.ID)
		stopped = true
		e.release(b)
		e.release(c)
		nl := e.waitLeaderNot(l.ID)
		if nl == nil {
			return
		}
		e.count("f16_elected_by_controller:"+map[bool]string{true: "readded", false: "lagging"}[nl.ID == b], 1)
	default:
		x := b
		if pl.elect == "change-to-lagging" {
			x = c
		}
		done, refused := e.c02xChangeLeader(x, l.ID, lepoch)
		if refused != "" {
			e.step("not reached: leader change refused: %s", refused)
			e.count("f16_not_reached:candidate-left-the-isr-before-the-change", 1)
			e.release(b)
			e.release(c)
			harvest(300 * time.Millisecond)
			e.settle("f16-no-change")
			return
		}
		if !done || !e.waitLeads(x) {
			return
		}
		e.step("newLeader=%s", x)
		e.release(b)
		e.release(c)
	}
	reached = true
	harvest(300 * time.Millisecond)
	e.checkLeaderComplete("after-expansion-leader-change")
	if e.c02xBad() {
		return
	}
	e.publish(2, client.AckPolicy_ALL, 40*time.Second)
	if stopped && !e.restart(l.ID) {
		return
	}
	e.settle("f16-end")
	harvest(300 * time.Millisecond)
	e.checkLeaderComplete("f16-final")
	return
}

// TestVerifC02xExpand runs family F16.
func TestVerifC02xExpand(t *testing.T) {
	rep := kit.NewReport("C02", c02xFamily)
	defer rep.Write()
	rep.SetRule("family F16: real 3-server clusters (RF=3, replica lag time 3 s); per scenario: follower b is held at the follower.beforeFetch gate until the leader removes it from the ISR, leader and follower c commit more; then [c held, `below` ALL messages published,] b released, catches up with the leader's log end, is seen there by the leader and held again, c held, `above` ALL messages published (written by the leader only, HW unchanged); the ExpandISR of b is applied on the leader in that state — proposed through the leader's metadata API when the leader's own condition (replicator state: last fetch offset >= HW, seen and caught up within the lag time, not in the ISR) holds (forced), or by the leader's own tick (leader-tick: same steps scheduled shortly before the tick); then the followers are released in one of four orders (c only, c then b, b then c, both) and leadership moves: leader stopped and the controller elects, or CHANGE_LEADER to the re-added / the lagging replica proposed with the election's preconditions (old leader and epoch unchanged, candidate in the controller's ISR); the former leader restarts, everything settles. Observers and oracle of the other real-cluster families (committed table from every replica's HW, sampled before the content; ALL acks at the client boundary, harvested whenever they arrive; leader completeness after the change and at the end; attached subscriber). Scenario 0 of every run is forced / c only / change to the re-added replica, the others are drawn from the grid. non-trivial = the expansion was observed applied on the leader with HW < log end, the re-added replica's log end < leader's log end and the lagging follower still in the ISR, leadership moved afterwards, and no watchdog expired; distinct = plan + seed")
	rep.Assume("network partitions between NATS clients are not simulated: a follower is kept from fetching at the follower.beforeFetch hook, the leader is stopped with Server.Stop(), which checkpoints the HW")
	rep.Assume("forced mode: the harness makes the leader's ExpandISR call (metadataAPI.ExpandISR on the leader's server with the current leader and epoch, what replicator.expandISR sends) instead of waiting for the leader's tick, and only after reading from the leader's replicator state that the tick's own condition holds; directed leader changes are the controller's CHANGE_LEADER proposed by the harness under the election's preconditions")
	n := kit.Scale(3, 12)
	root := kit.NewRNG(kit.Mix(kit.Seed(), 16016))
	plans := c02xPlans(n, root.Fork(1))
	reachedTotal := 0
	for i := 0; i < n && rep.NumViolations() < 3; i++ {
		seed := root.Uint64()
		pl := plans[i]
		e, err := c02NewEnv(rep, c02xFamily, seed)
		if err != nil {
			rep.Inconc(fmt.Sprintf("cluster start failed (%s): %v", pl, err))
			continue
		}
		e.fpClass = c02xFPClass
		e.step("plan %s", pl)
		stop, done := make(chan struct{}), make(chan struct{})
		cdone := make(chan struct{})
		go e.sampler(stop, done)
		go e.consumer(stop, cdone)
		reached := c02xRun(e, kit.NewRNG(seed), pl)
		close(stop)
		<-done
		<-cdone
		e.observe("final")
		e.checkServedCommitted()
		rep.Eval()
		e.mu.Lock()
		complete := !e.inconc && reached
		rep.Count("committed_offsets_observed", int64(len(e.committed)))
		rep.Count("all_acks", int64(len(e.acked)))
		rep.Count("leader_elections_seen", int64(len(e.elected)))
		rep.Count("trace_events", int64(len(e.trace)))
		rep.Count("messages_served_to_attached_consumer", int64(e.nserved))
		rep.Count("f16_scenarios:"+pl.mode+":release="+pl.order+":"+pl.elect, 1)
		for k, v := range e.counts {
			rep.Count(k, v)
		}
		steps := append([]string(nil), e.steps...)
		e.mu.Unlock()
		if complete {
			reachedTotal++
			rep.Nontrivial(fmt.Sprintf("%s/%s/%d", c02xFamily, pl, seed))
		}
		rep.Sample(map[string]any{"family": c02xFamily, "plan": pl.String(), "seed": seed, "reached": reached, "steps": steps})
		if os.Getenv("C02_TRACE") != "" {
			e.mu.Lock()
			fmt.Fprintf(os.Stderr, "---- full trace %s/%d\n%s\n----\n", c02xFamily, seed, strings.Join(e.trace, "\n"))
			e.mu.Unlock()
		}
		e.close()
	}
	if reachedTotal == 0 && rep.NumViolations() == 0 {
		rep.Inconc("no scenario of this run reached an ISR expansion with uncommitted messages above the HW followed by a leader change (see the f16_not_reached counters)")
	}
}
