//go:build verif

package server

// C14 unit "subjects": WELL-FORMED envelopes (right magic / version / type /
// CRC: they decode without error) whose decoded FIELDS take corner values,
// delivered on every NATS subject a running server listens on with an envelope
// decoder behind it: the stream subjects, the ack inboxes of open PublishAsync
// sessions (learnt from the AckInbox field of the publish envelopes seen on
// the stream subject), the per-server notification subject, the replication
// and leader-epoch-offset request subjects of every led partition, server
// info, partition status, Raft join and propagation.  The field grid is
// derived by reflection from the generated protobuf structs.  The server runs
// in a child process: the outcome under test is a crash.

import (
	"bytes"
	"context"
	"encoding/hex"
	"encoding/json"
	"fmt"
	"io"
	"math"
	"os"
	"os/exec"
	"path/filepath"
	"reflect"
	"runtime"
	"sort"
	"strconv"
	"strings"
	"sync"
	"testing"
	"time"

	pb "github.com/golang/protobuf/proto"
	client "github.com/liftbridge-io/liftbridge-api/v2/go"
	"github.com/nats-io/nats.go"
	"google.golang.org/grpc/metadata"

	kit "github.com/liftbridge-io/liftbridge/internal/verifkit"
	proto "github.com/liftbridge-io/liftbridge/server/protocol"
)

const (
	c14sOne       = "c14s-one" // one partition
	c14sTwo       = "c14s-two" // two partitions
	c14sPaused    = "c14s-paused"
	c14sAbsent    = "c14s-no-such-stream"
	c14sSelf      = "a" // id of the single server (vfNewCluster)
	c14sStranger  = "c14s-zz"
	c14sAckPrefix = "c14s.acks."
	c14sWatchdog  = 40 * time.Second
)

// partitions that exist per stream (the fence stream is never named by an input)
var c14sParts = map[string]int32{c14sOne: 1, c14sTwo: 2}

// ---------------------------------------------------------------- field grid

type c14sFV struct {
	Class string
	V     interface{}
}

func c14sLowerFirst(s string) string {
	if s == "" {
		return s
	}
	return strings.ToLower(s[:1]) + s[1:]
}

func c14sIsStreamField(name string) bool {
	return name == "Stream" || name == "Name"
}

var c14sIDFields = map[string]bool{"ReplicaID": true, "Id": true, "NodeID": true, "Leader": true, "Replica": true, "ReplicaToRemove": true,
	"ReplicaToAdd": true, "Coordinator": true, "ConsumerId": true, "GroupId": true}

// c14sEnumPastLast: generated enums print undeclared values as the number.
func c14sEnumPastLast(t reflect.Type) int32 {
	for v := int32(0); v < 1000; v++ {
		s := reflect.New(t).Elem()
		s.SetInt(int64(v))
		if st, ok := s.Interface().(fmt.Stringer); ok && st.String() == strconv.Itoa(int(v)) {
			return v
		}
	}
	return 1000
}

// c14sValues: the corner values of one field, by kind and by the role its name
// gives it.
func c14sValues(name string, t reflect.Type, r *kit.RNG) []c14sFV {
	big := strings.Repeat("x", 65536+r.Intn(4096))
	switch t.Kind() {
	case reflect.Int32:
		if _, isEnum := reflect.New(t).Elem().Interface().(fmt.Stringer); isEnum {
			out := []c14sFV{{"negative", int64(-1)}, {"negative", int64(math.MinInt32)}, {"past-last", int64(c14sEnumPastLast(t))}, {"max", int64(math.MaxInt32)}}
			for v := int32(0); v < c14sEnumPastLast(t); v++ {
				out = append(out, c14sFV{"declared", int64(v)})
			}
			return out
		}
		return []c14sFV{{"negative", int64(-1)}, {"negative", int64(math.MinInt32)}, {"zero", int64(0)}, {"one", int64(1)}, {"max", int64(math.MaxInt32)}}
	case reflect.Int64:
		return []c14sFV{{"negative", int64(-1)}, {"negative", int64(math.MinInt64)}, {"zero", int64(0)}, {"one", int64(1)}, {"max", int64(math.MaxInt64)}}
	case reflect.Uint64, reflect.Uint32:
		mx := uint64(math.MaxUint64)
		if t.Kind() == reflect.Uint32 {
			mx = math.MaxUint32
		}
		return []c14sFV{{"zero", uint64(0)}, {"one", uint64(1)}, {"max", mx}}
	case reflect.Bool:
		return []c14sFV{{"false", false}, {"true", true}}
	case reflect.String:
		switch {
		case c14sIsStreamField(name):
			return []c14sFV{{"exists", c14sOne}, {"exists", c14sTwo}, {"absent", c14sAbsent}, {"empty", ""}, {"oversized", big}}
		case c14sIDFields[name]:
			return []c14sFV{{"self", c14sSelf}, {"stranger", c14sStranger}, {"empty", ""}, {"oversized", big}}
		}
		return []c14sFV{{"empty", ""}, {"text", c14sAckPrefix + "t" + strconv.Itoa(r.Intn(1000))}, {"wildcard", "c14s.*.>"}, {"oversized", big}}
	case reflect.Slice:
		switch t.Elem().Kind() {
		case reflect.Uint8:
			return []c14sFV{{"absent", []byte(nil)}, {"empty", []byte{}}, {"one-byte", []byte{0}}, {"oversized", r.Bytes(131072 + r.Intn(4096))}}
		case reflect.Int32:
			return []c14sFV{{"absent", []int32(nil)}, {"exists", []int32{0}}, {"absent-id", []int32{int32(2 + r.Intn(1000))}}, {"negative", []int32{-1}},
				{"duplicate", []int32{0, 0}}, {"max", []int32{math.MaxInt32}}}
		case reflect.String:
			return []c14sFV{{"absent", []string(nil)}, {"exists", []string{c14sOne}}, {"absent-name", []string{c14sAbsent}}, {"empty-name", []string{""}}}
		}
	case reflect.Map:
		if t.Key().Kind() == reflect.String && t.Elem().Kind() == reflect.Slice {
			return []c14sFV{{"absent", map[string][]byte(nil)}, {"one", map[string][]byte{"k": []byte("v")}}, {"empty-key", map[string][]byte{"": []byte("v")}},
				{"empty-value", map[string][]byte{"k": {}}}, {"oversized-value", map[string][]byte{"k": r.Bytes(20000)}}}
		}
	}
	return nil
}

func c14sShow(v interface{}) string {
	s := fmt.Sprintf("%v", v)
	switch x := v.(type) {
	case string:
		s = strconv.Quote(x)
	case []byte:
		s = "bytes " + hex.EncodeToString(x)
	}
	if len(s) > 80 {
		s = fmt.Sprintf("%s...(%d characters)", s[:60], len(s))
	}
	return s
}

func c14sSet(f reflect.Value, v interface{}) {
	switch x := v.(type) {
	case int64:
		f.SetInt(x)
	case uint64:
		f.SetUint(x)
	default:
		f.Set(reflect.ValueOf(v).Convert(f.Type()))
	}
}

// c14sNavigate follows a path of field indexes through (allocated) sub-messages.
func c14sNavigate(m pb.Message, path []int) reflect.Value {
	v := reflect.ValueOf(m).Elem()
	for _, i := range path {
		f := v.Field(i)
		if f.IsNil() {
			f.Set(reflect.New(f.Type().Elem()))
		}
		v = f.Elem()
	}
	return v
}

type c14sCase struct {
	Msg   pb.Message
	Class string // field class: the field(s) varied and the class of the value
	Value string // the concrete value (witness)
}

func c14sExported(sf reflect.StructField) bool {
	return sf.PkgPath == "" && !strings.HasPrefix(sf.Name, "XXX_")
}

// c14sPartitionClass: does this partition id exist for that stream?
func c14sPartitionClass(stream string, id int32) string {
	switch {
	case id < 0:
		return "negative"
	case id < c14sParts[stream]:
		return "exists"
	}
	return "absent"
}

// c14sWalk varies every field of the struct at path one at a time around the
// base message mk() builds; a stream name together with a partition id (or a
// list of them) is varied as a pair, over the full product.
func c14sWalk(mk func() pb.Message, path []int, prefix string, only map[string]bool, r *kit.RNG, out *[]c14sCase) {
	t := c14sNavigate(mk(), path).Type()
	streamIdx, partIdx := -1, -1
	for i := 0; i < t.NumField(); i++ {
		sf := t.Field(i)
		if !c14sExported(sf) {
			continue
		}
		if sf.Name == "Stream" && sf.Type.Kind() == reflect.String {
			streamIdx = i
		}
		if sf.Name == "Partition" && sf.Type.Kind() == reflect.Int32 {
			partIdx = i
		}
	}
	paired := streamIdx >= 0 && partIdx >= 0
	if paired {
		ids := []int32{0, 1, 2, int32(3 + r.Intn(1000)), -1, math.MinInt32, math.MaxInt32}
		for _, sv := range c14sValues("Stream", t.Field(streamIdx).Type, r) {
			for _, id := range ids {
				m := mk()
				s := c14sNavigate(m, path)
				c14sSet(s.Field(streamIdx), sv.V)
				s.Field(partIdx).SetInt(int64(id))
				pc := c14sPartitionClass(sv.V.(string), id)
				if sv.Class != "exists" && id >= 0 {
					pc = "any"
				}
				*out = append(*out, c14sCase{Msg: m, Class: fmt.Sprintf("%sstream=%s,partition=%s", prefix, sv.Class, pc),
					Value: fmt.Sprintf("stream %.40q partition %d", sv.V, id)})
			}
		}
	}
	for i := 0; i < t.NumField(); i++ {
		sf := t.Field(i)
		if !c14sExported(sf) || (paired && (i == streamIdx || i == partIdx)) {
			continue
		}
		if only != nil && !only[sf.Name] {
			continue
		}
		name := prefix + c14sLowerFirst(sf.Name)
		if sf.Type.Kind() == reflect.Ptr && sf.Type.Elem().Kind() == reflect.Struct {
			m := mk()
			c14sNavigate(m, path).Field(i).Set(reflect.Zero(sf.Type))
			*out = append(*out, c14sCase{Msg: m, Class: name + "=absent", Value: "sub-message not set"})
			m = mk()
			c14sNavigate(m, path).Field(i).Set(reflect.New(sf.Type.Elem()))
			*out = append(*out, c14sCase{Msg: m, Class: name + "=present-empty", Value: "sub-message set, all fields default"})
			c14sWalk(mk, append(append([]int(nil), path...), i), name+".", nil, r, out)
			continue
		}
		if sf.Type.Kind() == reflect.Slice && sf.Type.Elem().Kind() == reflect.Ptr {
			m := mk()
			c14sNavigate(m, path).Field(i).Set(reflect.Zero(sf.Type))
			*out = append(*out, c14sCase{Msg: m, Class: name + "=absent", Value: "empty list"})
			continue
		}
		for _, fv := range c14sValues(sf.Name, sf.Type, r) {
			m := mk()
			c14sSet(c14sNavigate(m, path).Field(i), fv.V)
			val := c14sShow(fv.V)
			*out = append(*out, c14sCase{Msg: m, Class: name + "=" + fv.Class, Value: val})
		}
	}
}

// ---------------------------------------------------------------- subject kinds

// c14sKind: one class of subjects, the message type its handler decodes, and
// the base message the grid is built around.
type c14sKind struct {
	Name    string
	Type    byte
	Targets int // number of subjects of this class (sessions, led partitions, stream subjects)
}

var c14sKinds = []c14sKind{
	{"ackinbox", c14TAck, 2},
	{"notify", c14TNotify, 1},
	{"status", c14TStatusReq, 1},
	{"info", c14TInfoReq, 1},
	{"offset", c14TOffsetReq, 3},
	{"replicate", c14TReplReq, 3},
	{"join", c14TJoinReq, 1},
	{"propagate", c14TPropReq, 1},
	{"stream", c14TPublish, 3},
}

func c14sTypeName(t byte) string {
	m := c14New(t)
	if m == nil {
		return fmt.Sprintf("type%d", t)
	}
	n := reflect.TypeOf(m).Elem().Name()
	if t == c14TPublish {
		n = "Publish"
	}
	return n
}

// c14sPropField: the sub-operation field of PropagatedRequest an Op value
// selects (CREATE_STREAM -> CreateStreamOp), -1 when it has none.
func c14sPropField(op proto.Op) int {
	want := strings.ToLower(strings.ReplaceAll(op.String(), "_", "")) + "op"
	t := reflect.TypeOf(proto.PropagatedRequest{})
	for i := 0; i < t.NumField(); i++ {
		if strings.ToLower(t.Field(i).Name) == want {
			return i
		}
	}
	return -1
}

// c14sExcluded: inputs whose decoded meaning is a legitimate operation the
// server would carry out (outside C14), or the one input the design excludes.
func c14sExcluded(kind string, m pb.Message) string {
	exists := func(stream string, id int32) bool { return id >= 0 && id < c14sParts[stream] }
	switch x := m.(type) {
	case *proto.ReplicationRequest:
		if x.ReplicaID == c14sSelf {
			return "replication request naming the leader itself (deliberate fail-stop)"
		}
	case *proto.RaftJoinRequest:
		if x.NodeID != c14sSelf {
			return "join request of another node id (would be added to the Raft group)"
		}
	case *client.Message:
		if !(x.AckInbox == "" || strings.HasPrefix(x.AckInbox, c14sAckPrefix)) || strings.ContainsAny(x.AckInbox, "*>") {
			return "publish naming a foreign ack inbox"
		}
	case *proto.PropagatedRequest:
		i := c14sPropField(x.Op)
		if i < 0 {
			return ""
		}
		sub := reflect.ValueOf(x).Elem().Field(i)
		if sub.IsNil() {
			return ""
		}
		switch o := sub.Interface().(type) {
		case *proto.CreateStreamOp:
			if o.Stream != nil && len(o.Stream.Partitions) > 0 {
				return "propagated stream creation"
			}
		case *proto.ShrinkISROp:
			if exists(o.Stream, o.Partition) {
				return "propagated ISR change of a live partition"
			}
		case *proto.ExpandISROp:
			if exists(o.Stream, o.Partition) {
				return "propagated ISR change of a live partition"
			}
		case *proto.ReportLeaderOp:
			if exists(o.Stream, o.Partition) {
				return "propagated leader report of a live partition"
			}
		case *proto.DeleteStreamOp:
			if c14sParts[o.Stream] > 0 {
				return "propagated operation on a live stream"
			}
		case *proto.PauseStreamOp:
			if c14sParts[o.Stream] > 0 {
				return "propagated operation on a live stream"
			}
		case *proto.ResumeStreamOp:
			if c14sParts[o.Stream] > 0 {
				return "propagated operation on a live stream"
			}
		case *proto.SetStreamReadonlyOp:
			if c14sParts[o.Stream] > 0 {
				return "propagated operation on a live stream"
			}
		case *proto.JoinConsumerGroupOp:
			return "propagated consumer group join (creates the group)"
		}
	}
	return ""
}

type c14sItem struct {
	Kind   string
	Target int
	Type   byte // message type of the envelope (differs from the subject's type for foreign-type items)
	Class  string
	Value  string
	Data   []byte
	CRC    bool
}

func (it c14sItem) key() string { return it.Kind + ":" + c14sTypeName(it.Type) + ":" + it.Class }

func c14sBase(t byte) pb.Message {
	switch t {
	case c14TAck:
		return &client.Ack{Stream: c14sOne, PartitionSubject: "c14s.one", MsgSubject: "c14s.one", Offset: 3, CorrelationId: "c14s-corner", AckPolicy: client.AckPolicy_LEADER}
	case c14TNotify:
		return &proto.PartitionNotification{Stream: c14sOne}
	case c14TStatusReq:
		return &proto.PartitionStatusRequest{Stream: c14sOne}
	case c14TInfoReq:
		return &proto.ServerInfoRequest{Id: c14sStranger}
	case c14TOffsetReq:
		return &proto.LeaderEpochOffsetRequest{}
	case c14TReplReq:
		return &proto.ReplicationRequest{ReplicaID: c14sStranger}
	case c14TJoinReq:
		return &proto.RaftJoinRequest{NodeID: c14sSelf, NodeAddr: c14sSelf}
	case c14TPublish:
		return &client.Message{Value: []byte("c14s-corner-value"), Key: []byte("k"), Stream: c14sOne, Subject: "c14s.one", AckPolicy: client.AckPolicy_NONE}
	}
	return c14New(t)
}

func c14sMarshal(m pb.Message) []byte {
	b, err := pb.Marshal(m)
	if err != nil {
		panic(fmt.Sprintf("c14s: marshal of a generated value failed: %v", err))
	}
	if b == nil {
		b = []byte{}
	}
	return b
}

// c14sSchedule: the list of items, a pure function of the seed.  The grid is
// enumerated completely; the seed picks the concrete member of a class (which
// absent id, which length), the order inside a subject class and the envelope
// form (plain / CRC).
func c14sSchedule(seed uint64) (items []c14sItem, excluded map[string]int) {
	excluded = map[string]int{}
	r := kit.NewRNG(kit.Mix(seed, 0xC145B))
	for _, k := range c14sKinds {
		var cases []c14sCase
		if k.Name == "propagate" {
			// the Op enum alone, then every Op with its own sub-operation varied
			c14sWalk(func() pb.Message { return &proto.PropagatedRequest{Op: proto.Op_PAUSE_STREAM, PauseStreamOp: &proto.PauseStreamOp{Stream: c14sAbsent}} },
				nil, "", map[string]bool{"Op": true}, r, &cases)
			{ // the declared values are taken with their own sub-operation below
				kept := cases[:0]
				for _, c := range cases {
					if c.Class != "op=declared" {
						kept = append(kept, c)
					}
				}
				cases = kept
			}
			for v := int32(0); v < c14sEnumPastLast(reflect.TypeOf(proto.Op(0))); v++ {
				op := proto.Op(v)
				fi := c14sPropField(op)
				if fi < 0 {
					continue
				}
				fname := reflect.TypeOf(proto.PropagatedRequest{}).Field(fi).Name
				mk := func() pb.Message {
					m := &proto.PropagatedRequest{Op: op}
					sub := c14sNavigate(m, []int{fi})
					for i := 0; i < sub.NumField(); i++ {
						if sf := sub.Type().Field(i); c14sExported(sf) && sf.Type.Kind() == reflect.String {
							if c14sIsStreamField(sf.Name) {
								sub.Field(i).SetString(c14sAbsent)
							} else {
								sub.Field(i).SetString(c14sStranger)
							}
						}
					}
					return m
				}
				var sub []c14sCase
				c14sWalk(mk, nil, "", map[string]bool{fname: true}, r, &sub)
				for _, c := range sub {
					// sub-operation absent / present-but-empty: one class whatever the
					// Op (the Op is in the witness); its fields: one class per Op
					c.Value = op.String() + ": " + c.Value
					lf := c14sLowerFirst(fname)
					if strings.HasPrefix(c.Class, lf+"=") {
						c.Class = "op-payload" + c.Class[len(lf):]
					} else {
						c.Class = op.String() + c.Class[len(lf):]
					}
					cases = append(cases, c)
				}
			}
		} else {
			cases = append(cases, c14sCase{Msg: c14sBase(k.Type), Class: "base", Value: "base message"})
			c14sWalk(func() pb.Message { return c14sBase(k.Type) }, nil, "", nil, r, &cases)
		}
		var its []c14sItem
		n := 0
		for _, c := range cases {
			if why := c14sExcluded(k.Name, c.Msg); why != "" {
				excluded[k.Name+": "+why]++
				continue
			}
			targets := []int{n % k.Targets}
			if k.Name == "ackinbox" || (k.Name != "stream" && strings.Contains(c.Class, "negative")) {
				targets = targets[:0]
				for t := 0; t < k.Targets; t++ {
					targets = append(targets, t)
				}
			}
			for _, tg := range targets {
				crc := r.Chance(1, 3)
				its = append(its, c14sItem{Kind: k.Name, Target: tg, Type: k.Type, Class: c.Class, Value: c.Value, Data: kit.C14Encode(k.Type, c14sMarshal(c.Msg), crc), CRC: crc})
			}
			n++
		}
		// well-formed envelopes of every other type on this subject
		for _, o := range c14sKinds {
			if o.Type == k.Type || k.Name == "ackinbox" && o.Name == "ackinbox" {
				continue
			}
			m := c14sBase(o.Type)
			if c14sExcluded(o.Name, m) != "" {
				continue
			}
			its = append(its, c14sItem{Kind: k.Name, Target: n % k.Targets, Type: o.Type, Class: "foreign-type", Value: "base " + c14sTypeName(o.Type),
				Data: kit.C14Encode(o.Type, c14sMarshal(m), false)})
			n++
		}
		for i := len(its) - 1; i > 0; i-- {
			j := r.Intn(i + 1)
			its[i], its[j] = its[j], its[i]
		}
		items = append(items, its...)
	}
	return items, excluded
}

// ---------------------------------------------------------------- PublishAsync stub stream

type c14sStr struct {
	ctx    context.Context
	cancel context.CancelFunc
	in     chan *client.PublishRequest
	out    chan *client.PublishResponse
}

func c14sNewStr() *c14sStr {
	ctx, cancel := context.WithCancel(context.Background())
	return &c14sStr{ctx: ctx, cancel: cancel, in: make(chan *client.PublishRequest, 16), out: make(chan *client.PublishResponse, 65536)}
}

func (s *c14sStr) SetHeader(metadata.MD) error  { return nil }
func (s *c14sStr) SendHeader(metadata.MD) error { return nil }
func (s *c14sStr) SetTrailer(metadata.MD)       {}
func (s *c14sStr) Context() context.Context     { return s.ctx }
func (s *c14sStr) SendMsg(m interface{}) error  { return s.Send(m.(*client.PublishResponse)) }
func (s *c14sStr) RecvMsg(m interface{}) error  { return io.EOF }
func (s *c14sStr) Send(m *client.PublishResponse) error {
	select {
	case s.out <- pb.Clone(m).(*client.PublishResponse):
	default:
	}
	return nil
}
func (s *c14sStr) Recv() (*client.PublishRequest, error) {
	select {
	case r, ok := <-s.in:
		if !ok {
			return nil, io.EOF
		}
		return r, nil
	case <-s.ctx.Done():
		return nil, io.EOF
	}
}

// ---------------------------------------------------------------- child

type c14sSpec struct {
	Seed    uint64   `json:"seed"`
	From    int      `json:"from"`
	Skip    []string `json:"skip"` // item classes not sent (they killed an earlier child)
	Log     string   `json:"log"`
	Out     string   `json:"out"`
	WorkDir string   `json:"workdir"`
}

type c14sExpect struct {
	Fence string // value of a harness publish, or
	Item  int    // index of a stream-subject item
	Data  []byte
	Ref   c14Ref
}

func TestVerifC14sSubjectsChild(t *testing.T) {
	sp := os.Getenv("C14S_SPEC")
	if sp == "" {
		t.Skip("child of TestVerifC14Subjects")
	}
	var spec c14sSpec
	raw, err := os.ReadFile(sp)
	if err != nil {
		t.Fatal(err)
	}
	if err := json.Unmarshal(raw, &spec); err != nil {
		t.Fatal(err)
	}
	os.Setenv("VERIF_WORK", spec.WorkDir)
	res := &c14RawResult{Counts: map[string]int64{}}
	sigs := map[string]struct{}{}
	write := func() {
		res.Sigs = res.Sigs[:0]
		for s := range sigs {
			res.Sigs = append(res.Sigs, s)
		}
		out, _ := json.Marshal(res)
		os.WriteFile(spec.Out+".tmp", out, 0644)
		os.Rename(spec.Out+".tmp", spec.Out)
	}
	viol := func(fp, what string, replay map[string]any) {
		for _, v := range res.Viols {
			if v.FP == fp {
				return
			}
		}
		res.Viols = append(res.Viols, c14RawViol{fp, what, replay})
	}
	finish := func(why string) {
		if why != "" {
			res.Inconc = append(res.Inconc, why)
		}
		res.Done = true
		write()
	}
	logw, err := os.OpenFile(spec.Log, os.O_CREATE|os.O_WRONLY|os.O_APPEND, 0644)
	if err != nil {
		t.Fatal(err)
	}
	defer logw.Close()
	fmt.Fprintf(logw, "# phase start\n")

	c, s, err := vfSingle("c14s", nil)
	if err != nil {
		finish("server did not start: " + err.Error())
		return
	}
	defer func() {
		// Stopping is not what is judged here (C18): bounded, and when it does
		// not finish the goroutines are kept for diagnosis.
		done := make(chan struct{})
		go func() { c.Cleanup(); close(done) }()
		select {
		case <-done:
		case <-time.After(20 * time.Second):
			buf := make([]byte, 1<<22)
			os.WriteFile(spec.Out+".stop-hung-goroutines.txt", buf[:runtime.Stack(buf, true)], 0644)
			os.RemoveAll(c.Dir)
			os.Exit(0)
		}
	}()
	for _, cr := range []*client.CreateStreamRequest{
		{Subject: "c14s.one", Name: c14sOne, ReplicationFactor: 1, Partitions: 1},
		{Subject: "c14s.two", Name: c14sTwo, ReplicationFactor: 1, Partitions: 2},
		{Subject: "c14s.paused", Name: c14sPaused, ReplicationFactor: 1, Partitions: 1},
	} {
		if err := c.CreateStream(cr); err != nil {
			finish("create stream: " + err.Error())
			return
		}
	}
	{
		ctx, cancel := context.WithTimeout(context.Background(), c14sWatchdog)
		_, err := s.api.PauseStream(ctx, &client.PauseStreamRequest{Name: c14sPaused})
		cancel()
		if err != nil {
			finish("pause fence stream: " + err.Error())
			return
		}
	}
	type part struct {
		stream string
		id     int32
		p      *partition
		expect []c14sExpect
		seen   int // records of expect already delivered by the standing subscription
		sub    *subscription
		cancel context.CancelFunc
	}
	parts := []*part{{stream: c14sOne, id: 0}, {stream: c14sTwo, id: 0}, {stream: c14sTwo, id: 1}}
	pp := s.metadata.GetPartition(c14sPaused, 0)
	ok := pp != nil && vfWait(c14sWatchdog, func() bool {
		for _, x := range parts {
			x.p = s.metadata.GetPartition(x.stream, x.id)
			if x.p == nil || !x.p.IsLeader() {
				return false
			}
		}
		return !pp.IsLeader()
	})
	if !ok {
		finish("partitions did not start leading / fence partition did not pause")
		return
	}
	nc := c.NC
	selfID := s.config.Clustering.ServerID
	if selfID != c14sSelf {
		finish("unexpected server id " + selfID)
		return
	}

	// ---- PublishAsync sessions; their ack inboxes are learnt the way any NATS
	// client can: from the publish envelopes on the stream subject.
	var inboxMu sync.Mutex
	inboxes := []string{}
	if _, err := nc.Subscribe(parts[0].p.getSubject(), func(m *nats.Msg) {
		ref := c14Reference(m.Data, c14TPublish)
		if !ref.May {
			return
		}
		in := ref.Want.(*client.Message).AckInbox
		if !strings.HasPrefix(in, s.config.Clustering.Namespace+".ack.") {
			return
		}
		inboxMu.Lock()
		defer inboxMu.Unlock()
		for _, k := range inboxes {
			if k == in {
				return
			}
		}
		if len(inboxes) >= 2 { // (later ones belong to the harness's own API publishes)
			return
		}
		inboxes = append(inboxes, in)
	}); err != nil {
		t.Fatal(err)
	}
	acks := make(chan *nats.Msg, 65536)
	if _, err := nc.ChanSubscribe(c14sAckPrefix+">", acks); err != nil {
		t.Fatal(err)
	}
	nc.Flush()
	nSessions := 2
	sessions := make([]*c14sStr, nSessions)
	sessInbox := make([]string, nSessions)
	fenceNo := 0
	// sessionFence: a publish through the session must come back as a response.
	sessionFence := func(i int) error {
		fenceNo++
		corr := fmt.Sprintf("c14s-fence-%d", fenceNo)
		parts[0].expect = append(parts[0].expect, c14sExpect{Fence: corr})
		sessions[i].in <- &client.PublishRequest{Stream: c14sOne, Value: []byte(corr), CorrelationId: corr, AckPolicy: client.AckPolicy_LEADER}
		timer := time.NewTimer(c14sWatchdog)
		defer timer.Stop()
		for {
			select {
			case r := <-sessions[i].out:
				res.Counts["session_responses"]++
				if r.AsyncError != nil {
					res.Counts["session_error_responses"]++
				}
				if r.CorrelationId == corr {
					if r.Ack == nil {
						return fmt.Errorf("the session answered its own publish with an error: %v", r.AsyncError)
					}
					return nil
				}
			case <-timer.C:
				return errVfTimeout
			}
		}
	}
	for i := 0; i < nSessions; i++ {
		st := c14sNewStr()
		sessions[i] = st
		go s.api.PublishAsync(st)
		if err := sessionFence(i); err != nil {
			finish(fmt.Sprintf("PublishAsync session %d did not answer its first publish: %v", i, err))
			return
		}
		want := i + 1
		if !vfWait(c14sWatchdog, func() bool { inboxMu.Lock(); defer inboxMu.Unlock(); return len(inboxes) >= want }) {
			finish("ack inbox of a PublishAsync session not seen on the stream subject")
			return
		}
		inboxMu.Lock()
		sessInbox[i] = inboxes[i]
		inboxMu.Unlock()
	}
	res.Counts["ack_inboxes_learnt"] = int64(nSessions)

	// ---- subjects, computed the way the server does
	subjects := func(kind string, target int) string {
		switch kind {
		case "ackinbox":
			return sessInbox[target]
		case "notify":
			return s.getPartitionNotificationInbox(selfID)
		case "status":
			return s.getPartitionStatusInbox(selfID)
		case "info":
			return s.getServerInfoInbox()
		case "offset":
			return parts[target].p.getLeaderOffsetRequestInbox()
		case "replicate":
			return parts[target].p.getReplicationRequestInbox()
		case "join":
			return fmt.Sprintf("%s.join", s.baseMetadataRaftSubject())
		case "propagate":
			return s.getPropagateInbox()
		case "stream":
			return parts[target].p.getSubject()
		}
		return ""
	}
	replSubs := make([]*nats.Subscription, len(parts))
	replSent := make([]int64, len(parts))
	for i, x := range parts {
		x.p.mu.RLock()
		replSubs[i] = x.p.leaderReplSub
		x.p.mu.RUnlock()
		if replSubs[i] == nil {
			finish("a led partition has no replication request subscription")
			return
		}
		d, _ := replSubs[i].Delivered()
		replSent[i] = d
	}
	reqFence := func(subject string, reqType byte, req pb.Message, respType byte) error {
		m, err := nc.Request(subject, kit.C14Encode(reqType, c14sMarshal(req), false), c14sWatchdog)
		if err != nil {
			return err
		}
		if !c14Reference(m.Data, respType).May {
			res.Counts["fence_reply_not_decodable"]++
		}
		return nil
	}
	apiPublish := func(x *part, val string) error {
		ctx, cancel := context.WithTimeout(context.Background(), c14sWatchdog)
		defer cancel()
		x.expect = append(x.expect, c14sExpect{Fence: val})
		resp, err := s.api.Publish(ctx, &client.PublishRequest{Stream: x.stream, Partition: x.id, Value: []byte(val), AckPolicy: client.AckPolicy_LEADER})
		if err != nil {
			if ctx.Err() != nil {
				return errVfTimeout
			}
			return fmt.Errorf("refused: %v", err)
		}
		if resp.Ack == nil {
			return fmt.Errorf("refused: no ack")
		}
		return nil
	}
	fence := func(it c14sItem) error {
		subj := subjects(it.Kind, it.Target)
		switch it.Kind {
		case "ackinbox":
			return sessionFence(it.Target)
		case "notify":
			if err := nc.Publish(subj, kit.C14Encode(c14TNotify, c14sMarshal(&proto.PartitionNotification{Stream: c14sPaused, Partition: 0}), false)); err != nil {
				return err
			}
			select {
			case <-pp.notify:
				return nil
			case <-time.After(c14sWatchdog):
				return errVfTimeout
			}
		case "status":
			return reqFence(subj, c14TStatusReq, &proto.PartitionStatusRequest{Stream: c14sOne}, c14TStatusResp)
		case "info":
			return reqFence(subj, c14TInfoReq, &proto.ServerInfoRequest{Id: "c14s-harness"}, c14TInfoResp)
		case "offset":
			return reqFence(subj, c14TOffsetReq, &proto.LeaderEpochOffsetRequest{}, c14TOffsetResp)
		case "join":
			return reqFence(subj, c14TJoinReq, &proto.RaftJoinRequest{NodeID: selfID}, c14TJoinResp)
		case "propagate":
			return reqFence(subj, c14TPropReq, &proto.PropagatedRequest{Op: proto.Op_PAUSE_STREAM, PauseStreamOp: &proto.PauseStreamOp{Stream: c14sAbsent, Partitions: []int32{0}}}, c14TPropResp)
		case "replicate":
			if err := nc.Publish(subj, []byte("c14s-fence")); err != nil {
				return err
			}
			replSent[it.Target]++
			want := replSent[it.Target]
			if !vfWait(c14sWatchdog, func() bool { d, _ := replSubs[it.Target].Delivered(); return d >= want }) {
				return errVfTimeout
			}
			return nil
		case "stream":
			fenceNo++
			err := apiPublish(parts[it.Target], fmt.Sprintf("c14s-fence-%d", fenceNo))
			if err != nil && err != errVfTimeout {
				viol("C14:subjects:publish-refused:"+it.key(), fmt.Sprintf("after a well-formed %s envelope (%s) on the stream subject a regular publish was %v", c14sTypeName(it.Type), it.Class, err),
					map[string]any{"subject": subj, "payload_hex": c14Hex(it.Data), "field_class": it.Class, "field_value": it.Value})
				return nil
			}
			return err
		}
		return fmt.Errorf("unknown kind %s", it.Kind)
	}

	// ---- standing subscriptions: what each stream log holds, read as a client
	for _, x := range parts {
		ctx, cancel := context.WithCancel(context.Background())
		sub, serr := s.api.SubscribeInternal(ctx, &client.SubscribeRequest{Stream: x.stream, Partition: x.id, StartPosition: client.StartPosition_EARLIEST})
		if serr != nil {
			cancel()
			finish("standing subscription refused: " + serr.Error())
			return
		}
		x.sub, x.cancel = sub, cancel
		defer func() { sub.Close(); cancel() }()
	}
	judge := func(x *part, e c14sExpect, got c14Stored, where string, off int64) {
		if e.Fence != "" {
			if string(got.Value) != e.Fence {
				viol("C14:subjects:stored-unexpected", fmt.Sprintf("%s of %s/%d: offset %d should hold the harness publish %q, holds value %s — something that was not published to this stream was stored (or a publish was lost)",
					where, x.stream, x.id, off, e.Fence, c14Hex(got.Value)), map[string]any{"offset": off})
			}
			return
		}
		if kind, what := c14Judge(e.Data, e.Ref, got); kind != "" {
			it := e.Item
			viol("C14:subjects:stored:"+kind, where+": "+what, map[string]any{"item": it, "payload_hex": c14Hex(e.Data), "offset": off})
		}
		res.Counts["stored_compared_"+where]++
	}
	// roundTrip: a probe publish to every partition must be acked and be
	// delivered by the standing subscription right behind exactly the messages
	// published to that stream.
	probeNo := 0
	roundTrip := func(after string) (okAll bool) {
		probeNo++
		for _, x := range parts {
			val := fmt.Sprintf("c14s-probe-%d", probeNo)
			if err := apiPublish(x, val); err != nil {
				if err == errVfTimeout {
					res.Inconc = append(res.Inconc, "watchdog: probe publish after "+after+" not acked")
				} else {
					viol("C14:subjects:probe-publish-refused:"+after, fmt.Sprintf("after the %s batch a regular publish to %s/%d was %v", after, x.stream, x.id, err), nil)
				}
				return false
			}
			timer := time.NewTimer(c14sWatchdog)
			for x.seen < len(x.expect) {
				select {
				case m := <-x.sub.Messages():
					judge(x, x.expect[x.seen], c14Stored{Key: m.Key, Value: m.Value, Headers: c14UserHeaders(m.Headers)}, "subscription", m.Offset)
					if m.Offset != int64(x.seen) {
						viol("C14:subjects:stored-unexpected", fmt.Sprintf("subscription of %s/%d delivered offset %d as its message number %d", x.stream, x.id, m.Offset, x.seen), nil)
					}
					x.seen++
				case st := <-x.sub.Errors():
					timer.Stop()
					viol("C14:subjects:subscription-error:"+after, fmt.Sprintf("the standing subscription of %s/%d ended after the %s batch: %v", x.stream, x.id, after, st.Err()), nil)
					return false
				case <-timer.C:
					res.Inconc = append(res.Inconc, fmt.Sprintf("watchdog: subscription of %s/%d delivered %d of %d messages after %s", x.stream, x.id, x.seen, len(x.expect), after))
					return false
				}
			}
			timer.Stop()
			res.Counts["probe_round_trips"]++
		}
		return true
	}

	items, _ := c14sSchedule(spec.Seed)
	skip := map[string]bool{}
	for _, k := range spec.Skip {
		skip[k] = true
	}
	fmt.Fprintf(logw, "# phase spray\n")
	aborted := false
	lastKind := ""
	for i := spec.From; i < len(items) && !aborted; i++ {
		it := items[i]
		if lastKind != "" && it.Kind != lastKind {
			if !roundTrip(lastKind) {
				aborted = true
				break
			}
		}
		lastKind = it.Kind
		if skip[it.key()] {
			res.Counts["not_sent_class_killed_earlier_child"]++
			continue
		}
		subj := subjects(it.Kind, it.Target)
		fmt.Fprintf(logw, "%d X %s %s %s\n", i, it.Kind, subj, hex.EncodeToString(it.Data))
		var perr error
		if i%3 == 0 || it.Kind == "status" || it.Kind == "info" {
			perr = nc.PublishRequest(subj, fmt.Sprintf("c14s.reply.%d", i), it.Data)
		} else {
			perr = nc.Publish(subj, it.Data)
		}
		if perr == nil {
			perr = nc.Flush()
		}
		if perr != nil {
			res.Inconc = append(res.Inconc, fmt.Sprintf("publish of item %d failed: %v", i, perr))
			aborted = true
			break
		}
		if it.Kind == "replicate" {
			replSent[it.Target]++
		}
		if it.Kind == "stream" {
			parts[it.Target].expect = append(parts[it.Target].expect, c14sExpect{Item: i, Data: it.Data, Ref: c14Reference(it.Data, c14TPublish)})
		}
		res.Counts["sent_"+it.Kind]++
		sigs[it.key()] = struct{}{}
		if len(res.Samples) < 6 && i%97 == 5 {
			res.Samples = append(res.Samples, map[string]any{"subject": subj, "message_type": c14sTypeName(it.Type), "field_class": it.Class, "field_value": it.Value, "payload_hex": c14Hex(it.Data)})
		}
		fmt.Fprintf(logw, "%d F %s\n", i, it.Kind)
		if err := fence(it); err != nil {
			res.Inconc = append(res.Inconc, fmt.Sprintf("watchdog: fence after item %d (%s) did not complete: %v", i, it.key(), err))
			aborted = true
			break
		}
		res.Counts["fences_completed"]++
	}
	fmt.Fprintf(logw, "# phase verify\n")
	if !aborted && roundTrip(lastKind) {
		// the logs themselves
		for _, x := range parts {
			recs, err := vfReadLog(x.p.log, 0, true)
			if err != nil {
				viol("C14:subjects:log-unreadable", fmt.Sprintf("reading the log of %s/%d failed: %v", x.stream, x.id, err), nil)
				continue
			}
			if len(recs) != len(x.expect) {
				viol("C14:subjects:stored-unexpected", fmt.Sprintf("log of %s/%d holds %d records, %d messages were published to it", x.stream, x.id, len(recs), len(x.expect)), nil)
				continue
			}
			for j, rc := range recs {
				judge(x, x.expect[j], c14Stored{Key: rc.Key, Value: rc.Value, Headers: c14UserHeaders(rc.Headers)}, "log", rc.Offset)
			}
			res.Counts["log_records_checked"] += int64(len(recs))
		}
		if l := s.metadata.GetPartition(c14sPaused, 0); l != nil && l.log != nil {
			if n := l.log.NewestOffset(); n != -1 {
				viol("C14:subjects:stored-unexpected", fmt.Sprintf("the paused stream, to which nothing was published, holds %d records", n+1), nil)
			}
		}
		if got := len(s.metadata.GetStreams()); got != 3 {
			// the cursors stream may exist as a fourth
			names := []string{}
			for _, st := range s.metadata.GetStreams() {
				names = append(names, st.GetName())
			}
			sort.Strings(names)
			if !(got == 4 && strings.Contains(strings.Join(names, " "), "__cursors")) {
				viol("C14:subjects:streams-changed", fmt.Sprintf("the server now has streams %v", names), nil)
			}
		}
	}
	for _, st := range sessions {
		st.cancel()
	}
	fmt.Fprintf(logw, "# phase done\n")
	finish("")
}

// ---------------------------------------------------------------- parent

func TestVerifC14Subjects(t *testing.T) {
	rep := kit.NewReport("C14", "subjects")
	defer rep.Write()
	rep.SetRule("a single-node server (own nats-server, race build) in a child process with a one-partition stream, a two-partition stream, a paused stream and two open PublishAsync sessions receives WELL-FORMED envelopes (plain or CRC form; they decode) on every subject it listens on with an envelope decoder: the ack inboxes of the sessions (<namespace>.ack.<nuid>, learnt from the AckInbox of the publish envelopes seen on the stream subject), <namespace>.notify.<id>, the replication-request and leader-epoch-offset subjects of each of the three led partitions, server info, partition status, Raft join, propagate, and the three stream subjects. Per message type the fields (listed by reflection over the generated protobuf struct, sub-messages recursively) are driven one at a time around a base message through the corner values of their kind: enums -1 / min / every declared value / one past the last / max int32; integers -1 / min / 0 / 1 / max; stream names existing (both streams) / absent / empty / 64 KiB, as a full product with partition ids existing / absent for that stream / negative / max; ids the server itself / a stranger / empty / 64 KiB; strings empty / text / wildcard / 64 KiB; bytes absent / empty / 128 KiB; lists and maps absent / one / corner element; sub-messages absent / present-but-empty; plus the base message of every other type on each subject. Each message is journaled before it is sent and followed by a completion fence on the same subject (a publish through the session answered on its stream, notify token, request/reply, delivered counter, acked publish). Oracle: the child survives (death = violation naming subject class : message type : field class, the journaled payload is the witness); after each subject class a probe publish to every partition is acked and arrives on a standing subscription right behind exactly the harness's own publishes and the publish envelopes sent to that stream subject (each stored as the message it encodes, other types verbatim); at the end the three logs hold exactly that, the paused stream nothing, and no stream was created or deleted. evaluations = messages sent; distinct = (subject class, message type, field class)")
	rep.Assume("not sent (decoded meaning is an operation the server is meant to carry out, or excluded by the design): a ReplicationRequest naming the leader itself (handleReplicationRequest fail-stops on it deliberately; with one server no other replica id exists), a RaftJoinRequest of a node id other than the server's own, propagated operations that address a live stream / partition, propagated stream creation with partitions, propagated consumer group joins, publishes naming an ack inbox the harness does not own; notifications for the harness's paused fence partition")
	rep.Assume("subjects without an envelope decoder (Raft transport, bootstrap detection — bootstrap.reply exits by design) and the transient reply inboxes of outgoing requests (metadata fetch, partition status, replication responses on followers: none exist on a single server) are not sprayed")
	work := os.Getenv("VERIF_WORK")
	if work == "" {
		work = t.TempDir()
	}
	items, excluded := c14sSchedule(kit.Seed())
	for k, n := range excluded {
		rep.Count("excluded "+k, int64(n))
	}
	rep.SetInfo("items", len(items))
	rep.SetExhaustive(false)
	sigs := map[string]struct{}{}
	evals := int64(0)
	from := 0
	var skip []string
	start := time.Now()
	for attempt := 0; from < len(items); attempt++ {
		if attempt > 8 {
			rep.Inconc(fmt.Sprintf("more than 8 crashes, items from %d not sent", from))
			break
		}
		base := filepath.Join(work, fmt.Sprintf("subjects-try%d", attempt))
		spec := c14sSpec{Seed: kit.Seed(), From: from, Skip: skip, Log: base + ".inputs.log", Out: base + ".result.json", WorkDir: work}
		raw, _ := json.Marshal(spec)
		os.WriteFile(base+".spec.json", raw, 0644)
		self := os.Getenv("VERIF_SELF")
		if self == "" {
			self, _ = os.Executable()
		}
		ctx, cancel := context.WithTimeout(context.Background(), 8*time.Minute)
		cmd := exec.CommandContext(ctx, self, "-test.run", "^TestVerifC14sSubjectsChild$", "-test.count", "1", "-test.timeout", "0")
		cmd.Env = append(os.Environ(), "C14S_SPEC="+base+".spec.json")
		var outb bytes.Buffer
		cmd.Stdout, cmd.Stderr = &outb, &outb
		err := cmd.Run()
		timedOut := ctx.Err() != nil
		cancel()
		os.WriteFile(base+".output.txt", outb.Bytes(), 0644)
		// what was sent is taken from the journal, so that the messages a child
		// handled before it died are counted too
		if jl, jerr := os.ReadFile(spec.Log); jerr == nil {
			for _, ln := range strings.Split(string(jl), "\n") {
				fs := strings.Fields(ln)
				if len(fs) >= 4 && fs[1] == "X" {
					if j, cerr := strconv.Atoi(fs[0]); cerr == nil && j >= 0 && j < len(items) {
						evals++
						sigs[items[j].key()] = struct{}{}
						rep.Count("journaled_"+items[j].Kind, 1)
					}
				}
			}
		}
		var r c14RawResult
		if raw, rerr := os.ReadFile(spec.Out); rerr == nil && json.Unmarshal(raw, &r) == nil && r.Done {
			for k, v := range r.Counts {
				rep.Count(k, v)
			}
			for _, v := range r.Viols {
				rep.Violation(v.FP, v.What, v.Replay)
			}
			for _, s := range r.Inconc {
				rep.Inconc(s)
			}
			for _, s := range r.Samples {
				rep.Sample(s)
			}
			rep.Count("children_completed", 1)
			break
		}
		if timedOut {
			rep.Inconc("watchdog expired on the child process")
			break
		}
		idx, what, _, _, phase := c14LastLogged(spec.Log)
		cl, frame := c14CrashInfo(outb.String())
		rep.Count("child_deaths", 1)
		tail := outb.String()
		if k := strings.Index(tail, "panic: "); k > 0 {
			tail = tail[k:]
		}
		if len(tail) > 5000 {
			tail = tail[:5000]
		}
		if idx < 0 || idx >= len(items) || phase != "spray" {
			if phase == "start" || phase == "" || !strings.Contains(outb.String(), "\ngoroutine ") {
				rep.Inconc(fmt.Sprintf("child ended before sending anything / without a crash trace (phase %q, err=%v): %s", phase, err, cl))
			} else {
				rep.Violation("C14:subjects:crash:"+frame+":after-spray", fmt.Sprintf("the server process died in phase %q: %s", phase, cl), map[string]any{"from": from, "child_output": tail})
			}
			break
		}
		it := items[idx]
		rep.Violation("C14:subjects:crash:"+it.key(), fmt.Sprintf("the server process died after a well-formed %s envelope arrived on its %s subject with %s (%s): %s [first repository frame: %s]",
			c14sTypeName(it.Type), it.Kind, it.Class, it.Value, cl, frame),
			map[string]any{"item": idx, "subject_class": it.Kind, "target": it.Target, "message_type": c14sTypeName(it.Type), "field_class": it.Class, "field_value": it.Value,
				"payload_hex": c14Hex(it.Data), "payload_len": len(it.Data), "last_logged": what, "crash_frame": frame, "child_output": tail})
		skip = append(skip, it.key())
		sort.Strings(skip)
		from = idx + 1
		// classes of the same subject kind that were journaled before are done;
		// the rest of the list is sent to a fresh child
	}
	rep.SetInfo("wall_s", int(time.Since(start).Seconds()))
	for i := int64(0); i < evals; i++ {
		rep.Eval()
	}
	for s := range sigs {
		rep.Nontrivial(s)
	}
}
