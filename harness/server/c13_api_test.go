//go:build verif

package server

// C13 unit `api` and the boundary epoch alphabets.
//
// (1) Epoch alphabets: the program generators plan epochs as small numbers
// around c13BaseEpoch (older = base-1/-2, equal, newer = +1 ...).  A case can
// run its program under a monotone (non-strictly order preserving) re-labelling
// of those numbers onto the BOUNDARY values of the uint64 epoch domain - 0, 1,
// 2, MaxUint64-1, MaxUint64 - for the current and for the incoming member.  The
// oracle works on the real (re-labelled) values, so the rule is the unchanged
// one: older refused and leaves the current one untouched; equal or newer
// replaces.
//
// (2) Entry point: the same action alphabet (seeded schedules of concurrent
// actions and the exhaustive three-member hand-over) is driven through
// apiServer.SubscribeInternal - the body of the Subscribe RPC, i.e. through
// apiServer.subscribe, the helper between the RPC and partition.Subscribe - on
// a single-node server, including same-consumer-id same-epoch re-subscribes
// while the earlier subscription is still registered (a reconnect the server
// has not noticed, a retried RPC).  Judged by the same monitor; without
// partition lifecycle events a well-formed group subscribe is either accepted
// or refused because of a strictly newer holder, whatever the status code.

import (
	"math"
	"testing"

	kit "github.com/liftbridge-io/liftbridge/internal/verifkit"
)

var c13EpochAlphabets = []string{"plain", "low", "high", "mixed"}

// c13MapEpoch re-labels a planned epoch.  All maps are monotone.
func c13MapEpoch(alphabet string, e uint64) uint64 {
	const max = uint64(math.MaxUint64)
	switch alphabet {
	case "low": // ..4 -> 0, 5 -> 1, 6 -> 2, ...
		if e <= 4 {
			return 0
		}
		return e - 4
	case "high": // 3 -> max-3, 4 -> max-2, 5 -> max-1, 6.. -> max
		if e >= 6 {
			return max
		}
		return max - (6 - e)
	case "mixed": // ..4 -> 0, 5 -> 1, 6 -> max-1, 7.. -> max
		switch {
		case e <= 4:
			return 0
		case e == 5:
			return 1
		case e == 6:
			return max - 1
		}
		return max
	}
	return e
}

// c13MapProgram returns a copy of the program with re-labelled epochs.
func c13MapProgram(alphabet string, prog []c13Round) []c13Round {
	if alphabet == "plain" {
		return prog
	}
	out := make([]c13Round, len(prog))
	for i, r := range prog {
		out[i] = r
		out[i].Acts = append([]c13Act(nil), r.Acts...)
		for j := range out[i].Acts {
			if out[i].Acts[j].Kind == "sub" {
				out[i].Acts[j].Epoch = c13MapEpoch(alphabet, out[i].Acts[j].Epoch)
			}
		}
	}
	return out
}

// c13CountBoundary records which boundary values a program used for accepted
// (current) and for all (incoming) members.
func c13CountBoundary(c *c13Case) {
	name := func(e uint64) string {
		switch e {
		case 0:
			return "0"
		case 1:
			return "1"
		case math.MaxUint64 - 1:
			return "max-1"
		case math.MaxUint64:
			return "max"
		}
		return ""
	}
	c.mu.Lock()
	calls := append([]*c13Call(nil), c.calls...)
	c.mu.Unlock()
	for _, k := range calls {
		if n := name(k.Epoch); n != "" {
			c.rep.Count("incoming_member_epoch_"+n, 1)
			if k.Result == c13Accepted {
				c.rep.Count("current_member_epoch_"+n, 1)
			}
		}
	}
}

// TestVerifC13Api: schedules and hand-over enumeration through the API entry
// point, under all epoch alphabets.
func TestVerifC13Api(t *testing.T) {
	rep := kit.NewReport("C13", "api")
	defer rep.Write()
	defer c13UnitWatchdog(rep, "api")()
	rep.SetRule("group subscribes enter through apiServer.SubscribeInternal (Subscribe RPC body -> apiServer.subscribe -> partition.Subscribe) on a single-node server. Part 1: the exhaustive three-member hand-over (see unit handover; includes a member that re-subscribes with the SAME consumer id and the SAME epoch while its first subscription is live, cancelled, closed or ended, clean-up before/after) under the epoch alphabets plain (3..6), low (0,1,2), high (max-3..max) and mixed (0,1,max-1,max). Part 2: seeded programs of rounds of concurrent actions (see unit schedules), alphabet chosen per case. " + c13Rule + "; additionally: a well-formed group subscribe that is refused with ANY status code needs a possible holder with a strictly newer epoch")
	rep.Assume("a subscription whose loop has left its body but whose group entry is not yet removed still counts as a possible holder for refusals (transient state); a stale entry found at quiescence with no ACTIVE subscription is only counted, not judged")
	workers := kit.Workers()
	env := c13Start(rep, "c13a", workers)
	if env == nil {
		return
	}
	defer env.stop()

	// Part 1: enumeration.
	combos := c13HandoverCombos()
	type job struct {
		k        c13Combo
		alphabet string
	}
	var jobs []job
	for _, al := range c13EpochAlphabets {
		for _, k := range combos {
			if al != "plain" && (k.Mode2 == "earliest" || k.Mode1 == "earliest") {
				continue // the start position is orthogonal to the epoch alphabet
			}
			jobs = append(jobs, job{k, al})
		}
	}
	rep.SetInfo("handover_combinations_through_api", len(jobs))
	base := kit.Mix(kit.Seed(), 0xC13A)
	kit.Parallel(len(jobs), workers, func(i int) {
		if rep.NumViolations() >= 12 {
			return
		}
		j := jobs[i]
		prog, policy := j.k.program()
		prog = c13MapProgram(j.alphabet, prog)
		st := <-env.pool
		c := c13NewCase(rep, "api", i, kit.Mix(base, uint64(i)), env.srv, st, 1, policy, prog)
		c.viaAPI = true
		c.label = "handover[" + j.alphabet + "] " + j.k.String()
		c.run()
		c13CountBoundary(c)
		if j.k.Cid2 == "same" && j.k.E2 == c13BaseEpoch && j.k.OldEnd == "live" {
			rep.Count("same_id_same_epoch_resubscribes_while_first_is_live", 1)
		}
		if i%1999 == 0 {
			rep.Sample(map[string]interface{}{"combination": c.label, "program": c13ProgString(prog), "outcome": c.signature()})
		}
		env.pool <- st
	})

	// Part 2: seeded schedules.
	n := kit.Scale(6000, 60000)
	root := kit.NewRNG(kit.Mix(kit.Seed(), 0xC13A2))
	seeds := make([]uint64, n)
	for i := range seeds {
		seeds[i] = root.Uint64()
	}
	kit.Parallel(n, workers, func(i int) {
		if rep.NumViolations() >= 12 {
			return
		}
		rng := kit.NewRNG(seeds[i])
		prog, ng := c13GenProgram(rng)
		al := c13EpochAlphabets[i%len(c13EpochAlphabets)]
		prog = c13MapProgram(al, prog)
		st := <-env.pool
		c := c13NewCase(rep, "api", 1000000+i, seeds[i], env.srv, st, ng, "random", prog)
		c.viaAPI = true
		c.label = "schedule[" + al + "]"
		c.run()
		c13CountBoundary(c)
		if i < 2 {
			rep.Sample(map[string]interface{}{"case": i, "alphabet": al, "program": c13ProgString(prog), "outcome": c.signature()})
		}
		env.pool <- st
	})
}
