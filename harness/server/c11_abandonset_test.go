//go:build verif

package server

// C11 — abandoned sets and re-committed positions.
//
// Workload class the other units never produce:
//
//   - SetCursor calls whose CALLER GIVES UP (context already cancelled, deadline
//     already over, deadline / cancel() after 5-150 % of a measured ack latency)
//     after the cursor message went out: the caller is told the set failed, the
//     message is nevertheless committed to the cursors partition;
//   - sets that pass an offset the cursor was given BEFORE (a consumer that
//     commits its position on a timer, a consumer that was told its update
//     failed and commits its old position again): the value acknowledged last,
//     the value fetched last, the value of the abandoned set itself — next to
//     sets of new values and no set at all;
//   - then everything that makes the server answer from the log instead of
//     the cache (purge, eviction, pause + resume, restart), in every order
//     relative to the abandoned set, the follow-up set and the fetches.
//
// Oracle.  Values are not unique per set here, so fetches are judged by
// c11JudgeRepeat: a fetch is admissible iff SOME set that passed the returned
// value is not definitely overwritten.  A failed set stays an open operation
// (it may or may not become visible), with one addition: the harness reads the
// cursors partition's log itself after every abandoned set; once it has seen
// the set's message below the high watermark (clock reading T taken after the
// read), every SetCursor called after T is appended behind it, so an
// acknowledged one of them overwrites it for good — whatever the cache held.
// An abandoned set the harness never saw committed stays open to the end.
// Porcupine runs on the same history with the "latent" model
// (c11_porc_test.go): a failed set never becomes the current value; from its
// place in the order (before the commit observation, if there is one) until
// the next acknowledged set a fetch may return either the acknowledged offset
// or the failed set's.

import (
	"context"
	"fmt"
	"os"
	"sync"
	"sync/atomic"
	"testing"
	"time"

	client "github.com/liftbridge-io/liftbridge-api/v2/go"

	kit "github.com/liftbridge-io/liftbridge/internal/verifkit"
	proto "github.com/liftbridge-io/liftbridge/server/protocol"
)

// ---------------------------------------------------------------- oracle

type c11RepCand struct {
	op     *c11Op // nil: the initial "no cursor" state (-1)
	effLog int64  // from this instant on every newly called set is ordered behind the candidate
	effVis int64  // from this instant on the candidate's value is what the register holds (until overwritten)
}

// c11RepCands lists the sets of the key that passed v and were called before
// upTo (plus the initial state for -1).  refused / future: a set that passed v
// but cannot be the source (refused by the partition / called after upTo).
func c11RepCands(keyOps []c11Op, v, upTo int64) (cands []c11RepCand, refused, future *c11Op) {
	if v == -1 {
		cands = append(cands, c11RepCand{nil, -1, -1})
	}
	for i := range keyOps {
		o := &keyOps[i]
		if o.Kind != "set" || o.Val != v {
			continue
		}
		switch {
		case o.Refused != "":
			refused = o
		case o.Call > upTo:
			future = o
		default:
			c := c11RepCand{op: o, effLog: c11Open, effVis: c11Open}
			if o.OK {
				c.effLog, c.effVis = o.Ret, o.Ret
			} else if o.Committed > 0 {
				// failed for its caller, but seen committed: ordered before
				// every later set; whether a fetch shows it is not known
				c.effLog = o.Committed
			}
			cands = append(cands, c)
		}
	}
	return
}

// c11RepOverwriter: the acknowledged set (not the candidate itself) that was
// called after the candidate had its place in the order and that returned
// last before `before`.
func c11RepOverwriter(keyOps []c11Op, c c11RepCand, before int64) *c11Op {
	var over *c11Op
	for i := range keyOps {
		o := &keyOps[i]
		if o.Kind != "set" || !o.OK || (c.op != nil && o.Seq == c.op.Seq) {
			continue
		}
		if o.Call > c.effLog && o.Ret < before && (over == nil || o.Ret > over.Ret) {
			over = o
		}
	}
	return over
}

// c11RepWitness: may fetch g serve as a witness that the register had moved on
// to g's value?  Only if g's value was passed by an ACKNOWLEDGED set (or is
// the initial state) that was not itself overwritten before g began.  A fetch
// that shows the offset of a FAILED set proves nothing about the sets that
// succeeded: whether and when such an offset is shown is not specified (the
// cache may keep answering with the last acknowledged offset).
func c11RepWitness(keyOps []c11Op, g c11Op) bool {
	cands, _, _ := c11RepCands(keyOps, g.Val, g.Ret)
	for _, c := range cands {
		if (c.op == nil || c.op.OK) && c11RepOverwriter(keyOps, c, g.Call) == nil {
			return true
		}
	}
	return false
}

// c11JudgeRepeat is c11Judge for histories in which several sets of a cursor
// pass the same offset and failed sets carry a commit observation.  Returns
// "" when the fetch is admissible.
func c11JudgeRepeat(keyOps []c11Op, valKey map[int64]string, f c11Op) (kind, what string) {
	if !f.OK || f.Kind != "fetch" {
		return "", ""
	}
	cands, refused, future := c11RepCands(keyOps, f.Val, f.Ret)
	if len(cands) == 0 {
		switch {
		case refused != nil:
			return "refused-set-value", fmt.Sprintf("fetch of %s [%s, seq %d] returned %d, the offset of SetCursor seq %d, which had FAILED: the API reported that the cursors partition refused it (%s: %s)", f.Key, f.Phase, f.Seq, f.Val, refused.Seq, refused.Refused, refused.Err)
		case future != nil:
			return "future-value", fmt.Sprintf("fetch of %s returned %d before the SetCursor passing it was called", f.Key, f.Val)
		}
		if k, ok := valKey[f.Val]; ok && k != f.Key {
			return "other-key-value", fmt.Sprintf("fetch of %s returned %d, which was only ever set for the different cursor %s", f.Key, f.Val, k)
		}
		return "never-set-value", fmt.Sprintf("fetch of %s returned %d, which no SetCursor ever passed", f.Key, f.Val)
	}
	got := fmt.Sprint(f.Val)
	if f.Val == -1 {
		got = "-1 (no cursor)"
	}
	// explain with the candidate that was called last
	var (
		last     c11RepCand
		lastOver *c11Op
		lastSeen *c11Op
		haveLast bool
	)
	for _, c := range cands {
		over := c11RepOverwriter(keyOps, c, f.Call)
		var seen *c11Op
		if over == nil {
			// overwritten as witnessed by an earlier fetch: the candidate was
			// acknowledged before that fetch began, the fetch returned another
			// value (so the register had moved on) and returned before f began
			for i := range keyOps {
				g := &keyOps[i]
				if g.Kind == "fetch" && g.OK && g.Val != f.Val && g.Seq != f.Seq && g.Call > c.effVis && g.Ret < f.Call && (seen == nil || g.Ret > seen.Ret) {
					if !c11RepWitness(keyOps, *g) {
						continue // that fetch is the wrong one of the two, or it showed a failed set
					}
					seen = g
				}
			}
		}
		if over == nil && seen == nil {
			return "", "" // this set can be where the value comes from
		}
		if !haveLast || (c.op != nil && (last.op == nil || c.op.Call > last.op.Call)) {
			last, lastOver, lastSeen, haveLast = c, over, seen, true
		}
	}
	src := "the initial state"
	if last.op != nil {
		src = fmt.Sprintf("SetCursor(%d) [seq %d, phase %s]", last.op.Val, last.op.Seq, last.op.Phase)
	}
	if lastOver == nil {
		return "stale", fmt.Sprintf("fetch of %s [%s, client %d, seq %d] returned %s although %s, the last set that passed this value, had been acknowledged before an earlier fetch [seq %d] began, which returned the different value %d and had returned %.3f ms before this fetch began",
			f.Key, f.Phase, f.Client, f.Seq, got, src, lastSeen.Seq, lastSeen.Val, float64(f.Call-lastSeen.Ret)/1e6)
	}
	if last.op != nil && !last.op.OK {
		// the value of a set that FAILED for its caller
		var before *c11Op // the set acknowledged last before the failed one was called
		for i := range keyOps {
			o := &keyOps[i]
			if o.Kind == "set" && o.OK && o.Ret < last.op.Call && (before == nil || o.Ret > before.Ret) {
				before = o
			}
		}
		shape := ":new-value"
		if before != nil && before.Val == lastOver.Val {
			shape = ":recommitted-value"
		}
		return "abandoned-set-value" + shape, fmt.Sprintf("fetch of %s [%s, client %d, seq %d] returned %s, the offset of %s, which FAILED for its caller (%s); the harness had read that set's message below the high watermark of the cursors log, and %.3f ms after that read SetCursor(%d) [seq %d, phase %s] was called; it was acknowledged %.3f ms before the fetch began, so it is the most recent successful set and is ordered behind the failed one",
			f.Key, f.Phase, f.Client, f.Seq, got, src, last.op.Err, float64(lastOver.Call-last.op.Committed)/1e6, lastOver.Val, lastOver.Seq, lastOver.Phase, float64(f.Call-lastOver.Ret)/1e6)
	}
	return "stale", fmt.Sprintf("fetch of %s [%s, client %d, seq %d] returned %s although SetCursor(%d) [seq %d, phase %s] was called after %s had returned and was acknowledged %.3f ms before the fetch began",
		f.Key, f.Phase, f.Client, f.Seq, got, lastOver.Val, lastOver.Seq, lastOver.Phase, src, float64(f.Call-lastOver.Ret)/1e6)
}

// ---------------------------------------------------------------- operations

var c11AbsetModes = []string{"precancelled", "expired", "deadline", "cancel"}

// doSetCtx calls SetCursor(k, v) with a caller of the given kind: "normal"
// (deadline d, meant to be long enough), "precancelled" (context cancelled
// before the call), "expired" (deadline = now), "deadline" (deadline d),
// "cancel" (cancel() d after the call began).  The outcome is recorded exactly
// as the caller sees it: acknowledged only if the call returned nil while the
// caller was still waiting.
func (e *c11Env) doSetCtx(n *vfNode, cl int, k c11Key, phase string, v int64, mode string, d time.Duration) c11Op {
	op := c11Op{Client: cl, Kind: "set", Key: k.String(), Val: v, Phase: phase, Node: n.ID}
	srv := n.Server()
	if srv == nil {
		op.Call = c11Now()
		op.Ret, op.Err = c11Open, "node down"
		return e.record(op)
	}
	var (
		ctx    context.Context
		cancel context.CancelFunc
	)
	switch mode {
	case "precancelled":
		ctx, cancel = context.WithCancel(context.Background())
		cancel()
	case "expired":
		ctx, cancel = context.WithDeadline(context.Background(), time.Now())
	case "cancel":
		ctx, cancel = context.WithCancel(context.Background())
		t := time.AfterFunc(d, cancel)
		defer t.Stop()
	default: // normal, deadline
		ctx, cancel = context.WithTimeout(context.Background(), d)
	}
	op.Call = c11Now()
	_, err := srv.api.SetCursor(ctx, &client.SetCursorRequest{Stream: k.Stream, Partition: k.Part, CursorId: k.ID, Offset: v})
	op.Ret = c11Now()
	ctxErr := ctx.Err()
	cancel()
	switch {
	case err == nil && ctxErr == nil:
		op.OK = true
	case err == nil:
		// The handler finished, but its caller had given up by then: an RPC
		// client gets its own context error.  Unknown outcome for the caller.
		op.Ret, op.Err = c11Open, fmt.Sprintf("abandoned (%s): %v; handler returned success to nobody", mode, ctxErr)
		atomic.AddInt64(&e.setUnknown, 1)
		e.rep.Count("abandoned_set_handler_returned_success", 1)
	default:
		op.Err = err.Error()
		if ctxErr != nil {
			op.Err = fmt.Sprintf("abandoned (%s): %v; handler: %s", mode, ctxErr, err.Error())
		}
		if why := c11Refusal(err); why != "" && ctxErr == nil {
			op.Refused = why
			atomic.AddInt64(&e.setRefused, 1)
		} else {
			op.Ret = c11Open
			atomic.AddInt64(&e.setUnknown, 1)
		}
	}
	return e.record(op)
}

// logEnds notes, for every cursors partition of the server, the first offset a
// message published from now on can get (0 when the partition is paused: its
// log is reopened by the resume).
func c11LogEnds(srv *Server) map[int32]int64 {
	out := map[int32]int64{}
	for _, p := range c11CursorPartitions(srv) {
		if p.IsPaused() {
			out[p.Id] = 0
			continue
		}
		out[p.Id] = p.log.NewestOffset() + 1
	}
	return out
}

// awaitCommitted reads the COMMITTED part of the cursors partitions' logs
// (from the offsets noted before the call) until it finds the cursor message
// of key k carrying offset v, at most `polls` times.  Returns the harness clock
// reading taken after the successful read, or 0.  The number of polls bounds
// the wait only: a set that is not seen stays an open operation.
func (e *c11Env) awaitCommitted(n *vfNode, from map[int32]int64, k c11Key, v int64, polls int) int64 {
	for i := 0; i < polls; i++ {
		srv := n.Server()
		if srv == nil {
			return 0
		}
		for _, p := range c11CursorPartitions(srv) {
			if p.IsPaused() {
				continue
			}
			recs, err := vfReadLog(p.log, from[p.Id], false)
			if err != nil {
				continue
			}
			for _, r := range recs {
				cur := new(proto.Cursor)
				if cur.Unmarshal(r.Value) != nil {
					continue
				}
				if cur.Offset == v && cur.CursorId == k.ID && cur.Stream == k.Stream && cur.Partition == k.Part {
					return c11Now()
				}
			}
		}
		time.Sleep(4 * time.Millisecond)
	}
	return 0
}

// ---------------------------------------------------------------- agents

// c11AbsetAgent is one consumer with one cursor; its operations are sequential
// (except the racing follow-up).  lastAcked / lastFetched are what the
// consumer itself knows, and what it re-commits.
type c11AbsetAgent struct {
	idx         int
	k           c11Key
	rng         *kit.RNG
	lastAcked   int64
	lastFetched int64
	control     bool // never given an abandoned set
}

type c11AbsetStats struct {
	abandoned, seenCommitted, neverSeen, finishedInTime int64
	recommitAfterSeen, newAfterSeen, sameAsAbandoned    int64
	noFollowup, racing, recommitNoFailure, agentPurges  int64
	hotAbandoned, hotRecommits                          int64
	byMode                                              sync.Map
}

func (e *c11Env) absetNewVal() int64 { return atomic.AddInt64(&e.val, 1) }

// absetRound runs one agent's script of one round.
func (e *c11Env) absetRound(n *vfNode, a *c11AbsetAgent, lat time.Duration, st *c11AbsetStats) {
	r, cl := a.rng, a.idx
	srv := n.Server()
	if srv == nil {
		return
	}
	set := func(v int64, ph string) c11Op {
		op := e.doSetCtx(n, cl, a.k, ph, v, "normal", e.timeout())
		if op.OK {
			a.lastAcked = v
		}
		return op
	}
	fetch := func(ph string) {
		if f := e.doFetch(n, cl, a.k, ph); f.OK {
			a.lastFetched = f.Val
			e.judgeNow(f, false)
		}
	}
	purge := func() {
		if !e.cfg.CacheOff && r.Chance(1, 6) {
			e.purge(srv)
			atomic.AddInt64(&st.agentPurges, 1)
		}
	}
	if a.lastAcked < 0 || r.Chance(1, 3) {
		set(e.absetNewVal(), "abset/base")
	}
	if r.Bool() {
		fetch("abset/before")
	}
	// what the follow-up set will pass
	followKinds := []string{"recommit-acked", "recommit-acked", "recommit-acked", "recommit-fetched", "new", "new", "same-as-abandoned", "none"}
	follow := followKinds[r.Intn(len(followKinds))]
	followVal := func(abandonedVal int64) (int64, string) {
		switch follow {
		case "recommit-acked":
			if a.lastAcked >= 0 {
				return a.lastAcked, follow
			}
		case "recommit-fetched":
			if a.lastFetched >= 0 {
				return a.lastFetched, follow
			}
		case "same-as-abandoned":
			if abandonedVal >= 0 {
				return abandonedVal, follow
			}
		case "none":
			return -1, follow
		}
		return e.absetNewVal(), "new"
	}
	abandonedVal, seen := int64(-1), false
	var racer sync.WaitGroup
	raced := false
	if !a.control && r.Chance(5, 6) {
		nAb := 1
		if r.Chance(1, 6) {
			nAb = 2
		}
		for i := 0; i < nAb; i++ {
			mode := c11AbsetModes[r.Intn(len(c11AbsetModes))]
			d := lat * time.Duration(r.Range(5, 150)) / 100
			v := e.absetNewVal()
			from := c11LogEnds(srv)
			if i == nAb-1 && follow != "none" && r.Chance(1, 8) {
				// the follow-up races the abandoned set: their order is not known
				raced = true
				fv, kind := followVal(-1)
				racer.Add(1)
				go func() {
					defer racer.Done()
					e.doSetCtx(n, cl+1000, a.k, "abset/racing-followup/"+kind, fv, "normal", e.timeout())
				}()
				atomic.AddInt64(&st.racing, 1)
			}
			op := e.doSetCtx(n, cl, a.k, "abset/abandoned/"+mode, v, mode, d)
			switch {
			case op.OK:
				a.lastAcked = v
				atomic.AddInt64(&st.finishedInTime, 1)
			case op.Refused == "":
				atomic.AddInt64(&st.abandoned, 1)
				c, _ := st.byMode.LoadOrStore(mode, new(int64))
				atomic.AddInt64(c.(*int64), 1)
				abandonedVal = v
				if at := e.awaitCommitted(n, from, a.k, v, 120); at > 0 {
					e.markCommitted(op.Seq, at)
					atomic.AddInt64(&st.seenCommitted, 1)
					seen = true
				} else {
					atomic.AddInt64(&st.neverSeen, 1)
					seen = false
				}
			}
		}
	}
	racer.Wait()
	if raced {
		// which of the two the consumer believes in is only workload
		for _, o := range e.snapshot() {
			if o.Kind == "set" && o.OK && o.Key == a.k.String() && o.Client == cl+1000 {
				a.lastAcked = o.Val
			}
		}
	}
	if r.Bool() {
		fetch("abset/after-abandoned-set")
	}
	purge()
	if !raced {
		fv, kind := followVal(abandonedVal)
		if kind == "none" {
			atomic.AddInt64(&st.noFollowup, 1)
		} else {
			reps := 1
			if r.Chance(1, 4) {
				reps = 2 // the same position committed again on the next tick
			}
			for i := 0; i < reps; i++ {
				op := set(fv, "abset/followup/"+kind)
				if !op.OK || i > 0 {
					continue
				}
				switch {
				case abandonedVal < 0 && kind != "new":
					atomic.AddInt64(&st.recommitNoFailure, 1)
				case seen && (kind == "recommit-acked" || kind == "recommit-fetched"):
					atomic.AddInt64(&st.recommitAfterSeen, 1)
				case seen && kind == "same-as-abandoned":
					atomic.AddInt64(&st.sameAsAbandoned, 1)
				case seen:
					atomic.AddInt64(&st.newAfterSeen, 1)
				}
			}
		}
	}
	purge()
	fetch("abset/after-followup")
}

// absetHot: three clients over three SHARED cursors, so that abandoned sets,
// re-commits of what a client last saw, new values and fetches of one cursor
// overlap (the rounds keep one cursor to one consumer).  A client re-commits
// what IT last saw acknowledged or fetched for the cursor, which may be another
// client's value, also the value of another client's failed set.
func (e *c11Env) absetHot(n *vfNode, rng *kit.RNG, keys []c11Key, lat time.Duration, st *c11AbsetStats) {
	e.step("hot(%d shared cursors)", len(keys))
	var wg sync.WaitGroup
	for c := 0; c < 3; c++ {
		wg.Add(1)
		go func(cl int, r *kit.RNG) {
			defer wg.Done()
			known := map[c11Key]int64{}
			for i, ops := 0, kit.Scale(40, 60); i < ops; i++ {
				k := keys[r.Intn(len(keys))]
				srv := n.Server()
				if srv == nil {
					return
				}
				switch x := r.Intn(10); {
				case x < 3:
					if f := e.doFetch(n, cl, k, "abset-hot"); f.OK {
						known[k] = f.Val
						e.judgeNow(f, true) // other clients are running: finish() judges with the complete history
					}
				case x < 5:
					v := e.absetNewVal()
					if op := e.doSetCtx(n, cl, k, "abset-hot/new", v, "normal", e.timeout()); op.OK {
						known[k] = v
					}
				case x < 7:
					v, ok := known[k]
					ph := "abset-hot/recommit"
					if !ok || v < 0 {
						v, ph = e.absetNewVal(), "abset-hot/new"
					}
					if op := e.doSetCtx(n, cl, k, ph, v, "normal", e.timeout()); op.OK {
						known[k] = v
						if ph == "abset-hot/recommit" {
							atomic.AddInt64(&st.hotRecommits, 1)
						}
					}
				default:
					mode := c11AbsetModes[r.Intn(len(c11AbsetModes))]
					d := lat * time.Duration(r.Range(5, 150)) / 100
					v := e.absetNewVal()
					from := c11LogEnds(srv)
					op := e.doSetCtx(n, cl, k, "abset-hot/abandoned/"+mode, v, mode, d)
					if op.OK {
						known[k] = v
						atomic.AddInt64(&st.finishedInTime, 1)
					} else if op.Refused == "" {
						atomic.AddInt64(&st.abandoned, 1)
						atomic.AddInt64(&st.hotAbandoned, 1)
						if at := e.awaitCommitted(n, from, k, v, 120); at > 0 {
							e.markCommitted(op.Seq, at)
							atomic.AddInt64(&st.seenCommitted, 1)
						} else {
							atomic.AddInt64(&st.neverSeen, 1)
						}
					}
				}
			}
		}(2000+c, rng.Fork(uint64(c)+900))
	}
	wg.Wait()
}

const c11AbsetRule = "seeded histories on a real single-node server (1-2 cursors partitions, 600-6000 B segments, cache on; thorough: 1 in 6 cache off): 16-28 consumers with one cursor each (1 in 5 a control that never gets an abandoned set) run rounds concurrently (4 at a time), each consumer sequentially: " +
	"[set of a new value] [fetch] ABANDONED SetCursor of a new value (context already cancelled | deadline already over | deadline = 5-150% of a measured ack latency | cancel() after 5-150% of it; 1 in 6 two in a row) after which the harness reads the cursors log until it has seen the message committed (<= 120 reads, else the set stays open) [fetch] [cache purge] " +
	"follow-up SetCursor {the value acknowledged last (a consumer told that its update failed commits its old position again) | the value fetched last | a new value | the value of the abandoned set | none; 1 in 4 issued twice; 1 in 8 racing the abandoned set} [cache purge] fetch. " +
	"Between rounds a seeded order of {cache purge by BecomePartitionLeader(), LRU eviction by > 512 acknowledged other cursors, PauseStream + resume, restart on the same data directory, forced compaction + purge}, each followed by a fetch of every cursor. " +
	"At the end 3 clients run 40 (60) operations each over 3 SHARED cursors (fetch | set of a new value | re-commit of what the client last saw acknowledged or fetched | abandoned set + commit observation), then every cursor is fetched as is and after a purge. " +
	"Every set is recorded as its caller saw it (acknowledged only if it returned nil while the caller was still waiting). Oracle = per-cursor register rule for repeated values: a fetch is wrong iff EVERY set that passed the returned value was overwritten by an acknowledged set called after it (for a failed set: called after the harness saw its message committed) and returned before the fetch began, or is witnessed overwritten by an earlier fetch that returned an acknowledged offset; + porcupine with the latent model (state = last acknowledged offset + offsets of failed sets ordered after it; a fetch may return any of them; a failed set's operation ends at its commit observation). " +
	"non-trivial = the history completed, >= 8 abandoned sets were seen committed, >= 3 of them were followed by an acknowledged re-commit of an old value, >= 2 cache-dropping events happened; distinct = config signature + history seed"

func c11RunAbandonSet(rep *kit.Report, unit string, g int, seed uint64) {
	rng := kit.NewRNG(seed)
	cfg := c11Cfg{Parts: int32(1 + g%2), SegBytes: []int64{600, 1500, 6000}[rng.Intn(3)], Clients: 4, CleanMode: "forced"}
	cfg.CacheOff = kit.Thorough() && g%6 == 5
	events := []string{"purge", "restart", "evict", "pause", "compact"}
	for i := len(events) - 1; i > 0; i-- {
		j := rng.Intn(i + 1)
		events[i], events[j] = events[j], events[i]
	}
	events = events[:kit.Scale(4, 5)]
	if kit.Thorough() {
		events = append(events, []string{"purge", "restart", "pause"}[rng.Intn(3)])
	}
	for _, ev := range events {
		cfg.Steps = append(cfg.Steps, "abset-then-"+ev)
	}
	e, err := c11NewSingle(rep, unit, seed, cfg)
	if err != nil {
		rep.Inconc(fmt.Sprintf("server start failed: %v", err))
		return
	}
	defer e.close()
	e.repeat = true
	rep.Eval()
	n := e.c.Nodes["a"]
	alive := func() bool {
		e.mu.Lock()
		defer e.mu.Unlock()
		return !e.inconc && !e.failed
	}
	agents := make([]*c11AbsetAgent, rng.Range(16, 28))
	for i := range agents {
		agents[i] = &c11AbsetAgent{idx: i, k: c11Key{fmt.Sprintf("as%d", i), fmt.Sprintf("ass%d", i%3), int32(i % 4)},
			rng: rng.Fork(uint64(i) + 100), lastAcked: -1, lastFetched: -1, control: i%5 == 4}
	}
	st := &c11AbsetStats{}
	fetchAll := func(phase string) {
		for _, a := range agents {
			if f := e.fetchQuiescent(n, a.k, phase); f.OK {
				a.lastFetched = f.Val
				e.judgeNow(f, false)
				rep.Count("quiescent_fetches", 1)
			}
		}
	}
	scratch := c11Key{"aslat", "ass", 0}
	done := 0
	for round, ev := range events {
		if !alive() {
			break
		}
		// ack latency of one ordinary set (workload parameter only)
		lat := 2 * time.Millisecond
		if s := e.doSetCtx(n, 0, scratch, "abset/latency-probe", e.absetNewVal(), "normal", e.timeout()); s.OK && s.Ret > s.Call {
			lat = time.Duration(s.Ret - s.Call)
		}
		rep.Max("ack_latency_us_max", int64(lat/time.Microsecond))
		e.step("round-%d(ack latency %s)", round, lat)
		kit.Parallel(len(agents), 4, func(i int) { e.absetRound(n, agents[i], lat, st) })
		if !alive() {
			break
		}
		phase := "after-" + ev
		switch ev {
		case "purge":
			e.step("purge")
			if !cfg.CacheOff {
				e.purge(n.Server())
			}
		case "evict":
			e.evict(n, rng)
			phase = "after-eviction"
		case "pause":
			if !e.pauseAll(n) {
				continue
			}
			phase = "after-resume"
		case "restart":
			if !e.restartSingle() {
				break
			}
		case "compact":
			e.step("compact")
			e.compactQuiescent(n.Server())
			if !cfg.CacheOff {
				e.purge(n.Server())
			}
			phase = "after-compaction"
		}
		if !alive() {
			break
		}
		done++
		rep.Count("transitions_"+ev, 1)
		fetchAll(phase)
	}
	if alive() {
		// shared cursors, overlapping clients
		hot := []c11Key{{"ash0", "assh", 0}, {"ash1", "assh", 0}, {"ash0", "assh", 1}}
		lat := 2 * time.Millisecond
		if s := e.doSetCtx(n, 0, scratch, "abset/latency-probe", e.absetNewVal(), "normal", e.timeout()); s.OK && s.Ret > s.Call {
			lat = time.Duration(s.Ret - s.Call)
		}
		e.absetHot(n, rng, hot, lat, st)
		fetchHot := func(phase string) {
			for _, k := range hot {
				if f := e.fetchQuiescent(n, k, phase); f.OK {
					e.judgeNow(f, false)
					rep.Count("quiescent_fetches", 1)
				}
			}
		}
		fetchHot("after-hot")
		e.step("final")
		if !cfg.CacheOff {
			e.purge(n.Server())
		}
		fetchHot("final")
		fetchAll("final")
	}
	var segs int64
	if srv := n.Server(); srv != nil {
		_, segs = c11LogStats(srv)
	}
	e.finish()

	// fetches that returned the value of a set that had failed for its caller
	// (admissible as long as no later set was acknowledged): how often the
	// open operation was actually visible
	failedVal := map[int64]bool{}
	var fromFailed int64
	for _, o := range e.snapshot() {
		if o.Kind == "set" && !o.OK {
			failedVal[o.Val] = true
		}
	}
	for _, o := range e.snapshot() {
		if o.Kind == "fetch" && o.OK && failedVal[o.Val] {
			fromFailed++
		}
	}
	e.mu.Lock()
	complete := !e.inconc
	steps := append([]string(nil), e.steps...)
	nops := len(e.ops)
	e.mu.Unlock()
	rep.Count("ops", int64(nops))
	rep.Count("abandoned_sets", st.abandoned)
	st.byMode.Range(func(k, v any) bool {
		rep.Count("abandoned_sets_"+k.(string), atomic.LoadInt64(v.(*int64)))
		return true
	})
	rep.Count("abandoned_sets_seen_committed", st.seenCommitted)
	rep.Count("abandoned_sets_never_seen_committed", st.neverSeen)
	rep.Count("short_deadline_sets_acknowledged_in_time", st.finishedInTime)
	rep.Count("acknowledged_recommit_of_old_value_after_committed_abandoned_set", st.recommitAfterSeen)
	rep.Count("acknowledged_new_value_after_committed_abandoned_set", st.newAfterSeen)
	rep.Count("acknowledged_set_of_the_abandoned_value_itself", st.sameAsAbandoned)
	rep.Count("acknowledged_recommit_without_earlier_failure", st.recommitNoFailure)
	rep.Count("abandoned_set_without_followup", st.noFollowup)
	rep.Count("followup_racing_the_abandoned_set", st.racing)
	rep.Count("shared_cursor_phase_abandoned_sets", st.hotAbandoned)
	rep.Count("shared_cursor_phase_acknowledged_recommits", st.hotRecommits)
	rep.Count("fetches_returning_the_value_of_a_failed_set", fromFailed)
	rep.Count("cache_purges", atomic.LoadInt64(&e.purges))
	rep.Count("restarts", int64(e.restarts))
	rep.Count("pause_resume", int64(e.pauses))
	rep.Count("compaction_removed_records", atomic.LoadInt64(&e.compactRemoved))
	rep.Max("max_segment_files_all_partitions", segs)
	if e.cacheFull {
		rep.Count("lru_filled_to_capacity", 1)
	}
	if complete && st.seenCommitted >= 8 && st.recommitAfterSeen >= 3 && done >= 2 {
		rep.Nontrivial(fmt.Sprintf("%s/%d", cfg.sig(), seed))
	}
	rep.Sample(map[string]any{"history_seed": seed, "config": cfg.sig(), "steps": steps, "ops": nops,
		"abandoned": st.abandoned, "seen_committed": st.seenCommitted, "recommits_after_seen": st.recommitAfterSeen})
}

// TestVerifC11AbandonSet runs the abandoned-set histories of one shard.
func TestVerifC11AbandonSet(t *testing.T) {
	shard, shards := kit.EnvInt("C11_SHARD", 0), kit.EnvInt("C11_SHARDS", 1)
	unit := os.Getenv("VERIF_UNIT")
	if unit == "" {
		unit = fmt.Sprintf("abandonset%d", shard)
	}
	rep := kit.NewReport("C11", unit)
	defer rep.Write()
	rep.SetRule(c11AbsetRule)
	rep.Assume("a SetCursor counts as succeeded only if it returned nil while its caller was still waiting; every other set (caller's context done, deadline exceeded, transport error) has an unknown outcome: it may or may not become what fetches return, and it stays an open operation")
	rep.Assume("once the harness has read a failed set's cursor message below the high watermark of the cursors partition (append-only log, compaction keeps the newest message of a key), every SetCursor CALLED after that read is ordered behind it: an acknowledged one is the most recent successful set and must be what fetches return, cached or not; the number of log reads only bounds the wait (no oracle uses a time value)")
	total := kit.Scale(4, 24)
	root := kit.NewRNG(kit.Mix(kit.Seed(), 0xC11AB))
	for g := 0; g < total; g++ {
		seed := root.Uint64()
		if g%shards != shard {
			continue
		}
		if only := c11ReplaySeed(); only != "" && only != fmt.Sprint(seed) {
			continue
		}
		if rep.NumViolations() >= 4 {
			break
		}
		c11RunAbandonSet(rep, unit, g, seed)
	}
}
