//go:build verif

package server

// Shared helpers for the /verif server harnesses.  Everything is prefixed vf.
// Every cluster gets its own nats-server on a random port and every Liftbridge
// server listens on port 0, so harness processes can run in parallel.

import (
	"context"
	"errors"
	"fmt"
	"os"
	"path/filepath"
	"sort"
	"sync"
	"time"

	client "github.com/liftbridge-io/liftbridge-api/v2/go"
	gnatsd "github.com/nats-io/nats-server/v2/server"
	natsdTest "github.com/nats-io/nats-server/v2/test"
	"github.com/nats-io/nats.go"

	kit "github.com/liftbridge-io/liftbridge/internal/verifkit"
	"github.com/liftbridge-io/liftbridge/server/commitlog"
	"github.com/liftbridge-io/liftbridge/server/verifhook"
)

// ---------------------------------------------------------------- hook mux

type vfHookFn func(args ...interface{}) error

type vfHookMux struct {
	mu  sync.RWMutex
	h   map[string]map[int]vfHookFn
	seq int
}

var vfHooks = func() *vfHookMux {
	m := &vfHookMux{h: map[string]map[int]vfHookFn{}}
	verifhook.Set(m.dispatch)
	return m
}()

func (m *vfHookMux) dispatch(name string, args ...interface{}) error {
	m.mu.RLock()
	hs := m.h[name]
	fns := make([]vfHookFn, 0, len(hs))
	for _, f := range hs {
		fns = append(fns, f)
	}
	m.mu.RUnlock()
	for _, f := range fns {
		if err := f(args...); err != nil {
			return err
		}
	}
	return nil
}

// On installs a handler for a named point; the returned func removes it.
func (m *vfHookMux) On(name string, fn vfHookFn) (remove func()) {
	m.mu.Lock()
	defer m.mu.Unlock()
	m.seq++
	id := m.seq
	if m.h[name] == nil {
		m.h[name] = map[int]vfHookFn{}
	}
	m.h[name][id] = fn
	return func() {
		m.mu.Lock()
		delete(m.h[name], id)
		m.mu.Unlock()
	}
}

// ---------------------------------------------------------------- waiting

var errVfTimeout = errors.New("watchdog: condition not reached (inconclusive)")

// vfWait polls a *logical* condition; the wall-clock bound is only a watchdog
// whose expiry callers must treat as inconclusive, never as a violation.
func vfWait(timeout time.Duration, cond func() bool) bool {
	deadline := time.Now().Add(timeout)
	for {
		if cond() {
			return true
		}
		if time.Now().After(deadline) {
			return false
		}
		time.Sleep(5 * time.Millisecond)
	}
}

func vfWorkDir(tag string) string {
	base := os.Getenv("VERIF_WORK")
	if base == "" {
		base = os.TempDir()
	}
	d, err := os.MkdirTemp(base, "vf-"+tag+"-")
	if err != nil {
		panic(err)
	}
	return d
}

// ---------------------------------------------------------------- cluster

// vfNode: Srv and Up are written by StartNode/StopNode and may be read by
// monitor goroutines, so they are only accessed through the methods below.
type vfNode struct {
	ID  string
	Cfg *Config
	mu  sync.RWMutex
	Srv *Server
	Up  bool
}

// Server returns the running server or nil.
func (n *vfNode) Server() *Server {
	n.mu.RLock()
	defer n.mu.RUnlock()
	if !n.Up {
		return nil
	}
	return n.Srv
}

// IsUp reports whether the node is running.
func (n *vfNode) IsUp() bool { return n.Server() != nil }

type vfCluster struct {
	NS    *gnatsd.Server
	URL   string
	Dir   string
	Nodes map[string]*vfNode
	IDs   []string
	NC    *nats.Conn // harness-side NATS connection (raw publishes, ack inboxes)
	mut   func(*Config)
}

func vfStartNATS() (*gnatsd.Server, string) {
	opts := natsdTest.DefaultTestOptions
	opts.Port = -1
	opts.NoLog = true
	opts.NoSigs = true
	ns := natsdTest.RunServer(&opts)
	return ns, ns.ClientURL()
}

func (c *vfCluster) newConfig(id string, seed bool) *Config {
	cfg := NewDefaultConfig()
	cfg.Clustering.ServerID = id
	cfg.Clustering.Namespace = "vf"
	cfg.Clustering.RaftBootstrapSeed = seed
	cfg.Clustering.RaftSnapshots = 1
	cfg.DataDir = filepath.Join(c.Dir, id)
	cfg.LogSilent = true
	cfg.EmbeddedNATS = false
	cfg.NATS.Servers = []string{c.URL}
	cfg.Host = "127.0.0.1"
	cfg.Port = 0
	cfg.Telemetry.Enabled = false
	cfg.Clustering.MinISR = 1
	if c.mut != nil {
		c.mut(cfg)
	}
	return cfg
}

// vfNewCluster starts n servers "a","b",... on a private NATS server.  mut can
// adjust each config before start.
func vfNewCluster(tag string, n int, mut func(*Config)) (*vfCluster, error) {
	c := &vfCluster{Dir: vfWorkDir(tag), Nodes: map[string]*vfNode{}, mut: mut}
	c.NS, c.URL = vfStartNATS()
	nc, err := nats.Connect(c.URL)
	if err != nil {
		c.NS.Shutdown()
		return nil, err
	}
	c.NC = nc
	for i := 0; i < n; i++ {
		id := string(rune('a' + i))
		c.IDs = append(c.IDs, id)
		node := &vfNode{ID: id, Cfg: c.newConfig(id, i == 0)}
		c.Nodes[id] = node
		if err := c.StartNode(id); err != nil {
			c.Stop()
			return nil, fmt.Errorf("start %s: %v", id, err)
		}
	}
	if _, err := c.MetaLeader(20 * time.Second); err != nil {
		c.Stop()
		return nil, err
	}
	if n > 1 {
		ok := vfWait(20*time.Second, func() bool {
			l := c.metaLeaderNow()
			if l == nil {
				return false
			}
			f := l.getRaft().GetConfiguration()
			if f.Error() != nil {
				return false
			}
			return len(f.Configuration().Servers) == n
		})
		if !ok {
			c.Stop()
			return nil, fmt.Errorf("cluster did not reach size %d: %w", n, errVfTimeout)
		}
	}
	return c, nil
}

func (c *vfCluster) StartNode(id string) error {
	n := c.Nodes[id]
	if n.IsUp() {
		return nil
	}
	srv, err := RunServerWithConfig(n.Cfg)
	if err != nil {
		return err
	}
	n.mu.Lock()
	n.Srv, n.Up = srv, true
	n.mu.Unlock()
	return nil
}

func (c *vfCluster) StopNode(id string) error {
	n := c.Nodes[id]
	n.mu.Lock()
	if !n.Up {
		n.mu.Unlock()
		return nil
	}
	n.Up = false
	srv := n.Srv
	n.mu.Unlock()
	return srv.Stop()
}

func (c *vfCluster) Stop() {
	for _, id := range c.IDs {
		if n := c.Nodes[id]; n != nil {
			c.StopNode(id)
		}
	}
	if c.NC != nil {
		c.NC.Close()
	}
	if c.NS != nil {
		c.NS.Shutdown()
	}
}

// Cleanup stops everything and removes the data directory.
func (c *vfCluster) Cleanup() {
	c.Stop()
	os.RemoveAll(c.Dir)
}

func (c *vfCluster) Running() []*vfNode {
	var out []*vfNode
	for _, id := range c.IDs {
		if n := c.Nodes[id]; n.IsUp() {
			out = append(out, n)
		}
	}
	return out
}

func (c *vfCluster) metaLeaderNow() *Server {
	var leader *Server
	for _, n := range c.Running() {
		srv := n.Server()
		if srv == nil || srv.getRaft() == nil {
			continue
		}
		if srv.IsLeader() {
			if leader != nil {
				return nil
			}
			leader = srv
		}
	}
	return leader
}

// MetaLeader waits until exactly one running server is the metadata leader.
func (c *vfCluster) MetaLeader(timeout time.Duration) (*Server, error) {
	var l *Server
	if !vfWait(timeout, func() bool { l = c.metaLeaderNow(); return l != nil }) {
		return nil, fmt.Errorf("no metadata leader: %w", errVfTimeout)
	}
	return l, nil
}

// Partition returns the partition object on a node (nil if unknown there).
func (n *vfNode) Partition(stream string, id int32) *partition {
	srv := n.Server()
	if srv == nil {
		return nil
	}
	return srv.metadata.GetPartition(stream, id)
}

// PartitionLeader waits until every running server names the same leader for
// the partition, that server is running and its partition object is leading.
func (c *vfCluster) PartitionLeader(stream string, id int32, timeout time.Duration) (*vfNode, error) {
	var found *vfNode
	ok := vfWait(timeout, func() bool {
		found = nil
		name := ""
		for _, n := range c.Running() {
			p := n.Partition(stream, id)
			if p == nil {
				return false
			}
			l, _ := p.GetLeader()
			if l == "" || (name != "" && l != name) {
				return false
			}
			name = l
		}
		ln := c.Nodes[name]
		if ln == nil || !ln.IsUp() {
			return false
		}
		p := ln.Partition(stream, id)
		if p == nil || !p.IsLeader() {
			return false
		}
		found = ln
		return true
	})
	if !ok {
		return nil, fmt.Errorf("no agreed partition leader for %s/%d: %w", stream, id, errVfTimeout)
	}
	return found, nil
}

// CreateStream creates a stream through the in-process API of the metadata
// leader and waits until every running server knows all its partitions.
func (c *vfCluster) CreateStream(req *client.CreateStreamRequest) error {
	l, err := c.MetaLeader(15 * time.Second)
	if err != nil {
		return err
	}
	ctx, cancel := context.WithTimeout(context.Background(), 15*time.Second)
	defer cancel()
	if _, err := l.api.CreateStream(ctx, req); err != nil {
		return err
	}
	parts := req.Partitions
	if parts == 0 {
		parts = 1
	}
	ok := vfWait(15*time.Second, func() bool {
		for _, n := range c.Running() {
			for i := int32(0); i < parts; i++ {
				if n.Partition(req.Name, i) == nil {
					return false
				}
			}
		}
		return true
	})
	if !ok {
		return fmt.Errorf("stream %s not visible everywhere: %w", req.Name, errVfTimeout)
	}
	return nil
}

// vfSingle starts a one-node cluster.
func vfSingle(tag string, mut func(*Config)) (*vfCluster, *Server, error) {
	c, err := vfNewCluster(tag, 1, mut)
	if err != nil {
		return nil, nil, err
	}
	return c, c.Nodes["a"].Server(), nil
}

// ---------------------------------------------------------------- log reading

// vfLogRec is one message as read from a partition's commit log.
type vfLogRec struct {
	Offset    int64
	Key       []byte
	Value     []byte
	Headers   map[string][]byte
	Timestamp int64
	Epoch     uint64
}

var vfCancelledCtx = func() context.Context {
	ctx, cancel := context.WithCancel(context.Background())
	cancel()
	return ctx
}()

// vfReadLog returns everything currently readable from start (uncommitted:
// up to the log end; committed: up to the HW).  The context is already
// cancelled so the reader returns instead of waiting at the end.
func vfReadLog(l commitlog.CommitLog, start int64, uncommitted bool) (recs []vfLogRec, err error) {
	defer func() {
		if p := recover(); p != nil {
			err = fmt.Errorf("log read panic: %v", p)
		}
	}()
	if l.OldestOffset() == -1 {
		return nil, nil
	}
	if start < l.OldestOffset() {
		start = l.OldestOffset()
	}
	if start > l.NewestOffset() {
		return nil, nil
	}
	r, err := l.NewReader(start, uncommitted)
	if err != nil {
		return nil, err
	}
	hb := make([]byte, 28)
	for i := 0; i < 10000000; i++ {
		m, off, ts, ep, rerr := r.ReadMessage(vfCancelledCtx, hb)
		if rerr != nil {
			return recs, nil
		}
		rec := vfLogRec{Offset: off, Timestamp: ts, Epoch: ep, Headers: map[string][]byte{}}
		rec.Key = append([]byte(nil), m.Key()...)
		rec.Value = append([]byte(nil), m.Value()...)
		for k, v := range m.Headers() {
			rec.Headers[k] = append([]byte(nil), v...)
		}
		recs = append(recs, rec)
	}
	return recs, fmt.Errorf("log reader did not end")
}

// ---------------------------------------------------------------- misc

func vfSortedStrings(in []string) []string {
	out := append([]string(nil), in...)
	sort.Strings(out)
	return out
}

var _ = kit.Seed
