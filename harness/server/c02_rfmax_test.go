//go:build verif

package server

// C02, family F15: HOW the stream's replication factor is expressed.
//
// Every other family creates its stream with an explicit replication factor
// equal to the cluster size (3).  A stream can also be created with the
// "maximum" sentinel (ReplicationFactor -1 in the CreateStreamRequest, which
// stays -1 in the partition's protobuf although the partition is replicated to
// every server; the internal __cursors stream is created like that by
// default), or with a factor smaller than the cluster (2 on 3 servers: one
// server holds the partition's metadata and an empty log but is no replica).
// The property does not depend on how the factor was written down: whatever the
// number of followers is, a message counts as committed only when every
// in-sync replica has stored it, and everything that was once committed must be
// served by every later leader.
//
// Scenario (a plan = replication factor + 2..3 rounds, each round a failover):
//
//	publish ALL, settle (all replicas in sync)
//	hold all followers / one follower at the follower.beforeFetch gate
//	publish a burst WITHOUT any AckPolicy_ALL message (LEADER, NONE, or NONE
//	  followed by LEADER) and wait until the leader has written it: the held
//	  in-sync followers do not have it
//	stop the leader, release the followers, wait for the election of one of them
//	leader-completeness check; restart the former leader, publish ALL, settle
//
// The ISR must not shrink while the followers are held (ReplicaMaxLagTime is
// 10 s for this family; a shrink observed before the stop makes the scenario
// inconclusive): the burst then is uncommitted by definition when the leader
// stops, and nothing of it may have been covered by a HW or served to a
// subscriber unless the new leader serves it too.
//
// Oracle: the committed table / leader completeness / ALL-ack checks and the
// attached subscriber of the other families (c02_test.go, c02_consumer_test.go),
// nothing else.  Fingerprints carry ":rf=<max|2|3>:batch-without-ALL-while-followers-held".

import (
	"fmt"
	"os"
	"strings"
	"testing"
	"time"

	client "github.com/liftbridge-io/liftbridge-api/v2/go"

	kit "github.com/liftbridge-io/liftbridge/internal/verifkit"
)

type c02F15Round struct {
	hold     string // "all": every follower, "one": one of them
	policies []client.AckPolicy
}

type c02F15Plan struct {
	rf     int32 // as written into the CreateStreamRequest
	rounds []c02F15Round
}

func (pl c02F15Plan) rfName() string {
	if pl.rf == maxReplicationFactor {
		return "max"
	}
	return fmt.Sprint(pl.rf)
}

func (r c02F15Round) String() string {
	var ps []string
	for _, p := range r.policies {
		ps = append(ps, p.String())
	}
	return "hold-" + r.hold + ":" + strings.Join(ps, "+")
}

func (pl c02F15Plan) String() string {
	var rs []string
	for _, r := range pl.rounds {
		rs = append(rs, r.String())
	}
	return "rf=" + pl.rfName() + "/" + strings.Join(rs, ",")
}

// c02F15Cur is the plan of the scenario being set up (read by the stream hook).
var c02F15Cur c02F15Plan

func init() {
	c02FamilyCfg["F15"] = func(cfg *Config) { cfg.Clustering.ReplicaMaxLagTime = 10 * time.Second }
	c02FamilyStream["F15"] = func(req *client.CreateStreamRequest) { req.ReplicationFactor = c02F15Cur.rf }
}

// c02F15Plans: the first three plans are fixed (they are the quick tier): the
// maximum sentinel with all followers held, a factor below the cluster size,
// the maximum sentinel with one follower held and mixed bursts; the others are
// drawn from the same dimensions.
func c02F15Plans(n int, rng *kit.RNG) []c02F15Plan {
	L, N := client.AckPolicy_LEADER, client.AckPolicy_NONE
	plans := []c02F15Plan{
		{rf: maxReplicationFactor, rounds: []c02F15Round{{"all", []client.AckPolicy{L}}, {"all", []client.AckPolicy{N}}}},
		{rf: 2, rounds: []c02F15Round{{"all", []client.AckPolicy{N}}, {"all", []client.AckPolicy{L}}}},
		{rf: maxReplicationFactor, rounds: []c02F15Round{{"one", []client.AckPolicy{N, L}}, {"all", []client.AckPolicy{N, L}}}},
	}
	bursts := [][]client.AckPolicy{{L}, {N}, {N, L}}
	for len(plans) < n {
		pl := c02F15Plan{rf: []int32{maxReplicationFactor, 2, maxReplicationFactor, 3}[rng.Intn(4)]}
		for r, nr := 0, rng.Range(2, 3); r < nr; r++ {
			hold := "all"
			if rng.Chance(1, 3) {
				hold = "one"
			}
			pl.rounds = append(pl.rounds, c02F15Round{hold, bursts[rng.Intn(len(bursts))]})
		}
		plans = append(plans, pl)
	}
	return plans[:n]
}

func c02F15IsReplica(p *partition, id string) bool {
	for _, r := range p.GetReplicas() {
		if r == id {
			return true
		}
	}
	return false
}

// f15Settle is settle() for a partition that is not replicated to every
// server: only running replicas have to reach the leader's end of log.
func (e *c02Env) f15Settle(label string) bool {
	l := e.leader()
	if l == nil {
		return false
	}
	lp := l.Partition(e.stream, 0)
	target := lp.log.NewestOffset()
	ok := vfWait(40*time.Second, func() bool {
		if lp.log.HighWatermark() < target {
			return false
		}
		for _, n := range e.c.Running() {
			if !c02F15IsReplica(lp, n.ID) {
				continue
			}
			p := n.Partition(e.stream, 0)
			if p == nil || p.log.NewestOffset() < target || p.log.HighWatermark() < target {
				return false
			}
		}
		return true
	})
	if !ok {
		e.inconclusive(fmt.Sprintf("replicas did not settle at %d (%s)", target, label))
	}
	e.observe(label)
	e.checkLeaderComplete(label)
	return ok
}

func (e *c02Env) f15Bad() bool {
	e.mu.Lock()
	defer e.mu.Unlock()
	return e.failed || e.inconc
}

// c02F15RunRound runs one failover round; it reports whether the round reached
// its situation (leader stopped holding a burst without ALL messages that no
// held follower, all of them still in the ISR, had fetched) and completed.
func c02F15RunRound(e *c02Env, rng *kit.RNG, pl c02F15Plan, ri int) bool {
	rd := pl.rounds[ri]
	label := fmt.Sprintf("f15-r%d", ri)
	l := e.leader()
	if l == nil {
		return false
	}
	lp := l.Partition(e.stream, 0)
	var fol []string
	for _, id := range lp.GetReplicas() {
		if id != l.ID {
			fol = append(fol, id)
		}
	}
	want := 3
	if pl.rf > 0 {
		want = int(pl.rf)
	}
	if len(fol)+1 != want {
		e.inconclusive(fmt.Sprintf("stream created with replication factor %d has replicas %v", pl.rf, lp.GetReplicas()))
		return false
	}
	e.step("round %d: %s leader=%s followers=%v (partition protobuf RF=%d)", ri, rd, l.ID, fol, lp.ReplicationFactor)
	if !e.publishAcked(rng.Range(1, 3), client.AckPolicy_ALL, 40*time.Second) {
		e.inconclusive("publishes before the round not acked")
		return false
	}
	if !e.f15Settle(label + "-initial") {
		return false
	}
	if !vfWait(40*time.Second, func() bool { return lp.ISRSize() == want }) {
		e.inconclusive("ISR not complete before the round")
		return false
	}
	held := fol
	if rd.hold == "one" && len(fol) > 1 {
		held = []string{fol[rng.Intn(len(fol))]}
	}
	for _, h := range held {
		e.hold(h)
	}
	for _, h := range held {
		if !e.waitParked(h) {
			e.inconclusive("follower " + h + " did not park at the fetch gate")
			return false
		}
	}
	base := lp.log.NewestOffset()
	k := 0
	for _, pol := range rd.policies {
		n := rng.Range(1, 3)
		msgs := e.publish(n, pol, 15*time.Second)
		if pol != client.AckPolicy_NONE && !e.allAcked(msgs) {
			e.inconclusive("burst not acknowledged by the leader")
			return false
		}
		k += n
	}
	if !vfWait(20*time.Second, func() bool { return lp.log.NewestOffset() >= base+int64(k) }) {
		e.inconclusive("leader did not write the burst")
		return false
	}
	// Pacing, not oracle: give the leader a moment to do whatever it does
	// with the burst (nothing can be committed: the held followers are in the
	// ISR and do not have it) and the subscriber a moment to be served.
	early := vfWait(300*time.Millisecond, func() bool { return lp.log.HighWatermark() > base })
	e.observe(label + "-burst-written")
	inISR, lacking := true, true
	for _, h := range held {
		if !lp.inISR(h) {
			inISR = false
		}
		if hp := e.c.Nodes[h].Partition(e.stream, 0); hp == nil || hp.log.NewestOffset() > base {
			lacking = false
		}
	}
	if !inISR {
		e.inconclusive("ISR shrank while the followers were held, before the leader could be stopped")
		return false
	}
	if !lacking {
		e.inconclusive("a held follower has fetched the burst")
		return false
	}
	cls := "rf=" + pl.rfName() + ":" + rd.String()
	e.count("f15_leader_stopped_with_burst_without_ALL_unfetched_by_held_in_sync_followers:"+cls, 1)
	if early {
		e.count("f15_leader_hw_covered_the_burst_while_no_held_in_sync_follower_had_it:"+cls, 1)
		e.step("leader %s HW=%d covers the burst (offsets %d..%d) that the held in-sync followers %v do not have", l.ID, lp.log.HighWatermark(), base+1, base+int64(k), held)
	}
	e.stop(l.ID)
	for _, h := range held {
		e.release(h)
	}
	nl := e.waitLeaderNot(l.ID)
	if nl == nil {
		return false
	}
	e.checkLeaderComplete(label + "-after-failover")
	if e.f15Bad() {
		return false
	}
	if !e.restart(l.ID) || !e.waitFollows(l.ID, nl.ID) {
		return false
	}
	if !e.publishAcked(2, client.AckPolicy_ALL, 45*time.Second) {
		e.inconclusive("publishes after the former leader rejoined not acked")
		return false
	}
	if !e.f15Settle(label + "-former-leader-rejoined") {
		return false
	}
	return !e.f15Bad()
}

// TestVerifC02RF runs family F15.
func TestVerifC02RF(t *testing.T) {
	const family = "F15"
	rep := kit.NewReport("C02", family)
	defer rep.Write()
	rep.SetRule("family F15: real 3-server clusters whose stream is created with replication factor -1 (the 'maximum' sentinel, kept as -1 in the partition protobuf), 2 (one server is no replica) or an explicit 3; per scenario 2..3 failover rounds: hold all / one follower at the follower.beforeFetch gate, publish a burst without any AckPolicy_ALL message (LEADER, NONE, NONE then LEADER), wait until the leader wrote it, stop the leader, release the followers, one of them is elected, the former leader restarts and rejoins; same observers and oracle as the other real-cluster families (committed table from every replica's HW, leader completeness, ALL acks, attached subscriber); non-trivial = every round stopped the leader while it held the burst, all held followers were still in its ISR and none had fetched it, and the scenario completed without a watchdog; distinct = plan + seed")
	rep.Assume("network partitions between NATS clients are not simulated: a follower is kept from fetching at the follower.beforeFetch hook, the leader is stopped with Server.Stop(), which checkpoints the HW")
	n := kit.Scale(3, 9)
	root := kit.NewRNG(kit.Mix(kit.Seed(), 15015))
	plans := c02F15Plans(n, root.Fork(1))
	for i := 0; i < n && rep.NumViolations() < 3; i++ {
		seed := root.Uint64()
		pl := plans[i]
		c02F15Cur = pl
		e, err := c02NewEnv(rep, family, seed)
		if err != nil {
			rep.Inconc(fmt.Sprintf("cluster start failed (%s): %v", pl, err))
			continue
		}
		e.fpClass = ":rf=" + pl.rfName() + ":batch-without-ALL-while-followers-held"
		e.step("plan %s", pl)
		stop, done := make(chan struct{}), make(chan struct{})
		cdone := make(chan struct{})
		go e.sampler(stop, done)
		go e.consumer(stop, cdone)
		rng := kit.NewRNG(seed)
		reached := 0
		for ri := range pl.rounds {
			if !c02F15RunRound(e, rng, pl, ri) {
				break
			}
			reached++
		}
		close(stop)
		<-done
		<-cdone
		e.observe("final")
		e.checkServedCommitted()
		rep.Eval()
		e.mu.Lock()
		complete := !e.inconc && reached == len(pl.rounds)
		rep.Count("committed_offsets_observed", int64(len(e.committed)))
		rep.Count("all_acks", int64(len(e.acked)))
		rep.Count("leader_elections_seen", int64(len(e.elected)))
		rep.Count("trace_events", int64(len(e.trace)))
		rep.Count("messages_served_to_attached_consumer", int64(e.nserved))
		rep.Count("f15_rounds_completed", int64(reached))
		rep.Count("f15_scenarios_rf="+pl.rfName(), 1)
		for k, v := range e.counts {
			rep.Count(k, v)
		}
		steps := append([]string(nil), e.steps...)
		e.mu.Unlock()
		if complete {
			rep.Nontrivial(fmt.Sprintf("%s/%s/%d", family, pl, seed))
		}
		rep.Sample(map[string]any{"family": family, "plan": pl.String(), "seed": seed, "steps": steps})
		if os.Getenv("C02_TRACE") != "" {
			e.mu.Lock()
			fmt.Fprintf(os.Stderr, "---- full trace %s/%d\n%s\n----\n", family, seed, strings.Join(e.trace, "\n"))
			e.mu.Unlock()
		}
		e.close()
	}
}
