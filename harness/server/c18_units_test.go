//go:build verif

package server

import (
	"fmt"
	"testing"
	"time"

	"github.com/hashicorp/raft"

	kit "github.com/liftbridge-io/liftbridge/internal/verifkit"
)

const c18Rule = "each scenario runs a real in-process server (own NATS server, Raft, BoltDB log store) with the activity stream enabled and issues a seeded program of create / delete / pause / resume-by-publish / set-read-only / consumer-group join / leave operations (plus what the server commits on its own: creation of __activity and __cursors, auto-pause, consumer expiry) through the in-process API while the hooks in publishActivityEvent inject a bounded number of publish failures and published-but-not-recorded faults (at most 2 per event: back-off 1 s + 2 s) and the controller is restarted / failed over at seeded positions; after the faults stop a fence operation is committed and awaited; oracle: the committed part of __activity read from offset 0 is compared with the committed Raft log (RaftLogListener entries stitched with the Raft log store by index): every event id is the index of a committed listed operation and carries exactly that operation's fields, first occurrences have strictly increasing ids, every listed operation up to the fence has an event; non-trivial = scenario completed without watchdog, >=6 operations accepted and >=1 injected fault / restart / failover; distinct = program text + fault counts"

// c18Single runs one single-server scenario.
func c18Single(rep *kit.Report, run int, seed uint64) {
	e := c18NewEnv(rep, "single", run, seed)
	rng := e.rng
	consumerTimeout := 15 * time.Second
	if rng.Chance(1, 3) {
		consumerTimeout = time.Duration(rng.Range(800, 2500)) * time.Millisecond
	}
	cursors := rng.Chance(1, 3)
	c, _, err := vfSingle("c18s", e.mut(func(cfg *Config) {
		cfg.Groups.ConsumerTimeout = consumerTimeout
		if cursors {
			cfg.CursorsStream.Partitions = 1
		}
	}))
	if err != nil {
		rep.Inconc(fmt.Sprintf("[single run %d] server start failed: %v", run, err))
		return
	}
	e.c = c
	defer e.close()
	e.attach("a")
	e.installHooks(rng.Range(0, 3), rng.Range(0, 3), rng.Range(10, 40), rng.Range(10, 40), rng.Bool())

	nops := rng.Range(14, 30)
	restartAt := map[int]bool{}
	for i, n := 0, rng.Range(0, 2); i < n; i++ {
		restartAt[rng.Range(3, nops-1)] = true
	}
	for i := 0; i < nops; i++ {
		e.mu.Lock()
		want := e.wantRestart
		stop := e.inconc || e.failed
		e.mu.Unlock()
		if stop {
			break
		}
		if restartAt[i] || want {
			if !e.restartNode("a") {
				break
			}
			if e.leader() == nil {
				break
			}
		}
		e.doOp(e.genOp(1, true))
		if rng.Chance(1, 5) {
			// let the dispatcher catch up now and then; otherwise operations
			// pile up behind a backing-off event (head-of-line blocking)
			time.Sleep(time.Duration(rng.Range(50, 400)) * time.Millisecond)
		}
		if rng.Chance(1, 6) {
			if evs, err := e.readEvents(); err == nil {
				e.absorbAll()
				e.checkSafety(evs)
			}
		}
	}
	e.finish(fmt.Sprintf("fence%d", run))
	e.account()
}

// TestVerifC18Single: single-server scenarios with injected publish faults and
// controller restarts.
func TestVerifC18Single(t *testing.T) {
	rep := kit.NewReport("C18", "single")
	defer rep.Write()
	rep.SetRule(c18Rule)
	rep.Assume("the workload never deletes __activity or makes it read-only (the API refuses the former; the latter stops the feed by configuration)")
	rep.Assume("what a subscriber from offset 0 is served = the committed part of the __activity partition log on its leader (delivery of committed messages is C03's subject)")
	root := kit.NewRNG(kit.Mix(kit.Seed(), 0xC18))
	n := kit.Scale(16, 72)
	seeds := make([]uint64, n)
	for i := range seeds {
		seeds[i] = root.Uint64()
	}
	kit.Parallel(n, kit.Workers(), func(i int) {
		if rep.NumViolations() >= 4 {
			return
		}
		c18Single(rep, i, seeds[i])
	})
}

// c18Snapshot runs one single-server scenario in which a Raft snapshot is
// forced before a restart, so that the restarted controller starts from the
// snapshot instead of replaying the whole log.  trailing > 0 scales Raft's
// TrailingLogs (10240 in production, not configurable in Liftbridge) down so
// that the snapshot also compacts the log.
func c18Snapshot(rep *kit.Report, run int, seed uint64, trailing int) {
	e := c18NewEnv(rep, "snapshot", run, seed)
	rng := e.rng
	c, _, err := vfSingle("c18n", e.mut(nil))
	if err != nil {
		rep.Inconc(fmt.Sprintf("[snapshot run %d] server start failed: %v", run, err))
		return
	}
	e.c = c
	defer e.close()
	e.attach("a")
	e.installHooks(rng.Range(0, 2), rng.Range(0, 2), rng.Range(10, 30), rng.Range(10, 30), false)
	nops := rng.Range(10, 22)
	snapAt := rng.Range(4, nops-2)
	quiesce := rng.Bool()
	for i := 0; i < nops; i++ {
		e.mu.Lock()
		stop := e.inconc || e.failed
		e.mu.Unlock()
		if stop {
			break
		}
		if i == snapAt {
			srv := e.leader()
			if srv == nil {
				break
			}
			if quiesce {
				// let the dispatcher record everything first: the snapshot then
				// covers the last PUBLISH_ACTIVITY entry as well
				target := e.absorbStore(srv, "a")
				vfWait(20*time.Second, func() bool { return srv.activity.LastPublishedRaftIndex()+1 >= target })
			}
			e.absorbStore(srv, "a")
			if trailing > 0 {
				if err := srv.getRaft().ReloadConfig(raft.ReloadableConfig{TrailingLogs: uint64(trailing), SnapshotInterval: 120 * time.Second,
					SnapshotThreshold: 8192, HeartbeatTimeout: time.Second, ElectionTimeout: time.Second}); err != nil {
					e.inconclusive("ReloadConfig: " + err.Error())
					break
				}
			}
			if err := srv.getRaft().Snapshot().Error(); err != nil {
				e.logf("snapshot: %v", err)
			} else {
				e.mu.Lock()
				e.snapshots++
				e.mu.Unlock()
			}
			first, _ := srv.getRaft().store.FirstIndex()
			e.step("snapshot(quiesced=%v,firstIndexAfter=%d,lastPublished=%d)", quiesce, first, srv.activity.LastPublishedRaftIndex())
			if !e.restartNode("a") || e.leader() == nil {
				break
			}
			if srv := e.leader(); srv != nil {
				e.logf("after snapshot restart: lastPublished=%d", srv.activity.LastPublishedRaftIndex())
			}
		}
		e.doOp(e.genOp(1, false))
	}
	e.finish(fmt.Sprintf("fence%d", run))
	e.account()
}

func TestVerifC18Snapshot(t *testing.T) {
	rep := kit.NewReport("C18", "snapshot")
	defer rep.Write()
	rep.SetRule(c18Rule)
	root := kit.NewRNG(kit.Mix(kit.Seed(), 0xC185))
	n := kit.Scale(8, 32)
	seeds := make([]uint64, n)
	for i := range seeds {
		seeds[i] = root.Uint64()
	}
	trailing := kit.EnvInt("C18_TRAILING", 0)
	kit.Parallel(n, kit.Workers(), func(i int) {
		if rep.NumViolations() >= 4 {
			return
		}
		c18Snapshot(rep, i, seeds[i], trailing)
	})
}
