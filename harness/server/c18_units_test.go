//go:build verif

package server

import (
	"bytes"
	"context"
	"encoding/json"
	"fmt"
	"os"
	"os/exec"
	"path/filepath"
	"regexp"
	"strings"
	"syscall"
	"testing"
	"time"

	"github.com/hashicorp/raft"

	client "github.com/liftbridge-io/liftbridge-api/v2/go"

	kit "github.com/liftbridge-io/liftbridge/internal/verifkit"
)

const c18Rule = "each scenario (one child process each) runs a real in-process server (own NATS server, Raft, BoltDB log store) with the activity stream enabled and issues a seeded program of create / delete / pause / resume-by-publish / set-read-only / consumer-group join / leave operations (plus what the server commits on its own: creation of __activity and __cursors, auto-pause, consumer expiry) through the in-process API while the hooks in publishActivityEvent inject a bounded number of publish failures and published-but-not-recorded faults (at most 2 per event: back-off 1 s + 2 s) and the controller is restarted / failed over at seeded positions; after the faults stop a fence operation is committed and awaited; oracle: what a subscription to __activity from the earliest offset delivers (SubscribeInternal on the partition leader; the committed log read only paces the waiting) is compared with the committed Raft log (RaftLogListener entries stitched with the Raft log store by index): every event id is the index of a committed listed operation and carries exactly that operation's fields, first occurrences have strictly increasing ids, every listed operation up to the fence has an event; non-trivial = scenario completed without watchdog, >=6 operations accepted and >=1 injected fault / restart / failover; distinct = program text + fault counts"

// c18Single runs one single-server scenario.
func c18Single(rep *kit.Report, run int, seed uint64) {
	e := c18NewEnv(rep, "single", run, seed)
	rng := e.rng
	// Consumers are never heart-beaten.  In a third of the scenarios they expire
	// quickly (LEAVE operations with expired=true committed by the server on
	// its own); otherwise never.  See drainGroups for why a server with
	// pending expiry timers is not stopped.
	consumerTimeout := time.Hour
	if rng.Chance(1, 3) {
		consumerTimeout = time.Duration(rng.Range(600, 1800)) * time.Millisecond
		e.expiry = true
	}
	cursors := rng.Chance(1, 3)
	c, _, err := vfSingle("c18s", e.mut(func(cfg *Config) {
		cfg.Groups.ConsumerTimeout = consumerTimeout
		if cursors {
			cfg.CursorsStream.Partitions = 1
		}
	}))
	if err != nil {
		rep.Inconc(fmt.Sprintf("[single run %d] server start failed: %v", run, err))
		return
	}
	e.c = c
	defer e.close()
	e.attach("a")
	e.installHooks(rng.Range(0, 3), rng.Range(0, 3), rng.Range(10, 40), rng.Range(10, 40), rng.Bool())

	nops := rng.Range(14, 30)
	restartAt := map[int]bool{}
	for i, n := 0, rng.Range(0, 2); i < n; i++ {
		restartAt[rng.Range(3, nops-1)] = true
	}
	for i := 0; i < nops; i++ {
		e.mu.Lock()
		want := e.wantRestart
		stop := e.inconc || e.failed
		e.mu.Unlock()
		if stop {
			break
		}
		if restartAt[i] || want {
			if !e.restartNode("a") {
				break
			}
			if e.leader() == nil {
				break
			}
		}
		e.doOp(e.genOp(1, true))
		if rng.Chance(1, 5) {
			// let the dispatcher catch up now and then; otherwise operations
			// pile up behind a backing-off event (head-of-line blocking)
			time.Sleep(time.Duration(rng.Range(50, 400)) * time.Millisecond)
		}
		if rng.Chance(1, 6) {
			if evs, err := e.readEvents(); err == nil {
				e.absorbAll()
				e.checkSafety(evs)
			}
		}
	}
	e.finish(fmt.Sprintf("fence%d", run))
	e.account()
}

// TestVerifC18Single: single-server scenarios with injected publish faults and
// controller restarts.
func TestVerifC18Single(t *testing.T) {
	rep := kit.NewReport("C18", "single")
	defer rep.Write()
	rep.SetRule(c18Rule)
	rep.Assume("the workload never deletes __activity or makes it read-only (the API refuses the former; the latter stops the feed by configuration)")
	root := kit.NewRNG(kit.Mix(kit.Seed(), 0xC18))
	n := kit.Scale(32, 360)
	specs := make([]c18ChildSpec, n)
	for i := range specs {
		specs[i] = c18ChildSpec{Unit: "single", Run: i, Seed: root.Uint64()}
	}
	c18RunChildren(rep, "single", specs, kit.Workers())
}

// c18Snapshot runs one single-server scenario in which a Raft snapshot is
// forced before a restart, so that the restarted controller starts from the
// snapshot instead of replaying the whole log.
//
//	variant 0: restart right after the snapshot (nothing follows it in the log)
//	variant 1: one more operation whose event cannot be published yet (two
//	           injected publish failures), then the restart: the log suffix after
//	           the snapshot holds no PUBLISH_ACTIVITY entry
//	variant 2: several more operations, then the restart
//	variant 3: no snapshot; the server is stopped while the dispatcher is
//	           walking a long tail of entries that need no event (bulk > 0)
//
// trailing > 0 scales Raft's TrailingLogs (10240 in production, a Raft default
// Liftbridge does not expose) down so that the snapshot also compacts the log.
func c18Snapshot(rep *kit.Report, unit string, run int, seed uint64, variant, trailing, bulk int) {
	e := c18NewEnv(rep, unit, run, seed)
	rng := e.rng
	c, _, err := vfSingle("c18n", e.mut(func(cfg *Config) { cfg.Groups.ConsumerTimeout = time.Hour }))
	if err != nil {
		rep.Inconc(fmt.Sprintf("[%s run %d] server start failed: %v", unit, run, err))
		return
	}
	e.c = c
	defer e.close()
	e.attach("a")
	e.installHooks(rng.Range(0, 2), rng.Range(0, 2), rng.Range(10, 30), rng.Range(10, 30), false)
	before := rng.Range(6, 14)
	after := rng.Range(4, 10)
	if trailing > 0 {
		// scaled-down TrailingLogs: enough entries for the snapshot to truncate
		// the log, and no operations the server commits on its own (auto-pause),
		// so that the dispatcher is really idle when the snapshot is taken
		before = rng.Range(20, 30)
		e.noAuto = true
	}
	bad := func() bool {
		e.mu.Lock()
		defer e.mu.Unlock()
		return e.inconc || e.failed
	}
	for i := 0; i < before && !bad(); i++ {
		e.doOp(e.genOp(1, false))
	}
	srv := e.leader()
	if srv == nil || bad() {
		e.account()
		return
	}
	if bulk > 0 {
		// enough committed entries (barrier + operation + PUBLISH_ACTIVITY per
		// call) for Raft's real TrailingLogs (10240) to truncate the log at
		// the snapshot
		e.doOp(c18Op{Kind: "create", Stream: "bulk", NParts: 1, RF: 1})
		ctx := context.Background()
		var gate chan struct{}
		if variant == 3 {
			// hold the dispatcher back during the bulk so that afterwards every
			// event's PUBLISH_ACTIVITY entry lies behind the last operation
			gate = make(chan struct{})
			e.mu.Lock()
			e.gate = gate
			e.mu.Unlock()
		}
		for i := 0; i < bulk && !bad(); i++ {
			if _, err := srv.api.SetStreamReadonly(ctx, &client.SetStreamReadonlyRequest{Name: "bulk", Readonly: i%2 == 0}); err != nil {
				e.inconclusive("bulk operation failed: " + err.Error())
			}
		}
		e.step("bulk(readonly x%d,commit=%d)", bulk, srv.getRaft().getCommitIndex())
		if gate != nil {
			e.mu.Lock()
			e.gate = nil
			e.mu.Unlock()
			close(gate)
		}
	}
	if rng.Bool() || trailing > 0 || bulk > 0 {
		// let the dispatcher record everything first.  With a scaled-down
		// TrailingLogs this is required for a fair scenario: the truncation
		// must only remove entries whose events were published and recorded
		// (in production the dispatcher would have to lag >10240 entries).
		e.absorbStore(srv, "a")
		var target uint64
		if ops, _, _ := e.listedOps(); len(ops) > 0 {
			target = ops[len(ops)-1].Index
		}
		ok := vfWait(90*time.Second, func() bool { return srv.activity.LastPublishedRaftIndex() >= target })
		if !ok && (trailing > 0 || bulk > 0) {
			e.inconclusive("dispatcher did not catch up before the snapshot")
			e.account()
			return
		}
	}
	if variant == 3 {
		// stop at once: the dispatcher has just recorded the last event and is
		// walking the PUBLISH_ACTIVITY entries that piled up behind it
		time.Sleep(time.Duration(kit.EnvInt("C18_STOP_DELAY_MS", 0)) * time.Millisecond)
		c18Stage("stopping")
		stopped := e.stopNode("a")
		c18Stage("starting")
		e.step("stopped-during-walk")
		if !stopped || !e.startNode("a") || e.leader() == nil {
			e.account()
			return
		}
		for i := 0; i < after && !bad(); i++ {
			e.doOp(e.genOp(1, false))
		}
		e.finish(fmt.Sprintf("fence%d", run))
		e.account()
		return
	}
	e.absorbStore(srv, "a")
	if trailing > 0 {
		if err := srv.getRaft().ReloadConfig(raft.ReloadableConfig{TrailingLogs: uint64(trailing), SnapshotInterval: 120 * time.Second,
			SnapshotThreshold: 8192, HeartbeatTimeout: time.Second, ElectionTimeout: time.Second}); err != nil {
			e.inconclusive("ReloadConfig: " + err.Error())
			e.account()
			return
		}
	}
	if err := srv.getRaft().Snapshot().Error(); err != nil {
		e.inconclusive("forced snapshot failed: " + err.Error())
		e.account()
		return
	}
	e.mu.Lock()
	e.snapshots++
	e.mu.Unlock()
	first, _ := srv.getRaft().store.FirstIndex()
	e.step("snapshot(variant=%d,firstIndexAfter=%d,lastPublished=%d)", variant, first, srv.activity.LastPublishedRaftIndex())
	switch variant {
	case 1:
		e.mu.Lock()
		e.forceFail = 2
		nf := e.nFail
		e.mu.Unlock()
		e.doOp(c18Op{Kind: "create", Stream: fmt.Sprintf("late%d", run), NParts: 1, RF: 1})
		// stop only once the dispatcher sits in the back-off of that event
		vfWait(20*time.Second, func() bool {
			e.mu.Lock()
			defer e.mu.Unlock()
			return e.nFail > nf
		})
	case 2:
		for i, n := 0, rng.Range(2, 5); i < n && !bad(); i++ {
			e.doOp(e.genOp(1, false))
		}
	}
	if !e.restartNode("a") || e.leader() == nil {
		e.account()
		return
	}
	if srv := e.leader(); srv != nil {
		e.step("restarted(lastPublished=%d)", srv.activity.LastPublishedRaftIndex())
	}
	for i := 0; i < after && !bad(); i++ {
		e.doOp(e.genOp(1, false))
	}
	e.finish(fmt.Sprintf("fence%d", run))
	e.account()
}

// TestVerifC18Snapshot: forced Raft snapshot, then restart (log not compacted:
// Raft keeps 10240 trailing entries).
func TestVerifC18Snapshot(t *testing.T) {
	rep := kit.NewReport("C18", "snapshot")
	defer rep.Write()
	rep.SetRule(c18Rule + " ; snapshot unit: a Raft snapshot is forced (raft.Snapshot()) and the server restarted right after it (variant 0), after one more operation whose event is held back by two injected publish failures (variant 1: no PUBLISH_ACTIVITY entry follows the snapshot) or after 2..5 more operations (variant 2)")
	root := kit.NewRNG(kit.Mix(kit.Seed(), 0xC185))
	n := kit.Scale(12, 90)
	specs := make([]c18ChildSpec, n)
	for i := range specs {
		specs[i] = c18ChildSpec{Unit: "snapshot", Run: i, Seed: root.Uint64(), Variant: i % 3}
	}
	c18RunChildren(rep, "snapshot", specs, kit.Workers())
}

// c18Cluster runs one 3-server scenario: the metadata leader (= activity
// manager) is stopped, leadership is transferred gracefully, the stopped server
// comes back, all while operations and publish faults continue.
func c18Cluster(rep *kit.Report, run int, seed uint64) {
	e := c18NewEnv(rep, "cluster", run, seed)
	rng := e.rng
	// Bootstrap mode decides where __activity lives (its replication factor -1
	// means "all servers known when it is created"): with a seed server the
	// first controller creates it before the others join, so it is the only
	// replica; with a peer list all three servers replicate it.
	peers := run%2 == 0
	c, err := vfNewCluster("c18c", 3, e.mut(func(cfg *Config) {
		if peers {
			cfg.Clustering.RaftBootstrapSeed = false
			cfg.Clustering.RaftBootstrapPeers = []string{e.prefix + "a", e.prefix + "b", e.prefix + "c"}
		}
		cfg.Clustering.ReplicaMaxLeaderTimeout = 1200 * time.Millisecond
		cfg.Clustering.ReplicaMaxIdleWait = 250 * time.Millisecond
		cfg.Clustering.ReplicaFetchTimeout = 400 * time.Millisecond
		cfg.Clustering.ReplicaMaxLagTime = 1500 * time.Millisecond
		cfg.Groups.ConsumerTimeout = time.Hour
		cfg.Groups.CoordinatorTimeout = time.Hour
	}))
	if err != nil {
		rep.Inconc(fmt.Sprintf("[cluster run %d] cluster start failed: %v", run, err))
		return
	}
	e.c = c
	defer e.close()
	for _, id := range c.IDs {
		e.attach(id)
	}
	e.installHooks(rng.Range(0, 3), rng.Range(0, 3), rng.Range(10, 40), rng.Range(10, 40), false)
	nops := rng.Range(16, 26)
	stopAt := rng.Range(3, nops-8)
	backAt := stopAt + rng.Range(2, 5)
	if peers && rng.Chance(1, 4) {
		backAt = -1 // the stopped server stays away (only where __activity has other replicas)
	}
	e.step("cluster(activityReplicas=%d)", e.activityReplicas())
	transferAt := -1
	if rng.Chance(2, 3) {
		transferAt = rng.Range(2, nops-1)
	}
	// a quarter of the scenarios also "flap": leadership is handed on again the
	// moment Raft reports a new leader, i.e. while that server is still in its
	// leader promotion (leadershipAcquired -> activity.BecomeLeader)
	flapAt, flaps := -1, 0
	if run%4 == 3 {
		flapAt, flaps = rng.Range(2, nops-2), rng.Range(3, 6)
	}
	stopped := ""
	bad := func() bool {
		e.mu.Lock()
		defer e.mu.Unlock()
		return e.inconc || e.failed
	}
	for i := 0; i < nops && !bad(); i++ {
		if i == stopAt {
			l := e.leader()
			if l == nil {
				break
			}
			stopped = e.nodeOf(l)
			e.step("stopLeader(%s,lastPublished=%d)", stopped, l.activity.LastPublishedRaftIndex())
			e.absorbAll()
			if !e.stopNode(stopped) {
				break
			}
			e.mu.Lock()
			e.failovers++
			e.mu.Unlock()
			if nl := e.leader(); nl != nil {
				e.step("newLeader(%s,resumesAfter=%d)", e.nodeOf(nl), nl.activity.LastPublishedRaftIndex())
			}
		}
		if i == backAt && stopped != "" {
			e.step("restart(%s)", stopped)
			if !e.startNode(stopped) {
				break
			}
			stopped = ""
		}
		if i >= transferAt && transferAt >= 0 && stopped == "" {
			transferAt = -1
			if l := e.leader(); l != nil {
				from := e.nodeOf(l)
				if err := l.getRaft().LeadershipTransfer().Error(); err != nil {
					e.logf("leadership transfer from %s: %v", from, err)
				} else {
					e.mu.Lock()
					e.failovers++
					e.mu.Unlock()
					if nl := e.leader(); nl != nil {
						e.step("transfer(%s->%s,resumesAfter=%d)", from, e.nodeOf(nl), nl.activity.LastPublishedRaftIndex())
					}
				}
			}
		}
		if i >= flapAt && flapAt >= 0 && stopped == "" {
			flapAt = -1
			done := 0
			for k := 0; k < flaps; k++ {
				var rl *Server
				vfWait(15*time.Second, func() bool {
					for _, n := range c.Running() {
						if srv := n.Server(); srv != nil && srv.getRaft() != nil && srv.getRaft().State() == raft.Leader {
							rl = srv
							return true
						}
					}
					return false
				})
				if rl == nil {
					break
				}
				if err := rl.getRaft().LeadershipTransfer().Error(); err != nil {
					e.logf("flap %d: transfer from %s: %v", k, e.nodeOf(rl), err)
				} else {
					done++
				}
				time.Sleep(time.Duration(rng.Range(0, 250)) * time.Millisecond)
			}
			e.mu.Lock()
			e.failovers += done
			e.mu.Unlock()
			e.step("flap(x%d)", done)
			e.rep.Count("leadership_flaps", int64(done))
		}
		e.doOp(e.genOp(3, false))
		if rng.Chance(1, 4) {
			time.Sleep(time.Duration(rng.Range(50, 300)) * time.Millisecond)
		}
	}
	e.finish(fmt.Sprintf("fence%d", run))
	e.account()
}

// TestVerifC18Cluster: 3-server clusters with a metadata-leader stop, graceful
// leadership transfer and the old leader rejoining.
func TestVerifC18Cluster(t *testing.T) {
	rep := kit.NewReport("C18", "cluster")
	defer rep.Write()
	rep.SetRule(c18Rule + " ; cluster unit: 3 servers, bootstrapped from a peer list (even scenarios: __activity replicated on all three, ack policy ALL) or from a seed server (odd scenarios: the first controller is the only replica of __activity); the metadata leader is stopped at a seeded position (the new controller resumes from the replicated last-published index), leadership is also transferred gracefully (2/3 of the scenarios), handed on 3..6 times in a row while the new leader is still in its promotion (every 4th scenario) and the stopped server is restarted (always when it is the only replica of __activity, else 3/4)")
	rep.Assume("a server is removed with Server.Stop(); NATS-level network partitions are not simulated")
	root := kit.NewRNG(kit.Mix(kit.Seed(), 0xC18C))
	n := kit.Scale(4, 40)
	specs := make([]c18ChildSpec, n)
	for i := range specs {
		specs[i] = c18ChildSpec{Unit: "cluster", Run: i, Seed: root.Uint64()}
	}
	c18RunChildren(rep, "cluster", specs, 4)
}

// ---------------------------------------------------------------- child processes

// Every scenario runs in a child process of its own: the server process dying
// is a possible outcome of stopping / restarting a controller (see the known
// findings), and a panic on a server goroutine cannot be caught in-process.
type c18ChildSpec struct {
	Unit     string `json:"unit"`
	Run      int    `json:"run"`
	Seed     uint64 `json:"seed"`
	Variant  int    `json:"variant"`
	Trailing int    `json:"trailing"`
	Bulk     int    `json:"bulk"`
}

// TestVerifC18Child runs ONE scenario; the parent classifies the child's end.
func TestVerifC18Child(t *testing.T) {
	raw := os.Getenv("C18_CHILD")
	if raw == "" {
		t.Skip("child of the TestVerifC18* units")
	}
	var spec c18ChildSpec
	if err := json.Unmarshal([]byte(raw), &spec); err != nil {
		t.Fatal(err)
	}
	rep := kit.NewReport("C18", spec.Unit+"-child")
	defer rep.Write()
	c18Stage("started")
	switch spec.Unit {
	case "single":
		c18Single(rep, spec.Run, spec.Seed)
	case "snapshot", "compaction":
		c18Snapshot(rep, spec.Unit, spec.Run, spec.Seed, spec.Variant, spec.Trailing, spec.Bulk)
	case "cluster":
		c18Cluster(rep, spec.Run, spec.Seed)
	case "backlog":
		c18Backlog(rep, spec.Run, spec.Seed, spec.Variant, spec.Bulk)
	case "regain":
		c18Regain(rep, spec.Run, spec.Seed, spec.Variant)
	case "reserved":
		c18Reserved(rep, spec.Run, spec.Seed, spec.Variant)
	case "defaults":
		c18Defaults(rep, spec.Run, spec.Seed, spec.Variant)
	case "refail":
		c18Refail(rep, spec.Run, spec.Seed, spec.Variant, spec.Bulk, spec.Trailing)
	default:
		t.Fatalf("unknown unit %q", spec.Unit)
	}
	c18Stage("done")
}

var c18FrameRe = regexp.MustCompile(`(?m)^(\S*liftbridge/server\.\S*)\(.*\)\n\t(\S+\.go):(\d+)`)

// c18RunChildren runs one child process per scenario and merges the reports.
func c18RunChildren(rep *kit.Report, unit string, specs []c18ChildSpec, workers int) {
	self := os.Getenv("VERIF_SELF")
	if self == "" {
		self, _ = os.Executable()
	}
	dir := vfWorkDir("c18-" + unit)
	kit.Parallel(len(specs), workers, func(i int) {
		if rep.NumViolations() >= 6 || c18Skip(i) {
			return
		}
		spec := specs[i]
		cdir := filepath.Join(dir, fmt.Sprintf("child%03d", i))
		os.MkdirAll(cdir, 0755)
		sb, _ := json.Marshal(spec)
		out := filepath.Join(cdir, "report.json")
		stageFile := filepath.Join(cdir, "stage")
		sigFile := filepath.Join(cdir, "sig")
		cmd := exec.Command(self, "-test.run", "^TestVerifC18Child$", "-test.count", "1", "-test.timeout", "12m")
		cmd.Env = append(os.Environ(), "C18_CHILD="+string(sb), "VERIF_OUT="+out, "VERIF_WORK="+cdir, "TMPDIR="+cdir,
			"C18_STAGE_FILE="+stageFile, "C18_SIG_FILE="+sigFile)
		var ob bytes.Buffer
		cmd.Stdout, cmd.Stderr = &ob, &ob
		if err := cmd.Start(); err != nil {
			rep.Inconc("cannot start child: " + err.Error())
			return
		}
		timedOut := false
		timer := time.AfterFunc(5*time.Minute, func() { timedOut = true; cmd.Process.Signal(syscall.SIGQUIT) })
		werr := cmd.Wait()
		timer.Stop()
		rep.Eval()
		stage, _ := os.ReadFile(stageFile)
		text := ob.String()
		tail := text
		if len(tail) > 6000 {
			tail = tail[len(tail)-6000:]
		}
		var child struct {
			Completed    bool             `json:"completed"`
			Counts       map[string]int64 `json:"counts"`
			Violations   []*kit.Violation `json:"violations"`
			Inconclusive []string         `json:"inconclusive"`
			Samples      []map[string]any `json:"samples"`
		}
		if b, err := os.ReadFile(out); err == nil {
			json.Unmarshal(b, &child)
		}
		replay := map[string]any{"child_spec": spec, "stage": string(stage), "replay_hint": fmt.Sprintf("VERIF_SEED=%d C18_ONLY=%d ./check C18 --unit %s", kit.Seed(), i, unit)}
		switch {
		case timedOut:
			rep.Inconc(fmt.Sprintf("watchdog: %s child %d did not finish (stage %s); blocked server goroutines: %s", unit, i, stage, c18HangSummary(text)))
		case child.Completed:
			rep.Count("children_completed", 1)
			for k, v := range child.Counts {
				switch k {
				case "inconclusive":
				case "slowest_scenario_s":
					rep.Max(k, v)
				default:
					rep.Count(k, v)
				}
			}
			for _, v := range child.Violations {
				rep.Violation(v.Fingerprint, v.What, v.Replay)
			}
			for _, s := range child.Inconclusive {
				rep.Inconc(s)
			}
			if sig, err := os.ReadFile(sigFile); err == nil && len(sig) > 0 {
				rep.Nontrivial(string(sig))
			}
			if len(child.Samples) > 0 && (i < 3 || kit.EnvInt("C18_ONLY", -1) >= 0) {
				rep.Sample(child.Samples[0])
			}
			if len(child.Violations) == 0 {
				os.RemoveAll(cdir) // the child has exited: nothing can trip over the missing directory
			}
		default:
			m := regexp.MustCompile(`(?m)^(panic: .*|fatal error: .*)$`).FindString(text)
			if m == "" {
				rep.Inconc(fmt.Sprintf("%s child %d ended without a report and without a panic message (stage %s, wait %v): %s", unit, i, stage, werr, c18Tail(text, 1500)))
				return
			}
			fn := "?"
			if fm := c18FrameRe.FindStringSubmatch(text[strings.Index(text, m):]); fm != nil {
				fn = fm[1][strings.LastIndex(fm[1], "/")+1:]
				fn = strings.NewReplacer("(*", "", ")", "").Replace(fn)
			}
			rep.Count("server_process_crashes", 1)
			replay["crash"] = m
			replay["child_output_tail"] = tail
			rep.Nontrivial(fmt.Sprintf("%s child %d crash %s at %s", unit, i, fn, stage))
			rep.Sample(replay)
			switch {
			case string(stage) == "stopping" && strings.Contains(m, "failed to recover from Raft log"):
				// Server.Stop() arrived while the server was still replaying its
				// Raft log (slow machine): closing the NATS connection makes the
				// recovery step fail and the FSM panics by design.  A fail-stop of
				// the restart path, not something C18 states anything about; the
				// scenario has no verdict.
				rep.Count("server_stopped_while_still_replaying_its_raft_log_(fail-stop,_not_judged)", 1)
				rep.Inconc(fmt.Sprintf("%s child %d: the server was stopped while still replaying its Raft log and failed stop (%s)", unit, i, m))
			case string(stage) == "stopping":
				rep.Violation("C18:"+unit+":crash-while-stopping:"+fn,
					fmt.Sprintf("the server process died (%s, first server frame %s) inside Server.Stop()", m, fn), replay)
			case string(stage) == "starting" && spec.Variant >= 1 && (spec.Trailing > 0 || spec.Bulk > 0) && spec.Unit != "refail":
				rep.Violation("C18:"+unit+":controller-crash-after-snapshot-restart:"+fn,
					fmt.Sprintf("the server process died (%s, first server frame %s) when it became controller again after a restart from a Raft snapshot that had truncated the Raft log (%s): the last-published activity index is not part of the snapshot, the dispatcher restarts from Raft index 1 and panics on the missing log entry; no later operation is ever listed", m, fn, c18TrailingText(spec)), replay)
			default:
				rep.Violation("C18:"+unit+":server-crash:"+fn, fmt.Sprintf("the server process died (%s, first server frame %s) at stage %s", m, fn, stage), replay)
			}
		}
	})
}

// c18HangSummary extracts from a SIGQUIT goroutine dump the goroutines that sit
// in Server.Stop or wait for a lock inside the server package.
func c18HangSummary(dump string) string {
	var sb strings.Builder
	for _, g := range strings.Split(dump, "\n\ngoroutine ") {
		if !strings.Contains(g, "liftbridge/server.") {
			continue
		}
		head := g
		if i := strings.Index(head, "\n"); i > 0 {
			head = head[:i]
		}
		if !(strings.Contains(g, ").Stop(") || strings.Contains(head, "Lock") || strings.Contains(head, "semacquire") || strings.Contains(head, "WaitGroup")) {
			continue
		}
		var frames []string
		for _, ln := range strings.Split(g, "\n") {
			if strings.Contains(ln, "liftbridge/server.") && !strings.HasPrefix(ln, "\t") && !strings.Contains(ln, "zz_verif") {
				fn := ln
				if i := strings.LastIndex(fn, "("); i > 0 {
					fn = fn[:i]
				}
				frames = append(frames, fn[strings.LastIndex(fn, "/")+1:])
			}
		}
		fmt.Fprintf(&sb, "[%s: %s] ", head, strings.Join(frames, " <- "))
		if sb.Len() > 3500 {
			break
		}
	}
	if sb.Len() == 0 {
		return c18Tail(dump, 1200)
	}
	return sb.String()
}

func c18Tail(s string, n int) string {
	if len(s) > n {
		return s[len(s)-n:]
	}
	return s
}

// TestVerifC18Compaction: the snapshot scenarios with a Raft log that the
// forced snapshot really truncates.
func TestVerifC18Compaction(t *testing.T) {
	rep := kit.NewReport("C18", "compaction")
	defer rep.Write()
	rep.SetRule(c18Rule + " ; compaction unit: the snapshot scenarios (variants 1 and 2) with Raft's TrailingLogs reloaded to 24..40 before the forced snapshot so that the snapshot truncates the Raft log, the same with Raft's own TrailingLogs after >10240 committed entries (3700+ bulk set-read-only operations), and variant 3: the server is stopped while the dispatcher walks the long tail of PUBLISH_ACTIVITY entries left by 1200+ bulk operations")
	rep.Assume("Raft's TrailingLogs is 10240 in production (raft.DefaultConfig, not exposed by Liftbridge); the scaled scenarios reload it through Raft.ReloadConfig after the dispatcher has caught up, so that 'the snapshot truncated the log below the last recorded activity index' is reached after tens instead of >10240 Raft entries; the unscaled scenarios do not touch it")
	root := kit.NewRNG(kit.Mix(kit.Seed(), 0xC18D))
	n := kit.Scale(4, 20)
	specs := make([]c18ChildSpec, n)
	for i := range specs {
		specs[i] = c18ChildSpec{Unit: "compaction", Run: i, Seed: root.Uint64(), Variant: 1 + i%2, Trailing: root.Range(24, 40)}
	}
	// unscaled scenarios: Raft's own TrailingLogs, >10240 committed entries
	for i := 0; i < kit.Scale(1, 2); i++ {
		specs = append(specs, c18ChildSpec{Unit: "compaction", Run: len(specs), Seed: root.Uint64(), Variant: 1, Bulk: 3700 + 200*i})
	}
	// stop while the dispatcher walks a long tail of PUBLISH_ACTIVITY entries
	for i := 0; i < kit.Scale(1, 3); i++ {
		specs = append(specs, c18ChildSpec{Unit: "compaction", Run: len(specs), Seed: root.Uint64(), Variant: 3, Bulk: 1200 + 300*i})
	}
	c18RunChildren(rep, "compaction", specs, 4)
}

func c18TrailingText(spec c18ChildSpec) string {
	if spec.Trailing > 0 {
		return fmt.Sprintf("TrailingLogs scaled to %d", spec.Trailing)
	}
	return fmt.Sprintf("Raft's own TrailingLogs=10240, %d bulk operations committed before the snapshot", spec.Bulk)
}

// c18Skip: C18_ONLY=<run> replays a single scenario of a unit (debugging /
// replay aid; the case list itself is unchanged).
func c18Skip(i int) bool {
	only := kit.EnvInt("C18_ONLY", -1)
	return only >= 0 && only != i
}
