//go:build verif

package server

// C04 — acknowledgements mean what the ack policy says.
//
// Publishers send raw NATS envelopes (so real batches form) with their own ack
// inbox, a unique correlation id and a unique payload tag per message, mixed
// ALL / LEADER / NONE policies.  Every ack is recorded at the client boundary
// together with state samples taken AT ACK RECEIPT; decisive observations are
// only those that cannot be racy (see each check).

import (
	"bytes"
	"context"
	"errors"
	"fmt"
	"os"
	"sort"
	"strings"
	"sync"
	"sync/atomic"
	"testing"
	"time"

	client "github.com/liftbridge-io/liftbridge-api/v2/go"
	"github.com/nats-io/nats.go"

	kit "github.com/liftbridge-io/liftbridge/internal/verifkit"
	proto "github.com/liftbridge-io/liftbridge/server/protocol"
)

type c04Msg struct {
	Tag      string
	Policy   client.AckPolicy
	Expect   int64 // expected offset (OCC), -1 none
	Big      bool
	SealFail bool
	Raw      bool // not an envelope: plain payload, no ack possible
	Acks     []*client.Ack
}

type c04Pub struct {
	nc    *nats.Conn
	inbox string
	sub   *nats.Subscription
	mu    sync.Mutex
	byTag map[string]*c04Msg
	all   []*c04Msg
	onAck func(m *c04Msg, a *client.Ack)
	stray int
}

func c04NewPub(url string, onAck func(*c04Msg, *client.Ack)) (*c04Pub, error) {
	nc, err := nats.Connect(url)
	if err != nil {
		return nil, err
	}
	p := &c04Pub{nc: nc, inbox: nats.NewInbox(), byTag: map[string]*c04Msg{}, onAck: onAck}
	p.sub, err = nc.Subscribe(p.inbox, func(m *nats.Msg) {
		ack, err := proto.UnmarshalAck(m.Data)
		if err != nil {
			p.mu.Lock()
			p.stray++
			p.mu.Unlock()
			return
		}
		p.mu.Lock()
		msg := p.byTag[ack.CorrelationId]
		if msg == nil {
			p.stray++
			p.mu.Unlock()
			return
		}
		msg.Acks = append(msg.Acks, ack)
		p.mu.Unlock()
		if p.onAck != nil {
			p.onAck(msg, ack)
		}
	})
	if err != nil {
		nc.Close()
		return nil, err
	}
	nc.Flush()
	return p, nil
}

func (p *c04Pub) close() { p.nc.Close() }

func (p *c04Pub) send(stream, subject string, m *c04Msg, value []byte) error {
	p.mu.Lock()
	p.byTag[m.Tag] = m
	p.all = append(p.all, m)
	p.mu.Unlock()
	if m.Raw {
		return p.nc.Publish(subject, value)
	}
	data, err := proto.MarshalPublish(&client.Message{Value: value, Key: []byte(m.Tag), Stream: stream, Subject: subject,
		AckInbox: p.inbox, CorrelationId: m.Tag, AckPolicy: m.Policy, Offset: m.Expect})
	if err != nil {
		return err
	}
	return p.nc.Publish(subject, data)
}

func (p *c04Pub) acks(m *c04Msg) []*client.Ack {
	p.mu.Lock()
	defer p.mu.Unlock()
	return append([]*client.Ack(nil), m.Acks...)
}

// waitAcked waits until every listed message has at least one ack.
func (p *c04Pub) waitAcked(ms []*c04Msg, d time.Duration) bool {
	return vfWait(d, func() bool {
		p.mu.Lock()
		defer p.mu.Unlock()
		for _, m := range ms {
			if len(m.Acks) == 0 {
				return false
			}
		}
		return true
	})
}

func c04Value(tag string, n int) []byte {
	v := []byte("TAG<" + tag + ">")
	if n > len(v) {
		v = append(v, bytes.Repeat([]byte{'.'}, n-len(v))...)
	}
	return v
}

func c04TagOf(v []byte) string {
	s := string(v)
	if i := strings.Index(s, "TAG<"); i >= 0 {
		if j := strings.Index(s[i:], ">"); j > 0 {
			return s[i+4 : i+j]
		}
	}
	return ""
}

// c04FinalScan: tag -> offset for every message stored in the partition log.
func c04FinalScan(p *partition) (map[string]int64, []vfLogRec, error) {
	recs, err := vfReadLog(p.log, 0, true)
	if err != nil {
		return nil, nil, err
	}
	out := map[string]int64{}
	for _, r := range recs {
		if t := c04TagOf(r.Value); t != "" {
			if _, dup := out[t]; dup {
				return nil, nil, fmt.Errorf("tag %s stored twice", t)
			}
			out[t] = r.Offset
		}
	}
	return out, recs, nil
}

// ---------------------------------------------------------------- single node

func TestVerifC04Single(t *testing.T) {
	rep := kit.NewReport("C04", "single")
	defer rep.Write()
	rep.SetRule("single-node servers (RF=1 fast path and commit-queue path mixed in one batch): seeded runs with BatchMaxMessages/BatchMaxTime varied, 2-4 publishers sending raw envelopes with ALL/LEADER/NONE policies, plain (non-envelope) payloads, oversize messages (small ReplicationMaxBytes), wrong expected offsets on an OCC stream, and seal failures injected at the partition.seal hook on an encrypted stream; per ack: correlation id known, at most one ack per message, positive ack => HW >= offset for ALL (sampled at receipt; HW is monotone) and the leader log holds exactly that tag at the acked offset; NONE never acked (decided by a later ALL fence on the same inbox); rejected messages are nacked with the right error and absent from the final log; non-trivial = run had >=1 batch of >1 message, all three policies and >=1 rejection; distinct = run parameters")
	os.Setenv("LIFTBRIDGE_ENCRYPTION_KEY", "0123456789abcdef0123456789abcdef")
	root := kit.NewRNG(kit.Mix(kit.Seed(), 0xC04))
	runs := kit.Scale(6, 60)
	seeds := make([]uint64, runs)
	for i := range seeds {
		seeds[i] = root.Uint64()
	}
	// one hook handler per process: seal failures are decided by tag prefix,
	// which the handler cannot see; use a per-stream countdown instead.
	var sealMu sync.Mutex
	sealPlan := map[string]map[int]bool{} // stream -> ordinal of Seal call that fails
	sealCount := map[string]int{}
	vfHooks.On("partition.seal", func(a ...interface{}) error {
		stream := a[0].(string)
		sealMu.Lock()
		defer sealMu.Unlock()
		plan := sealPlan[stream]
		if plan == nil {
			return nil
		}
		sealCount[stream]++
		if plan[sealCount[stream]] {
			return errors.New("verif: injected seal failure")
		}
		return nil
	})
	kit.Parallel(runs, 3, func(i int) {
		if rep.NumViolations() >= 5 {
			return
		}
		c04SingleRun(rep, i, seeds[i], &sealMu, sealPlan)
	})
	nb := kit.Scale(2, 12)
	for i := 0; i < nb && rep.NumViolations() < 5; i++ {
		c04BelowMinSingle(rep, i, root.Uint64())
	}
}

func c04SingleRun(rep *kit.Report, idx int, seed uint64, sealMu *sync.Mutex, sealPlan map[string]map[int]bool) {
	rng := kit.NewRNG(seed)
	batchMax := []int{1, 2, 8, 64, 1024}[rng.Intn(5)]
	batchTime := []time.Duration{0, 200 * time.Microsecond, 2 * time.Millisecond}[rng.Intn(3)]
	maxBytes := int64(700)
	kind := []string{"plain", "occ", "enc"}[idx%3]
	stream := fmt.Sprintf("c04s%d", idx)
	subject := stream + ".subj"
	witness := map[string]any{"run": idx, "run_seed": seed, "kind": kind, "BatchMaxMessages": batchMax, "BatchMaxTime": batchTime.String(), "ReplicationMaxBytes": maxBytes}
	fail := func(fp, what string) { rep.Violation(fp, what, witness) }
	c, srv, err := vfSingle("c04", func(cfg *Config) {
		cfg.BatchMaxMessages = batchMax
		cfg.BatchMaxTime = batchTime
		cfg.Clustering.ReplicationMaxBytes = maxBytes
	})
	if err != nil {
		rep.Inconc("server start: " + err.Error())
		return
	}
	defer c.Cleanup()
	req := &client.CreateStreamRequest{Subject: subject, Name: stream, ReplicationFactor: 1}
	if kind == "occ" {
		req.OptimisticConcurrencyControl = &client.NullableBool{Value: true}
	}
	if kind == "enc" {
		req.Encryption = &client.NullableBool{Value: true}
	}
	if err := c.CreateStream(req); err != nil {
		rep.Inconc("create stream: " + err.Error())
		return
	}
	if _, err := c.PartitionLeader(stream, 0, 20*time.Second); err != nil {
		rep.Inconc(err.Error())
		return
	}
	part := srv.metadata.GetPartition(stream, 0)
	total := rng.Range(60, 160)
	// seal failure plan (enc): ordinals of Seal calls that fail
	failOrd := map[int]bool{}
	if kind == "enc" {
		for k := 0; k < total/8+1; k++ {
			failOrd[rng.Range(1, total)] = true
		}
		sealMu.Lock()
		sealPlan[stream] = failOrd
		sealMu.Unlock()
	}

	var ackMu sync.Mutex
	var ackEvents int
	onAck := func(m *c04Msg, a *client.Ack) {
		ackMu.Lock()
		ackEvents++
		ackMu.Unlock()
		if a.CorrelationId != m.Tag {
			fail("C04:ack-correlation", fmt.Sprintf("ack for %s carries correlation id %q", m.Tag, a.CorrelationId))
		}
		if a.AckError != client.Ack_OK {
			return
		}
		if m.Policy == client.AckPolicy_NONE {
			fail("C04:none-acked", fmt.Sprintf("message %s published with policy NONE received an ack (offset %d)", m.Tag, a.Offset))
			return
		}
		// sampled at receipt; HW monotone => sound
		if m.Policy == client.AckPolicy_ALL {
			if hw := part.log.HighWatermark(); hw < a.Offset {
				fail("C04:all-acked-before-commit", fmt.Sprintf("ALL-policy ack for %s at offset %d received while the leader HW is %d", m.Tag, a.Offset, hw))
			}
		}
		if newest := part.log.NewestOffset(); newest < a.Offset {
			fail("C04:acked-not-stored", fmt.Sprintf("ack for %s names offset %d but the leader log ends at %d", m.Tag, a.Offset, newest))
		}
	}
	npub := rng.Range(2, 4)
	pubs := make([]*c04Pub, npub)
	for k := range pubs {
		p, err := c04NewPub(c.URL, onAck)
		if err != nil {
			rep.Inconc("publisher: " + err.Error())
			return
		}
		defer p.close()
		pubs[k] = p
	}
	// With injected seal failures only one publisher is used so that Seal
	// ordinals map to messages deterministically (same connection => FIFO).
	if kind == "enc" {
		pubs = pubs[:1]
	}
	var wg sync.WaitGroup
	var sent [][]*c04Msg = make([][]*c04Msg, len(pubs))
	for k, p := range pubs {
		k, p := k, p
		pr := rng.Fork(uint64(k + 1))
		wg.Add(1)
		go func() {
			defer wg.Done()
			n := total / len(pubs)
			ord := 0
			for j := 0; j < n; j++ {
				m := &c04Msg{Tag: fmt.Sprintf("r%d-p%d-m%04d", idx, k, j), Expect: -1}
				switch x := pr.Intn(10); {
				case x < 4:
					m.Policy = client.AckPolicy_ALL
				case x < 7:
					m.Policy = client.AckPolicy_LEADER
				default:
					m.Policy = client.AckPolicy_NONE
				}
				size := pr.Range(10, 200)
				switch kind {
				case "plain":
					if pr.Chance(1, 9) {
						m.Big = true
						size = int(maxBytes) + pr.Range(50, 400)
					} else if pr.Chance(1, 9) {
						m.Raw = true
						m.Policy = client.AckPolicy_NONE
					}
				case "occ":
					if m.Policy == client.AckPolicy_NONE {
						m.Policy = client.AckPolicy_LEADER // NONE is refused by the API for OCC streams
					}
					switch pr.Intn(5) {
					case 0:
						m.Expect = -1
					case 4:
						// wrong in another way: negative, but not the -1 that waives the check
						m.Expect = []int64{-2, -3, -100, -1 << 31, -1 << 63}[pr.Intn(5)]
					case 1:
						m.Expect = part.log.NewestOffset() + 1 // may or may not still be right
					case 2:
						m.Expect = part.log.NewestOffset() - int64(pr.Range(1, 5)) // stale
						if m.Expect < 0 {
							m.Expect = 1 << 40
						}
					default:
						m.Expect = part.log.NewestOffset() + int64(pr.Range(5, 50)) // future
					}
				case "enc":
					ord++
					if failOrd[ord] {
						m.SealFail = true
					}
				}
				if err := p.send(stream, subject, m, c04Value(m.Tag, size)); err != nil {
					rep.Inconc("publish: " + err.Error())
					return
				}
				sent[k] = append(sent[k], m)
				if pr.Chance(1, 6) {
					p.nc.Flush()
					time.Sleep(time.Duration(pr.Intn(300)) * time.Microsecond)
				}
			}
			// fence: a final ALL message per publisher; its ack arrives after any
			// ack of earlier messages of this publisher (same inbox, acks sent in
			// commit order on one server connection)
			f := &c04Msg{Tag: fmt.Sprintf("r%d-p%d-fence", idx, k), Policy: client.AckPolicy_ALL, Expect: -1}
			if kind == "enc" {
				ord++
				if failOrd[ord] {
					f.SealFail = true
					// send one more fence that is not failed
				}
			}
			p.send(stream, subject, f, c04Value(f.Tag, 20))
			sent[k] = append(sent[k], f)
			if f.SealFail {
				ord++
				for failOrd[ord] {
					g := &c04Msg{Tag: fmt.Sprintf("r%d-p%d-fence%d", idx, k, ord), Policy: client.AckPolicy_ALL, Expect: -1, SealFail: true}
					p.send(stream, subject, g, c04Value(g.Tag, 20))
					sent[k] = append(sent[k], g)
					ord++
				}
				g := &c04Msg{Tag: fmt.Sprintf("r%d-p%d-fence-final", idx, k), Policy: client.AckPolicy_ALL, Expect: -1}
				p.send(stream, subject, g, c04Value(g.Tag, 20))
				sent[k] = append(sent[k], g)
			}
			p.nc.Flush()
		}()
	}
	wg.Wait()
	// wait for every publisher's last message (the fence) to be acked
	for k, p := range pubs {
		last := sent[k][len(sent[k])-1]
		if !p.waitAcked([]*c04Msg{last}, 40*time.Second) {
			rep.Inconc(fmt.Sprintf("run %d: fence of publisher %d not acked", idx, k))
			return
		}
	}
	stored, recs, err := c04FinalScan(part)
	if err != nil {
		fail("C04:final-scan", err.Error())
		return
	}
	valueAt := map[int64]string{}
	for _, r := range recs {
		valueAt[r.Offset] = c04TagOf(r.Value)
	}
	if kind == "enc" {
		// values are sealed: tags are not visible in the log; use keys instead
		stored = map[string]int64{}
		valueAt = map[int64]string{}
		for _, r := range recs {
			stored[string(r.Key)] = r.Offset
			valueAt[r.Offset] = string(r.Key)
		}
	}
	policies := map[client.AckPolicy]int{}
	rejections, acked := 0, 0
	for k, p := range pubs {
		for _, m := range sent[k] {
			acks := p.acks(m)
			policies[m.Policy]++
			if len(acks) > 1 {
				fail("C04:duplicate-ack", fmt.Sprintf("message %s received %d acks", m.Tag, len(acks)))
				continue
			}
			off, isStored := stored[m.Tag]
			switch {
			case m.Raw:
				if !isStored {
					fail("C04:raw-payload-lost", fmt.Sprintf("plain payload %s (no envelope) is not in the log", m.Tag))
				}
			case m.Big:
				rejections++
				if isStored {
					fail("C04:rejected-stored:too-large", fmt.Sprintf("oversize message %s was stored at offset %d", m.Tag, off))
				}
				if len(acks) == 1 && acks[0].AckError != client.Ack_TOO_LARGE {
					fail("C04:wrong-nack:too-large", fmt.Sprintf("oversize message %s got ack error %s", m.Tag, acks[0].AckError))
				}
				if len(acks) == 0 {
					fail("C04:missing-nack:too-large", fmt.Sprintf("oversize message %s (policy %s) was not negatively acknowledged before the fence ack", m.Tag, m.Policy))
				}
			case m.SealFail:
				rejections++
				if isStored {
					fail("C04:rejected-stored:encryption", fmt.Sprintf("message %s whose encryption failed was stored at offset %d", m.Tag, off))
				}
				if len(acks) == 1 && acks[0].AckError != client.Ack_ENCRYPTION {
					fail("C04:wrong-nack:encryption", fmt.Sprintf("message %s (seal failure) got ack error %s", m.Tag, acks[0].AckError))
				}
				if len(acks) == 0 {
					fail("C04:missing-nack:encryption", fmt.Sprintf("message %s (seal failure, policy %s) was not negatively acknowledged before the fence ack", m.Tag, m.Policy))
				}
			case len(acks) == 1 && acks[0].AckError == client.Ack_INCORRECT_OFFSET:
				rejections++
				if kind != "occ" || m.Expect == -1 {
					fail("C04:wrong-nack:incorrect-offset", fmt.Sprintf("message %s (expected offset %d, kind %s) was rejected with INCORRECT_OFFSET", m.Tag, m.Expect, kind))
				}
				if isStored {
					fail("C04:rejected-stored:incorrect-offset", fmt.Sprintf("message %s was nacked INCORRECT_OFFSET but is stored at offset %d", m.Tag, off))
				}
			case len(acks) == 1 && acks[0].AckError != client.Ack_OK:
				fail("C04:unexpected-nack", fmt.Sprintf("message %s got ack error %s", m.Tag, acks[0].AckError))
			case len(acks) == 1:
				acked++
				a := acks[0]
				if m.Policy == client.AckPolicy_NONE {
					fail("C04:none-acked", fmt.Sprintf("message %s with policy NONE was acked", m.Tag))
				}
				if !isStored || off != a.Offset {
					fail("C04:ack-offset-mismatch", fmt.Sprintf("message %s acked at offset %d but stored=%v at %d (log has %q there)", m.Tag, a.Offset, isStored, off, valueAt[a.Offset]))
				}
				if m.Expect != -1 && a.Offset != m.Expect {
					fail("C04:occ-offset", fmt.Sprintf("message %s expected offset %d but was acked at %d", m.Tag, m.Expect, a.Offset))
				}
			default: // no ack
				if m.Policy != client.AckPolicy_NONE {
					if kind == "occ" && !isStored {
						// stale expectation rejected: must have been nacked
						fail("C04:missing-nack:incorrect-offset", fmt.Sprintf("message %s (policy %s, expected offset %d) is neither stored nor negatively acknowledged before the fence ack", m.Tag, m.Policy, m.Expect))
					} else if !isStored {
						fail("C04:lost-without-nack", fmt.Sprintf("message %s (policy %s) is neither stored nor acknowledged before the fence ack", m.Tag, m.Policy))
					} else {
						fail("C04:missing-ack", fmt.Sprintf("message %s (policy %s) is stored at %d but its ack did not arrive before the later fence ack on the same inbox", m.Tag, m.Policy, off))
					}
				} else if !isStored {
					fail("C04:none-lost", fmt.Sprintf("message %s (policy NONE) is not in the log although a later message of the same publisher is", m.Tag))
				}
			}
		}
	}
	rep.Eval()
	rep.Count("messages", int64(total))
	rep.Count("positive_acks", int64(acked))
	rep.Count("rejections", int64(rejections))
	ackMu.Lock()
	rep.Count("ack_events", int64(ackEvents))
	ackMu.Unlock()
	// batches really formed? (consecutive equal timestamps are not a proof; use segment of offsets appended together: count via leader-side timestamps)
	multi := 0
	for i := 1; i < len(recs); i++ {
		if recs[i].Timestamp-recs[i-1].Timestamp < 20000 { // 20us: same processing burst
			multi++
		}
	}
	rep.Count("messages_within_20us_of_previous", int64(multi))
	if len(policies) == 3 || (kind != "plain" && len(policies) >= 2) {
		if rejections > 0 {
			rep.Nontrivial(fmt.Sprintf("%s|%d|%s|%d|%d", kind, batchMax, batchTime, npub, total))
		}
	}
	if idx < 3 {
		rep.Sample(witness)
	}
}

// c04BelowMinSingle: a stream whose replication factor (1) is below its
// minimum ISR size (2): ALL-policy messages can never be committed, so they
// must never be acked, however many commit checks later appends trigger;
// LEADER-policy messages are acked.  Decided by fences (later LEADER acks on
// the same inbox), not by waiting.
func c04BelowMinSingle(rep *kit.Report, idx int, seed uint64) {
	rng := kit.NewRNG(seed)
	stream := fmt.Sprintf("c04b%d", idx)
	subject := stream + ".subj"
	witness := map[string]any{"run": idx, "run_seed": seed, "kind": "rf1-minisr2"}
	c, srv, err := vfSingle("c04b", func(cfg *Config) { cfg.BatchMaxMessages = []int{1, 16}[rng.Intn(2)] })
	if err != nil {
		rep.Inconc("server start: " + err.Error())
		return
	}
	defer c.Cleanup()
	if err := c.CreateStream(&client.CreateStreamRequest{Subject: subject, Name: stream, ReplicationFactor: 1, MinIsr: &client.NullableInt32{Value: 2}}); err != nil {
		rep.Inconc("create stream: " + err.Error())
		return
	}
	if _, err := c.PartitionLeader(stream, 0, 20*time.Second); err != nil {
		rep.Inconc(err.Error())
		return
	}
	part := srv.metadata.GetPartition(stream, 0)
	pub, err := c04NewPub(c.URL, nil)
	if err != nil {
		rep.Inconc("publisher: " + err.Error())
		return
	}
	defer pub.close()
	var alls, leads []*c04Msg
	n := rng.Range(20, 50)
	for j := 0; j < n; j++ {
		m := &c04Msg{Tag: fmt.Sprintf("b%d-m%03d", idx, j), Expect: -1, Policy: client.AckPolicy_LEADER}
		if rng.Chance(2, 5) {
			m.Policy = client.AckPolicy_ALL
			alls = append(alls, m)
		} else {
			leads = append(leads, m)
		}
		pub.send(stream, subject, m, c04Value(m.Tag, 30))
	}
	// fences: further LEADER messages, each append triggers a commit check
	for j := 0; j < 5; j++ {
		m := &c04Msg{Tag: fmt.Sprintf("b%d-fence%d", idx, j), Expect: -1, Policy: client.AckPolicy_LEADER}
		leads = append(leads, m)
		pub.send(stream, subject, m, c04Value(m.Tag, 30))
		pub.nc.Flush()
		if !pub.waitAcked([]*c04Msg{m}, 30*time.Second) {
			rep.Inconc(fmt.Sprintf("below-min run %d: LEADER fence not acked", idx))
			return
		}
	}
	for _, m := range alls {
		if acks := pub.acks(m); len(acks) > 0 {
			rep.Violation("C04:all-acked-below-min-isr", fmt.Sprintf("ALL-policy message %s on a stream with replication factor 1 and min ISR 2 was acked (error=%s offset=%d); ISR size %d, HW %d",
				m.Tag, acks[0].AckError, acks[0].Offset, part.ISRSize(), part.log.HighWatermark()), witness)
			break
		}
	}
	for _, m := range leads {
		if acks := pub.acks(m); len(acks) != 1 || acks[0].AckError != client.Ack_OK {
			rep.Violation("C04:leader-ack-missing-below-min-isr", fmt.Sprintf("LEADER-policy message %s got %d acks", m.Tag, len(acks)), witness)
			break
		}
	}
	rep.Eval()
	rep.Count("below_min_all_messages", int64(len(alls)))
	rep.Nontrivial(fmt.Sprintf("rf1-minisr2|%d|%d", n, len(alls)))
}

// ---------------------------------------------------------------- cluster

func TestVerifC04Cluster(t *testing.T) {
	rep := kit.NewReport("C04", "cluster")
	defer rep.Write()
	rep.SetRule("3-server clusters, RF=3, minISR in {1,2,3}: a follower's fetch loop is held at the follower.beforeFetch gate; (a) ALL-policy publishes while the held replica is still in the leader's ISR must not be acked as long as that replica (which cannot progress) has not stored the offset — decided at ack receipt: held replica still in ISR and its log ends below the acked offset; (b) with minISR=3 and the ISR already shrunk to 2, ALL-policy publishes must not be acked while the replica stays held (ISR cannot grow meanwhile), LEADER-policy ones are; after release + ISR expansion the pending ALL acks arrive (bounded progress); final scan: every positive ack names the offset holding its tag on the leader; non-trivial = scenario reached its decisive phase; distinct = minISR/seed")
	root := kit.NewRNG(kit.Mix(kit.Seed(), 0xC04C))
	n := kit.Scale(3, 18)
	for i := 0; i < n && rep.NumViolations() < 3; i++ {
		minISR := 1 + i%3
		c04ClusterRun(rep, i, root.Uint64(), minISR)
	}
}

func c04ClusterRun(rep *kit.Report, idx int, seed uint64, minISR int) {
	rng := kit.NewRNG(seed)
	stream := "c04c"
	subject := "c04c.subj"
	witness := map[string]any{"scenario": idx, "scenario_seed": seed, "minISR": minISR}
	var trace []string
	var tmu sync.Mutex
	logf := func(f string, a ...interface{}) {
		tmu.Lock()
		trace = append(trace, fmt.Sprintf(f, a...))
		tmu.Unlock()
	}
	fail := func(fp, what string) {
		tmu.Lock()
		witness["trace"] = append([]string(nil), trace...)
		tmu.Unlock()
		rep.Violation(fp, what, witness)
	}
	inconc := func(what string) { rep.Inconc(fmt.Sprintf("[cluster scenario %d minISR=%d] %s", idx, minISR, what)) }
	c, err := vfNewCluster("c04c", 3, func(cfg *Config) {
		cfg.Clustering.ReplicaMaxLeaderTimeout = 30 * time.Second // no failovers here
		cfg.Clustering.ReplicaMaxIdleWait = 200 * time.Millisecond
		cfg.Clustering.ReplicaFetchTimeout = 500 * time.Millisecond
		cfg.Clustering.ReplicaMaxLagTime = 1500 * time.Millisecond
		cfg.Clustering.MinISR = minISR
		cfg.BatchMaxMessages = []int{1, 16, 1024}[rng.Intn(3)]
	})
	if err != nil {
		inconc("cluster start: " + err.Error())
		return
	}
	defer c.Cleanup()
	var gmu sync.Mutex
	gates := map[string]chan struct{}{}
	parked := map[string]bool{}
	rm := vfHooks.On("follower.beforeFetch", func(a ...interface{}) error {
		if a[1].(string) != stream {
			return nil
		}
		gmu.Lock()
		g := gates[a[0].(string)]
		gmu.Unlock()
		if g == nil {
			return nil
		}
		stop, _ := a[5].(<-chan struct{})
		gmu.Lock()
		parked[a[0].(string)] = true
		gmu.Unlock()
		select {
		case <-g:
		case <-stop:
		}
		gmu.Lock()
		parked[a[0].(string)] = false
		gmu.Unlock()
		return nil
	})
	defer rm()
	defer func() {
		gmu.Lock()
		for id, g := range gates {
			close(g)
			delete(gates, id)
		}
		gmu.Unlock()
	}()
	if err := c.CreateStream(&client.CreateStreamRequest{Subject: subject, Name: stream, ReplicationFactor: 3}); err != nil {
		inconc("create stream: " + err.Error())
		return
	}
	ln, err := c.PartitionLeader(stream, 0, 30*time.Second)
	if err != nil {
		inconc(err.Error())
		return
	}
	var lpp, heldPP atomic.Pointer[partition]
	lpp.Store(ln.Partition(stream, 0))
	lp := lpp.Load()
	var fol []string
	for _, id := range c.IDs {
		if id != ln.ID {
			fol = append(fol, id)
		}
	}
	held := fol[rng.Intn(2)]
	heldPP.Store(c.Nodes[held].Partition(stream, 0))
	var phase string
	var pmu sync.Mutex
	setPhase := func(s string) { pmu.Lock(); phase = s; pmu.Unlock(); logf("PHASE %s", s) }
	getPhase := func() string { pmu.Lock(); defer pmu.Unlock(); return phase }
	heldNow := func() bool { gmu.Lock(); defer gmu.Unlock(); return gates[held] != nil }
	onAck := func(m *c04Msg, a *client.Ack) {
		logf("ack %s policy=%s err=%s offset=%d phase=%s", m.Tag, m.Policy, a.AckError, a.Offset, getPhase())
		if a.AckError != client.Ack_OK {
			fail("C04:unexpected-nack", fmt.Sprintf("message %s got ack error %s", m.Tag, a.AckError))
			return
		}
		if m.Policy == client.AckPolicy_NONE {
			fail("C04:none-acked", fmt.Sprintf("message %s with policy NONE was acked", m.Tag))
			return
		}
		if m.Policy != client.AckPolicy_ALL {
			return
		}
		// Decisive, non-racy observation: while the follower is held it cannot
		// append, and it cannot re-enter the ISR; so "held && still in ISR now &&
		// its log ends below the acked offset" implies the same at ack-send time.
		lp := lpp.Load()
		if heldNow() {
			inISR := false
			for _, r := range lp.GetISR() {
				if r == held {
					inISR = true
				}
			}
			hn := heldPP.Load().log.NewestOffset()
			if inISR && hn < a.Offset {
				fail("C04:all-acked-before-isr-stored", fmt.Sprintf("ALL-policy ack for %s at offset %d received while in-sync replica %s (held, still in the ISR %v) has only stored up to %d", m.Tag, a.Offset, held, lp.GetISR(), hn))
			}
			if strings.HasPrefix(m.Tag, "below") && minISR == 3 {
				fail("C04:all-acked-below-min-isr", fmt.Sprintf("ALL-policy ack for %s received although the ISR has %d members (%v) throughout the message's life and min ISR is %d", m.Tag, lp.ISRSize(), lp.GetISR(), minISR))
			}
		}
		if hw := lp.log.HighWatermark(); hw < a.Offset {
			fail("C04:all-acked-before-commit", fmt.Sprintf("ALL-policy ack for %s at offset %d received while the leader HW is %d", m.Tag, a.Offset, hw))
		}
		// Every member of the leader's ISR, free-running ones included, holds
		// exactly this message at the acked offset (c04_content_test.go).
		isr := lp.GetISR()
		if fp, what, _ := c04JudgeAllAck(isr, ln.ID, func(id string) *partition {
			if n := c.Nodes[id]; n != nil {
				return n.Partition(stream, 0)
			}
			return nil
		}, func(id string) bool {
			gmu.Lock()
			defer gmu.Unlock()
			return gates[id] != nil && parked[id]
		}, m.Tag, a.Offset); fp != "" {
			fail(fp, what)
		}
		rep.Count("isr_members_read_at_all_ack_receipt", int64(len(isr)))
	}
	pub, err := c04NewPub(c.URL, onAck)
	if err != nil {
		inconc("publisher: " + err.Error())
		return
	}
	defer pub.close()
	seq := 0
	publish := func(prefix string, n int, pol client.AckPolicy) []*c04Msg {
		var out []*c04Msg
		for i := 0; i < n; i++ {
			seq++
			m := &c04Msg{Tag: fmt.Sprintf("%ss%d-m%03d", prefix, idx, seq), Policy: pol, Expect: -1}
			pub.send(stream, subject, m, c04Value(m.Tag, rng.Range(10, 120)))
			out = append(out, m)
		}
		pub.nc.Flush()
		return out
	}
	// phase 0: healthy
	setPhase("healthy")
	first := publish("ok-", rng.Range(2, 5), client.AckPolicy_ALL)
	if !pub.waitAcked(first, 30*time.Second) {
		inconc("initial ALL publishes not acked")
		return
	}
	// phase 1: hold one follower; publish ALL while it is (still) in the ISR
	gmu.Lock()
	gates[held] = make(chan struct{})
	gmu.Unlock()
	// wait until the follower is parked at the gate: from then on it has no
	// request in flight and cannot append until released
	if !vfWait(20*time.Second, func() bool { gmu.Lock(); defer gmu.Unlock(); return parked[held] }) {
		inconc("held follower never reached the fetch gate")
		return
	}
	setPhase("held-in-isr")
	inISRmsgs := publish("held-", rng.Range(2, 6), client.AckPolicy_ALL)
	mixed := publish("heldL-", rng.Range(1, 3), client.AckPolicy_LEADER)
	publish("heldN-", rng.Range(1, 3), client.AckPolicy_NONE)
	if !pub.waitAcked(mixed, 20*time.Second) {
		inconc("LEADER-policy publishes not acked while a follower is held")
		return
	}
	// wait for the leader to shrink the ISR
	if !vfWait(30*time.Second, func() bool { return lp.ISRSize() == 2 }) {
		inconc("ISR did not shrink to 2 while a follower is held")
		return
	}
	setPhase("shrunk")
	decisive := false
	if minISR <= 2 {
		// now the ISR is {leader, other}: pending ALL messages commit
		if !pub.waitAcked(inISRmsgs, 30*time.Second) {
			inconc("ALL publishes not acked after the ISR shrank to 2 (minISR<=2)")
			return
		}
		more := publish("shrunk-", rng.Range(1, 4), client.AckPolicy_ALL)
		if !pub.waitAcked(more, 30*time.Second) {
			inconc("ALL publishes not acked with ISR of 2")
			return
		}
		decisive = true
		if minISR == 2 {
			// Second held follower: the ISR drops to the leader alone, below the
			// minimum, so ALL messages stay pending.  Then the first held
			// follower is put back into the ISR through the metadata API (an
			// ExpandISR request with the current leader and epoch) although it
			// is still parked and behind: it counts as not having reported any
			// offset yet, so nothing may be acked until it really has stored
			// the messages.
			other := fol[0]
			if other == held {
				other = fol[1]
			}
			gmu.Lock()
			gates[other] = make(chan struct{})
			gmu.Unlock()
			if vfWait(20*time.Second, func() bool { gmu.Lock(); defer gmu.Unlock(); return parked[other] }) &&
				vfWait(30*time.Second, func() bool { return lp.ISRSize() == 1 }) {
				setPhase("leader-alone-below-min")
				pend := publish("pend-", rng.Range(2, 4), client.AckPolicy_ALL)
				kick := publish("pendL-", 1, client.AckPolicy_LEADER)
				if pub.waitAcked(kick, 20*time.Second) {
					leader, epoch := lp.GetLeader()
					ctx, cancel := context.WithTimeout(context.Background(), 15*time.Second)
					st := ln.Server().metadata.ExpandISR(ctx, &proto.ExpandISROp{Stream: stream, Partition: 0, ReplicaToAdd: held, Leader: leader, LeaderEpoch: epoch})
					cancel()
					if st == nil && vfWait(20*time.Second, func() bool { return lp.ISRSize() == 2 }) {
						setPhase("expanded-while-parked")
						kick2 := publish("pendL2-", 2, client.AckPolicy_LEADER) // each append triggers a commit check
						if pub.waitAcked(kick2, 20*time.Second) {
							vfWait(1500*time.Millisecond, func() bool { return rep.NumViolations() > 0 })
							rep.Count("cluster_forced_expand_phases", 1)
						}
						_ = pend
					}
				}
			}
			gmu.Lock()
			if g := gates[other]; g != nil {
				close(g)
				delete(gates, other)
			}
			gmu.Unlock()
		}
	} else {
		// minISR == 3: nothing may be acked with ALL while the ISR has 2 members
		below := publish("below-", rng.Range(2, 5), client.AckPolicy_ALL)
		lead := publish("belowL-", 2, client.AckPolicy_LEADER)
		if !pub.waitAcked(lead, 20*time.Second) {
			inconc("LEADER-policy publishes not acked below min ISR")
			return
		}
		// fence: the LEADER acks above were sent after the leader wrote the
		// "below-" messages (same subject, FIFO); give the commit loop time to
		// (wrongly) ack them: any such ack is caught by onAck whenever it comes
		// while the follower is held.  Hold for two more lag periods.
		vfWait(3*time.Second, func() bool { return rep.NumViolations() > 0 })
		for _, m := range append(below, inISRmsgs...) {
			if len(pub.acks(m)) > 0 && rep.NumViolations() == 0 {
				fail("C04:all-acked-below-min-isr", fmt.Sprintf("ALL-policy message %s was acked while the ISR had 2 members and min ISR is 3", m.Tag))
			}
		}
		decisive = true
		// The partition objects are rebuilt (pause + resume) while the ISR is
		// still below the minimum: the rule must survive that.
		if ml, err := c.MetaLeader(20 * time.Second); err == nil {
			ctx, cancel := context.WithTimeout(context.Background(), 20*time.Second)
			_, perr := ml.api.PauseStream(ctx, &client.PauseStreamRequest{Name: stream})
			cancel()
			if perr == nil {
				setPhase("paused")
				ctx, cancel = context.WithTimeout(context.Background(), 20*time.Second)
				_, rerr := ml.api.Publish(ctx, &client.PublishRequest{Stream: stream, Value: c04Value("resume-kick", 20), AckPolicy: client.AckPolicy_LEADER})
				cancel()
				resumed := rerr == nil && vfWait(30*time.Second, func() bool {
					n2, err := c.PartitionLeader(stream, 0, 10*time.Millisecond)
					if err != nil || n2.ID != ln.ID {
						return false
					}
					hp := c.Nodes[held].Partition(stream, 0)
					return hp != nil && !hp.IsPaused() && hp != heldPP.Load()
				})
				if resumed {
					lpp.Store(ln.Partition(stream, 0))
					heldPP.Store(c.Nodes[held].Partition(stream, 0))
					lp = lpp.Load()
					setPhase("resumed-below-min")
					below2 := publish("below2-", rng.Range(2, 4), client.AckPolicy_ALL)
					lead2 := publish("below2L-", 2, client.AckPolicy_LEADER)
					if pub.waitAcked(lead2, 20*time.Second) {
						vfWait(2*time.Second, func() bool { return rep.NumViolations() > 0 })
						for _, m := range below2 {
							if len(pub.acks(m)) > 0 && rep.NumViolations() == 0 {
								fail("C04:all-acked-below-min-isr", fmt.Sprintf("ALL-policy message %s was acked after pause+resume while the ISR had 2 members and min ISR is 3", m.Tag))
							}
						}
						rep.Count("cluster_pause_resume_below_min_phases", 1)
					}
					// acks pending in the old partition objects' commit queues are
					// gone with those objects: only the new ones can still arrive
					below = below2
					inISRmsgs = nil
				} else {
					inconc("stream did not resume on the same leader after pause")
				}
			}
		}
		// release: ISR expands to 3, then everything pending must be acked
		setPhase("released")
		gmu.Lock()
		close(gates[held])
		delete(gates, held)
		gmu.Unlock()
		if !vfWait(40*time.Second, func() bool { return lp.ISRSize() == 3 }) {
			inconc("ISR did not expand after release")
			return
		}
		if !pub.waitAcked(append(below, inISRmsgs...), 40*time.Second) {
			inconc("pending ALL publishes not acked after the ISR recovered")
			return
		}
	}
	if heldNow() {
		setPhase("released")
		gmu.Lock()
		close(gates[held])
		delete(gates, held)
		gmu.Unlock()
		vfWait(40*time.Second, func() bool { return lp.ISRSize() == 3 })
	}
	last := publish("end-", 2, client.AckPolicy_ALL)
	if !pub.waitAcked(last, 40*time.Second) {
		inconc("final publishes not acked")
		return
	}
	// final scan on the leader
	stored, _, err := c04FinalScan(lp)
	if err != nil {
		fail("C04:final-scan", err.Error())
		return
	}
	pub.mu.Lock()
	all := append([]*c04Msg(nil), pub.all...)
	pub.mu.Unlock()
	sort.Slice(all, func(i, j int) bool { return all[i].Tag < all[j].Tag })
	pos := 0
	for _, m := range all {
		acks := pub.acks(m)
		if len(acks) > 1 {
			fail("C04:duplicate-ack", fmt.Sprintf("message %s received %d acks", m.Tag, len(acks)))
		}
		if len(acks) == 1 && acks[0].AckError == client.Ack_OK {
			pos++
			if off, ok := stored[m.Tag]; !ok || off != acks[0].Offset {
				fail("C04:ack-offset-mismatch", fmt.Sprintf("message %s acked at offset %d but stored=%v at %d", m.Tag, acks[0].Offset, ok, off))
			}
		}
		if m.Policy == client.AckPolicy_NONE && len(acks) > 0 {
			fail("C04:none-acked", fmt.Sprintf("message %s with policy NONE was acked", m.Tag))
		}
	}
	// quiescence: gates open, ISR complete again per leader and controller, all
	// log ends equal: every ISR member holds every ALL-acked message
	if qn, isr, ok := c04Quiescent(c, stream, 3, 40*time.Second); ok && qn.ID == ln.ID {
		rep.Count("quiescent_member_ack_pairs_compared", int64(c04JudgeQuiescent(c, stream, qn, isr, c04PositiveAllAcks(pub), fail)))
	} else {
		inconc("partition did not become quiet at the end of the scenario")
	}
	rep.Eval()
	rep.Count("cluster_positive_acks", int64(pos))
	rep.Count("cluster_messages", int64(len(all)))
	if decisive {
		rep.Nontrivial(fmt.Sprintf("cluster|minISR=%d|%d", minISR, seed))
	}
	rep.Sample(map[string]any{"scenario": idx, "minISR": minISR, "held": held, "leader": ln.ID, "messages": len(all)})
}
