//go:build verif

package server

// C07 — partition leadership changes are safe and fenced by epochs.
//
// Core of the monitor: a single-node controller (real Raft, real metadata API,
// real FSM) on which streams with PHANTOM replica sets r1..rn are proposed
// through the real applyOperation path; the harness then plays the role of the
// replicas and issues ReportLeader / ShrinkISR / ExpandISR calls, lets "time
// pass" (expiry of the failover window) and makes the controller lose
// leadership.  Every committed Raft entry is observed through
// AddRaftLogListener on the FSM goroutine (exact post-apply state) and every
// call is observed on the calling goroutine.
//
//	I1 Epoch / LeaderEpoch never decrease, strictly increase on an applied change
//	I2 leader ∈ ISR ⊆ replicas at every observation
//	I3 leader epoch → leader is a function over the whole run
//	I4 a new leader was in the ISR at the moment of the change and is not the old leader
//	I5 a leader change happens only after more than half of the in-sync
//	   followers reported the current (leader, epoch) inside the current window
//	   (shadow witness model fed only by the calls the harness made)
//	I6 a request naming a stale leader / epoch is refused (FailedPrecondition)
//	   and changes nothing; no ISR change is applied under another (leader, epoch)
//	   than the one it names
//
// The partition OBJECT behind a stream is not stable: PauseStream closes it and
// the resume replaces it by a new object built from the replicated record
// (metadataAPI.ResumePartition -> replacePartition).  Programs therefore also
// contain P (PauseStream through the metadata API) and Q (RESUME_STREAM proposed
// through applyOperation with the real precondition function) between the
// report / ISR operations; the monitor follows the object (the log listener
// re-reads it at every RESUME_STREAM entry) and keeps its whole memory (epochs,
// leader per epoch, reports of the window) across the replacement, so I1-I6 —
// in particular the quorum against the in-sync followers AS OF THE CHANGE — span
// pause and resume.

import (
	"context"
	"fmt"
	"os"
	"sort"
	"strings"
	"sync"
	"sync/atomic"
	"time"

	"google.golang.org/grpc/codes"
	"google.golang.org/grpc/status"

	kit "github.com/liftbridge-io/liftbridge/internal/verifkit"
	proto "github.com/liftbridge-io/liftbridge/server/protocol"
)

const c07Unknown = "zz" // an id that is not a replica of any partition

// ---------------------------------------------------------------- digest

type c07Digest struct {
	Leader      string   `json:"leader"`
	LeaderEpoch uint64   `json:"leader_epoch"`
	Epoch       uint64   `json:"epoch"`
	ISR         []string `json:"isr"`
	Replicas    []string `json:"replicas"`
	protoISR    []string
}

// c07Read takes an atomic picture of the replicated leadership state.
func c07Read(p *partition) c07Digest {
	p.mu.RLock()
	defer p.mu.RUnlock()
	d := c07Digest{Leader: p.Leader, LeaderEpoch: p.LeaderEpoch, Epoch: p.Epoch}
	for r := range p.isr {
		d.ISR = append(d.ISR, r)
	}
	for r := range p.replicas {
		d.Replicas = append(d.Replicas, r)
	}
	d.protoISR = append(d.protoISR, p.Isr...)
	sort.Strings(d.ISR)
	sort.Strings(d.Replicas)
	sort.Strings(d.protoISR)
	return d
}

func (d c07Digest) String() string {
	return fmt.Sprintf("{L=%s le=%d e=%d isr=%s}", d.Leader, d.LeaderEpoch, d.Epoch, strings.Join(d.ISR, ","))
}

func (d c07Digest) same(o c07Digest) bool {
	return d.Leader == o.Leader && d.LeaderEpoch == o.LeaderEpoch && d.Epoch == o.Epoch &&
		strings.Join(d.ISR, ",") == strings.Join(o.ISR, ",") && strings.Join(d.Replicas, ",") == strings.Join(o.Replicas, ",")
}

func c07In(set []string, id string) bool {
	for _, s := range set {
		if s == id {
			return true
		}
	}
	return false
}

// followers = in-sync followers = ISR without the leader.
func (d c07Digest) followers() []string {
	var out []string
	for _, r := range d.ISR {
		if r != d.Leader {
			out = append(out, r)
		}
	}
	return out
}

func (d c07Digest) outOfSync() []string {
	var out []string
	for _, r := range d.Replicas {
		if !c07In(d.ISR, r) {
			out = append(out, r)
		}
	}
	return out
}

// ---------------------------------------------------------------- ops

type c07Op struct {
	Kind string // R report, S shrink, E expand, X more than the timeout passes without a report, G a gap of about the timeout (real-timer profile only), L controller loses leadership, P the stream is paused, Q the stream is resumed (the partition object is replaced), PQ = P then Q
	Who  string // role, resolved against the state when the op runs: f0..f3 k-th in-sync follower, fl last in-sync follower, o0,o1 k-th out-of-sync replica, L the leader, U an unknown id
	Pair string // cur | staleEpoch | staleLeader | prevPair
	// Ctx is the context the request is made with: "" a live one, "dead" one
	// whose deadline has already passed when the call is made (whatever the call
	// has to replicate through Raft "times out": a report that completes the
	// quorum then triggers an election that FAILS), "tight" one whose deadline
	// is a millisecond away (the replication may or may not make it; the caller
	// may be told "timed out" for an entry that is committed after all).
	Ctx string
}

func (o c07Op) String() string {
	switch o.Kind {
	case "X", "L", "G", "P", "Q", "PQ", "[", "]":
		return o.Kind
	}
	s := o.Kind + "." + o.Who
	if o.Pair != "" && o.Pair != "cur" {
		s += "." + o.Pair
	}
	if o.Ctx != "" {
		s += "!" + o.Ctx
	}
	return s
}

func c07ProgString(p []c07Op) string {
	s := make([]string, len(p))
	for i, o := range p {
		s[i] = o.String()
	}
	return strings.Join(s, " ")
}

func c07Resolve(d c07Digest, who string) (string, bool) {
	switch {
	case who == "L":
		return d.Leader, d.Leader != ""
	case who == "U":
		return c07Unknown, true
	case who == "fl":
		f := d.followers()
		if len(f) == 0 {
			return "", false
		}
		return f[len(f)-1], true
	case strings.HasPrefix(who, "f"):
		f := d.followers()
		k := int(who[1] - '0')
		if k >= len(f) {
			return "", false
		}
		return f[k], true
	case strings.HasPrefix(who, "o"):
		o := d.outOfSync()
		k := int(who[1] - '0')
		if k >= len(o) {
			return "", false
		}
		return o[k], true
	}
	return "", false
}

type c07Pair struct {
	Leader string
	Epoch  uint64
}

// ---------------------------------------------------------------- environment

type c07Env struct {
	rep   *kit.Report
	cl    *vfCluster
	srv   *Server
	real  bool          // real-timer profile: the configured timeout is short and time really passes
	T     time.Duration // ReplicaMaxLeaderTimeout
	mu    sync.Mutex
	parts map[string]*c07Part
	seq   atomic.Int64
	tag   string
}

func c07NewEnv(rep *kit.Report, tag string, timeout time.Duration, real bool) (*c07Env, error) {
	cl, s, err := vfSingle("c07"+tag, func(cfg *Config) {
		cfg.Clustering.ReplicaMaxLeaderTimeout = timeout
		cfg.Clustering.RaftSnapshotThreshold = 1 << 40 // FSM snapshots are C06's business
	})
	if err != nil {
		return nil, err
	}
	e := &c07Env{rep: rep, cl: cl, srv: s, real: real, T: timeout, parts: map[string]*c07Part{}, tag: tag}
	s.AddRaftLogListener(e)
	return e, nil
}

func (e *c07Env) close() { e.cl.Cleanup() }

// Receive is called on the FSM goroutine after every applied Raft entry.
func (e *c07Env) Receive(l *RaftLog) {
	op := &proto.RaftLog{}
	if err := op.Unmarshal(l.Data); err != nil {
		return
	}
	var stream string
	switch op.Op {
	case proto.Op_CREATE_STREAM:
		stream = op.CreateStreamOp.Stream.Name
	case proto.Op_SHRINK_ISR:
		stream = op.ShrinkISROp.Stream
	case proto.Op_EXPAND_ISR:
		stream = op.ExpandISROp.Stream
	case proto.Op_CHANGE_LEADER:
		stream = op.ChangeLeaderOp.Stream
	case proto.Op_DELETE_STREAM:
		stream = op.DeleteStreamOp.Stream
	case proto.Op_PAUSE_STREAM:
		stream = op.PauseStreamOp.Stream
	case proto.Op_RESUME_STREAM:
		stream = op.ResumeStreamOp.Stream
	default:
		return
	}
	e.mu.Lock()
	pt := e.parts[stream]
	e.mu.Unlock()
	if pt != nil {
		pt.onLog(l.Index, op)
	}
}

// ---------------------------------------------------------------- per-partition monitor

type c07Report struct {
	seq         int
	reporter    string
	pair        c07Pair
	accepted    bool // named the pair that was current when the call was issued
	wasFollower bool // the reporter was an in-sync follower when the call was issued
	refused     bool // the call returned an error (set after the call; used only to explain a violation, never for the verdict)
	// Used only to choose the fingerprint of an I5 violation, never for the
	// verdict: issued / returned are values of the partition's event clock
	// (0 = the call has not returned), settled says that the call returned at a
	// point where no Raft entry could have been applied since it was issued
	// except through the call itself (sequential execution, or the harness held
	// the controller's proposal mutex from before the call until after its
	// return), electionFailed that the call returned the error of a leader
	// election it triggered.
	issued, returned int64
	settled          bool
	electionFailed   bool
}

// c07Removal: a SHRINK_ISR entry seen by the log listener.
type c07Removal struct {
	id string
	at int64 // event clock
}

type c07Boundary struct {
	seq  int
	kind string // expired (the code's window was reset by the expiry handler, or no window was open) | unarmed (time passed but the code had no timer pending) | lost (controller leadership loss)
}

type c07Part struct {
	env    *c07Env
	stream string
	n      int
	prog   []c07Op
	label  string

	mu                                                     sync.Mutex
	p                                                      *partition
	last                                                   c07Digest // state as of the last committed entry (maintained on the FSM goroutine)
	created                                                bool
	deleted                                                bool
	entries                                                int // committed entries for this partition
	epochLeader                                            map[uint64]string
	pairs                                                  []c07Pair // leadership history, last = current
	obsLE, obsE                                            uint64    // largest epochs seen at any observation
	seq                                                    int
	reports                                                []c07Report
	bounds                                                 []c07Boundary
	trace                                                  []string
	failed                                                 bool // a violation was recorded: the rest of the sequence is not run
	concurrent                                             bool
	onFSM                                                  bool         // set while the log listener holds mu
	phaseStates                                            []c07Digest  // concurrent profile: every committed state since the last barrier
	clock                                                  int64        // event clock: ticks at every call issue, call return and committed entry
	removals                                               []c07Removal // SHRINK_ISR entries applied
	gated                                                  bool         // run by the gated unit: calls are issued while the harness holds the proposal mutex (c07_gated_test.go)
	gateHeld                                               bool         // gated unit: the harness holds the controller's proposal mutex right now
	longCtx                                                bool         // live contexts get a long deadline (calls may sit behind the gate)
	nFailedElections, nDeadCtx, nEntriesAfterCallerTimeout int
	feStage, nLateAfterFailedElection                      int // coverage: 1 after a failed election, 2 once more than the timeout has passed since; a report taken in stage 2 is the situation of interest

	// coverage
	nChanges, nISRChanges, nStaleRefused, nReportsOK, nExpiredArmed, nUnarmed, nLost, nSkipped int
	nChangeFromCarry                                                                           int
	nPauses, nReplaced, nResumeInFlight                                                        int // pause entries, resume entries that replaced the partition object, of those: with reports of the current pair pending in the code
	pruned                                                                                     bool
}

func (pt *c07Part) tr(format string, a ...interface{}) {
	if len(pt.trace) < 400 {
		pt.trace = append(pt.trace, fmt.Sprintf(format, a...))
	}
}

func (pt *c07Part) replay() map[string]interface{} {
	return map[string]interface{}{
		"case":     pt.label,
		"replicas": pt.n,
		"program":  c07ProgString(pt.prog),
		"trace":    append([]string(nil), pt.trace...),
		"profile":  map[bool]string{false: "simulated-expiry", true: "real-timer"}[pt.env.real],
	}
}

func (pt *c07Part) entriesNow() int {
	pt.mu.Lock()
	defer pt.mu.Unlock()
	return pt.entries
}

// fail must be called with pt.mu held.
func (pt *c07Part) fail(fp, what string, fatal bool) {
	if fatal {
		pt.failed = true
	}
	pt.tr("!! %s: %s", fp, what)
	pt.env.rep.Violation(fp, what, pt.replay())
}

// observe checks I1 (no decrease), I2 and I3 on a state picture.  cause names
// the operation after which the picture was taken.  pt.mu held.
func (pt *c07Part) observe(d c07Digest, cause string) {
	if pt.failed {
		return
	}
	pt.env.rep.Count("observations", 1)
	if d.LeaderEpoch < pt.obsLE {
		pt.fail("C07:I1:leader-epoch-decreased", fmt.Sprintf("leader epoch went from %d to %d (after %s)", pt.obsLE, d.LeaderEpoch, cause), true)
		return
	}
	if d.Epoch < pt.obsE {
		pt.fail("C07:I1:partition-epoch-decreased", fmt.Sprintf("partition epoch went from %d to %d (after %s)", pt.obsE, d.Epoch, cause), true)
		return
	}
	pt.obsLE, pt.obsE = d.LeaderEpoch, d.Epoch
	if l, ok := pt.epochLeader[d.LeaderEpoch]; ok && l != d.Leader {
		pt.fail("C07:I3:two-leaders-in-one-epoch", fmt.Sprintf("leader epoch %d had leader %s and now has leader %s (after %s)", d.LeaderEpoch, l, d.Leader, cause), true)
		return
	}
	pt.epochLeader[d.LeaderEpoch] = d.Leader
	if pt.concurrent && !pt.onFSM {
		// a caller can see the effect of an entry before the log listener has
		// processed it; in the concurrent profile I2 is checked entry by entry
		// on the FSM goroutine, where the cause is known
		return
	}
	if !c07In(d.ISR, d.Leader) {
		pt.fail("C07:I2:leader-not-in-isr:after-"+cause, fmt.Sprintf("after %s the leader %s is not in the ISR %v", cause, d.Leader, d.ISR), true)
		return
	}
	for _, r := range d.ISR {
		if !c07In(d.Replicas, r) {
			pt.fail("C07:I2:isr-not-subset-of-replicas:after-"+cause, fmt.Sprintf("after %s the ISR %v contains %s which is not a replica %v", cause, d.ISR, r, d.Replicas), true)
			return
		}
	}
	if strings.Join(d.ISR, ",") != strings.Join(d.protoISR, ",") {
		pt.fail("C07:I2:persisted-isr-differs:after-"+cause, fmt.Sprintf("after %s the in-memory ISR %v differs from the ISR in the replicated record %v", cause, d.ISR, d.protoISR), true)
		return
	}
}

// onLog runs on the FSM goroutine right after the entry was applied.
func (pt *c07Part) onLog(index uint64, op *proto.RaftLog) {
	pt.mu.Lock()
	pt.onFSM = true
	defer func() { pt.onFSM = false; pt.mu.Unlock() }()
	rep := pt.env.rep
	switch op.Op {
	case proto.Op_DELETE_STREAM:
		pt.deleted = true
		return
	case proto.Op_CREATE_STREAM:
		p := pt.env.srv.metadata.GetPartition(pt.stream, 0)
		if p == nil {
			rep.Inconc("C07: partition not found right after CREATE_STREAM was applied")
			pt.failed = true
			return
		}
		pt.p = p
		d := c07Read(p)
		pt.last, pt.created = d, true
		pt.pairs = []c07Pair{{d.Leader, d.LeaderEpoch}}
		pt.phaseStates = []c07Digest{d}
		pt.tr("log#%d CREATE -> %s", index, d)
		pt.observe(d, "CreateStream")
		return
	}
	if !pt.created || pt.p == nil || pt.deleted {
		return
	}
	if op.Op == proto.Op_PAUSE_STREAM || op.Op == proto.Op_RESUME_STREAM {
		// Not a leadership operation: the partition is closed resp. its object is
		// replaced by one rebuilt from the replicated record.  Follow the object
		// and require that the replicated leadership state went through unchanged.
		prev, cause := pt.last, "PauseStream"
		if op.Op == proto.Op_RESUME_STREAM {
			cause = "ResumeStream"
			p := pt.env.srv.metadata.GetPartition(pt.stream, 0)
			if p == nil {
				pt.fail("C07:lifecycle:resume:partition-lost", fmt.Sprintf("entry #%d (RESUME_STREAM): the partition of %s is gone (state before %s)", index, pt.stream, prev), true)
				return
			}
			if p != pt.p {
				pt.p = p
				pt.nReplaced++
				rep.Count("resume_replaced_partition_object", 1)
			}
		} else {
			pt.nPauses++
		}
		d := c07Read(pt.p)
		pt.last = d
		pt.phaseStates = append(pt.phaseStates, d)
		pt.tr("log#%d %s -> %s", index, cause, d)
		if pt.failed {
			return
		}
		if d.Leader != prev.Leader || d.LeaderEpoch != prev.LeaderEpoch {
			pt.fail("C07:I5:leader-changed-by-"+cause, fmt.Sprintf("entry #%d (%s) changed leader/epoch from (%s,%d) to (%s,%d) without a leader change decided by reports", index, op.Op, prev.Leader, prev.LeaderEpoch, d.Leader, d.LeaderEpoch), true)
			return
		}
		if d.Epoch != prev.Epoch || strings.Join(d.ISR, ",") != strings.Join(prev.ISR, ",") || strings.Join(d.Replicas, ",") != strings.Join(prev.Replicas, ",") {
			pt.fail("C07:lifecycle:"+cause+":isr-or-epoch-changed", fmt.Sprintf("entry #%d (%s) changed the replicated leadership state from %s to %s (replicas %v -> %v)", index, op.Op, prev, d, prev.Replicas, d.Replicas), false)
		}
		pt.observe(d, cause)
		return
	}
	pt.entries++
	prev := pt.last
	d := c07Read(pt.p)
	pt.last = d
	pt.phaseStates = append(pt.phaseStates, d)
	rep.Count("log_entries_observed", 1)
	if pt.failed {
		return
	}
	// I1: an applied change strictly increases the partition epoch.
	if d.Epoch <= prev.Epoch {
		pt.fail("C07:I1:epoch-not-increased-by-applied-change", fmt.Sprintf("entry #%d (%s) left the partition epoch at %d (was %d)", index, op.Op, d.Epoch, prev.Epoch), true)
		return
	}
	switch op.Op {
	case proto.Op_SHRINK_ISR, proto.Op_EXPAND_ISR:
		var named c07Pair
		var what, cause string
		if op.Op == proto.Op_SHRINK_ISR {
			named = c07Pair{op.ShrinkISROp.Leader, op.ShrinkISROp.LeaderEpoch}
			what, cause = "shrink("+op.ShrinkISROp.ReplicaToRemove+")", "ShrinkISR"
			if op.ShrinkISROp.ReplicaToRemove == prev.Leader {
				cause = "ShrinkISR-of-leader"
			}
		} else {
			named = c07Pair{op.ExpandISROp.Leader, op.ExpandISROp.LeaderEpoch}
			what, cause = "expand("+op.ExpandISROp.ReplicaToAdd+")", "ExpandISR"
		}
		pt.nISRChanges++
		pt.clock++
		if op.Op == proto.Op_SHRINK_ISR {
			pt.removals = append(pt.removals, c07Removal{op.ShrinkISROp.ReplicaToRemove, pt.clock})
		}
		pt.tr("log#%d %s naming (%s,%d) -> %s", index, what, named.Leader, named.Epoch, d)
		if d.LeaderEpoch != prev.LeaderEpoch || d.Leader != prev.Leader {
			pt.fail("C07:I1:isr-change-altered-leader", fmt.Sprintf("entry #%d %s changed leader/epoch from (%s,%d) to (%s,%d)", index, what, prev.Leader, prev.LeaderEpoch, d.Leader, d.LeaderEpoch), true)
			return
		}
		// I6 (fence at apply time): the change must name the (leader, epoch) it is applied under.
		if named.Leader != prev.Leader || named.Epoch != prev.LeaderEpoch {
			fp := "C07:I6:isr-change-applied-under-other-leader-epoch"
			if pt.concurrent {
				fp += ":concurrent"
			}
			pt.fail(fp, fmt.Sprintf("entry #%d %s names (leader %s, epoch %d) but was applied while the partition had (leader %s, epoch %d)",
				index, what, named.Leader, named.Epoch, prev.Leader, prev.LeaderEpoch), !c07In(d.ISR, d.Leader))
		}
		pt.observe(d, cause)
	case proto.Op_CHANGE_LEADER:
		pt.nChanges++
		pt.feStage = 0
		rep.Count("leader_changes", 1)
		pt.tr("log#%d CHANGE_LEADER %s -> %s", index, prev, d)
		if d.LeaderEpoch <= prev.LeaderEpoch {
			pt.fail("C07:I1:leader-epoch-not-increased-by-leader-change", fmt.Sprintf("entry #%d changed the leader %s->%s but the leader epoch went %d->%d", index, prev.Leader, d.Leader, prev.LeaderEpoch, d.LeaderEpoch), true)
			return
		}
		if d.Leader != op.ChangeLeaderOp.Leader {
			pt.fail("C07:I4:applied-leader-differs-from-entry", fmt.Sprintf("entry #%d names leader %s, partition has %s", index, op.ChangeLeaderOp.Leader, d.Leader), true)
			return
		}
		// I4
		if d.Leader == prev.Leader {
			fp := "C07:I4:reported-leader-re-elected"
			if pt.concurrent {
				fp += ":concurrent"
			}
			pt.fail(fp, fmt.Sprintf("entry #%d re-elected the reported leader %s with a new leader epoch (%d -> %d, ISR %v)", index, prev.Leader, prev.LeaderEpoch, d.LeaderEpoch, prev.ISR), false)
		} else if !c07In(prev.ISR, d.Leader) {
			fp := "C07:I4:new-leader-not-from-isr"
			if pt.concurrent {
				fp += ":concurrent"
			}
			pt.fail(fp, fmt.Sprintf("entry #%d elected %s which was not in the ISR %v at the moment of the change (replicas %v)", index, d.Leader, prev.ISR, prev.Replicas), true)
			return
		}
		// I5
		pt.checkQuorum(index, prev)
		pt.pairs = append(pt.pairs, c07Pair{d.Leader, d.LeaderEpoch})
		pt.observe(d, "ChangeLeader")
	}
}

// c07Distinct groups reports by reporter.  The kept record prefers one that
// the code cannot have refused and that was made as an in-sync follower.
func c07Distinct(rs []c07Report, keep func(c07Report) bool) map[string]c07Report {
	rank := func(r c07Report) int {
		switch {
		case !r.refused && r.wasFollower:
			return 3
		case !r.refused:
			return 2
		case r.wasFollower:
			return 1
		}
		return 0
	}
	out := map[string]c07Report{}
	for _, r := range rs {
		if keep(r) {
			if old, ok := out[r.reporter]; !ok || rank(r) > rank(old) {
				out[r.reporter] = r
			}
		}
	}
	return out
}

// checkQuorum is I5: the change away from prev.(Leader, LeaderEpoch) needs
// reports naming exactly that pair, made after the last point at which the
// window certainly ended, from more than half of the in-sync followers as of
// the change.  pt.mu held.
func (pt *c07Part) checkQuorum(index uint64, prev c07Digest) {
	cur := c07Pair{prev.Leader, prev.LeaderEpoch}
	windowStart, resetStart := -1, -1
	for _, b := range pt.bounds {
		windowStart = b.seq
		if b.kind != "unarmed" {
			resetStart = b.seq
		}
	}
	inWindow := c07Distinct(pt.reports, func(r c07Report) bool { return r.seq > windowStart && r.pair == cur })
	states := []c07Digest{prev}
	if pt.concurrent {
		// reports and ISR changes race inside a phase: accept the change if the
		// quorum holds for any ISR the partition had under this leader epoch
		// since the last barrier.
		for _, s := range pt.phaseStates {
			if s.LeaderEpoch == prev.LeaderEpoch {
				states = append(states, s)
			}
		}
	}
	for _, st := range states {
		fol := st.followers()
		n := 0
		for _, f := range fol {
			if _, ok := inWindow[f]; ok {
				n++
			}
		}
		if 2*n > len(fol) {
			pt.env.rep.Count("leader_changes_with_quorum", 1)
			return
		}
	}
	// violation: explain which reporters the code must have counted
	fol := prev.followers()
	need := len(fol)/2 + 1
	valid, neverValid, leftISR := []string{}, []string{}, []string{}
	for id, r := range inWindow {
		switch {
		case c07In(fol, id):
			valid = append(valid, id)
		case r.refused:
			// the code said it did not count this report
		case r.wasFollower:
			leftISR = append(leftISR, id)
		default:
			neverValid = append(neverValid, id)
		}
	}
	sort.Strings(valid)
	sort.Strings(neverValid)
	sort.Strings(leftISR)
	counted := map[string]bool{}
	for _, l := range [][]string{valid, leftISR, neverValid} {
		for _, id := range l {
			counted[id] = true
		}
	}
	carried := c07Distinct(pt.reports, func(r c07Report) bool {
		inWin := r.seq > windowStart && r.pair == cur
		return r.seq > resetStart && r.accepted && !r.refused && !inWin && !counted[r.reporter]
	})
	carriedIDs := kit.SortedKeys(carried)
	// Fingerprint refinements (the verdict is already taken).  (1) A reporter
	// removed from the ISR whose reports had all RETURNED, at points where no
	// entry could be applied behind the call's back, before its removal was
	// applied: the witness was registered before the removal ran, so the
	// removal did not forget it (distinct from a report call that OVERLAPS the
	// apply of the removal, which is a check-then-act race inside the call).
	// (2) Reports carried over a pause longer than the timeout although the
	// election they had triggered FAILED.
	var settledLeft []string
	for _, id := range leftISR {
		var removedAt int64
		for _, rm := range pt.removals {
			if rm.id == id {
				removedAt = rm.at
			}
		}
		ok, any := removedAt > 0, false
		for _, r := range pt.reports {
			if r.reporter != id || r.seq <= windowStart || r.pair != cur || r.refused || !r.wasFollower || r.issued > removedAt {
				continue
			}
			any = true
			if !r.settled || r.returned == 0 || r.returned > removedAt {
				ok = false
			}
		}
		if ok && any {
			settledLeft = append(settledLeft, id)
		}
	}
	failedElection := false
	for _, r := range pt.reports {
		if r.seq > resetStart && r.seq <= windowStart && r.pair == cur && r.electionFailed {
			failedElection = true
		}
	}
	var fp, why string
	noSuffix := false
	switch {
	case pt.gated && len(valid)+len(settledLeft) >= need && len(settledLeft) > 0:
		fp = "C07:I5:counted-report-that-returned-before-its-reporters-removal-was-applied"
		why = fmt.Sprintf("the code must have counted %v: every report of theirs had returned before the entry that removed them from the ISR was applied (no report call overlapped the removal), and the removal did not forget them", settledLeft)
		noSuffix = true
	case len(valid)+len(leftISR) >= need && len(leftISR) > 0:
		fp = "C07:I5:counted-reporter-removed-from-isr-after-its-report"
		why = fmt.Sprintf("the code must have counted %v, removed from the ISR after reporting", leftISR)
	case len(valid)+len(leftISR)+len(neverValid) >= need:
		fp = "C07:I5:counted-reporter-not-in-sync-follower"
		why = fmt.Sprintf("the code must have counted %v (the leader itself, an out-of-sync replica or an unknown id)", append(neverValid, leftISR...))
	case len(valid)+len(leftISR)+len(neverValid)+len(carried) >= need && failedElection:
		fp = "C07:I5:witnesses-kept-after-failed-election"
		why = fmt.Sprintf("the code must have counted %v, whose reports were made before a pause longer than the timeout; the election those reports had triggered failed and the reports were neither dropped nor ever expired", carriedIDs)
		pt.nChangeFromCarry++
	case len(valid)+len(leftISR)+len(neverValid)+len(carried) >= need:
		fp = "C07:I5:witnesses-kept-after-failover"
		why = fmt.Sprintf("the code must have counted %v, whose reports named an earlier leader epoch or were made before a pause longer than the timeout that followed a completed failover", carriedIDs)
		pt.nChangeFromCarry++
	case pt.concurrent:
		fp = "C07:I5:no-quorum-at-apply-time"
		why = "the decision must have been taken against an earlier state of the partition"
	default:
		fp = "C07:I5:no-quorum-in-window"
		why = "no set of reports made since the window was last reset explains the decision"
	}
	if pt.concurrent && !noSuffix {
		fp += ":concurrent"
	}
	pt.fail(fp, fmt.Sprintf("entry #%d replaced leader %s (epoch %d, ISR %v): %d in-sync follower(s) %v, %d needed, but only %v reported (%s, %d) inside the window; %s",
		index, prev.Leader, prev.LeaderEpoch, prev.ISR, len(fol), fol, need, valid, cur.Leader, cur.Epoch, why), false)
}

// ---------------------------------------------------------------- driving

func c07Ctx() (context.Context, context.CancelFunc) {
	return context.WithTimeout(context.Background(), 3*time.Second)
}

// newPart proposes a stream with one partition replicated on phantom ids
// r1..rn through the real applyOperation path.
func (e *c07Env) newPart(n, leaderIdx int, label string, prog []c07Op) (*c07Part, error) {
	name := fmt.Sprintf("c07-%s-%d", e.tag, e.seq.Add(1))
	ids := make([]string, n)
	for i := range ids {
		ids[i] = fmt.Sprintf("r%d", i+1)
	}
	pt := &c07Part{env: e, stream: name, n: n, prog: prog, label: label, epochLeader: map[uint64]string{}}
	e.mu.Lock()
	e.parts[name] = pt
	e.mu.Unlock()
	op := &proto.RaftLog{Op: proto.Op_CREATE_STREAM, CreateStreamOp: &proto.CreateStreamOp{Stream: &proto.Stream{
		Name: name, Subject: name, CreationTimestamp: 1,
		Partitions: []*proto.Partition{{
			Subject: name, Stream: name, Id: 0, ReplicationFactor: int32(n),
			Replicas: append([]string(nil), ids...), Isr: append([]string(nil), ids...), Leader: ids[leaderIdx%n],
		}},
	}}}
	// The repository's timeoutFuture can lose the completion of a fast Raft
	// future (unbuffered channel + non-blocking send) and then reports "raft
	// operation timed out" although the operation completed or was never
	// proposed; what counts here is whether the entry was committed.
	for attempt := 0; attempt < 3; attempt++ {
		ctx, cancel := c07Ctx()
		fut, err := e.srv.getRaft().applyOperation(ctx, op, e.srv.metadata.checkCreateStreamPreconditions)
		if err == nil {
			err = fut.Error()
		}
		cancel()
		pt.mu.Lock()
		ok := pt.created && pt.p != nil
		pt.mu.Unlock()
		if ok {
			return pt, nil
		}
		if err == nil {
			return nil, fmt.Errorf("stream %s was not observed by the log listener", name)
		}
		e.rep.Count("raft_future_errors", 1)
	}
	return nil, fmt.Errorf("stream %s could not be created", name)
}

func (e *c07Env) dropPart(pt *c07Part) {
	for attempt := 0; attempt < 3; attempt++ {
		ctx, cancel := c07Ctx()
		st := e.srv.metadata.DeleteStream(ctx, &proto.DeleteStreamOp{Stream: pt.stream})
		cancel()
		if st == nil || e.srv.metadata.GetStream(pt.stream) == nil {
			break
		}
		e.rep.Count("raft_future_errors", 1)
	}
	e.mu.Lock()
	delete(e.parts, pt.stream)
	e.mu.Unlock()
}

// pairFor builds the (leader, epoch) a request names.  stale=true means the
// pair is not the current one and the request must be refused.
func (pt *c07Part) pairFor(d c07Digest, kind string) (c07Pair, bool) {
	cur := c07Pair{d.Leader, d.LeaderEpoch}
	switch kind {
	case "", "cur":
		return cur, false
	case "staleEpoch":
		if len(pt.pairs) >= 2 {
			return c07Pair{d.Leader, pt.pairs[len(pt.pairs)-2].Epoch}, true
		}
		return c07Pair{d.Leader, d.LeaderEpoch - 1}, true
	case "staleLeader":
		if len(pt.pairs) >= 2 && pt.pairs[len(pt.pairs)-2].Leader != d.Leader {
			return c07Pair{pt.pairs[len(pt.pairs)-2].Leader, d.LeaderEpoch}, true
		}
		for _, r := range d.Replicas {
			if r != d.Leader {
				return c07Pair{r, d.LeaderEpoch}, true
			}
		}
	case "prevPair":
		if len(pt.pairs) >= 2 {
			return pt.pairs[len(pt.pairs)-2], true
		}
		return c07Pair{d.Leader, d.LeaderEpoch - 1}, true
	}
	return cur, false
}

// expire makes "more than the timeout pass without a report".  Simulated
// profile: if the code has an expiry timer pending for this partition, stop it
// and invoke exactly what the timer would have invoked (failover.OnExpired);
// if no timer is pending nothing would happen in the code either.  Real-timer
// profile: really wait.  Returns the boundary kind.
func (pt *c07Part) expire() string {
	m := pt.env.srv.metadata
	pt.mu.Lock()
	cur := pt.p
	pt.mu.Unlock()
	m.mu.Lock()
	fo := m.partitionFailovers[cur]
	m.mu.Unlock()
	if !pt.env.real {
		if fo == nil {
			return "expired" // no window open in the code
		}
		fo.mu.Lock()
		armed := fo.timer != nil && fo.timer.Stop()
		fo.mu.Unlock()
		if !armed {
			return "unarmed"
		}
		fo.failover.OnExpired()
		return "expired"
	}
	kind := "expired"
	if fo != nil {
		fo.mu.Lock()
		armed := fo.timer != nil && fo.timer.Stop()
		if armed {
			fo.timer.Reset(fo.failover.Timeout()) // re-arm: peeking must not disarm
		}
		fo.mu.Unlock()
		if !armed {
			kind = "unarmed"
		}
	}
	time.Sleep(10 * pt.env.T)
	if kind == "expired" && fo != nil {
		// scheduling watchdog: give a late timer goroutine time to run; if the
		// entry is still there after that the handler does not reset the window
		// and the following reports will show it.
		gone := vfWait(3*time.Second, func() bool {
			m.mu.Lock()
			defer m.mu.Unlock()
			return m.partitionFailovers[cur] != fo
		})
		if !gone {
			pt.env.rep.Count("real_expiry_entry_still_present", 1)
		}
	}
	return kind
}

// pauseResume pauses the stream through the metadata API (k == "P") or
// proposes RESUME_STREAM the way metadataAPI.ResumeStream does (k == "Q":
// applyOperation with checkResumeStreamPreconditions; the API's own best-effort
// wait for the partition leader to answer a status request is left out, the
// leader is a phantom id).  Neither is a boundary of the witness window: the
// timeout has not passed and the leader epoch is the same, so reports made
// before still count for the model.  (If the code forgets them at the
// replacement it merely needs more reports than the model allows.)
func (pt *c07Part) pauseResume(k string) {
	e := pt.env
	m := e.srv.metadata
	pt.mu.Lock()
	d0 := c07Read(pt.p)
	cur := pt.p
	n0 := pt.nReplaced
	pt.mu.Unlock()
	inFlight := false
	if k == "Q" {
		m.mu.Lock()
		fo := m.partitionFailovers[cur]
		m.mu.Unlock()
		if fo != nil {
			fo.mu.Lock()
			inFlight = len(fo.witnesses) > 0 && fo.generation == d0.LeaderEpoch
			fo.mu.Unlock()
		}
	}
	var err error
	for attempt := 0; attempt < 3; attempt++ {
		ctx, cancel := c07Ctx()
		if k == "P" {
			err = nil
			if st := m.PauseStream(ctx, &proto.PauseStreamOp{Stream: pt.stream}); st != nil {
				err = st.Err()
			}
			cancel()
			if err == nil || cur.IsPaused() {
				err = nil
				break
			}
		} else {
			var fut interface{ Error() error }
			fut, err = e.srv.getRaft().applyOperation(ctx, &proto.RaftLog{Op: proto.Op_RESUME_STREAM,
				ResumeStreamOp: &proto.ResumeStreamOp{Stream: pt.stream, Partitions: []int32{0}}}, m.checkResumeStreamPreconditions)
			if err == nil {
				err = fut.Error()
			}
			cancel()
			if p := m.GetPartition(pt.stream, 0); err == nil || (p != nil && !p.IsPaused()) {
				err = nil
				break
			}
		}
		e.rep.Count("raft_future_errors", 1) // see newPart
	}
	pt.mu.Lock()
	defer pt.mu.Unlock()
	d1 := c07Read(pt.p)
	name := map[string]string{"P": "PauseStream", "Q": "ResumeStream"}[k]
	if err != nil {
		pt.tr("%s: %s failed: %v", k, name, err)
		e.rep.Count("calls_"+k+"_failed", 1)
	} else {
		pt.tr("%s %s -> %s", k, name, d1)
		e.rep.Count("calls_"+k, 1)
		if k == "Q" && pt.nReplaced > n0 && inFlight {
			pt.nResumeInFlight++
			e.rep.Count("resume_with_reports_of_current_pair_pending", 1)
		}
	}
	pt.observe(d1, name)
}

// exec runs one op of a sequential program.  It returns false if the role of
// the op cannot be resolved in the current state.
func (pt *c07Part) exec(op c07Op) bool {
	e := pt.env
	pt.mu.Lock()
	if pt.failed {
		pt.mu.Unlock()
		return true
	}
	d0 := c07Read(pt.p)
	n0 := pt.entries
	pt.seq++
	mySeq := pt.seq
	switch op.Kind {
	case "X":
		pt.mu.Unlock()
		kind := pt.expire()
		pt.mu.Lock()
		pt.bounds = append(pt.bounds, c07Boundary{pt.seq, kind})
		if pt.feStage == 1 {
			pt.feStage = 2
		}
		if kind == "expired" {
			pt.nExpiredArmed++
		} else {
			pt.nUnarmed++
		}
		pt.tr("X time passes (%s)", kind)
		pt.observe(c07Read(pt.p), "expiry")
		pt.mu.Unlock()
		return true
	case "G":
		pt.mu.Unlock()
		time.Sleep(e.T * 7 / 10)
		pt.mu.Lock()
		pt.tr("G gap of about the timeout")
		pt.mu.Unlock()
		return true
	case "P", "Q", "PQ":
		pt.mu.Unlock()
		for _, k := range map[string][]string{"P": {"P"}, "Q": {"Q"}, "PQ": {"P", "Q"}}[op.Kind] {
			pt.pauseResume(k)
		}
		return true
	case "L":
		pt.bounds = append(pt.bounds, c07Boundary{pt.seq, "lost"})
		pt.nLost++
		pt.tr("L controller loses leadership")
		pt.mu.Unlock()
		e.srv.metadata.LostLeadership()
		pt.mu.Lock()
		pt.observe(c07Read(pt.p), "LostLeadership")
		pt.mu.Unlock()
		return true
	}
	who, ok := c07Resolve(d0, op.Who)
	if !ok {
		pt.nSkipped++
		pt.mu.Unlock()
		return false
	}
	pair, stale := pt.pairFor(d0, op.Pair)
	var call func(context.Context) *status.Status
	var desc, cause string
	switch op.Kind {
	case "R":
		pt.clock++
		pt.reports = append(pt.reports, c07Report{seq: pt.seq, reporter: who, pair: pair, accepted: !stale, wasFollower: c07In(d0.followers(), who), issued: pt.clock})
		desc, cause = fmt.Sprintf("ReportLeader(from %s, names (%s,%d))", who, pair.Leader, pair.Epoch), "ReportLeader"
		call = func(ctx context.Context) *status.Status {
			return e.srv.metadata.ReportLeader(ctx, &proto.ReportLeaderOp{Stream: pt.stream, Partition: 0, Replica: who, Leader: pair.Leader, LeaderEpoch: pair.Epoch})
		}
	case "S":
		desc, cause = fmt.Sprintf("ShrinkISR(remove %s, names (%s,%d))", who, pair.Leader, pair.Epoch), "ShrinkISR"
		call = func(ctx context.Context) *status.Status {
			return e.srv.metadata.ShrinkISR(ctx, &proto.ShrinkISROp{Stream: pt.stream, Partition: 0, ReplicaToRemove: who, Leader: pair.Leader, LeaderEpoch: pair.Epoch})
		}
	case "E":
		desc, cause = fmt.Sprintf("ExpandISR(add %s, names (%s,%d))", who, pair.Leader, pair.Epoch), "ExpandISR"
		call = func(ctx context.Context) *status.Status {
			return e.srv.metadata.ExpandISR(ctx, &proto.ExpandISROp{Stream: pt.stream, Partition: 0, ReplicaToAdd: who, Leader: pair.Leader, LeaderEpoch: pair.Epoch})
		}
	default:
		pt.mu.Unlock()
		return false
	}
	if op.Ctx != "" {
		desc += " [context: " + op.Ctx + "]"
		pt.nDeadCtx++
	}
	pt.tr("call %s", desc)
	seqMode := !pt.concurrent // sequential execution: nothing else is in flight
	long := pt.longCtx
	pt.mu.Unlock()

	var ctx context.Context
	var cancel context.CancelFunc
	switch op.Ctx {
	case "dead":
		ctx, cancel = context.WithDeadline(context.Background(), time.Now().Add(-time.Second))
	case "tight":
		ctx, cancel = context.WithDeadline(context.Background(), time.Now().Add(time.Millisecond))
	default:
		if long {
			ctx, cancel = context.WithTimeout(context.Background(), 60*time.Second)
		} else {
			ctx, cancel = c07Ctx()
		}
	}
	st := call(ctx)
	cancel()
	if op.Ctx != "" {
		// The caller of a request whose deadline passed is told "timed out" while
		// the entry it proposed may still be on its way through Raft.  Wait until
		// everything handed to Raft so far has been applied (a barrier issued
		// directly on the Raft node; it does not take the proposal mutex), so that
		// such an entry is attributed to this call and not to the next one.
		nb := pt.entriesNow()
		if err := e.srv.getRaft().Barrier(20 * time.Second).Error(); err != nil {
			e.rep.Count("drain_barrier_errors", 1)
		}
		if st != nil && pt.entriesNow() > nb {
			pt.mu.Lock()
			pt.nEntriesAfterCallerTimeout++
			pt.mu.Unlock()
			e.rep.Count("entries_applied_after_the_caller_was_told_timed_out", 1)
		}
	}

	pt.mu.Lock()
	defer pt.mu.Unlock()
	pt.clock++
	if op.Kind == "R" {
		for i := len(pt.reports) - 1; i >= 0; i-- {
			if pt.reports[i].seq != mySeq {
				continue
			}
			r := &pt.reports[i]
			r.returned = pt.clock
			r.settled = seqMode || pt.gateHeld
			if st != nil && st.Code() == codes.FailedPrecondition &&
				(strings.Contains(st.Message(), "generation mismatch") || strings.Contains(st.Message(), "not an in-sync follower") || strings.Contains(st.Message(), "No such partition")) {
				// the report itself was refused (an error of the failover it triggered
				// does not mean the reporter was not counted)
				r.refused = true
			} else if st != nil {
				// the report was taken and the election it triggered failed (could not
				// be replicated in time, or its precondition refused it)
				r.electionFailed = true
				pt.feStage = 1
				pt.nFailedElections++
				e.rep.Count("reports_whose_election_failed", 1)
			}
			break
		}
	}
	d1 := c07Read(pt.p)
	res := "ok"
	if st != nil {
		res = st.Code().String() + ": " + st.Message()
	}
	pt.tr("  returned %s -> %s", res, d1)
	e.rep.Count("calls_"+op.Kind, 1)
	if st != nil && st.Code() == codes.Internal {
		// outcome unknown to the caller (see newPart); the log listener and the
		// shadow model do not depend on the return value
		e.rep.Count("raft_future_errors", 1)
	}
	if stale {
		// I6
		kind := map[string]string{"R": "report", "S": "shrink", "E": "expand"}[op.Kind]
		if st == nil {
			pt.fail("C07:I6:stale-"+kind+"-accepted", fmt.Sprintf("%s names a stale pair (current is (%s,%d)) but was accepted", desc, d0.Leader, d0.LeaderEpoch), false)
		} else if st.Code() != codes.FailedPrecondition {
			pt.fail("C07:I6:stale-"+kind+"-wrong-error", fmt.Sprintf("%s names a stale pair; refused with %s instead of FailedPrecondition", desc, st.Code()), false)
		} else {
			pt.nStaleRefused++
			e.rep.Count("stale_requests_refused", 1)
		}
		if !pt.concurrent && (!d1.same(d0) || pt.entries != n0) {
			pt.fail("C07:I6:stale-"+kind+"-changed-state", fmt.Sprintf("%s names a stale pair; state went %s -> %s (%d entries committed)", desc, d0, d1, pt.entries-n0), true)
		}
	} else if st == nil && op.Kind == "R" {
		pt.nReportsOK++
		if pt.feStage == 2 {
			pt.feStage = 0
			pt.nLateAfterFailedElection++
			e.rep.Count("reports_taken_after_a_failed_election_and_a_pause_longer_than_the_timeout", 1)
		}
	}
	pt.observe(d1, cause)
	return true
}

// ---------------------------------------------------------------- case runner

type c07Case struct {
	N      int
	Leader int
	Prog   []c07Op
	Label  string
}

type c07Outcome struct {
	changes, isrChanges, staleRefused, reportsOK, expired, unarmed, lost, skipped int
	pruned, failed                                                                bool
	pauses, replaced, resumeInFlight                                              int
	failedElections, deadCtx, lateAfterFailedElection                             int
}

// run executes one program on a fresh stream.  prune: stop (and report the
// case as pruned) at the first op whose role does not resolve — the program is
// then equivalent to a shorter one.
func (e *c07Env) run(cs c07Case, prune bool) (c07Outcome, error) {
	pt, err := e.newPart(cs.N, cs.Leader, cs.Label, cs.Prog)
	if err != nil {
		return c07Outcome{}, err
	}
	for _, op := range cs.Prog {
		if !pt.exec(op) && prune {
			pt.pruned = true
			break
		}
		pt.mu.Lock()
		f := pt.failed
		pt.mu.Unlock()
		if f {
			break
		}
	}
	e.dropPart(pt)
	pt.mu.Lock()
	defer pt.mu.Unlock()
	return c07Outcome{pt.nChanges, pt.nISRChanges, pt.nStaleRefused, pt.nReportsOK, pt.nExpiredArmed, pt.nUnarmed, pt.nLost, pt.nSkipped, pt.pruned, pt.failed, pt.nPauses, pt.nReplaced, pt.nResumeInFlight, pt.nFailedElections, pt.nDeadCtx, pt.nLateAfterFailedElection}, nil
}

func (o c07Outcome) account(rep *kit.Report, sig string) {
	if o.pruned {
		rep.Count("cases_pruned_unresolvable_role", 1)
		return
	}
	rep.Eval()
	rep.Count("isr_changes", int64(o.isrChanges))
	rep.Count("expiry_with_timer_pending", int64(o.expired))
	rep.Count("expiry_without_timer_pending", int64(o.unarmed))
	rep.Count("controller_leadership_losses", int64(o.lost))
	rep.Count("ops_skipped_unresolvable_role", int64(o.skipped))
	rep.Count("reports_accepted", int64(o.reportsOK))
	rep.Count("pause_entries", int64(o.pauses))
	if o.replaced > 0 {
		rep.Count("cases_with_partition_object_replaced", 1)
		if o.changes > 0 {
			rep.Count("cases_with_partition_object_replaced_and_leader_change", 1)
		}
	}
	rep.Count("calls_with_expired_or_tight_context", int64(o.deadCtx))
	if o.failedElections > 0 {
		rep.Count("cases_with_failed_election", 1)
	}
	if o.lateAfterFailedElection > 0 {
		rep.Count("cases_with_report_after_failed_election_and_elapsed_window", 1)
	}
	if o.changes > 0 {
		rep.Count("cases_with_leader_change", 1)
	}
	if o.changes > 1 {
		rep.Count("cases_with_two_or_more_leader_changes", 1)
	}
	if o.changes > 0 || o.isrChanges > 0 || o.staleRefused > 0 {
		rep.Nontrivial(sig)
	}
}

var _ = os.Getenv
