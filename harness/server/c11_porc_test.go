//go:build verif && verifporc

package server

// C11 — linearizability check of the recorded SetCursor / FetchCursor history
// with porcupine: one register per cursor key, initial value -1.

import (
	"fmt"
	"sort"
	"time"

	"github.com/anishathalye/porcupine"
)

type c11In struct {
	Set bool
	Key string
	Val int64
}

type c11Out struct {
	Val     int64
	Unknown bool // set whose outcome is unknown (kept open to the end)
}

func init() {
	c11CheckHistory = c11Porcupine
	c11CheckHistoryLatent = func(ops []c11Op, timeout time.Duration) (string, []string) {
		return c11PorcupineWith(c11LatentModel, c11ToOperationsLatent(ops), timeout)
	}
}

func c11Model(partition bool) porcupine.Model {
	m := porcupine.Model{
		Init: func() interface{} { return int64(-1) },
		Step: func(state, in, out interface{}) (bool, interface{}) {
			i := in.(c11In)
			if i.Set {
				// Acknowledged sets take effect between call and return.
				// A set with unknown outcome has its return after every
				// other operation, so "never took effect" is the
				// linearization that puts it last; both outcomes are
				// accepted by the same step.
				return true, i.Val
			}
			return out.(c11Out).Val == state.(int64), state
		},
		Equal: func(a, b interface{}) bool { return a.(int64) == b.(int64) },
		DescribeOperation: func(in, out interface{}) string {
			i := in.(c11In)
			if i.Set {
				if out.(c11Out).Unknown {
					return fmt.Sprintf("set(%s,%d) -> ?", i.Key, i.Val)
				}
				return fmt.Sprintf("set(%s,%d)", i.Key, i.Val)
			}
			return fmt.Sprintf("fetch(%s) -> %d", i.Key, out.(c11Out).Val)
		},
	}
	if partition {
		m.Partition = func(h []porcupine.Operation) [][]porcupine.Operation {
			idx := map[string]int{}
			var out [][]porcupine.Operation
			for _, o := range h {
				k := o.Input.(c11In).Key
				i, ok := idx[k]
				if !ok {
					i = len(out)
					idx[k] = i
					out = append(out, nil)
				}
				out[i] = append(out[i], o)
			}
			return out
		}
	}
	return m
}

func c11ToOperations(ops []c11Op) []porcupine.Operation {
	end := int64(0)
	for _, o := range ops {
		if o.Ret != c11Open && o.Ret > end {
			end = o.Ret
		}
		if o.Call > end {
			end = o.Call
		}
	}
	var h []porcupine.Operation
	for _, o := range ops {
		switch {
		case o.Kind == "set" && o.OK:
			h = append(h, porcupine.Operation{ClientId: o.Client, Input: c11In{true, o.Key, o.Val}, Call: o.Call, Output: c11Out{Val: o.Val}, Return: o.Ret})
		case o.Kind == "set" && o.Refused != "":
			// refused by the cursors partition: never takes effect (a fetch
			// that returns its value has no write to read from -> Illegal)
		case o.Kind == "set":
			// failed or timed out: may still take effect later; open until
			// after everything else
			h = append(h, porcupine.Operation{ClientId: o.Client, Input: c11In{true, o.Key, o.Val}, Call: o.Call, Output: c11Out{Val: o.Val, Unknown: true}, Return: end + 1 + int64(o.Seq)})
		case o.Kind == "fetch" && o.OK:
			h = append(h, porcupine.Operation{ClientId: o.Client, Input: c11In{false, o.Key, 0}, Call: o.Call, Output: c11Out{Val: o.Val}, Return: o.Ret})
		}
		// a fetch that returned an error observed nothing
	}
	return h
}

func c11Porcupine(ops []c11Op, timeout time.Duration) (string, []string) {
	return c11PorcupineWith(c11Model, c11ToOperations(ops), timeout)
}

// ---------------------------------------------------------------- latent model
//
// Model for the histories with abandoned / stalled sets and re-committed
// offsets (c11Env.repeat).  State = the offset of the most recent ACKNOWLEDGED
// set (cur) plus the offsets of the FAILED sets that took their place in the
// order after it (latent).  A failed set never becomes "the most recent set
// that succeeded", but its message may be in the cursors log, so a fetch may
// show it: a fetch is legal iff it returns cur or a latent offset.  An
// acknowledged set replaces cur and clears the latent ones (it is behind them
// in the log and in the cache).  A failed set's operation ends when the
// harness saw its message committed (c11Op.Committed), else after everything.

type c11LatState struct {
	cur int64
	lat []int64 // sorted, without duplicates
}

func c11LatentModel(partition bool) porcupine.Model {
	m := c11Model(partition)
	m.Init = func() interface{} { return c11LatState{cur: -1} }
	m.Step = func(state, in, out interface{}) (bool, interface{}) {
		st, i, o := state.(c11LatState), in.(c11In), out.(c11Out)
		switch {
		case i.Set && !o.Unknown:
			return true, c11LatState{cur: i.Val}
		case i.Set:
			if i.Val == st.cur {
				return true, st // showing it or not makes no difference
			}
			at := sort.Search(len(st.lat), func(j int) bool { return st.lat[j] >= i.Val })
			if at < len(st.lat) && st.lat[at] == i.Val {
				return true, st
			}
			lat := make([]int64, 0, len(st.lat)+1)
			lat = append(append(append(lat, st.lat[:at]...), i.Val), st.lat[at:]...)
			return true, c11LatState{cur: st.cur, lat: lat}
		}
		if o.Val == st.cur {
			return true, st
		}
		at := sort.Search(len(st.lat), func(j int) bool { return st.lat[j] >= o.Val })
		return at < len(st.lat) && st.lat[at] == o.Val, st
	}
	m.Equal = func(a, b interface{}) bool {
		x, y := a.(c11LatState), b.(c11LatState)
		if x.cur != y.cur || len(x.lat) != len(y.lat) {
			return false
		}
		for i := range x.lat {
			if x.lat[i] != y.lat[i] {
				return false
			}
		}
		return true
	}
	return m
}

// c11ToOperationsLatent: like c11ToOperations, but a failed set that the
// harness saw committed ends at that observation.
func c11ToOperationsLatent(ops []c11Op) []porcupine.Operation {
	h := c11ToOperations(ops)
	idx := 0
	for _, o := range ops {
		switch {
		case o.Kind == "set" && o.OK, o.Kind == "fetch" && o.OK:
			idx++
		case o.Kind == "set" && o.Refused != "":
		case o.Kind == "set":
			if o.Committed > o.Call {
				h[idx].Return = o.Committed
			}
			idx++
		}
	}
	return h
}

func c11PorcupineWith(model func(bool) porcupine.Model, h []porcupine.Operation, timeout time.Duration) (string, []string) {
	res, _ := porcupine.CheckOperationsVerbose(model(true), h, timeout)
	if res != porcupine.Illegal {
		return string(res), nil
	}
	// which keys?
	by := map[string][]porcupine.Operation{}
	for _, o := range h {
		k := o.Input.(c11In).Key
		by[k] = append(by[k], o)
	}
	var bad []string
	keys := make([]string, 0, len(by))
	for k := range by {
		keys = append(keys, k)
	}
	sort.Strings(keys)
	single := model(false)
	for _, k := range keys {
		if porcupine.CheckOperationsTimeout(single, by[k], 20*time.Second) == porcupine.Illegal {
			bad = append(bad, k)
		}
	}
	return string(res), bad
}
