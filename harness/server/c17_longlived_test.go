//go:build verif

package server

// C17 — long-lived partition unit (server level).
//
// In the `server`, `server-tamper` and `lifecycle` units a partition object —
// and with it its ONE encryption handler — seals a few hundred messages before
// the stream is dropped or the server restarted.  A real partition leader keeps
// the same object from creation / resume / server start until the next pause or
// restart and seals every message of that time with the same handler instance
// while subscribers read through it.  What the handler accumulates over such a
// life (counters, cached keys, rotation schedules by count or volume) never
// builds up in the short units.
//
// TestVerifC17ServerLongLived: one partition-leader lifetime per scenario takes
// several thousand (quick, past 2^13) to > 2^16 (thorough) publishes, many in
// flight, while a live subscriber — served by the same handler — follows from
// the earliest offset.  Judged: the live subscriber and a second one that
// starts when the publishes are over receive exactly all values; every stored
// value is compared with / searched for its plaintext and a sample of needles
// is searched in the raw files; the partition object and its handler are still
// the ones the scenario started with (otherwise the run says nothing about a
// long life: inconclusive); then the server restarts (brand-new handler, new
// data key) and must deliver everything the long-lived handler wrote, takes
// more publishes, and delivers old + new.

import (
	"bytes"
	"context"
	"encoding/binary"
	"fmt"
	"math/bits"
	"os"
	"path/filepath"
	"strings"
	"sync"
	"testing"
	"time"

	client "github.com/liftbridge-io/liftbridge-api/v2/go"
	"google.golang.org/grpc/codes"
	"google.golang.org/grpc/status"

	kit "github.com/liftbridge-io/liftbridge/internal/verifkit"
)

func c17LLBand(off int) string {
	if off <= 0 {
		return "first-message"
	}
	return fmt.Sprintf("after-2^%d-messages", bits.Len(uint(off))-1)
}

// c17LLValue: the i-th value of a scenario; mostly high-entropy needles of
// 8..120 bytes that carry their index, now and then empty / tiny / a few KiB.
func c17LLValue(rng *kit.RNG, i int) c17Val {
	switch rng.Intn(32) {
	case 0:
		return c17Val{"empty", []byte{}, false}
	case 1:
		return c17Val{"short", rng.Bytes(rng.Range(1, 7)), false}
	case 2:
		v := rng.Bytes(rng.Range(1024, 8192))
		binary.BigEndian.PutUint32(v[len(v)-4:], uint32(i))
		return c17Val{"random", v, true}
	case 3:
		return c17Val{"text", c17Text(rng, rng.Range(40, 400)), true}
	}
	// (index at the END: a needle must not start with zero bytes — the
	// preallocated index files are full of them and every search would crawl)
	v := rng.Bytes(rng.Range(8, 120))
	binary.BigEndian.PutUint32(v[len(v)-4:], uint32(i))
	return c17Val{"random", v, true}
}

// c17LLAgg collects the failures of all scenarios and phases; report() emits
// ONE violation per failure class (subscriber-error, subscriber-value-mismatch,
// stored-equals-plaintext, ...) whose fingerprint carries the class and how
// many messages the partition had taken before the EARLIEST failing offset;
// the phases and scenarios that saw it are listed in the text and the replay.
type c17LLAgg struct {
	mu   sync.Mutex
	list []c17LLFailure
}

type c17LLFailure struct {
	class, phase string
	off          int
	what         string
	replay       map[string]any
}

func (a *c17LLAgg) add(class, phase string, off int, what string, replay map[string]any) {
	a.mu.Lock()
	a.list = append(a.list, c17LLFailure{class, phase, off, what, replay})
	a.mu.Unlock()
}

func (a *c17LLAgg) failed() bool {
	a.mu.Lock()
	defer a.mu.Unlock()
	return len(a.list) > 0
}

func (a *c17LLAgg) report(rep *kit.Report) {
	a.mu.Lock()
	defer a.mu.Unlock()
	byClass := map[string][]c17LLFailure{}
	for _, f := range a.list {
		byClass[f.class] = append(byClass[f.class], f)
	}
	for _, class := range kit.SortedKeys(byClass) {
		fs := byClass[class]
		first := fs[0]
		var seen []string
		for _, f := range fs {
			if f.off < first.off {
				first = f
			}
			seen = append(seen, fmt.Sprintf("scenario %v, %s: offset %d", f.replay["scenario"], f.phase, f.off))
		}
		rep.Violation(fmt.Sprintf("C17:long-lived-partition:%s:%s", class, c17LLBand(first.off)),
			fmt.Sprintf("%s [seen in %d phase(s): %s]", first.what, len(fs), strings.Join(seen, "; ")), c17With(first.replay, "all_phases", seen))
	}
}

type c17LLPubResult struct {
	ordered []c17Val
	err     error
	inconc  bool
}

// c17LLPublishAll publishes vals with `workers` publishes in flight and orders
// them by the offsets the acks report.  A publish that ran into its (generous)
// deadline or found the server unavailable makes the scenario inconclusive; a
// publish the server REFUSED is returned as an error for the oracle.
func c17LLPublishAll(srv *Server, stream string, base int, vals []c17Val, workers int) c17LLPubResult {
	ordered := make([]c17Val, len(vals))
	seen := make([]bool, len(vals))
	var mu sync.Mutex
	var res c17LLPubResult
	stop := false
	kit.Parallel(len(vals), workers, func(i int) {
		mu.Lock()
		if stop {
			mu.Unlock()
			return
		}
		mu.Unlock()
		ctx, cancel := context.WithTimeout(context.Background(), 90*time.Second)
		resp, err := srv.api.Publish(ctx, &client.PublishRequest{Stream: stream, Value: vals[i].V, AckPolicy: client.AckPolicy_LEADER})
		cancel()
		mu.Lock()
		defer mu.Unlock()
		if stop {
			return
		}
		if err != nil {
			stop = true
			switch c := status.Code(err); {
			case c == codes.DeadlineExceeded || c == codes.Canceled || c == codes.Unavailable || c17PublishNoVerdict(err):
				res.inconc = true
				res.err = fmt.Errorf("publish %d of %d got no answer: %v", i, len(vals), err)
			default:
				res.err = fmt.Errorf("publish of value %d of %d (%d bytes, %s) was refused: %v", i, len(vals), len(vals[i].V), vals[i].Class, err)
			}
			return
		}
		if resp.Ack == nil {
			stop, res.inconc, res.err = true, true, fmt.Errorf("publish %d: no ack in the response", i)
			return
		}
		k := int(resp.Ack.Offset) - base
		if k < 0 || k >= len(vals) || seen[k] {
			stop, res.inconc, res.err = true, true, fmt.Errorf("ack offset %d outside / repeated in [%d,%d)", resp.Ack.Offset, base, base+len(vals))
			return
		}
		seen[k], ordered[k] = true, vals[i]
	})
	res.ordered = ordered
	return res
}

// c17LLJudge compares what a subscriber got with what was published.  The
// fingerprint names the phase and how many messages the partition had taken
// before the first offset that was not delivered correctly.
func c17LLJudge(rep *kit.Report, agg *c17LLAgg, phase string, g c17Got, vals []c17Val, replay map[string]any) bool {
	for i := range g.Vals {
		if i >= len(vals) {
			break
		}
		if g.Offs[i] != int64(i) {
			rep.Inconc(fmt.Sprintf("%s: message %d delivered with offset %d", phase, i, g.Offs[i]))
			return false
		}
		if !bytes.Equal(g.Vals[i], vals[i].V) {
			agg.add("subscriber-value-mismatch", phase, i,
				fmt.Sprintf("offset %d: subscriber received %d bytes that differ from the %d-byte %s value published (%s)", i, len(g.Vals[i]), len(vals[i].V), vals[i].Class, phase),
				c17With(replay, "phase", phase, "offset", i, "published_hex", c17Hex(vals[i].V), "received_hex", c17Hex(g.Vals[i])))
			return false
		}
	}
	if g.Err != nil {
		at := len(g.Vals)
		agg.add("subscriber-error", phase, at,
			fmt.Sprintf("subscriber of an encrypted stream got an error instead of the message at offset %d of %d (%s): %s", at, len(vals), phase, g.Err.Message()),
			c17With(replay, "phase", phase, "first_offset_not_delivered", at, "status", g.Err.Message()))
		return false
	}
	if g.Timeout || len(g.Vals) < len(vals) {
		rep.Inconc(fmt.Sprintf("watchdog: subscriber received %d of %d messages (%s)", len(g.Vals), len(vals), phase))
		return false
	}
	return true
}

// c17LLScan: every stored value against its plaintext; a sample of needles in
// the raw files (all files of the partition directory).
func c17LLScan(rep *kit.Report, agg *c17LLAgg, phase string, node *vfNode, stream string, vals []c17Val, rng *kit.RNG, replay map[string]any) bool {
	p := node.Partition(stream, 0)
	if p == nil {
		rep.Inconc("partition object not found for the stored-form scan")
		return false
	}
	recs, err := vfReadLog(p.log, 0, true)
	if err != nil || len(recs) != len(vals) {
		rep.Inconc(fmt.Sprintf("stored-form scan: read %d of %d records (err=%v)", len(recs), len(vals), err))
		return false
	}
	ok := true
	reported := false
	for i, r := range recs {
		v := vals[i].V
		bad := ""
		if bytes.Equal(r.Value, v) {
			bad = "stored-equals-plaintext"
		} else if len(v) >= 8 && bytes.Contains(r.Value, v) {
			bad = "stored-contains-plaintext"
		}
		if bad != "" {
			ok = false
			rep.Count("stored_values_in_clear", 1)
			if !reported {
				reported = true
				agg.add(bad, phase, i,
					fmt.Sprintf("offset %d of the encrypted stream stores the %d-byte value in clear (stored value: %d bytes)", i, len(v), len(r.Value)),
					c17With(replay, "offset", i, "value_hex", c17Hex(v), "stored_hex", c17Hex(r.Value)))
			}
		}
	}
	rep.Count("stored_values_scanned", int64(len(recs)))
	files, err := c17SegmentFiles(node.Cfg.DataDir, stream)
	if err != nil {
		rep.Inconc("cannot read the segment files: " + err.Error())
		return false
	}
	nlog := 0
	var logBytes, need int64
	for name, b := range files {
		if strings.HasSuffix(name, ".log") {
			nlog++
			logBytes += int64(len(b))
		}
	}
	for _, v := range vals {
		need += int64(len(v.V))
	}
	if nlog == 0 || logBytes < need {
		rep.Inconc(fmt.Sprintf("segment files hold %d bytes in %d .log files, less than the %d bytes published: raw scan not meaningful", logBytes, nlog, need))
		return false
	}
	rep.Max("segment_log_files", int64(nlog))
	rep.Count("segment_bytes_scanned", logBytes)
	// needles: the first 32, everything within 2 of a power of two, and a
	// seeded sample of ~400 more
	every := len(vals)/400 + 1
	pick := rng.Intn(every)
	for i, v := range vals {
		if !v.Needle {
			continue
		}
		near := false
		for d := -2; d <= 2; d++ {
			if x := i + d; x > 0 && x&(x-1) == 0 {
				near = true
			}
		}
		if !(i < 32 || near || i%every == pick) {
			continue
		}
		rep.Count("needles_searched_in_raw_files", 1)
		for name, b := range files {
			if at := bytes.Index(b, v.V); at >= 0 {
				ok = false
				agg.add("segment-file-contains-plaintext", phase, i,
					fmt.Sprintf("the %d-byte value published at offset %d is in clear in %s at byte %d", len(v.V), i, filepath.Base(name), at),
					c17With(replay, "offset", i, "value_hex", c17Hex(v.V), "file", name, "at", at))
				return ok
			}
		}
	}
	return ok
}

type c17LLSpec struct {
	ID       int
	Route    string // how encryption is requested: request | config
	KeyLen   int
	N        int // publishes taken by ONE partition-leader lifetime
	InFlight int
	After    int // publishes after the restart
}

func TestVerifC17ServerLongLived(t *testing.T) {
	rep := kit.NewReport("C17", "server-longlived")
	defer rep.Write()
	rep.SetRule("single-node server, encrypted stream (per CreateStream request, or streams.encryption with batch.max.time set), 512 KiB segments; ONE partition-leader lifetime takes N publishes (quick: one scenario past 2^13 and one past 2^12; thorough: past 2^16, 2^15, 2^14) with 16-48 in flight, seeded values (needles of 8..120 bytes carrying their index, some empty / 1..7 bytes / 1-8 KiB / text) while a live subscriber from the earliest offset is served by the same handler; then a second subscriber from the earliest offset; every stored value compared with / searched for its plaintext, sampled needles (first 32, around every power of two, a stride) searched in all files of the partition directory; the partition object and its handler must be the ones the scenario started with and the `partition.seal` point must have fired N times for the stream (else inconclusive); restart (brand-new handler) -> all N delivered, more publishes, all delivered.  Oracle: every subscriber receives exactly the published values in offset order, never an error; no stored value equals / contains (>= 8 bytes) its plaintext.  non-trivial = a power-of-two band of offsets delivered identically to a subscriber in a phase; distinct = route x phase x band")
	rep.Assume("a publish that gets no answer within 90 s, finds the server unavailable or fails on a timeout inside the server (Raft operation, resume) makes the scenario inconclusive; only a publish the server answers with a refusal for another reason is judged")
	rep.Assume("one master key per unit run (the key is read from the process environment); scenarios run concurrently in one process")
	root := kit.NewRNG(kit.Mix(kit.Seed(), 0xC17F))
	key := c17PrintableKey(root, []int{16, 32}[int(kit.Seed())%2])
	os.Setenv(c17KeyEnv, key)
	defer os.Unsetenv(c17KeyEnv)

	var specs []c17LLSpec
	add := func(route string, n, inflight, after int) {
		specs = append(specs, c17LLSpec{ID: len(specs), Route: route, KeyLen: len(key), N: n, InFlight: inflight, After: after})
	}
	routes := []string{"request", "config"}
	if kit.Seed()%2 == 1 {
		routes[0], routes[1] = routes[1], routes[0]
	}
	if kit.Thorough() {
		add(routes[0], 1<<16+3000+root.Intn(1000), 48, 600)
		add(routes[1], 1<<15+2000+root.Intn(1000), 32, 600)
		add(routes[0], 1<<14+1000+root.Intn(1000), 16, 300)
		add(routes[1], 1<<13+1000+root.Intn(1000), 32, 300)
	} else {
		add(routes[0], 1<<13+700+root.Intn(300), 32, 200)
		add(routes[1], 1<<12+900+root.Intn(300), 16, 200)
	}
	rep.SetInfo("scenarios", specs)
	rngs := make([]*kit.RNG, len(specs))
	for i := range specs {
		rngs[i] = root.Fork(uint64(i))
	}

	// seals per stream, observed at the instrumentation point next to Seal
	var hookMu sync.Mutex
	sealsOf := map[string]int64{}
	defer vfHooks.On("partition.seal", func(args ...interface{}) error {
		if len(args) > 0 {
			if s, ok := args[0].(string); ok {
				hookMu.Lock()
				sealsOf[s]++
				hookMu.Unlock()
			}
		}
		return nil
	})()
	seals := func(stream string) int64 {
		hookMu.Lock()
		defer hookMu.Unlock()
		return sealsOf[stream]
	}

	agg := &c17LLAgg{}
	defer agg.report(rep)
	kit.Parallel(len(specs), len(specs), func(si int) {
		spec, rng := specs[si], rngs[si]
		replay := map[string]any{"seed": kit.Seed(), "scenario": spec.ID, "route": spec.Route, "master_key": key, "publishes_in_one_partition_lifetime": spec.N, "in_flight": spec.InFlight}
		c, srv, err := vfSingle(fmt.Sprintf("c17ll-%d", spec.ID), func(cfg *Config) {
			if spec.Route == "config" {
				cfg.Streams.Encryption = true
				cfg.BatchMaxTime = 2 * time.Millisecond
			}
		})
		if err != nil {
			rep.Inconc("server did not start: " + err.Error())
			return
		}
		defer c.Cleanup()
		// phase durations: information for the budget only, never judged
		t0 := time.Now()
		phases := []string{}
		lap := func(name string) {
			phases = append(phases, fmt.Sprintf("%s=%.1fs", name, time.Since(t0).Seconds()))
			t0 = time.Now()
		}
		defer func() { rep.SetInfo(fmt.Sprintf("scenario_%d_phase_seconds", spec.ID), strings.Join(phases, " ")) }()
		node := c.Nodes["a"]
		stream := fmt.Sprintf("c17ll%d", spec.ID)
		req := &client.CreateStreamRequest{Subject: stream, Name: stream, ReplicationFactor: 1, SegmentMaxBytes: &client.NullableInt64{Value: 512 * 1024}}
		if spec.Route == "request" {
			req.Encryption = &client.NullableBool{Value: true}
		}
		if err := c.CreateStream(req); err != nil {
			if c17CreateNoVerdict(err) {
				rep.Inconc(fmt.Sprintf("scenario %d: creating the stream got no verdict: %v", spec.ID, err))
				return
			}
			rep.Violation("C17:create-encrypted-stream-failed", "creating an encrypted stream with a valid master key failed: "+err.Error(), replay)
			return
		}
		if err := c17WaitLeader(c, stream); err != nil {
			rep.Inconc(err.Error())
			return
		}
		p0 := node.Partition(stream, 0)
		if p0 == nil || p0.encryptionHandler == nil {
			rep.Violation("C17:stream-not-encrypted:"+spec.Route, "stream requested as encrypted has no encryption handler (values would be stored in clear)", replay)
			return
		}
		h0 := p0.encryptionHandler

		vals := make([]c17Val, spec.N)
		for i := range vals {
			vals[i] = c17LLValue(rng, i)
		}
		// live subscriber: served by the same handler while it seals
		liveCh := make(chan c17Got, 1)
		go func() { liveCh <- c17Collect(srv, stream, spec.N, 10*time.Minute) }()

		lap("setup")
		pr := c17LLPublishAll(srv, stream, 0, vals, spec.InFlight)
		lap("publish")
		for range vals {
			rep.Eval()
		}
		if pr.err != nil {
			if pr.inconc {
				rep.Inconc(fmt.Sprintf("scenario %d: %v", spec.ID, pr.err))
			} else {
				n := int(seals(stream))
				agg.add("publish-refused", "one-lifetime", n, fmt.Sprintf("after about %d messages sealed by the partition: %v", n, pr.err), replay)
			}
			return
		}
		vals = pr.ordered
		rep.Count("messages_published", int64(len(vals)))
		// Was it ONE lifetime of ONE handler, and did it seal every publish?  If
		// not, the run does not show what a long life does (inconclusive for that
		// claim) — the values are judged all the same: what follows holds for any
		// encrypted stream.
		if p := node.Partition(stream, 0); p != p0 || p.encryptionHandler != h0 {
			rep.Inconc(fmt.Sprintf("scenario %d: the partition object / its handler was replaced during the publishes — not one lifetime", spec.ID))
		} else if n := seals(stream); n != int64(spec.N) {
			rep.Inconc(fmt.Sprintf("scenario %d: the seal point fired %d times for %d publishes", spec.ID, n, spec.N))
		} else {
			rep.Max("max_seals_by_one_partition_handler", int64(spec.N))
		}

		mark := func(phase string, from, to int) {
			for lo := from; lo < to; {
				rep.Nontrivial(fmt.Sprintf("%s|%s|%s", spec.Route, phase, c17LLBand(lo)))
				if lo == 0 {
					lo = 1
				} else {
					lo = 1 << uint(bits.Len(uint(lo))) // first offset of the next band
				}
			}
		}

		scanned := c17LLScan(rep, agg, "one-lifetime", node, stream, vals, rng, replay)
		lap("scan")
		if !scanned && agg.failed() {
			// values in clear would be handed to Read as if sealed: stop here
			return
		}
		var live c17Got
		select {
		case live = <-liveCh:
		case <-time.After(10 * time.Minute):
			live.Timeout = true
		}
		lap("live-subscriber")
		okLive := c17LLJudge(rep, agg, "live-subscriber", live, vals, replay)
		if okLive {
			mark("live-subscriber", 0, len(vals))
			rep.Count("messages_delivered_identically_live", int64(len(vals)))
		}
		g := c17Collect(srv, stream, len(vals), 5*time.Minute)
		lap("second-subscriber")
		if c17LLJudge(rep, agg, "second-subscriber", g, vals, replay) {
			mark("second-subscriber", 0, len(vals))
			rep.Count("messages_delivered_identically_second_subscriber", int64(len(vals)))
		}
		if p := node.Partition(stream, 0); p != p0 || p.encryptionHandler != h0 {
			rep.Inconc(fmt.Sprintf("scenario %d: the partition object / its handler was replaced while subscribers read", spec.ID))
		}
		if spec.ID == 0 {
			rep.Sample(map[string]any{"route": spec.Route, "master_key_len": spec.KeyLen, "publishes_in_one_partition_lifetime": spec.N, "in_flight": spec.InFlight,
				"live_subscriber_ok": okLive, "stored_scan_ok": scanned, "first_values": []string{c17Hex(vals[0].V), c17Hex(vals[1].V)}})
		}

		// restart: a brand-new handler must open everything the long-lived one wrote
		if err := c.StopNode("a"); err != nil {
			rep.Inconc("stop failed: " + err.Error())
			return
		}
		if err := c.StartNode("a"); err != nil {
			rep.Inconc("restart failed: " + err.Error())
			return
		}
		node = c.Nodes["a"]
		srv = node.Server()
		if err := c17WaitLeader(c, stream); err != nil {
			rep.Inconc(err.Error())
			return
		}
		if p := node.Partition(stream, 0); p == nil || p.encryptionHandler == nil {
			rep.Violation("C17:stream-not-encrypted:after-restart", "the encrypted stream has no encryption handler after a restart", replay)
			return
		}
		lap("restart")
		g = c17Collect(srv, stream, len(vals), 5*time.Minute)
		lap("after-restart-subscriber")
		if c17LLJudge(rep, agg, "after-restart", g, vals, replay) {
			mark("after-restart", 0, len(vals))
			rep.Count("messages_delivered_identically_after_restart", int64(len(vals)))
		}
		more := make([]c17Val, spec.After)
		for i := range more {
			more[i] = c17LLValue(rng, spec.N+i)
			rep.Eval()
		}
		pr = c17LLPublishAll(srv, stream, len(vals), more, 8)
		if pr.err != nil {
			if pr.inconc {
				rep.Inconc(fmt.Sprintf("scenario %d after restart: %v", spec.ID, pr.err))
			} else {
				agg.add("publish-refused", "after-restart", len(vals), pr.err.Error(), replay)
			}
			return
		}
		lap("publish-more")
		all := append(append([]c17Val(nil), vals...), pr.ordered...)
		s2 := c17LLScan(rep, agg, "after-restart", node, stream, all, rng, replay)
		if !s2 && agg.failed() {
			return
		}
		g = c17Collect(srv, stream, len(all), 5*time.Minute)
		lap("scan+mixed-subscriber")
		if c17LLJudge(rep, agg, "mixed-data-keys", g, all, replay) {
			mark("mixed-data-keys", len(vals), len(all))
		}
	})
}
