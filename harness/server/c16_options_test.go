//go:build verif

package server

// C16 — options unit: optimistic concurrency control COMBINED with the other
// per-stream options.  The other C16 units only ever vary batching, segment
// size and the way concurrency control is switched on; the message a
// publisher sends however passes through every other per-stream feature of
// the leader's message loop (encryption at rest above all: the value is
// re-written before the append) before its expected offset is judged.  Here
// real single-node servers (batching varied, streams.concurrency.control and
// streams.encryption server-wide on/off) host streams whose options are drawn
// from: encryption (request / server-wide / off), compaction, min ISR,
// retention limits (messages / bytes / age, never reached), small segments,
// short cleaner interval, ack policy LEADER / ALL.  On each stream a lone
// publisher walks the log with the correct expected offsets 0,1,2,...
// interleaved with -1, stale, future and negative ones (verdicts fully
// determined), then bursts of concurrent publishers (some naming the next
// offset, some -1) use the batching paths of the message loop.
//
// Oracle (property statement only): a publish is stored iff it named -1 or
// exactly the next offset, and then it is acknowledged at that offset;
// otherwise the answer is the incorrect-offset error and the log is
// unchanged.  The log is read back after every phase: record i carries the
// key of the i-th accepted publish (keys are not encrypted).

import (
	"context"
	"fmt"
	"os"
	"sort"
	"strings"
	"sync"
	"testing"
	"time"

	client "github.com/liftbridge-io/liftbridge-api/v2/go"
	"google.golang.org/grpc/status"

	kit "github.com/liftbridge-io/liftbridge/internal/verifkit"
)

const c16OptKey = "c16-options-master-key-32-bytes!" // 32 bytes

type c16OptStream struct {
	name   string
	opts   []string // human-readable option list
	class  string   // fingerprint class
	enc    bool
	policy client.AckPolicy
	tags   []string
	seq    int
	dead   bool
}

type c16OptRun struct {
	rep  *kit.Report
	c    *vfCluster
	srv  *Server
	cfg  string
	sidx int
}

func (r *c16OptRun) witness(st *c16OptStream, extra map[string]any) map[string]any {
	w := map[string]any{"seed": kit.Seed(), "server": r.sidx, "server_config": r.cfg, "stream": st.name,
		"stream_options": st.opts, "ack_policy": st.policy.String(), "accepted_so_far": len(st.tags)}
	for k, v := range extra {
		w[k] = v
	}
	return w
}

func (r *c16OptRun) fail(st *c16OptStream, verdict, what string, extra map[string]any) {
	st.dead = true
	r.rep.Violation("C16:options:"+verdict+":"+st.class, what, r.witness(st, extra))
}

func (r *c16OptRun) inconc(st *c16OptStream, what string) {
	st.dead = true
	r.rep.Inconc(fmt.Sprintf("server %d (%s) stream %s %v: %s", r.sidx, r.cfg, st.name, st.opts, what))
}

func (r *c16OptRun) publish(st *c16OptStream, tag string, e int64) (out string, off int64, msg string) {
	ctx, cancel := context.WithTimeout(context.Background(), 30*time.Second)
	defer cancel()
	resp, err := r.srv.api.Publish(ctx, &client.PublishRequest{Stream: st.name, Value: []byte("v:" + tag), Key: []byte(tag),
		AckPolicy: st.policy, CorrelationId: tag, ExpectedOffset: e})
	if err != nil {
		msg = err.Error()
		if s, ok := status.FromError(err); ok {
			msg = s.Message()
		}
		if msg == c16IncorrectMsg {
			return c16OutRejected, 0, msg
		}
		return c16OutOpen, 0, msg
	}
	if resp == nil || resp.Ack == nil {
		return c16OutOpen, 0, "no ack"
	}
	return c16OutOK, resp.Ack.Offset, ""
}

// readback compares the partition log with the accepted tags.
func (r *c16OptRun) readback(st *c16OptStream, phase string) {
	if st.dead {
		return
	}
	p := r.c.Nodes["a"].Partition(st.name, 0)
	if p == nil {
		r.inconc(st, "partition object not found")
		return
	}
	n := int64(len(st.tags))
	// (1) the end of the log, read from the log itself (no reader involved)
	if newest := p.log.NewestOffset(); newest != n-1 {
		r.fail(st, "log-mismatch", fmt.Sprintf("after the %s phase the newest offset of %s (options %v) is %d, the accepted publishes were %d", phase, st.name, st.opts, newest, n),
			map[string]any{"accepted_keys": st.tags})
		return
	}
	// (2) what a reader delivers: every record must be the accepted publish of
	// its offset.  The cleaner (compaction on 256-byte segments every 50 ms)
	// may swap a segment under the reader, which ends the read early
	// (vfReadLog stops at the first read error): an incomplete read is read
	// again and is never a verdict of this property.
	var recs []vfLogRec
	var err error
	for try := 0; try < 60; try++ {
		recs, err = vfReadLog(p.log, 0, true)
		if err == nil && int64(len(recs)) >= n {
			break
		}
		r.rep.Count("log_readback_retries", 1)
		time.Sleep(25 * time.Millisecond)
	}
	r.rep.Count("log_readbacks", 1)
	r.rep.Count("log_records_compared", int64(len(recs)))
	last := int64(-1)
	for _, x := range recs {
		if x.Offset <= last || x.Offset >= n || string(x.Key) != st.tags[x.Offset] {
			var got []string
			for _, y := range recs {
				got = append(got, fmt.Sprintf("%d=%s", y.Offset, y.Key))
			}
			r.fail(st, "log-mismatch", fmt.Sprintf("after the %s phase the log of %s (options %v) holds key %q at offset %d (previous record: offset %d); %d publishes were accepted", phase, st.name, st.opts, x.Key, x.Offset, last, n),
				map[string]any{"log_keys": got, "accepted_keys": st.tags})
			return
		}
		last = x.Offset
	}
	if int64(len(recs)) != n {
		r.rep.Count("log_readbacks_incomplete", 1)
		r.rep.Inconc(fmt.Sprintf("server %d stream %s %v: after the %s phase a reader delivered %d of %d messages (newest offset is right, every delivered record is right; read error: %v)", r.sidx, st.name, st.opts, phase, len(recs), n, err))
	}
}

// walk: the lone publisher with determined verdicts.
func (r *c16OptRun) walk(st *c16OptStream, rng *kit.RNG, n int) {
	classesSeen := map[string]bool{}
	for i := 0; i < n && !st.dead; i++ {
		next := int64(len(st.tags))
		// the correct offset most of the time: the walk 0,1,2,... is the point
		class := []string{"equal", "equal", "equal", "any", "stale", "future", "equal", "zero", "negative", "any"}[rng.Intn(10)]
		if i < 3 {
			class = []string{"equal", "equal", "any"}[i] // 0, 1, then -1 on a non-empty log
		}
		if (class == "stale" || class == "zero") && next == 0 {
			class = "future"
		}
		var e int64
		switch class {
		case "equal":
			e = next
		case "any":
			e = -1
		case "stale":
			e = int64(rng.Intn(int(next)))
		case "zero":
			e = 0
		case "future":
			e = next + int64(rng.Range(1, 4))
		case "negative":
			e = []int64{-2, -9, -1 << 40}[rng.Intn(3)]
		}
		st.seq++
		tag := fmt.Sprintf("%s#%d:%s:e=%d", st.name, st.seq, class, e)
		out, off, msg := r.publish(st, tag, e)
		r.rep.Eval()
		r.rep.Count("walk_"+class+"_"+out, 1)
		classesSeen[class+"/"+out] = true
		desc := fmt.Sprintf("stream with options %v holds %d messages; a lone publish with expected offset %d (%s, ack policy %s)", st.opts, next, e, class, st.policy)
		wantOK := e == -1 || e == next
		switch {
		case out == c16OutOpen:
			r.inconc(st, desc+" got no verdict: "+msg)
		case wantOK && out == c16OutRejected && e == -1:
			r.fail(st, "unconditional-rejected", desc+" was rejected as incorrect", map[string]any{"tag": tag})
		case wantOK && out == c16OutRejected:
			r.fail(st, "correct-rejected", desc+" was rejected as incorrect", map[string]any{"tag": tag})
		case wantOK && off != next:
			r.fail(st, "wrong-offset", fmt.Sprintf("%s was acknowledged at offset %d", desc, off), map[string]any{"tag": tag})
		case !wantOK && out == c16OutOK:
			r.fail(st, "mismatch-accepted", fmt.Sprintf("%s was accepted and acknowledged at offset %d", desc, off), map[string]any{"tag": tag})
		case wantOK:
			st.tags = append(st.tags, tag)
		}
	}
	r.readback(st, "lone-publisher")
	if !st.dead && classesSeen["equal/ok"] && classesSeen["any/ok"] && len(st.tags) >= 3 {
		r.rep.Nontrivial(fmt.Sprintf("walk|%s|%s|%s", r.cfg, strings.Join(st.opts, ","), st.policy))
	}
}

// burst: g concurrent publishers, some naming the next offset, some -1.
func (r *c16OptRun) burst(st *c16OptStream, rng *kit.RNG) {
	if st.dead {
		return
	}
	g := rng.Range(3, 8)
	next := int64(len(st.tags))
	type res struct {
		tag string
		e   int64
		out string
		off int64
		msg string
	}
	rs := make([]res, g)
	for k := range rs {
		e := next
		if k >= 2 && rng.Intn(3) == 0 {
			e = -1
		}
		st.seq++
		rs[k] = res{tag: fmt.Sprintf("%s#%d:burst:e=%d", st.name, st.seq, e), e: e}
	}
	var wg sync.WaitGroup
	start := make(chan struct{})
	for k := range rs {
		wg.Add(1)
		go func(k int) {
			defer wg.Done()
			<-start
			rs[k].out, rs[k].off, rs[k].msg = r.publish(st, rs[k].tag, rs[k].e)
		}(k)
	}
	close(start)
	wg.Wait()
	r.rep.Eval()
	r.rep.Count("bursts", 1)
	var hist []string
	for _, x := range rs {
		hist = append(hist, fmt.Sprintf("e=%d->%s@%d", x.e, x.out, x.off))
	}
	extra := map[string]any{"burst": hist, "next_before_burst": next}
	desc := fmt.Sprintf("stream with options %v holds %d messages; burst of %d concurrent publishes", st.opts, next, g)
	byOff := map[int64]string{}
	wonNext, okN := 0, 0
	for _, x := range rs {
		switch {
		case x.out == c16OutOpen:
			r.inconc(st, desc+": a publish got no verdict: "+x.msg)
			return
		case x.out == c16OutRejected && x.e == -1:
			r.fail(st, "unconditional-rejected", desc+": a publish with expected offset -1 was rejected as incorrect", extra)
			return
		case x.out == c16OutOK && x.e >= 0 && x.off != x.e:
			r.fail(st, "wrong-offset", fmt.Sprintf("%s: a publish naming offset %d was acknowledged at offset %d", desc, x.e, x.off), extra)
			return
		case x.out == c16OutOK:
			if prev, dup := byOff[x.off]; dup || x.off < next || x.off >= next+int64(g) {
				r.fail(st, "ack-offset", fmt.Sprintf("%s: offset %d acknowledged to %s and %s", desc, x.off, prev, x.tag), extra)
				return
			}
			byOff[x.off] = x.tag
			okN++
			if x.e == next {
				wonNext++
			}
		}
	}
	if wonNext > 1 {
		r.fail(st, "two-winners", fmt.Sprintf("%s: %d publishes naming offset %d were all accepted", desc, wonNext, next), extra)
		return
	}
	// -1 publishes may take offset `next` first, then every named one loses: 0 winners is legal.
	for i := 0; i < okN; i++ {
		tag, ok := byOff[next+int64(i)]
		if !ok {
			r.fail(st, "ack-offset", fmt.Sprintf("%s: %d publishes were accepted but none was acknowledged at offset %d", desc, okN, next+int64(i)), extra)
			return
		}
		st.tags = append(st.tags, tag)
	}
	r.rep.Count("burst_accepted", int64(okN))
	r.rep.Count("burst_rejected", int64(g-okN))
	r.readback(st, "burst")
	if !st.dead && okN >= 1 && g-okN >= 1 {
		r.rep.Nontrivial(fmt.Sprintf("burst|%s|%s|g=%d|ok=%d", r.cfg, strings.Join(st.opts, ","), g, okN))
	}
}

func TestVerifC16Options(t *testing.T) {
	rep := kit.NewReport("C16", "options")
	defer rep.Write()
	rep.SetRule("single-node servers (batch.max.messages / batch.max.time varied, streams.concurrency.control and streams.encryption server-wide on/off, LIFTBRIDGE_ENCRYPTION_KEY = a 32-byte key) host streams with optimistic concurrency control (request flag or server-wide) whose OTHER options are drawn per stream: encryption at rest (request / server-wide / switched off by the request), compaction, minIsr=1, retention limits by messages / bytes / age (never reached), 256-byte segments, 50 ms cleaner interval, ack policy LEADER / ALL; every server has at least one stream with encryption AND concurrency control and one with neither of the extras; per stream a lone publisher walks expected offsets 0,1,-1,... then seeded equal / -1 / stale / future / 0 / below -1 (verdict determined: stored iff -1 or next, acknowledged at exactly that offset, else incorrect-offset), then 3 bursts of 3..8 concurrent publishers naming the next offset or -1 (at most one naming winner, -1 never refused, acknowledged offsets distinct and consecutive); the log is read back after every phase (record i = key of the i-th accepted publish); non-trivial = walk with accepted equal and -1 publishes on >= 3 messages / burst with winners and losers; distinct = server config x option set x ack policy")
	rep.Assume("message keys are stored in clear on encrypted streams (only the value is sealed), so the read-back identifies messages by key; retention limits are chosen so that nothing is removed during a run")
	os.Setenv("LIFTBRIDGE_ENCRYPTION_KEY", c16OptKey)
	root := kit.NewRNG(kit.Mix(kit.Seed(), 0xC160B7))
	nsrv := kit.Scale(4, 12)
	for s := 0; s < nsrv && rep.NumViolations() < 6; s++ {
		rng := root.Fork(uint64(s))
		bmm := []int{1, 8, 1024}[rng.Intn(3)]
		bmt := []time.Duration{0, time.Millisecond, 5 * time.Millisecond}[s%3]
		wideOCC := s%2 == 0
		wideEnc := (s/2)%2 == 1
		cfgDesc := fmt.Sprintf("batch.max.messages=%d batch.max.time=%s streams.concurrency.control=%v streams.encryption=%v", bmm, bmt, wideOCC, wideEnc)
		c, srv, err := vfSingle(fmt.Sprintf("c16o-%d", s), func(cfg *Config) {
			cfg.BatchMaxMessages = bmm
			cfg.BatchMaxTime = bmt
			cfg.Streams.ConcurrencyControl = wideOCC
			cfg.Streams.Encryption = wideEnc
		})
		if err != nil {
			rep.Inconc("server did not start: " + err.Error())
			continue
		}
		run := &c16OptRun{rep: rep, c: c, srv: srv, cfg: cfgDesc, sidx: s}
		nst := 6
		var streams []*c16OptStream
		for i := 0; i < nst; i++ {
			st := &c16OptStream{name: fmt.Sprintf("c16o%d-%d", s, i), policy: client.AckPolicy_LEADER}
			req := &client.CreateStreamRequest{Subject: st.name, Name: st.name, ReplicationFactor: 1}
			if wideOCC && rng.Bool() {
				st.opts = append(st.opts, "occ=server-wide")
			} else {
				req.OptimisticConcurrencyControl = &client.NullableBool{Value: true}
				st.opts = append(st.opts, "occ=request")
			}
			var fam []string
			// stream 0: encryption; stream 1: none of the extras; others drawn
			enc := i == 0 || (i > 1 && rng.Bool())
			switch {
			case enc && wideEnc && rng.Bool():
				st.opts = append(st.opts, "encryption=server-wide")
			case enc:
				req.Encryption = &client.NullableBool{Value: true}
				st.opts = append(st.opts, "encryption=request")
			case wideEnc:
				req.Encryption = &client.NullableBool{Value: false}
				st.opts = append(st.opts, "encryption=off-by-request")
			}
			st.enc = enc
			if enc {
				fam = append(fam, "encryption")
			}
			if i > 1 {
				if rng.Bool() {
					req.CompactEnabled = &client.NullableBool{Value: true}
					st.opts = append(st.opts, "compact")
					fam = append(fam, "compact")
				}
				if rng.Bool() {
					req.MinIsr = &client.NullableInt32{Value: 1}
					st.opts = append(st.opts, "minIsr=1")
					fam = append(fam, "minisr")
				}
				switch rng.Intn(4) {
				case 0:
					req.RetentionMaxMessages = &client.NullableInt64{Value: 100000}
					st.opts = append(st.opts, "retention.max.messages=100000")
					fam = append(fam, "retention")
				case 1:
					req.RetentionMaxBytes = &client.NullableInt64{Value: 1 << 30}
					st.opts = append(st.opts, "retention.max.bytes=1GiB")
					fam = append(fam, "retention")
				case 2:
					req.RetentionMaxAge = &client.NullableInt64{Value: int64(24 * time.Hour / time.Millisecond)}
					st.opts = append(st.opts, "retention.max.age=24h")
					fam = append(fam, "retention")
				}
				if rng.Bool() {
					req.SegmentMaxBytes = &client.NullableInt64{Value: 256}
					req.CleanerInterval = &client.NullableInt64{Value: 50}
					st.opts = append(st.opts, "segment.max.bytes=256", "cleaner.interval=50ms")
					fam = append(fam, "smallseg")
				}
				if rng.Bool() {
					st.policy = client.AckPolicy_ALL
				}
			}
			sort.Strings(fam)
			st.class = strings.Join(fam, "+")
			if st.class == "" {
				st.class = "plain"
			}
			if enc {
				st.class = "encryption" // one class for everything that involves sealing; the full option list is in the witness
			}
			if err := c.CreateStream(req); err != nil {
				rep.Inconc(fmt.Sprintf("create stream %s %v: %v", st.name, st.opts, err))
				continue
			}
			if _, err := c.PartitionLeader(st.name, 0, 40*time.Second); err != nil {
				rep.Inconc(err.Error())
				continue
			}
			rep.Count("streams", 1)
			if enc {
				rep.Count("streams_with_encryption_and_occ", 1)
			}
			streams = append(streams, st)
		}
		seeds := make([]uint64, len(streams))
		for i := range seeds {
			seeds[i] = rng.Uint64()
		}
		kit.Parallel(len(streams), 3, func(i int) {
			st := streams[i]
			prng := kit.NewRNG(seeds[i])
			run.walk(st, prng, prng.Range(12, kit.Scale(20, 40)))
			for b := 0; b < 3 && !st.dead; b++ {
				run.burst(st, prng)
				if !st.dead {
					run.walk(st, prng, 3)
				}
			}
			if s == 0 && i < 2 {
				rep.Sample(map[string]any{"server_config": cfgDesc, "stream_options": st.opts, "ack_policy": st.policy.String(), "accepted": len(st.tags)})
			}
		})
		c.Cleanup()
	}
}
