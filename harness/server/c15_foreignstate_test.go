//go:build verif

package server

// C15 unit "foreignstate": denied calls whose REQUEST NAMES STATE THAT EXISTS
// AND BELONGS TO SOMEONE ELSE.
//
// The other units send denied calls with fresh identifiers or judge the
// consumer-group RPCs leniently.  Here authorised clients first create state
// (group members, stored cursors, streams with subscriptions), then callers
// without the entry — never granted, granted elsewhere only, without an
// identity, or granted + used + REVOKED by a policy reload (SIGHUP) — issue
// every API method with requests that carry exactly those live identifiers.
// Oracle (property statement only): refused, nothing handed back, digest
// unchanged, nothing appended (fence), and no member's liveness timer re-armed.

import (
	"fmt"
	"os"
	"reflect"
	"sort"
	"strconv"
	"strings"
	"testing"
	"time"

	client "github.com/liftbridge-io/liftbridge-api/v2/go"
	gproto "google.golang.org/protobuf/proto"

	kit "github.com/liftbridge-io/liftbridge/internal/verifkit"
	proto "github.com/liftbridge-io/liftbridge/server/protocol"
)

const (
	c15fsGroup   = "gf"
	c15fsOwner   = "c1" // creates gf/fm1 and cursor fc1, keeps its lines
	c15fsElse    = "c2" // holds every action, but only on resources no request names
	c15fsRevoked = "c3" // creates gf/rvm and cursor rvc, then loses its lines by a reload
)

// c15fsVictim: identifiers of live state and who made it.
type c15fsVictim struct {
	Owner, Group, Member, Cursor, Stream string
	Part                                 int32
}

func (v c15fsVictim) String() string {
	return fmt.Sprintf("%s's(group %s member %s, cursor %s on %s/%d)", v.Owner, v.Group, v.Member, v.Cursor, v.Stream, v.Part)
}

var c15fsVictims = []c15fsVictim{
	{c15Admin, c15MetaGrp, "m1", "cur0", "s0", 0},
	{c15fsOwner, c15fsGroup, "fm1", "fc1", "s0", 0},
	{c15fsRevoked, c15fsGroup, "rvm", "rvc", "s1", 0},
}

// c15fsPolicy: admin holds everything (also on gf); the owner and — while
// revoked is false — c3 hold every action on the resources the requests name;
// c2 (and c3 after its revocation) hold every action on resources that NO
// request of this unit names, so they are known clients with lines, yet lack
// every entry that could match, whatever resource a handler checks.
func c15fsPolicy(gen int, revoked bool) *c15Policy {
	p := c15GenPolicy(kit.NewRNG(1), gen)
	acts := append(append([]string{}, c15DocActions...), c15GroupMethods...)
	for _, a := range acts {
		p.grant(c15Admin, c15fsGroup, a)
	}
	named := []string{"s0", "s1", c15Subject("s0"), c15Subject("s1"), c15CurStr, "*", c15fsGroup, c15MetaGrp, c15StdGroup, "n0", "d0"}
	other := []string{"s2", c15Subject("s2"), "gx", "n1", "d1"}
	set := func(c string, res []string) {
		p.Lines[c] = map[string]bool{}
		for _, r := range res {
			for _, a := range acts {
				p.grant(c, r, a)
			}
		}
	}
	set(c15fsOwner, named)
	set(c15fsElse, other)
	if revoked {
		set(c15fsRevoked, other)
	} else {
		set(c15fsRevoked, named)
	}
	return p
}

// c15fsSetup (idempotent): the owners create their state with authorised calls.
func (w *c15World) c15fsSetup() error {
	do := func(cli, method string, req gproto.Message) error {
		_, err := w.call(method, cli, req, c15Call45)
		if err != nil && c15AuthzError(err) {
			w.rep.Eval()
			w.rep.Violation("C15:"+method+":refused-although-authorised", fmt.Sprintf("preparation call %s(%s) by client %s, which holds the entry for it on every resource the request names, was refused: %v", method, c15Text(req), cli, err),
				map[string]interface{}{"seed": kit.Seed(), "client": cli, "method": method, "request": c15Text(req), "lines": w.pol.linesOf(cli, c15fsGroup, "s0", "s1", c15CurStr)})
		}
		if err != nil {
			return fmt.Errorf("%s by %s: %v", method, cli, err)
		}
		return nil
	}
	for _, v := range c15fsVictims[1:] {
		if !w.pol.has(v.Owner, v.Group, "JoinConsumerGroup") {
			v.Owner = c15Admin // the owner is revoked at present: the admin restores its state
		}
		g := w.srv.metadata.GetConsumerGroup(v.Group)
		if g == nil || !g.IsMember(v.Member) {
			if err := do(v.Owner, "JoinConsumerGroup", &client.JoinConsumerGroupRequest{GroupId: v.Group, ConsumerId: v.Member, Streams: []string{"s0", "s1"}}); err != nil {
				return err
			}
		}
		if err := do(v.Owner, "SetCursor", &client.SetCursorRequest{Stream: v.Stream, Partition: v.Part, CursorId: v.Cursor, Offset: 11}); err != nil {
			return err
		}
		// "used": the owner heartbeats and reads its cursor
		g = w.srv.metadata.GetConsumerGroup(v.Group)
		if g == nil {
			return fmt.Errorf("group %s missing after the join", v.Group)
		}
		_, ep := g.GetCoordinator()
		if err := do(v.Owner, "FetchConsumerGroupAssignments", &client.FetchConsumerGroupAssignmentsRequest{GroupId: v.Group, ConsumerId: v.Member, Epoch: ep}); err != nil {
			return err
		}
		if err := do(v.Owner, "FetchCursor", &client.FetchCursorRequest{Stream: v.Stream, Partition: v.Part, CursorId: v.Cursor}); err != nil {
			return err
		}
		w.rep.Count("owner_calls_worked", 4)
	}
	return nil
}

// Liveness probe by logical means: every member timer is disarmed (Stop) before
// the examined call; afterwards a timer that is armed again (Stop reports true)
// or was replaced has been touched by the call.  All timers are then re-armed
// with the group's timeout (one hour in this world: none ever fires).
func (w *c15World) c15fsDisarm() map[string]*time.Timer {
	out := map[string]*time.Timer{}
	for _, g := range w.srv.metadata.GetConsumerGroups() {
		g.mu.Lock()
		for id, m := range g.members {
			if m.timer != nil {
				m.timer.Stop()
				out[g.id+"/"+id] = m.timer
			}
		}
		g.mu.Unlock()
	}
	return out
}

func (w *c15World) c15fsRearmed(before map[string]*time.Timer) (touched []string, probed int) {
	for _, g := range w.srv.metadata.GetConsumerGroups() {
		g.mu.Lock()
		for id, m := range g.members {
			if m.timer == nil {
				continue
			}
			armed := m.timer.Stop()
			if prev := before[g.id+"/"+id]; prev != nil {
				probed++
				if prev != m.timer || armed {
					touched = append(touched, g.id+"/"+id)
				}
			}
			m.timer.Reset(g.consumerTimeout)
		}
		g.mu.Unlock()
	}
	sort.Strings(touched)
	return touched, probed
}

// c15fsReq: one request shape per method x shape, built from a victim's ids.
type c15fsReq struct {
	Method, Shape string
	Build         func(w *c15World, v c15fsVictim) []gproto.Message
}

func c15fsEpoch(w *c15World, grp string) (string, uint64) {
	if g := w.srv.metadata.GetConsumerGroup(grp); g != nil {
		return g.GetCoordinator()
	}
	return "none", 0
}

func c15fsOtherStream(s string) string {
	if s == "s0" {
		return "s1"
	}
	return "s0"
}

func c15fsOne(m gproto.Message) []gproto.Message { return []gproto.Message{m} }

var c15fsReqs = []c15fsReq{
	{"CreateStream", "existing-name", func(w *c15World, v c15fsVictim) []gproto.Message {
		return c15fsOne(&client.CreateStreamRequest{Name: v.Stream, Subject: c15Subject(v.Stream), Partitions: 2, ReplicationFactor: 1})
	}},
	{"CreateStream", "new-name-on-existing-subject", func(w *c15World, v c15fsVictim) []gproto.Message {
		return c15fsOne(&client.CreateStreamRequest{Name: "n0", Subject: c15Subject(v.Stream), Partitions: 1, ReplicationFactor: 1})
	}},
	{"DeleteStream", "stream-with-subscriptions", func(w *c15World, v c15fsVictim) []gproto.Message {
		return c15fsOne(&client.DeleteStreamRequest{Name: v.Stream})
	}},
	{"PauseStream", "stream-with-subscriptions", func(w *c15World, v c15fsVictim) []gproto.Message {
		return c15fsOne(&client.PauseStreamRequest{Name: v.Stream, Partitions: []int32{v.Part}, ResumeAll: true})
	}},
	{"SetStreamReadonly", "stream-with-subscriptions", func(w *c15World, v c15fsVictim) []gproto.Message {
		return c15fsOne(&client.SetStreamReadonlyRequest{Name: v.Stream, Partitions: []int32{v.Part}, Readonly: true})
	}},
	{"Subscribe", "plain-from-earliest", func(w *c15World, v c15fsVictim) []gproto.Message {
		return c15fsOne(&client.SubscribeRequest{Stream: v.Stream, Partition: v.Part, StartPosition: client.StartPosition_EARLIEST})
	}},
	{"Subscribe", "ids-of-the-live-group-subscriber", func(w *c15World, v c15fsVictim) []gproto.Message {
		return c15fsOne(&client.SubscribeRequest{Stream: v.Stream, Partition: 1, StartPosition: client.StartPosition_NEW_ONLY,
			Consumer: &client.Consumer{GroupId: c15StdGroup, ConsumerId: c15StdCons, GroupEpoch: c15StdEpoch + 1}})
	}},
	{"Subscribe", "ids-of-the-group-member", func(w *c15World, v c15fsVictim) []gproto.Message {
		_, ep := c15fsEpoch(w, v.Group)
		return c15fsOne(&client.SubscribeRequest{Stream: v.Stream, Partition: v.Part, StartPosition: client.StartPosition_EARLIEST,
			Consumer: &client.Consumer{GroupId: v.Group, ConsumerId: v.Member, GroupEpoch: ep}})
	}},
	{"FetchMetadata", "named-stream-and-group", func(w *c15World, v c15fsVictim) []gproto.Message {
		return c15fsOne(&client.FetchMetadataRequest{Streams: []string{v.Stream}, Groups: []string{v.Group}})
	}},
	{"FetchPartitionMetadata", "existing", func(w *c15World, v c15fsVictim) []gproto.Message {
		return c15fsOne(&client.FetchPartitionMetadataRequest{Stream: v.Stream, Partition: v.Part})
	}},
	{"Publish", "existing-partition", func(w *c15World, v c15fsVictim) []gproto.Message {
		return c15fsOne(&client.PublishRequest{Stream: v.Stream, Partition: v.Part, Value: []byte("fs-publish"), AckPolicy: client.AckPolicy_LEADER})
	}},
	{"Publish", "overwrite-stored-cursor-in-cursors-stream", func(w *c15World, v c15fsVictim) []gproto.Message {
		cur := &proto.Cursor{Stream: v.Stream, Partition: v.Part, CursorId: v.Cursor, Offset: 4242}
		b, _ := cur.Marshal()
		return c15fsOne(&client.PublishRequest{Stream: c15CurStr, Partition: 0, Key: []byte(fmt.Sprintf("%s,%s,%d", v.Cursor, v.Stream, v.Part)), Value: b, AckPolicy: client.AckPolicy_LEADER})
	}},
	{"PublishAsync", "existing-partition", func(w *c15World, v c15fsVictim) []gproto.Message {
		return []gproto.Message{
			&client.PublishRequest{Stream: v.Stream, Partition: v.Part, Value: []byte("fs-async-0"), CorrelationId: "a0", AckPolicy: client.AckPolicy_LEADER},
			&client.PublishRequest{Stream: v.Stream, Partition: 1, Value: []byte("fs-async-1"), CorrelationId: "a1", AckPolicy: client.AckPolicy_NONE},
		}
	}},
	{"PublishToSubject", "subject-of-existing-stream", func(w *c15World, v c15fsVictim) []gproto.Message {
		return c15fsOne(&client.PublishToSubjectRequest{Subject: c15Subject(v.Stream), Value: []byte("fs-pts"), AckPolicy: client.AckPolicy_LEADER})
	}},
	{"SetCursor", "overwrite-existing-cursor", func(w *c15World, v c15fsVictim) []gproto.Message {
		return c15fsOne(&client.SetCursorRequest{Stream: v.Stream, Partition: v.Part, CursorId: v.Cursor, Offset: 4242})
	}},
	{"FetchCursor", "existing-cursor", func(w *c15World, v c15fsVictim) []gproto.Message {
		return c15fsOne(&client.FetchCursorRequest{Stream: v.Stream, Partition: v.Part, CursorId: v.Cursor})
	}},
	{"JoinConsumerGroup", "as-the-live-member-other-streams", func(w *c15World, v c15fsVictim) []gproto.Message {
		return c15fsOne(&client.JoinConsumerGroupRequest{GroupId: v.Group, ConsumerId: v.Member, Streams: []string{c15fsOtherStream(v.Stream)}})
	}},
	{"JoinConsumerGroup", "new-member-of-the-live-group", func(w *c15World, v c15fsVictim) []gproto.Message {
		return c15fsOne(&client.JoinConsumerGroupRequest{GroupId: v.Group, ConsumerId: "intruder", Streams: []string{v.Stream}})
	}},
	{"LeaveConsumerGroup", "the-live-member", func(w *c15World, v c15fsVictim) []gproto.Message {
		return c15fsOne(&client.LeaveConsumerGroupRequest{GroupId: v.Group, ConsumerId: v.Member})
	}},
	{"FetchConsumerGroupAssignments", "heartbeat-as-the-live-member", func(w *c15World, v c15fsVictim) []gproto.Message {
		_, ep := c15fsEpoch(w, v.Group)
		return c15fsOne(&client.FetchConsumerGroupAssignmentsRequest{GroupId: v.Group, ConsumerId: v.Member, Epoch: ep})
	}},
	{"ReportConsumerGroupCoordinator", "as-the-live-member", func(w *c15World, v c15fsVictim) []gproto.Message {
		co, ep := c15fsEpoch(w, v.Group)
		return c15fsOne(&client.ReportConsumerGroupCoordinatorRequest{GroupId: v.Group, ConsumerId: v.Member, Coordinator: co, Epoch: ep})
	}},
}

type c15fsOut struct {
	refused   bool
	err       error
	returned  string // what the caller was handed (must be nothing)
	inconc    string
	notDenied []string
}

func (w *c15World) c15fsRun(method, cli string, reqs []gproto.Message) *c15fsOut {
	o := &c15fsOut{}
	switch method {
	case "Subscribe":
		st, err := w.stream("Subscribe", cli, reqs[0])
		if err != nil {
			o.inconc = err.Error()
			return o
		}
		first, to := st.next(c15Wait)
		if to {
			st.cancel()
			o.inconc = "Subscribe neither confirmed nor returned"
			return o
		}
		st.cancel()
		if !st.waitDone(c15Wait) {
			o.inconc = "Subscribe handler did not return after its context ended"
			return o
		}
		n := len(st.drain())
		if first != nil {
			n++
			o.returned = fmt.Sprintf("%d message(s) handed to the subscriber, first: %s", n, c15Text(first))
		}
		o.err = st.result()
		o.refused = first == nil && n == 0 && o.err != nil
	case "PublishAsync":
		st, err := w.stream("PublishAsync", cli, reqs...)
		if err != nil {
			o.inconc = err.Error()
			return o
		}
		close(st.in)
		if !st.waitDone(c15Wait) {
			st.cancel()
			o.inconc = "PublishAsync handler did not return after the client closed the stream"
			return o
		}
		o.err = st.result()
		got := map[string]bool{}
		for _, m := range st.drain() {
			p := m.(*client.PublishResponse)
			if p.AsyncError != nil {
				got[p.CorrelationId] = true
				if o.err == nil {
					o.err = fmt.Errorf("%s: %s", p.AsyncError.Code, p.AsyncError.Message)
				}
			} else {
				o.returned += " ack:" + c15Text(p)
			}
		}
		o.refused = true
		if st.result() == nil {
			for _, r := range reqs {
				if c := r.(*client.PublishRequest).CorrelationId; !got[c] {
					o.refused = false
					o.notDenied = append(o.notDenied, c)
				}
			}
		}
	default:
		resp, err := w.call(method, cli, reqs[0], c15Call45)
		o.err = err
		o.refused = err != nil
		if rv := reflect.ValueOf(resp); resp != nil && !(rv.Kind() == reflect.Ptr && rv.IsNil()) {
			if m, ok := resp.(gproto.Message); ok && err == nil {
				o.returned = fmt.Sprintf("%T{%s}", resp, c15Text(m))
			}
		}
	}
	return o
}

func TestVerifC15ForeignState(t *testing.T) {
	unit := os.Getenv("VERIF_UNIT")
	if unit == "" {
		unit = "foreignstate"
	}
	rep := kit.NewReport("C15", unit)
	defer rep.Write()
	rep.SetRule("One server with ACLs on. Authorised clients create state first: admin (group g0 members m1/m2, cursor cur0, streams with standing plain and group subscriptions), c1 (joins group gf as fm1, stores cursor fc1, heartbeats, reads it) and c3 (joins gf as rvm, stores cursor rvc, heartbeats, reads it). Then, for every method of client.APIServer (by reflection; a method without a request builder fails the run) x request shape x victim (the three owners' identifiers) a caller lacking every entry that could match sends a request carrying exactly the victim's LIVE identifiers (group id + consumer id of the member for the four group RPCs and for a group Subscribe, the stored cursor id for SetCursor / FetchCursor / a cursors-stream Publish, the existing stream / partition / subject elsewhere). Callers: the stranger (never granted), c2 (holds every action, but only on resources no request names), identity-less / look-alike callers (rotating with the seed), and — after a reload by file rewrite + real SIGHUP that takes c3's lines on these resources away — c3 itself on its OWN former state and on c1's. Order of cases is seeded. A case is non-trivial when the named state existed when the call was made (member present, cursor stored, stream with open standing subscriptions); signature = method/shape/caller-class/own-or-foreign.")
	c15Assumptions(rep)
	rep.Assume("foreignstate: every caller of an examined call holds no policy line on ANY resource its request names (group id, stream, subject, __cursors, '*'), for any action, so the call is denied whatever resource and action name a handler matches. Oracle: an error (per message for PublishAsync; nothing handed to a Subscribe caller), no response value, digest unchanged, fenced offsets unchanged, and no group member's liveness timer re-armed or replaced. The liveness observation is logical: all member timers are stopped before the call; a timer found armed afterwards was reset by the call (the coordinator resets it in GetAssignments), which is what would keep a silent member from expiring on schedule; timers are re-armed with the configured timeout (1h) after each case. A refusal for another reason than authorisation is accepted as 'rejected' and counted (refused_other_reason).")
	c15CheckMethodCoverage(rep)
	have := map[string]bool{}
	for _, r := range c15fsReqs {
		have[r.Method] = true
	}
	for _, m := range c15APIMethods() {
		if !have[m] {
			rep.Violation("C15:foreignstate:method-without-request:"+m, "client.APIServer has a method "+m+" for which the foreignstate unit has no request naming existing state", nil)
		}
	}
	rng := kit.NewRNG(kit.Mix(kit.Seed(), 0xc15f5))
	w, err := c15NewWorld(rep, "fs", c15fsPolicy(1, false))
	if err != nil {
		rep.Inconc("server with authorisation did not come up: " + err.Error())
		return
	}
	defer w.close()
	rep.Count("policy_cold_loads", 1)
	if err := w.c15fsSetup(); err != nil {
		rep.Inconc("owners could not create their state: " + err.Error())
		return
	}
	fired := map[string]bool{} // method:effect already reported for a never-granted caller
	repaired := 0

	runCase := func(phase string, r c15fsReq, v c15fsVictim, cli, class string) bool {
		own := "foreign"
		if cli == v.Owner {
			own = "own-former"
		}
		tag := fmt.Sprintf("%s %s/%s caller=%s(%s) names %s", phase, r.Method, r.Shape, cli, class, v)
		if !w.quiesce() {
			rep.Inconc(tag + ": subscription loops did not wind down")
			return false
		}
		reqs := r.Build(w, v)
		var txt []string
		for _, q := range reqs {
			txt = append(txt, c15Text(q))
		}
		d0 := w.digest()
		g := w.srv.metadata.GetConsumerGroup(v.Group)
		exists := g != nil && g.IsMember(v.Member) && d0["cursor/"+fmt.Sprintf("%s,%s,%d", v.Cursor, v.Stream, v.Part)] != "" && w.openStandingOn(v.Stream, v.Part) > 0
		timers := w.c15fsDisarm()
		o := w.c15fsRun(r.Method, cli, reqs)
		touched, probed := w.c15fsRearmed(timers)
		if o.inconc != "" {
			rep.Inconc(tag + ": " + o.inconc)
			return true
		}
		if r.Method == "Subscribe" {
			w.subscribeSettle(v.Stream, reqs[0].(*client.SubscribeRequest).Partition)()
		}
		d1 := w.digest()
		f := w.fence(d0, d1)
		if len(f.inconc) > 0 {
			for _, s := range f.inconc {
				rep.Inconc(tag + ": " + s)
			}
			return true
		}
		rep.Eval()
		rep.Count("calls/"+r.Method, 1)
		rep.Count("caller/"+class, 1)
		rep.Count("liveness_timers_probed", int64(probed))
		if exists {
			rep.Nontrivial(r.Method + "/" + r.Shape + "/" + class + "/" + own)
		} else {
			rep.Count("named_state_missing", 1)
		}
		var published []string
		for k, off := range f.offsets {
			n0, _ := strconv.ParseInt(d0["newest/"+k], 10, 64)
			if off != n0+1 {
				published = append(published, fmt.Sprintf("%s: %d message(s) appended", k, off-(n0+1)))
			}
		}
		for _, k := range f.unfenced {
			if d0["newest/"+k] != d1["newest/"+k] {
				published = append(published, fmt.Sprintf("%s: newest offset %s → %s", k, d0["newest/"+k], d1["newest/"+k]))
			}
		}
		for key, n := range f.extra {
			if n != 0 {
				published = append(published, fmt.Sprintf("standing subscription %s received %d message(s) before the fence", key, n))
			}
		}
		sort.Strings(published)
		diff := c15DiffKeys(d0, d1)
		for _, k := range f.closed {
			if d1["sub/"+k] != "closed" {
				diff = append(diff, "sub/"+k)
				d1["sub/"+k] = "closed"
			}
		}
		effect := ""
		switch {
		case !o.refused || o.returned != "":
			effect = "not-refused"
		case len(touched) > 0:
			effect = "liveness-timer-reset"
		case len(published) > 0:
			effect = "published-despite-denial"
		case len(diff) > 0:
			cls := diff[0]
			if i := strings.Index(cls, "/"); i > 0 {
				cls = cls[:i]
			}
			effect = "state-changed:" + cls
		}
		if w.sampled < 4 {
			w.sampled++
			rep.Sample(map[string]interface{}{"case": tag, "request": txt, "returned_error": fmt.Sprint(o.err), "handed_back": o.returned, "state_diff": c15DescribeDiff(d0, d1, diff), "liveness_timers_probed": probed, "fenced_partitions": len(f.offsets)})
		}
		if effect == "" {
			if c15AuthzError(o.err) {
				rep.Count("denied_refused_unchanged/"+r.Method, 1)
			} else {
				rep.Count("refused_other_reason/"+r.Method, 1)
			}
			return true
		}
		fp := "C15:" + r.Method + ":foreign-state:" + effect
		if class == "revoked" && !fired[r.Method+":"+effect] {
			fp += ":caller=revoked-by-reload"
		} else {
			fired[r.Method+":"+effect] = true
		}
		what := fmt.Sprintf("%s: the caller (%s) holds no policy entry on any resource this request names; the request carries the identifiers of state that exists and was created by %s (expected: refused, nothing handed back, nothing changes). Observed: refused=%v err=%v", tag, c15DescribeClient(cli), v.Owner, o.refused, o.err)
		if o.returned != "" {
			what += "; handed to the caller: " + o.returned
		}
		if len(o.notDenied) > 0 {
			what += fmt.Sprintf("; no error response for message(s) %v", o.notDenied)
		}
		if len(touched) > 0 {
			what += fmt.Sprintf("; liveness timer of member(s) %v was re-armed by the call (all member timers had been stopped before it): the denied call counts as that member's heartbeat, so a member that stopped heartbeating does not expire on schedule", touched)
		}
		if len(diff) > 0 {
			what += "; state changed:" + c15DescribeDiff(d0, d1, diff)
		}
		if len(published) > 0 {
			what += "; " + strings.Join(published, "; ")
		}
		rep.Violation(fp, what, map[string]interface{}{"seed": kit.Seed(), "phase": phase, "client": cli, "client_identity": c15DescribeClient(cli), "caller_class": class,
			"client_policy_lines_on_named_resources": w.pol.linesOf(cli, v.Group, v.Stream, c15Subject(v.Stream), c15CurStr, "*", c15StdGroup, "n0"),
			"method": r.Method, "shape": r.Shape, "request": txt, "state_named": v.String(), "state_owner": v.Owner, "returned_error": fmt.Sprint(o.err), "handed_back": o.returned,
			"liveness_timers_rearmed": touched, "state_diff": c15DescribeDiff(d0, d1, diff), "appended": published})
		if len(diff) > 0 || len(published) > 0 {
			// bring the world back for the following cases
			repaired++
			if repaired > 6 {
				rep.Inconc("world disturbed by accepted calls more than 6 times: remaining cases skipped")
				return false
			}
			if err := w.normalize(); err == nil {
				err = w.c15fsSetup()
			}
			if err != nil {
				rep.Inconc(tag + ": world could not be restored after the accepted call: " + fmt.Sprint(err))
				return false
			}
		}
		return true
	}

	type cse struct {
		r          c15fsReq
		v          c15fsVictim
		cli, class string
	}
	rounds := kit.Scale(1, 3)
	kind := func(i int) string { return c15IdentityKinds[(int(kit.Seed()%9)+i)%len(c15IdentityKinds)] }
	gen := 1
	for round := 0; round < rounds; round++ {
		// ---- phase 1: never granted
		var cases []cse
		for _, r := range c15fsReqs {
			for vi, v := range c15fsVictims {
				cases = append(cases, cse{r, v, c15Stranger, "never-granted"})
				cases = append(cases, cse{r, v, c15fsElse, "granted-elsewhere-only"})
				k := kind(3*round + vi)
				cases = append(cases, cse{r, v, k, c15IdentityClass(k)})
			}
		}
		for i := len(cases) - 1; i > 0; i-- {
			j := rng.Intn(i + 1)
			cases[i], cases[j] = cases[j], cases[i]
		}
		for _, c := range cases {
			if !runCase(fmt.Sprintf("round %d before-revocation", round), c.r, c.v, c.cli, c.class) {
				return
			}
		}
		// ---- phase 2: c3 revoked by a reload
		gen++
		applied, err := w.setPolicy(c15fsPolicy(gen, true))
		if err != nil {
			rep.Inconc(fmt.Sprintf("round %d: policy reload: %v", round, err))
			return
		}
		if !applied {
			rep.Eval()
			rep.Violation("C15:reload:not-applied", fmt.Sprintf("round %d: policy file rewritten and SIGHUP delivered 3 times (each seen on the twin signal channel, the process kept serving authorised calls in between), but the enforcer still does not answer with the new policy", round),
				map[string]interface{}{"seed": kit.Seed(), "policy_file": w.policyPath})
			return
		}
		rep.Count("policy_reloads_by_sighup", 1)
		cases = cases[:0]
		for _, r := range c15fsReqs {
			cases = append(cases, cse{r, c15fsVictims[2], c15fsRevoked, "revoked"}) // its own former state
			cases = append(cases, cse{r, c15fsVictims[1], c15fsRevoked, "revoked"}) // c1's
			k := kind(3*round + 5)
			cases = append(cases, cse{r, c15fsVictims[2], k, c15IdentityClass(k)})
		}
		for i := len(cases) - 1; i > 0; i-- {
			j := rng.Intn(i + 1)
			cases[i], cases[j] = cases[j], cases[i]
		}
		for _, c := range cases {
			if !runCase(fmt.Sprintf("round %d after-revocation-by-SIGHUP", round), c.r, c.v, c.cli, c.class) {
				return
			}
		}
		if round+1 < rounds {
			// grant again for the next round
			gen++
			applied, err := w.setPolicy(c15fsPolicy(gen, false))
			if err != nil || !applied {
				rep.Inconc(fmt.Sprintf("round %d: re-granting reload: applied=%v err=%v", round, applied, err))
				return
			}
			if err := w.c15fsSetup(); err != nil {
				rep.Inconc("owners could not use their state after the re-grant: " + err.Error())
				return
			}
		}
	}
	// the owners' state is still what they made it: the remaining owner can use it
	g := w.srv.metadata.GetConsumerGroup(c15fsGroup)
	if g != nil {
		_, ep := g.GetCoordinator()
		if _, err := w.call("FetchConsumerGroupAssignments", c15fsOwner, &client.FetchConsumerGroupAssignmentsRequest{GroupId: c15fsGroup, ConsumerId: "fm1", Epoch: ep}, c15Call45); err == nil {
			rep.Count("owner_calls_worked", 1)
		} else if c15AuthzError(err) {
			rep.Violation("C15:FetchConsumerGroupAssignments:refused-although-authorised", "c1 still holds the entry on gf after the reloads but its heartbeat was refused: "+err.Error(), map[string]interface{}{"seed": kit.Seed()})
		}
	}
	rep.Count("sighup_sent", int64(w.reloads))
}
