//go:build verif

package server

// C07, unit "lifecycle": the controller's LIFECYCLE between the report / ISR
// operations.  The other C07 units run on a controller that never restarts, so
// the replicated leadership state (leader, leader epoch, partition epoch, ISR)
// is only ever the one built up by live applies.  Here the same kind of seeded
// programs are cut into three segments and between the segments the controller
//   - takes a forced Raft snapshot (raft.Snapshot(): FSM Snapshot + Persist),
//   - is stopped and restarted on its data directory (Raft log replay, or
//     snapshot restore, or snapshot restore + replay of the log suffix —
//     whichever the snapshots taken so far make it), or
//   - has its newest Raft snapshot restored into a fresh, never-started server
//     (what a lagging follower receives through InstallSnapshot).
// Oracle at every event, per live partition:
//   (a) (leader, leader epoch, partition epoch, ISR, replicas) after the event
//       equal the values before it, and the I1-I3 monitor of c07_core_test.go,
//       whose memory spans the event, sees no epoch go backwards and no second
//       leader for a leader epoch;
//   (b) right after a restart, requests naming pairs the harness KNOWS to be
//       stale from the history it observed (epoch 0, the previous (leader,
//       epoch), epoch-1) are refused without effect; the following segments run
//       the usual programs (current and stale pairs from every kind of sender,
//       expiry, leadership loss) under the usual I1-I6 monitors.  A restart
//       drops the controller's failover bookkeeping, so the shadow witness
//       model's window is reset there (reports from before a restart must not
//       count afterwards).

import (
	"context"
	"fmt"
	"io"
	"os"
	"strings"
	"sync"
	"sync/atomic"
	"testing"
	"time"

	"google.golang.org/grpc/status"

	kit "github.com/liftbridge-io/liftbridge/internal/verifkit"
	proto "github.com/liftbridge-io/liftbridge/server/protocol"
)

type c07LC struct {
	env *c07Env
	rep *kit.Report
	// newest Raft snapshot of this controller: taken in which round, at which
	// number of committed entries of that round's partitions
	hasSnap   bool
	snapRound int
	snapSum   int
	round     int
}

var c07LCSeq atomic.Int64

func c07LCEntries(parts []*c07Part) int {
	n := 0
	for _, pt := range parts {
		pt.mu.Lock()
		n += pt.entries
		pt.mu.Unlock()
	}
	return n
}

// compare is oracle (a).  pt.mu held.
func (lc *c07LC) compare(pt *c07Part, mode string, before, after c07Digest) {
	diff := func(field, b, a string) {
		pt.fail("C07:lifecycle:"+mode+":"+field+"-changed",
			fmt.Sprintf("%s of the controller changed the %s of %s from %s to %s (state before %s, after %s)", mode, strings.ReplaceAll(field, "-", " "), pt.stream, b, a, before, after), false)
	}
	if after.Leader != before.Leader {
		diff("leader", before.Leader, after.Leader)
	}
	if after.LeaderEpoch != before.LeaderEpoch {
		diff("leader-epoch", fmt.Sprint(before.LeaderEpoch), fmt.Sprint(after.LeaderEpoch))
	}
	if after.Epoch != before.Epoch {
		diff("partition-epoch", fmt.Sprint(before.Epoch), fmt.Sprint(after.Epoch))
	}
	if strings.Join(after.ISR, ",") != strings.Join(before.ISR, ",") {
		diff("isr", fmt.Sprint(before.ISR), fmt.Sprint(after.ISR))
	}
	if strings.Join(after.Replicas, ",") != strings.Join(before.Replicas, ",") {
		diff("replicas", fmt.Sprint(before.Replicas), fmt.Sprint(after.Replicas))
	}
}

// probes is the first half of oracle (b): requests naming pairs that are stale
// by the harness's own record of the history (not by what the restarted
// controller says is current).
func (lc *c07LC) probes(pt *c07Part, mode string, before c07Digest, rng *kit.RNG) {
	e := lc.env
	pt.mu.Lock()
	if pt.failed {
		pt.mu.Unlock()
		return
	}
	pairs := []c07Pair{{before.Leader, 0}}
	if before.LeaderEpoch > 1 {
		pairs = append(pairs, c07Pair{before.Leader, before.LeaderEpoch - 1})
	}
	if n := len(pt.pairs); n >= 2 {
		pairs = append(pairs, pt.pairs[n-2])
	}
	p := pt.p
	stream := pt.stream
	pt.mu.Unlock()
	fol := before.followers()
	for i, pair := range pairs {
		if i > 0 && !rng.Chance(2, 3) {
			continue
		}
		if pair.Leader == before.Leader && pair.Epoch == before.LeaderEpoch {
			continue
		}
		kinds := []string{"expand"}
		if len(fol) > 0 {
			kinds = append(kinds, "shrink", "report")
		}
		kind := kinds[rng.Intn(len(kinds))]
		var desc string
		var call func(ctx context.Context) *status.Status
		switch kind {
		case "expand":
			desc = fmt.Sprintf("ExpandISR(add %s, names (%s,%d))", before.Leader, pair.Leader, pair.Epoch)
			call = func(ctx context.Context) *status.Status {
				return e.srv.metadata.ExpandISR(ctx, &proto.ExpandISROp{Stream: stream, Partition: 0, ReplicaToAdd: before.Leader, Leader: pair.Leader, LeaderEpoch: pair.Epoch})
			}
		case "shrink":
			who := fol[len(fol)-1]
			desc = fmt.Sprintf("ShrinkISR(remove %s, names (%s,%d))", who, pair.Leader, pair.Epoch)
			call = func(ctx context.Context) *status.Status {
				return e.srv.metadata.ShrinkISR(ctx, &proto.ShrinkISROp{Stream: stream, Partition: 0, ReplicaToRemove: who, Leader: pair.Leader, LeaderEpoch: pair.Epoch})
			}
		default:
			who := fol[0]
			desc = fmt.Sprintf("ReportLeader(from %s, names (%s,%d))", who, pair.Leader, pair.Epoch)
			call = func(ctx context.Context) *status.Status {
				return e.srv.metadata.ReportLeader(ctx, &proto.ReportLeaderOp{Stream: stream, Partition: 0, Replica: who, Leader: pair.Leader, LeaderEpoch: pair.Epoch})
			}
		}
		d0 := c07Read(p)
		ctx, cancel := c07Ctx()
		st := call(ctx)
		cancel()
		d1 := c07Read(p)
		pt.mu.Lock()
		res := "ok"
		if st != nil {
			res = st.Code().String() + ": " + st.Message()
		}
		pt.tr("probe after %s: %s returned %s -> %s", mode, desc, res, d1)
		if st == nil {
			pt.fail("C07:I6:stale-"+kind+"-accepted:after-"+mode,
				fmt.Sprintf("after %s of the controller %s is accepted although the partition's pair before the event was (%s,%d)", mode, desc, before.Leader, before.LeaderEpoch), false)
		} else {
			lc.rep.Count("stale_probes_after_restart_refused", 1)
		}
		if !d1.same(d0) {
			pt.fail("C07:I6:stale-"+kind+"-changed-state:after-"+mode, fmt.Sprintf("after %s of the controller %s changed the state %s -> %s", mode, desc, d0, d1), true)
		}
		pt.mu.Unlock()
	}
}

// fresh restores the controller's newest Raft snapshot into a never-started
// server and returns the leadership state of the given streams there.
func (lc *c07LC) fresh(rc io.ReadCloser, streams []string) (map[string]c07Digest, error) {
	dir := vfWorkDir("c07lcfresh")
	cfg := NewDefaultConfig()
	cfg.DataDir = dir
	cfg.Clustering.ServerID = fmt.Sprintf("c07lc-%d-%d", os.Getpid(), c07LCSeq.Add(1))
	cfg.Clustering.Namespace = "c07lc"
	cfg.LogSilent = true
	cfg.LogRecovery = true
	cfg.Telemetry.Enabled = false
	f := New(cfg)
	defer func() {
		f.metadata.Reset() // nolint: errcheck
		// a commit log's checkpoint loop may tick once more after Close
		time.AfterFunc(6*time.Second, func() { os.RemoveAll(dir) })
	}()
	if err := f.Restore(rc); err != nil {
		return nil, err
	}
	out := map[string]c07Digest{}
	for _, s := range streams {
		if p := f.metadata.GetPartition(s, 0); p != nil {
			out[s] = c07Read(p)
		}
	}
	return out, nil
}

// event runs one lifecycle event.  false = the controller is unusable
// (inconclusive, already reported).
func (lc *c07LC) event(kind string, parts []*c07Part, rng *kit.RNG) bool {
	e := lc.env
	rep := lc.rep
	if err := e.srv.getRaft().Barrier(15 * time.Second).Error(); err != nil {
		rep.Inconc("C07 lifecycle: raft barrier before " + kind + ": " + err.Error())
		return false
	}
	pre := map[*c07Part]c07Digest{}
	var streams []string
	for _, pt := range parts {
		pt.mu.Lock()
		if !pt.failed && pt.created && !pt.deleted && pt.p != nil {
			pre[pt] = c07Read(pt.p)
			streams = append(streams, pt.stream)
		}
		pt.mu.Unlock()
	}
	if kind == "snapshot" || kind == "snapshot+restart" || kind == "fresh" {
		fut := e.srv.getRaft().Snapshot()
		if err := fut.Error(); err != nil {
			rep.Count("raft_snapshot_errors", 1)
			if kind != "snapshot+restart" {
				return true
			}
		} else {
			rep.Count("raft_snapshots_taken", 1)
			lc.hasSnap, lc.snapRound, lc.snapSum = true, lc.round, c07LCEntries(parts)
			if kind == "fresh" {
				_, rc, err := fut.Open()
				if err != nil {
					rep.Count("raft_snapshot_open_errors", 1)
					return true
				}
				got, err := lc.fresh(rc, streams)
				if err != nil {
					rep.Inconc("C07 lifecycle: restoring the snapshot into a fresh server failed: " + err.Error())
					return true
				}
				rep.Count("events_snapshot_restored_into_fresh_server", 1)
				mode := "snapshot-restore-into-fresh-server"
				for pt, d0 := range pre {
					pt.mu.Lock()
					d, ok := got[pt.stream]
					if !ok {
						pt.fail("C07:lifecycle:"+mode+":partition-lost", fmt.Sprintf("partition of %s (%s) is missing on a fresh server that restored the controller's snapshot", pt.stream, d0), false)
						pt.mu.Unlock()
						continue
					}
					pt.tr("Z fresh: snapshot restored into a fresh server: %s -> %s", d0, d)
					lc.compare(pt, mode, d0, d)
					if d.LeaderEpoch < pt.obsLE || d.Epoch < pt.obsE {
						pt.fail("C07:I1:epoch-decreased:"+mode, fmt.Sprintf("on a fresh server that restored the controller's snapshot %s has leader epoch %d / epoch %d, observed before: %d / %d", pt.stream, d.LeaderEpoch, d.Epoch, pt.obsLE, pt.obsE), false)
					}
					rep.Count("partitions_compared_across_event", 1)
					pt.mu.Unlock()
				}
			}
		}
	}
	if kind != "restart" && kind != "snapshot+restart" {
		return true
	}
	mode := "log-replay-restart"
	if lc.hasSnap {
		if lc.snapRound == lc.round && lc.snapSum == c07LCEntries(parts) {
			mode = "snapshot-restore-restart"
		} else {
			mode = "snapshot+log-replay-restart"
		}
	}
	if err := e.cl.StopNode("a"); err != nil {
		rep.Inconc("C07 lifecycle: stopping the controller failed: " + err.Error())
		return false
	}
	if err := e.cl.StartNode("a"); err != nil {
		rep.Inconc("C07 lifecycle: the controller did not start again (" + mode + "): " + err.Error())
		return false
	}
	srv := e.cl.Nodes["a"].Server()
	if srv == nil {
		rep.Inconc("C07 lifecycle: no server after restart")
		return false
	}
	e.srv = srv
	if _, err := e.cl.MetaLeader(30 * time.Second); err != nil {
		rep.Inconc("C07 lifecycle: no metadata leader after restart: " + err.Error())
		return false
	}
	if err := srv.getRaft().Barrier(15 * time.Second).Error(); err != nil {
		rep.Inconc("C07 lifecycle: raft barrier after restart: " + err.Error())
		return false
	}
	// Only now: the entries replayed by the restart rebuild the state step by
	// step and are not new commits; the barrier has waited for all of them.
	srv.AddRaftLogListener(e)
	rep.Count("events_"+mode, 1)
	for _, pt := range parts {
		d0, ok := pre[pt]
		if !ok {
			continue
		}
		p := srv.metadata.GetPartition(pt.stream, 0)
		pt.mu.Lock()
		if p == nil {
			pt.fail("C07:lifecycle:"+mode+":partition-lost", fmt.Sprintf("partition of %s (%s) is missing after %s of the controller", pt.stream, d0, mode), true)
			pt.mu.Unlock()
			continue
		}
		pt.p = p
		d := c07Read(p)
		pt.last = d
		pt.phaseStates = []c07Digest{d}
		pt.seq++
		pt.bounds = append(pt.bounds, c07Boundary{pt.seq, "lost"})
		pt.tr("Z %s (%s): %s -> %s", kind, mode, d0, d)
		lc.compare(pt, mode, d0, d)
		rep.Count("partitions_compared_across_event", 1)
		pt.mu.Unlock()
		lc.probes(pt, mode, d0, rng)
		pt.mu.Lock()
		pt.observe(c07Read(p), "controller-restart")
		pt.mu.Unlock()
	}
	return true
}

func TestVerifC07Lifecycle(t *testing.T) {
	rep := kit.NewReport("C07", "lifecycle")
	defer rep.Write()
	rep.SetRule("per controller several rounds; per round 8 fresh partitions (3..5 phantom replicas), each with a seeded program of the seq unit's alphabet cut into 3 segments (half of the programs start with reports from two in-sync followers, i.e. usually a leader change before the first event); between the segments the controller goes through a lifecycle event: forced raft.Snapshot(), stop/restart on its data directory (= log replay, snapshot restore, or snapshot restore + replay of the suffix, depending on the snapshots taken before), snapshot + restart back to back, or restore of its newest Raft snapshot into a fresh never-started server; every round has at least one restart. Oracle: (a) per live partition (leader, leader epoch, epoch, ISR, replicas) after the event == before, epochs never lower than anything observed earlier, one leader per leader epoch over the whole run; (b) after a restart 1..3 requests (ExpandISR / ShrinkISR / ReportLeader) naming pairs known to be stale from the observed history (epoch 0, epoch-1, the previous pair) must be refused without effect, then the next segment runs under the I1-I6 monitors with the witness window reset at the restart; non-trivial = a leader or ISR change was committed before a restart of that partition's controller; distinct = (replicas, initial leader, segments, events)")
	c07Assumptions(rep)
	rep.Assume("a controller restart drops the in-memory failover bookkeeping, so reports made before a restart must not count towards a leader change after it (the shadow model resets its window at a restart, as for a controller leadership loss)")
	rep.Assume("a controller that does not come back after a restart is inconclusive for C07 (restart-stability of the metadata is C06's statement)")
	root := kit.NewRNG(kit.Mix(kit.Seed(), 0xC07F))
	W := kit.EnvInt("C07_LC_CONTROLLERS", 6)
	rounds := kit.EnvInt("C07_LC_ROUNDS", kit.Scale(3, 20))
	const K = 8
	seeds := make([]uint64, W*rounds)
	for i := range seeds {
		seeds[i] = root.Uint64()
	}
	var wg sync.WaitGroup
	for k := 0; k < W; k++ {
		wg.Add(1)
		go func(k int) {
			defer wg.Done()
			env, err := c07NewEnv(rep, fmt.Sprintf("lc%d", k), c07Hours, false)
			if err != nil {
				rep.Inconc("C07: controller did not start: " + err.Error())
				return
			}
			defer func() { env.close() }()
			lc := &c07LC{env: env, rep: rep}
			for r := 0; r < rounds; r++ {
				if rep.NumViolations() >= 12 {
					return
				}
				lc.round = r
				if !lc.runRound(kit.NewRNG(seeds[k*rounds+r]), k, r, K) {
					return
				}
			}
		}(k)
	}
	wg.Wait()
}

func (lc *c07LC) runRound(rng *kit.RNG, k, r, K int) bool {
	rep, env := lc.rep, lc.env
	all := []string{"snapshot", "restart", "snapshot+restart", "fresh"}
	events := []string{all[rng.Intn(len(all))], all[rng.Intn(len(all))]}
	if !strings.Contains(events[0]+events[1], "restart") {
		events[rng.Intn(2)] = []string{"restart", "snapshot+restart"}[rng.Intn(2)]
	}
	type cs struct {
		pt          *c07Part
		segs        [3][]c07Op
		sig         string
		changesAtEv int
		restarted   bool
	}
	var cases []*cs
	var parts []*c07Part
	for j := 0; j < K; j++ {
		c := &cs{}
		n, leader := rng.Range(3, 5), rng.Intn(5)
		var prog []c07Op
		for s := 0; s < 3; s++ {
			seg := c07GenProg(rng.Fork(uint64(j*3+s)), 6, false)
			if s == 0 && rng.Bool() {
				seg = append([]c07Op{{Kind: "R", Who: "f0"}, {Kind: "R", Who: "f1"}}, seg...)
			}
			c.segs[s] = seg
			prog = append(prog, seg...)
			if s < 2 {
				prog = append(prog, c07Op{Kind: "Z", Who: events[s]})
			}
		}
		c.sig = fmt.Sprintf("%d/%d|%s", n, leader, c07ProgString(prog))
		pt, err := env.newPart(n, leader, fmt.Sprintf("lifecycle#c%d-r%d-%d", k, r, j), prog)
		if err != nil {
			rep.Inconc(fmt.Sprintf("C07 lifecycle c%d round %d: stream could not be created: %v", k, r, err))
			continue
		}
		c.pt = pt
		cases = append(cases, c)
		parts = append(parts, pt)
	}
	usable := true
	for s := 0; s < 3 && usable; s++ {
		for _, c := range cases {
			for _, op := range c.segs[s] {
				c.pt.exec(op)
				c.pt.mu.Lock()
				f := c.pt.failed
				c.pt.mu.Unlock()
				if f {
					break
				}
			}
		}
		if s < 2 {
			if strings.Contains(events[s], "restart") {
				for _, c := range cases {
					c.pt.mu.Lock()
					if !c.restarted {
						c.changesAtEv = c.pt.nChanges + c.pt.nISRChanges
					}
					c.restarted = true
					c.pt.mu.Unlock()
				}
			}
			usable = lc.event(events[s], parts, rng)
		}
	}
	for i, c := range cases {
		if usable {
			env.dropPart(c.pt)
		}
		c.pt.mu.Lock()
		rep.Eval()
		rep.Count("isr_changes", int64(c.pt.nISRChanges))
		rep.Count("leader_changes_total", int64(c.pt.nChanges))
		rep.Count("stale_requests_refused_in_programs", int64(c.pt.nStaleRefused))
		rep.Count("reports_accepted", int64(c.pt.nReportsOK))
		rep.Count("expiry_with_timer_pending", int64(c.pt.nExpiredArmed))
		if c.restarted && c.changesAtEv > 0 {
			rep.Nontrivial(c.sig)
			rep.Count("cases_with_change_before_restart", 1)
		}
		if k == 0 && r == 0 && i < 2 {
			rep.Sample(map[string]interface{}{"case": c.sig, "leader_changes": c.pt.nChanges, "isr_changes": c.pt.nISRChanges, "trace_tail": c.pt.trace[max(0, len(c.pt.trace)-12):]})
		}
		c.pt.mu.Unlock()
	}
	return usable
}
