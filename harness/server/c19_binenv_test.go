//go:build verif

package server

// C19 — what the REAL BINARY reports, in the ENVIRONMENT it runs in.
//
// The strace unit (c19_binary_test.go) sees whether the binary talks at all,
// not what it says (TLS).  Here the binary runs with telemetry ON, with
// HTTPS_PROXY pointing at a listener of the harness that terminates TLS with a
// throw-away CA the binary trusts through SSL_CERT_FILE: every report the real
// binary sends is captured in clear (method, URL, headers, body) and judged
// like the in-process reports — documented keys only, documented endpoint, no
// needle.  The needles are the user data (stream, subject, message, NATS
// credentials, server id, namespace, data directory, advertised host) AND the
// facts of the environment the binary runs in: host name, domain name, $HOME,
// working directory, command line, values of identity / secret carrying
// environment variables, contents of host identity files.
//
// The environments: the sandbox as it is, and minimal-image-like ones built
// with `unshare -m -u` (we are root): a distinctive host name and NIS domain in
// a private UTS namespace, a tmpfs over /etc (no os-release, resolv.conf,
// passwd, ...), /dev/null over /usr/lib/os-release, HOME unset, a read-only
// working directory; and the same with /etc holding only host identity files
// (hostname, machine-id, hosts, resolv.conf, passwd with distinctive content)
// and an os-release in an unusual state.  In a container the host name is the
// pod / container name, i.e. the address the server is reachable under: the
// config's `host` is set to it.

import (
	"bufio"
	"context"
	"crypto/ecdsa"
	"crypto/elliptic"
	"crypto/rand"
	"crypto/tls"
	"crypto/x509"
	"crypto/x509/pkix"
	"encoding/pem"
	"fmt"
	"io"
	"math/big"
	"net"
	"net/http"
	"os"
	"os/exec"
	"path/filepath"
	"runtime"
	"strconv"
	"strings"
	"sync"
	"syscall"
	"testing"
	"time"

	client "github.com/liftbridge-io/liftbridge-api/v2/go"
	"google.golang.org/grpc"
	"google.golang.org/grpc/credentials/insecure"

	kit "github.com/liftbridge-io/liftbridge/internal/verifkit"
)

// c19CA is a throw-away certificate authority.
type c19CA struct {
	cert *x509.Certificate
	key  *ecdsa.PrivateKey
	pem  []byte
	mu   sync.Mutex
	leaf map[string]*tls.Certificate
}

func c19NewCA() (*c19CA, error) {
	key, err := ecdsa.GenerateKey(elliptic.P256(), rand.Reader)
	if err != nil {
		return nil, err
	}
	tmpl := &x509.Certificate{SerialNumber: big.NewInt(1), Subject: pkix.Name{CommonName: "verif C19 throw-away CA"},
		NotBefore: time.Now().Add(-time.Hour), NotAfter: time.Now().Add(24 * time.Hour),
		IsCA: true, BasicConstraintsValid: true, KeyUsage: x509.KeyUsageCertSign | x509.KeyUsageDigitalSignature}
	der, err := x509.CreateCertificate(rand.Reader, tmpl, tmpl, &key.PublicKey, key)
	if err != nil {
		return nil, err
	}
	cert, err := x509.ParseCertificate(der)
	if err != nil {
		return nil, err
	}
	return &c19CA{cert: cert, key: key, pem: pem.EncodeToMemory(&pem.Block{Type: "CERTIFICATE", Bytes: der}), leaf: map[string]*tls.Certificate{}}, nil
}

// leafFor issues (once) a server certificate for whatever name the client asks for.
func (ca *c19CA) leafFor(name string) (*tls.Certificate, error) {
	ca.mu.Lock()
	defer ca.mu.Unlock()
	if c := ca.leaf[name]; c != nil {
		return c, nil
	}
	key, err := ecdsa.GenerateKey(elliptic.P256(), rand.Reader)
	if err != nil {
		return nil, err
	}
	tmpl := &x509.Certificate{SerialNumber: big.NewInt(int64(len(ca.leaf) + 2)), Subject: pkix.Name{CommonName: name},
		NotBefore: time.Now().Add(-time.Hour), NotAfter: time.Now().Add(24 * time.Hour),
		KeyUsage: x509.KeyUsageDigitalSignature, ExtKeyUsage: []x509.ExtKeyUsage{x509.ExtKeyUsageServerAuth}}
	if ip := net.ParseIP(name); ip != nil {
		tmpl.IPAddresses = []net.IP{ip}
	} else {
		tmpl.DNSNames = []string{name}
	}
	der, err := x509.CreateCertificate(rand.Reader, tmpl, ca.cert, &key.PublicKey, ca.key)
	if err != nil {
		return nil, err
	}
	c := &tls.Certificate{Certificate: [][]byte{der}, PrivateKey: key}
	ca.leaf[name] = c
	return c, nil
}

// c19Mitm is an HTTP proxy that answers CONNECT itself, terminates TLS with a
// certificate of the CA for the requested name and records every request it
// then reads.  Nothing is forwarded anywhere.
type c19Mitm struct {
	ln       net.Listener
	ca       *c19CA
	mu       sync.Mutex
	reqs     []kit.C19Request
	connects []string
	errs     []string
}

func c19NewMitm(ca *c19CA) (*c19Mitm, error) {
	ln, err := net.Listen("tcp", "127.0.0.1:0")
	if err != nil {
		return nil, err
	}
	m := &c19Mitm{ln: ln, ca: ca}
	go func() {
		for {
			c, err := ln.Accept()
			if err != nil {
				return
			}
			go m.serve(c)
		}
	}()
	return m, nil
}

func (m *c19Mitm) note(err string) { m.mu.Lock(); m.errs = append(m.errs, err); m.mu.Unlock() }

func (m *c19Mitm) record(r *http.Request, url string) {
	var body []byte
	if r.Body != nil {
		body, _ = io.ReadAll(r.Body)
		r.Body.Close()
	}
	h := map[string][]string{}
	for k, v := range r.Header {
		h[k] = append([]string(nil), v...)
	}
	m.mu.Lock()
	m.reqs = append(m.reqs, kit.C19Request{Method: r.Method, URL: url, Header: h, Body: string(body)})
	m.mu.Unlock()
}

const c19MitmOK = "HTTP/1.1 200 OK\r\nContent-Type: application/json\r\nContent-Length: 2\r\n\r\n{}"

func (m *c19Mitm) serve(c net.Conn) {
	defer c.Close()
	c.SetDeadline(time.Now().Add(2 * time.Minute))
	br := bufio.NewReader(c)
	req, err := http.ReadRequest(br)
	if err != nil {
		m.note("proxy: unreadable request: " + err.Error())
		return
	}
	if req.Method != http.MethodConnect {
		// plain http through the proxy: the request line carries the absolute URL
		m.record(req, req.URL.String())
		io.WriteString(c, c19MitmOK)
		return
	}
	target := req.Host
	m.mu.Lock()
	m.connects = append(m.connects, target)
	m.mu.Unlock()
	io.WriteString(c, "HTTP/1.1 200 Connection established\r\n\r\n")
	thost, tport, err := net.SplitHostPort(target)
	if err != nil {
		thost, tport = target, "443"
	}
	tc := tls.Server(c, &tls.Config{NextProtos: []string{"http/1.1"}, GetCertificate: func(h *tls.ClientHelloInfo) (*tls.Certificate, error) {
		name := h.ServerName
		if name == "" {
			name = thost
		}
		return m.ca.leafFor(name)
	}})
	if err := tc.Handshake(); err != nil {
		m.note("TLS handshake for " + target + " failed: " + err.Error())
		return
	}
	defer tc.Close()
	tbr := bufio.NewReader(tc)
	for {
		r, err := http.ReadRequest(tbr)
		if err != nil {
			return
		}
		host := thost
		if tport != "443" {
			host = net.JoinHostPort(thost, tport)
		}
		m.record(r, "https://"+host+r.URL.RequestURI())
		if _, err := io.WriteString(tc, c19MitmOK); err != nil {
			return
		}
	}
}

func (m *c19Mitm) Port() int { return m.ln.Addr().(*net.TCPAddr).Port }
func (m *c19Mitm) Len() int  { m.mu.Lock(); defer m.mu.Unlock(); return len(m.reqs) }
func (m *c19Mitm) Requests() []kit.C19Request {
	m.mu.Lock()
	defer m.mu.Unlock()
	return append([]kit.C19Request(nil), m.reqs...)
}
func (m *c19Mitm) Notes() (connects, errs []string) {
	m.mu.Lock()
	defer m.mu.Unlock()
	return append([]string(nil), m.connects...), append([]string(nil), m.errs...)
}
func (m *c19Mitm) Close() { m.ln.Close() }

// c19MinimalImageScript runs inside `unshare -m -u`: $1 host name, $2 NIS
// domain, $3 directory whose content becomes /etc (or ""), $4 directory that
// becomes the read-only working directory (or ""), then the command.
const c19MinimalImageScript = `set -e
hostname "$1"
if [ -n "$2" ]; then domainname "$2"; fi
etcsrc="$3"; rodir="$4"; shift 4
mount -t tmpfs none /etc
if [ -e /usr/lib/os-release ]; then mount --bind /dev/null /usr/lib/os-release; fi
if [ -n "$etcsrc" ]; then cp -a "$etcsrc"/. /etc/; fi
if [ -n "$rodir" ]; then mount --bind "$rodir" "$rodir"; mount -o remount,ro,bind "$rodir"; cd "$rodir"; fi
exec "$@"
`

type c19EnvCase struct {
	Name      string
	Minimal   bool   // unshare -m -u, tmpfs over /etc, no os-release
	Identity  bool   // /etc holds host identity files with distinctive content
	OSRelease string // state of /etc/os-release inside the namespace
	HomeUnset bool
	ROCwd     bool
}

var c19OSReleaseStates = []string{"no-name-keys", "directory-at-path", "dangling-symlink", "empty-file", "absent"}

func TestVerifC19BinaryEnv(t *testing.T) {
	rep := kit.NewReport("C19", "binaryenv")
	defer rep.Write()
	rep.SetRule("the real liftbridge binary (go build of $VERIF_REPO's main package) with telemetry ON (config file, interval 1 s), HTTPS_PROXY = a listener of the harness that answers CONNECT itself and terminates TLS with a throw-away CA trusted through SSL_CERT_FILE, so every report the binary sends is read in clear.  Environments: (host) the sandbox as it is, HOME / working directory / identity and secret carrying environment variables with distinctive values; (minimal-image-bare) inside `unshare -m -u`: seeded distinctive host name and NIS domain name, tmpfs over /etc, /dev/null over /usr/lib/os-release, HOME unset, read-only working directory, config `host` (advertised address) = the host name; (minimal-image-identity-files) the same namespace recipe with /etc holding ONLY hostname, machine-id, hosts, resolv.conf and passwd with distinctive content and /etc/os-release in an unusual state (no NAME keys / directory at the path / dangling symlink / empty / absent, rotating over rounds).  The binary is used over gRPC (stream with needle name and subject, publishes), a report built AFTER that activity is waited for (logical condition on the listener), then SIGINT.  Oracle per captured request = the judge of the in-process unit: JSON keys inside the documented whitelist, documented endpoint, no unknown header, instance_id a version-4 UUID, and no needle (user data and host-environment facts of that run; as is, case variants, hex, base64, URL-escaped) in URL, headers or body.  non-trivial = binary served gRPC, >= 1 report captured after the activity, exit 0 after SIGINT; distinct = environment x os-release state x round")
	rep.Assume("the documented field `os` may carry runtime.GOOS / GOARCH, the Go or kernel version or a distribution NAME; what must not appear is anything specific to this machine / container / account.  The needles searched per run are listed below (one assumption line per environment); values that occur in a legitimate string (OS / architecture / Go version, Liftbridge version, kernel name / release / version / machine type, distribution names of this machine's os-release, documented endpoint) are dropped and listed as dropped")
	rep.Assume("whether a server in a minimal image reports at all is not judged; a run in which the listener captured nothing is inconclusive")
	work := os.Getenv("VERIF_WORK")
	if work == "" {
		work = os.TempDir()
	}
	dir, err := os.MkdirTemp(work, "c19-env-")
	if err != nil {
		rep.Inconc(err.Error())
		return
	}
	defer os.RemoveAll(dir)
	repo := os.Getenv("VERIF_REPO")
	if repo == "" {
		repo = "/repo"
	}
	bin := filepath.Join(dir, "liftbridge-c19")
	bcmd := exec.Command("go", "build", "-o", bin, ".")
	bcmd.Dir = repo
	bcmd.Env = append(c19CleanEnvKeepGo(), "GOFLAGS=-mod=mod", "GOPROXY=off")
	if out, err := bcmd.CombinedOutput(); err != nil {
		rep.Eval()
		rep.Inconc(fmt.Sprintf("cannot build the liftbridge binary: %v: %s", err, c19Tail(string(out), 600)))
		return
	}
	ca, err := c19NewCA()
	if err != nil {
		rep.Eval()
		rep.Inconc("cannot create the throw-away CA: " + err.Error())
		return
	}
	caFile := filepath.Join(dir, "trusted-roots.pem")
	if err := os.WriteFile(caFile, ca.pem, 0644); err != nil {
		rep.Inconc(err.Error())
		return
	}
	// can namespaces be built here?
	unshareOK := ""
	if out, err := exec.Command("unshare", "-m", "-u", "sh", "-c", c19MinimalImageScript, "sh", "c19probe-host.example.internal", "c19probe.example", "", "", "true").CombinedOutput(); err != nil {
		unshareOK = fmt.Sprintf("%v: %s", err, c19Tail(string(out), 300))
	}

	cases := []c19EnvCase{
		{Name: "host"},
		{Name: "minimal-image-bare", Minimal: true, OSRelease: "absent", HomeUnset: true, ROCwd: true},
		{Name: "minimal-image-identity-files", Minimal: true, Identity: true},
	}
	rounds := kit.Scale(1, 5)
	base := kit.Mix(kit.Seed(), 0xC19F)
	expect := kit.C19Expect{Version: Version, GOOS: runtime.GOOS, GOARCH: runtime.GOARCH, FreshInstance: true}
	legit := kit.C19LegitStrings(Version)
	total := len(cases) * rounds
	kit.Parallel(total, kit.EnvInt("C19_BINARY_WORKERS", 3), func(idx int) {
		cs := cases[idx%len(cases)]
		round := idx / len(cases)
		rng := kit.NewRNG(kit.Mix(base, uint64(idx)))
		n := c19NewNeedles(rng)
		rep.Eval()
		if cs.Identity {
			cs.OSRelease = c19OSReleaseStates[round%len(c19OSReleaseStates)]
		}
		if cs.Minimal && unshareOK != "" {
			rep.Inconc(cs.Name + ": cannot build a minimal-image-like namespace here (unshare -m -u): " + unshareOK)
			return
		}
		cdir := filepath.Join(dir, fmt.Sprintf("case%02d", idx))
		cwd := filepath.Join(cdir, c19Word(rng, "cwd-"))
		home := filepath.Join(cdir, c19Word(rng, "home-"))
		os.MkdirAll(cwd, 0755)
		os.MkdirAll(home, 0755)
		ns, natsURL, _ := c19StartNATS(n.NATSUser, n.NATSPass)
		defer ns.Shutdown()
		mitm, err := c19NewMitm(ca)
		if err != nil {
			rep.Inconc("proxy listener: " + err.Error())
			return
		}
		defer mitm.Close()
		port, err := c19FreePort(rng)
		if err != nil {
			rep.Inconc(err.Error())
			return
		}
		hf := kit.NewC19HostFacts(legit)
		hostName, domain := "", ""
		if cs.Minimal {
			hostName = c19Word(rng, "lb-") + "." + c19Word(rng, "team-") + "." + c19Word(rng, "corp-") + ".internal"
			domain = c19Word(rng, "nis-") + ".example"
			n.AdvHost = hostName // the address the server is reachable under and advertises
			hf.AddHostName("namespace-host-name", hostName)
			hf.Add("domain name#namespace-nis-domain", domain)
		} else {
			if h, err := os.Hostname(); err == nil {
				hf.AddHostName("os.Hostname", h)
			}
			hf.AddIdentityFiles()
		}
		// environment of the binary, built from scratch
		pu := fmt.Sprintf("http://127.0.0.1:%d", mitm.Port())
		env := []string{"PATH=" + os.Getenv("PATH"), "HTTPS_PROXY=" + pu, "https_proxy=" + pu, "HTTP_PROXY=" + pu, "http_proxy=" + pu, "SSL_CERT_FILE=" + caFile}
		plants := kit.C19EnvPlants(rng)
		plants["USER"], plants["LOGNAME"] = c19Word(rng, "acct-"), c19Word(rng, "login-")
		if cs.Minimal {
			plants["HOSTNAME"] = hostName // what a container runtime exports
		}
		for k, v := range plants {
			env = append(env, k+"="+v)
		}
		hf.AddEnv(plants)
		if !cs.HomeUnset {
			env = append(env, "HOME="+home)
			hf.AddPath("home directory#$HOME", home)
		}
		hf.AddPath("working directory", cwd)
		// host identity files
		etcSrc := ""
		if cs.Identity {
			etcSrc = filepath.Join(cdir, "etc")
			os.MkdirAll(etcSrc, 0755)
			mid := fmt.Sprintf("%x", rng.Bytes(16))
			gecos, pwHome := c19Word(rng, "Gecos-"), "/home/"+c19Word(rng, "pwhome-")
			search := c19Word(rng, "search-") + ".svc.cluster.local"
			alias := c19Word(rng, "alias-")
			os.WriteFile(filepath.Join(etcSrc, "hostname"), []byte(hostName+"\n"), 0644)
			os.WriteFile(filepath.Join(etcSrc, "machine-id"), []byte(mid+"\n"), 0444)
			os.WriteFile(filepath.Join(etcSrc, "hosts"), []byte("127.0.0.1 localhost\n127.0.1.1 "+hostName+" "+alias+"\n"), 0644)
			os.WriteFile(filepath.Join(etcSrc, "resolv.conf"), []byte("search "+search+"\nnameserver 127.0.0.1\n"), 0644)
			os.WriteFile(filepath.Join(etcSrc, "passwd"), []byte("root:x:0:0:"+gecos+":"+pwHome+":/bin/sh\n"), 0644)
			hf.Add("host identity file#/etc/machine-id", mid)
			hf.Add("host identity file#/etc/machine-id-as-uuid", mid[0:8]+"-"+mid[8:12]+"-"+mid[12:16]+"-"+mid[16:20]+"-"+mid[20:])
			hf.Add("host identity file#/etc/hosts-alias", alias)
			hf.Add("host identity file#/etc/resolv.conf-search", search)
			hf.Add("user name#/etc/passwd-gecos", gecos)
			hf.AddPath("home directory#/etc/passwd", pwHome)
			p := filepath.Join(etcSrc, "os-release")
			switch cs.OSRelease {
			case "no-name-keys":
				os.WriteFile(p, []byte("# os-release of a stripped image\nID_LIKE=\nHOME_URL=\"\"\nnot a key value line\n"), 0644)
			case "directory-at-path":
				os.Mkdir(p, 0755)
			case "dangling-symlink":
				os.Symlink("../usr/lib/no-such-os-release", p)
			case "empty-file":
				os.WriteFile(p, nil, 0644)
			}
		}
		dataDir := filepath.Join(cdir, n.DirName)
		file := filepath.Join(cdir, "liftbridge.yaml")
		y := strings.Replace(c19Yaml(n, natsURL, dataDir, "telemetry:\n  enabled: true\n  interval:\n    seconds: 1\n"), "listen: 127.0.0.1:0", fmt.Sprintf("listen: 127.0.0.1:%d", port), 1)
		y = strings.Replace(y, "port: 0", fmt.Sprintf("port: %d", port), 1)
		y = strings.Replace(y, "level: error", "level: info", 1)
		os.WriteFile(file, []byte(y), 0644)
		args := []string{bin, "--config", file}
		hf.AddCommandLine(args)
		var cmd *exec.Cmd
		if cs.Minimal {
			ro := ""
			if cs.ROCwd {
				ro = cwd
			}
			cmd = exec.Command("unshare", append([]string{"-m", "-u", "sh", "-c", c19MinimalImageScript, "sh", hostName, domain, etcSrc, ro}, args...)...)
		} else {
			cmd = exec.Command(args[0], args[1:]...)
		}
		cmd.Env = env
		cmd.Dir = cwd
		outPath := filepath.Join(cdir, "out.txt")
		outf, _ := os.Create(outPath)
		defer outf.Close()
		cmd.Stdout, cmd.Stderr = outf, outf
		cmd.SysProcAttr = &syscall.SysProcAttr{Setpgid: true}
		needles := n.asMap(natsURL, fmt.Sprintf("127.0.0.1:%d", port))
		hf.Merge(needles)
		// the namespace's host name is also the advertised host and $HOSTNAME:
		// one string, one needle (the label "host name" wins)
		if cs.Minimal {
			for l, v := range needles {
				if v == hostName && !strings.HasPrefix(l, "host name#namespace-host-name") {
					delete(needles, l)
				}
			}
			delete(needles, "address#advertised-host-first-label")
			delete(needles, "address#advertised-host-domain")
		}
		replay := map[string]any{"case": cs.Name, "round": round, "seed": kit.Seed(), "os_release_state": cs.OSRelease, "env": env, "args": cmd.Args, "config_file": y, "needles": needles}
		if round == 0 {
			rep.Assume("environment " + cs.Name + " (round 0; later rounds: same classes, other seeded values): " + hf.Describe())
		}
		rep.Count("host_environment_needles_searched/"+cs.Name, int64(len(hf.Needles)))
		tail := func() string {
			b, _ := os.ReadFile(outPath)
			return c19Tail(string(b), 500)
		}
		if err := cmd.Start(); err != nil {
			rep.Inconc(cs.Name + ": cannot start: " + err.Error())
			return
		}
		waitCh := make(chan error, 1)
		go func() { waitCh <- cmd.Wait() }()
		kill := func() {
			syscall.Kill(-cmd.Process.Pid, syscall.SIGKILL)
			<-waitCh
		}
		exited := func() bool {
			select {
			case err := <-waitCh:
				waitCh <- err
				return true
			default:
				return false
			}
		}
		conn, err := grpc.NewClient(fmt.Sprintf("127.0.0.1:%d", port), grpc.WithTransportCredentials(insecure.NewCredentials()))
		if err != nil {
			rep.Inconc("grpc client: " + err.Error())
			kill()
			return
		}
		defer conn.Close()
		api := client.NewAPIClient(conn)
		created := false
		up := vfWait(60*time.Second, func() bool {
			if exited() {
				return true
			}
			ctx, cancel := context.WithTimeout(context.Background(), 3*time.Second)
			defer cancel()
			_, err := api.CreateStream(ctx, &client.CreateStreamRequest{Name: n.Stream, Subject: n.Subject, ReplicationFactor: 1})
			if err == nil || strings.Contains(err.Error(), "already exists") {
				created = true
				return true
			}
			return false
		})
		if !up || !created {
			rep.Inconc(fmt.Sprintf("%s: watchdog: binary did not serve gRPC / create a stream: %s", cs.Name, tail()))
			if !exited() {
				kill()
			}
			return
		}
		for k := 0; k < 3; k++ {
			ctx, cancel := context.WithTimeout(context.Background(), 10*time.Second)
			api.Publish(ctx, &client.PublishRequest{Stream: n.Stream, Key: []byte(n.MsgKey), Value: []byte(n.MsgValue),
				Headers: map[string][]byte{"x-needle": []byte(n.HeaderVal)}, AckPolicy: client.AckPolicy_LEADER})
			cancel()
		}
		// a report built after the user data exists (logical condition; the
		// watchdog only bounds the wait, the interval is 1 s)
		k := mitm.Len()
		after := vfWait(15*time.Second, func() bool { return mitm.Len() > k })
		cmd.Process.Signal(syscall.SIGINT)
		var werr error
		select {
		case werr = <-waitCh:
		case <-time.After(60 * time.Second):
			rep.Inconc(cs.Name + ": watchdog: binary did not exit within 60 s after SIGINT: " + tail())
			kill()
			return
		}
		reqs := mitm.Requests()
		connects, notes := mitm.Notes()
		rep.Count("reports_captured/"+cs.Name, int64(len(reqs)))
		rep.Count("binary_lifetimes", 1)
		replay["proxy_connects"] = connects
		if len(notes) > 0 {
			replay["proxy_notes"] = notes
		}
		for _, rq := range reqs {
			issues, _ := kit.C19Judge(rq, needles, expect)
			rep.Count("requests_judged", 1)
			for _, is := range issues {
				r := map[string]any{"request": rq}
				for k, v := range replay {
					r[k] = v
				}
				rep.Violation(is.Fingerprint, fmt.Sprintf("real binary in environment %q (os-release: %s): %s", cs.Name, c19OrUnset(c19NilIfEmpty(cs.OSRelease)), is.What), r)
			}
		}
		for _, c := range connects {
			if h, _, _ := net.SplitHostPort(c); h != kit.C19DocumentedHost && c != kit.C19DocumentedHost {
				rep.Violation("C19:unexpected-endpoint", "the binary asked the proxy for "+c+" — documentation names "+kit.C19DocumentedHost, replay)
			}
		}
		if len(reqs) == 0 {
			rep.Inconc(fmt.Sprintf("%s: the listener captured no report (CONNECTs: %v, notes: %v) — nothing could be judged: %s", cs.Name, connects, notes, tail()))
			return
		}
		if !after {
			rep.Inconc(cs.Name + ": watchdog: no report after the activity")
			return
		}
		if werr != nil {
			rep.Inconc(fmt.Sprintf("%s: binary did not exit with status 0 after SIGINT (%v): %s", cs.Name, werr, tail()))
			return
		}
		if idx < len(cases) {
			rep.Sample(map[string]any{"case": cs.Name, "os_release_state": cs.OSRelease, "reports": len(reqs), "first_report": reqs[0], "proxy_connects": strconv.Itoa(len(connects))})
		}
		rep.Nontrivial(fmt.Sprintf("%s|os-release=%s|round%d", cs.Name, cs.OSRelease, round))
		os.RemoveAll(cdir)
	})
}

func c19NilIfEmpty(s string) any {
	if s == "" {
		return nil
	}
	return s
}
