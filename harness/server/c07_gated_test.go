//go:build verif

package server

// C07, unit "gated": reports and ISR changes issued WHILE ANOTHER PROPOSAL
// OCCUPIES THE CONTROLLER'S SERIALISATION POINT.
//
// Every metadata change goes through raftNode.applyOperation, which takes the
// Raft node's proposal mutex, brings the FSM up to date, checks the
// precondition and proposes.  On a busy controller a request therefore spends
// time between its HANDLER (validation against the state it sees, bookkeeping
// such as the registration of a leader report) and the APPLY of the entry it
// proposes — the other C07 units never produce that gap in a controlled way:
// their sequential programs have it empty and the concurrent unit leaves it to
// the scheduler.  Here the harness itself occupies the serialisation point (it
// takes the proposal mutex, exactly what a slow proposal in front of the queue
// does) and, while it holds it, issues the calls of a block "[ ... ]" one
// after the other, each in its own goroutine, waiting after each call until it
// has either returned (reports that do not complete a quorum, refused
// requests) or is parked on the mutex (ISR changes, elections) — the mutex'
// waiter count is read for that.  The state is frozen while the gate is held,
// so the handler phases of the block run in program order against one known
// state; at "]" the gate is released, the queued proposals run in the order
// the mutex hands out, the harness waits for every call to return and for the
// FSM to have applied everything (a barrier), and the program goes on
// sequentially.
//
// What this produces: a ShrinkISR of replica r queued (handler done, entry not
// applied) while r reports again; reports registered against an ISR that is
// smaller by the time anything is decided; an election queued behind an ISR
// change that removes the selected candidate or behind another election (its
// precondition then REFUSES it: an election that fails after the quorum was
// reached); ISR changes queued behind an election; requests with an expired
// context inside the queue.
//
// Oracle: the I1-I6 monitors of c07_core_test.go on the APPLIED order (log
// listener on the FSM goroutine), the shadow witness model fed by the calls.
// Inside a block a leader change is judged like in the concurrent unit (the
// quorum must hold for some ISR the partition had under that leader epoch
// since the gate was taken, the decision having been taken against the frozen
// state); outside it is judged strictly against the in-sync followers as of
// the change: a report of r that RETURNED before r's removal was applied does
// not count once the removal is applied.  X / L are executed inside a block
// only while no report call is parked (the decision of a parked election was
// taken before the pause; judging it against the later boundary would demand
// more than the property states) — otherwise they run right after the release.

import (
	"fmt"
	"runtime"
	"sync"
	"sync/atomic"
	"testing"
	"time"
	"unsafe"

	kit "github.com/liftbridge-io/liftbridge/internal/verifkit"
)

// c07MutexWaiters reads the number of goroutines parked on a sync.Mutex (the
// state word is the first field; waiters are counted from bit 3 up).  Used
// only to sequence the harness, never in a verdict; the unit checks at start
// that the reading works with this toolchain and is inconclusive otherwise.
func c07MutexWaiters(mu *sync.Mutex) int {
	return int(atomic.LoadInt32((*int32)(unsafe.Pointer(mu))) >> 3)
}

func c07MutexPeekWorks() bool {
	var mu sync.Mutex
	mu.Lock()
	if c07MutexWaiters(&mu) != 0 {
		mu.Unlock()
		return false
	}
	done := make(chan struct{})
	for i := 0; i < 2; i++ {
		go func() { mu.Lock(); mu.Unlock(); done <- struct{}{} }()
	}
	ok := vfWait(10*time.Second, func() bool { return c07MutexWaiters(&mu) == 2 })
	mu.Unlock()
	<-done
	<-done
	return ok && c07MutexWaiters(&mu) == 0
}

// c07Wait is vfWait with a fine polling step (the conditions waited for here
// are reached within microseconds); expiry of the watchdog is inconclusive.
func c07Wait(timeout time.Duration, cond func() bool) bool {
	deadline := time.Now().Add(timeout)
	for i := 0; ; i++ {
		if cond() {
			return true
		}
		if i < 50 {
			runtime.Gosched()
			continue
		}
		if time.Now().After(deadline) {
			return false
		}
		time.Sleep(100 * time.Microsecond)
	}
}

type c07GCall struct {
	op   c07Op
	who  string
	done chan struct{}
}

func (c *c07GCall) returned() bool {
	select {
	case <-c.done:
		return true
	default:
		return false
	}
}

type c07Gated struct {
	env      *c07Env
	pt       *c07Part
	held     bool
	calls    []*c07GCall // launched in the current block
	deferred []c07Op     // X / L met while a report call was parked
	abandon  bool        // the sequencing could not be established: no verdicts from here on
	// coverage
	nQueued, nReReports, nBlocks, nParkedReports int
}

func (g *c07Gated) unreturned() (n, reports int) {
	for _, c := range g.calls {
		if !c.returned() {
			n++
			if c.op.Kind == "R" {
				reports++
			}
		}
	}
	return
}

func (g *c07Gated) giveUp(why string) {
	g.abandon = true
	g.pt.mu.Lock()
	g.pt.failed = true // stops the monitors: what follows is not sequenced the way the oracle assumes
	g.pt.tr("!! abandoned: %s", why)
	g.pt.mu.Unlock()
	g.env.rep.Inconc("C07 gated " + g.pt.label + ": " + why)
}

func (g *c07Gated) drain() {
	if err := g.env.srv.getRaft().Barrier(30 * time.Second).Error(); err != nil {
		g.env.rep.Count("drain_barrier_errors", 1)
	}
}

func (g *c07Gated) hold() {
	if g.held || g.abandon {
		return
	}
	g.drain()
	rn := g.env.srv.getRaft()
	rn.Lock()
	g.held = true
	g.calls = nil
	g.nBlocks++
	pt := g.pt
	pt.mu.Lock()
	pt.concurrent, pt.gateHeld = true, true
	pt.phaseStates = []c07Digest{pt.last}
	pt.tr("[ the harness holds the proposal mutex; state %s", pt.last)
	pt.mu.Unlock()
}

func (g *c07Gated) release() {
	if !g.held {
		return
	}
	rn := g.env.srv.getRaft()
	pt := g.pt
	// every call still in flight must be parked on the mutex: its handler ran
	// against the frozen state
	n, reports := g.unreturned()
	if n > 0 && !g.abandon {
		if !c07Wait(20*time.Second, func() bool { m, _ := g.unreturned(); return c07MutexWaiters(&rn.Mutex) >= m }) {
			g.giveUp("a call issued behind the gate neither returned nor reached the proposal mutex")
		}
	}
	g.nQueued += n
	g.nParkedReports += reports
	pt.mu.Lock()
	pt.gateHeld = false
	pt.tr("] released with %d call(s) parked", n)
	pt.mu.Unlock()
	g.held = false
	rn.Unlock()
	calls := g.calls
	if !c07Wait(60*time.Second, func() bool {
		for _, c := range calls {
			if !c.returned() {
				return false
			}
		}
		return true
	}) {
		g.giveUp("a call parked behind the gate did not return after the release")
		return
	}
	g.drain()
	pt.mu.Lock()
	pt.concurrent = false
	pt.phaseStates = []c07Digest{pt.last}
	pt.tr("-- quiescent: %s", pt.last)
	pt.mu.Unlock()
	def := g.deferred
	g.deferred = nil
	for _, o := range def {
		pt.exec(o)
	}
}

// step runs one symbol of a gated program.
func (g *c07Gated) step(op c07Op) {
	pt := g.pt
	switch op.Kind {
	case "[":
		g.hold()
		return
	case "]":
		g.release()
		return
	}
	if !g.held {
		pt.exec(op)
		return
	}
	switch op.Kind {
	case "X", "L":
		if _, reports := g.unreturned(); reports > 0 {
			g.deferred = append(g.deferred, op)
			return
		}
		pt.exec(op) // no proposal involved
		return
	case "R", "S", "E":
	default:
		return // P / Q / G are not generated inside a block
	}
	pt.mu.Lock()
	d0 := c07Read(pt.p) // frozen while the gate is held
	pt.mu.Unlock()
	who, _ := c07Resolve(d0, op.Who)
	c := &c07GCall{op: op, who: who, done: make(chan struct{})}
	before, _ := g.unreturned()
	g.calls = append(g.calls, c)
	go func() {
		defer close(c.done)
		pt.exec(op)
	}()
	rn := g.env.srv.getRaft()
	if !c07Wait(20*time.Second, func() bool { return c.returned() || c07MutexWaiters(&rn.Mutex) > before }) {
		g.giveUp("a call issued behind the gate neither returned nor reached the proposal mutex")
		return
	}
	if op.Kind == "R" && c.returned() && who != "" {
		for _, q := range g.calls {
			if q.op.Kind == "S" && q.who == who && !q.returned() && (q.op.Pair == "" || q.op.Pair == "cur") && (op.Pair == "" || op.Pair == "cur") {
				g.nReReports++
				g.env.rep.Count("reports_returned_while_the_removal_of_the_reporter_was_parked", 1)
				break
			}
		}
	}
}

func (e *c07Env) runGated(cs c07Case) (c07Outcome, *c07Gated, error) {
	pt, err := e.newPart(cs.N, cs.Leader, cs.Label, cs.Prog)
	if err != nil {
		return c07Outcome{}, nil, err
	}
	pt.mu.Lock()
	pt.gated, pt.longCtx = true, true
	pt.mu.Unlock()
	g := &c07Gated{env: e, pt: pt}
	for _, op := range cs.Prog {
		g.step(op)
		pt.mu.Lock()
		f := pt.failed
		pt.mu.Unlock()
		if f {
			break
		}
	}
	g.release()
	e.dropPart(pt)
	pt.mu.Lock()
	defer pt.mu.Unlock()
	return c07Outcome{pt.nChanges, pt.nISRChanges, pt.nStaleRefused, pt.nReportsOK, pt.nExpiredArmed, pt.nUnarmed, pt.nLost, pt.nSkipped, false, pt.failed, pt.nPauses, pt.nReplaced, pt.nResumeInFlight, pt.nFailedElections, pt.nDeadCtx, pt.nLateAfterFailedElection}, g, nil
}

// c07GenBlock draws the calls issued while the gate is held.
func c07GenBlock(rng *kit.RNG) []c07Op {
	fol := func() string { return []string{"f0", "f1", "f2", "fl"}[rng.Intn(4)] }
	pair := func() string {
		if rng.Chance(5, 6) {
			return "cur"
		}
		return []string{"staleEpoch", "staleLeader", "prevPair"}[rng.Intn(3)]
	}
	ctx := func() string {
		switch x := rng.Intn(16); {
		case x == 0:
			return "dead"
		case x == 1:
			return "tight"
		}
		return ""
	}
	var out []c07Op
	var shrunk []string
	n := rng.Range(2, 5)
	for i := 0; i < n; i++ {
		switch x := rng.Intn(100); {
		case x < 30:
			w := fol()
			out = append(out, c07Op{Kind: "S", Who: w, Pair: pair(), Ctx: ctx()})
			shrunk = append(shrunk, w)
		case x < 66:
			w := fol()
			if len(shrunk) > 0 && rng.Chance(2, 3) {
				w = shrunk[rng.Intn(len(shrunk))] // the replica being removed reports again
			}
			out = append(out, c07Op{Kind: "R", Who: w, Pair: "cur", Ctx: ctx()})
		case x < 76:
			w := []string{"o0", "o1"}[rng.Intn(2)]
			if rng.Chance(1, 4) {
				w = fol()
			}
			out = append(out, c07Op{Kind: "E", Who: w, Pair: pair(), Ctx: ctx()})
		case x < 83:
			out = append(out, c07Op{Kind: "R", Who: []string{"o0", "L", "U"}[rng.Intn(3)], Pair: "cur"})
		case x < 90:
			out = append(out, c07Op{Kind: "R", Who: fol(), Pair: pair()})
		case x < 96:
			out = append(out, c07Op{Kind: "X"})
		default:
			out = append(out, c07Op{Kind: "L"})
		}
	}
	return out
}

func c07GenGated(rng *kit.RNG) []c07Op {
	seqPart := func(lo, hi int) []c07Op {
		k := rng.Range(lo, hi)
		p := c07GenProg(rng, 6, false)
		if len(p) > k {
			p = p[:k]
		}
		return p
	}
	var prog []c07Op
	prog = append(prog, seqPart(0, 3)...)
	if rng.Chance(1, 2) {
		prog = append(prog, c07Op{Kind: "R", Who: []string{"f0", "f1", "fl"}[rng.Intn(3)], Pair: "cur"})
	}
	blocks := 1
	if rng.Chance(1, 3) {
		blocks = 2
	}
	for b := 0; b < blocks; b++ {
		prog = append(prog, c07Op{Kind: "["})
		prog = append(prog, c07GenBlock(rng)...)
		prog = append(prog, c07Op{Kind: "]"})
		if rng.Chance(1, 4) {
			prog = append(prog, c07Op{Kind: "X"})
		}
		// what the followers left do next: mostly reports
		k := rng.Range(1, 4)
		for i := 0; i < k; i++ {
			if rng.Chance(3, 4) {
				prog = append(prog, c07Op{Kind: "R", Who: []string{"f0", "f1", "f2", "fl"}[rng.Intn(4)], Pair: "cur"})
			} else {
				prog = append(prog, seqPart(1, 1)...)
			}
		}
	}
	return prog
}

// TestVerifC07Gated: see the file comment.
func TestVerifC07Gated(t *testing.T) {
	rep := kit.NewReport("C07", "gated")
	defer rep.Write()
	rep.SetRule("programs in which the calls of a block [ ... ] are issued while the harness holds the controller's proposal mutex (= another proposal occupies the serialisation point): each call of the block in its own goroutine, the next one only after it returned or is parked on the mutex (waiter count read); the state is frozen, so the handlers run in program order; at ] the gate is released, all calls return, a barrier drains the FSM. Directed shapes on 3, 4 and 5 replicas (the replica whose ShrinkISR is parked reports again, once / twice / with an earlier report / for two replicas at once; ExpandISR parked while the replica reports; elections parked behind a shrink that may remove the candidate, behind another election, with an expired context; stale probes) plus seeded programs: 0..4 sequential calls, a block of 2..5 calls (ShrinkISR / ExpandISR / reports — two thirds of them from a replica whose removal is parked — current and stale pairs, expired contexts, X, L), then X now and then and 1..4 calls, mostly reports; one program in three has a second block. Oracle: I1-I6 on the applied order (log listener), shadow witness model fed by the calls; a change decided inside a block is judged like in the concurrent unit, after the block strictly against the in-sync followers as of the change (a report that returned before its reporter's removal was applied never counts afterwards). Non-trivial = at least one call was parked behind the gate and a leader / ISR change was committed or a stale request refused; distinct = (replicas, initial leader, program)")
	c07Assumptions(rep)
	rep.Assume("holding raftNode's proposal mutex from the harness is equivalent to a slow proposal at the head of the queue (applyOperation holds it across barrier, precondition and Apply); the order in which parked proposals run after the release is the mutex' own and is not assumed by the oracle")
	rep.Assume("X / L inside a block run only while no report call is parked; otherwise they run right after the release")
	if !c07MutexPeekWorks() {
		rep.Inconc("C07 gated: the waiter count of sync.Mutex cannot be read with this toolchain; parked calls cannot be sequenced")
		return
	}
	R := func(who string) c07Op { return c07Op{Kind: "R", Who: who} }
	S := func(who string) c07Op { return c07Op{Kind: "S", Who: who} }
	E := func(who string) c07Op { return c07Op{Kind: "E", Who: who} }
	D := func(o c07Op) c07Op { o.Ctx = "dead"; return o }
	O, C, X, L := c07Op{Kind: "["}, c07Op{Kind: "]"}, c07Op{Kind: "X"}, c07Op{Kind: "L"}
	directed := [][]c07Op{
		{R("f0"), O, S("f0"), R("f0"), C, R("f0")},
		{R("f0"), O, S("f0"), R("f0"), C, R("f0"), R("f1")},
		{O, S("f0"), R("f0"), C, R("f0")},
		{O, S("f0"), R("f0"), R("f0"), C, R("f0"), R("f1")},
		{R("f0"), O, S("f0"), C, R("f0")},
		{R("f0"), O, S("f0"), R("f0"), C, X, R("f0"), R("f1")},
		{R("f0"), O, S("f0"), R("f0"), C, L, R("f0"), R("f1")},
		{R("fl"), O, S("fl"), R("fl"), C, R("f0")},
		{R("f1"), O, S("f1"), R("f1"), C, R("f1")},
		{R("f0"), R("f1"), O, S("f0"), S("f1"), R("f0"), R("f1"), C, R("f0"), R("f1")},
		{O, S("f0"), S("f1"), R("f1"), R("f0"), C, R("f0"), R("f1")},
		{R("f0"), O, S("f0"), R("f0"), S("f1"), R("f1"), C, R("f0")},
		{R("f0"), O, D(S("f0")), R("f0"), C, R("f1"), R("f0")},
		{R("f0"), O, S("f0"), R("f0"), C, c07Op{Kind: "R", Who: "f0", Pair: "staleEpoch"}, R("f0")},
		{R("f0"), O, S("f0"), R("f0"), C, c07Op{Kind: "PQ"}, R("f0"), R("f1")},
		{S("fl"), O, E("o0"), R("o0"), C, R("f0"), R("f1")},
		{S("fl"), R("f0"), O, E("o0"), S("f0"), R("f0"), C, R("f0"), R("f1")},
		{O, S("fl"), R("f0"), R("f1"), C, X, R("f0")},
		{O, S("f0"), R("f1"), R("f2"), C, X, R("f0")},
		{O, R("f0"), R("f1"), R("f0"), R("f1"), C, X, R("f0")},
		{O, R("f0"), D(R("f1")), C, X, R("f0")},
		{R("f0"), O, R("f1"), S("f0"), S("f1"), C, R("f0")},
		{R("f0"), O, X, S("f0"), R("f0"), C, R("f0")},
		{R("f0"), R("f1"), O, S("f2"), R("f2"), C, R("f0")},
	}
	var cases []c07Case
	for _, n := range []int{3, 4, 5} {
		for k, p := range directed {
			cases = append(cases, c07Case{N: n, Leader: (k + n) % n, Prog: p})
		}
	}
	nd := len(cases)
	root := kit.NewRNG(kit.Mix(kit.Seed(), 0xC07E))
	ns := kit.Scale(500, 6000)
	for i := 0; i < ns; i++ {
		rng := root.Fork(uint64(i))
		cases = append(cases, c07Case{N: rng.Range(3, 5), Leader: rng.Intn(5), Prog: c07GenGated(rng)})
	}
	for i := range cases {
		cases[i].Label = fmt.Sprintf("gated#%d", i)
	}
	w := kit.EnvInt("C07_CONTROLLERS", 6)
	var wg sync.WaitGroup
	for k := 0; k < w; k++ {
		wg.Add(1)
		go func(k int) {
			defer wg.Done()
			env, err := c07NewEnv(rep, fmt.Sprintf("g%d", k), c07Hours, false)
			if err != nil {
				rep.Inconc("C07: controller did not start: " + err.Error())
				return
			}
			defer env.close()
			for i := k; i < len(cases); i += w {
				if rep.NumViolations() >= 12 {
					return
				}
				cs := cases[i]
				out, g, err := env.runGated(cs)
				if err != nil {
					rep.Inconc(fmt.Sprintf("C07 %s: stream could not be created: %v", cs.Label, err))
					continue
				}
				if g.abandon {
					continue
				}
				rep.Count("gate_blocks", int64(g.nBlocks))
				rep.Count("calls_parked_behind_the_gate", int64(g.nQueued))
				rep.Count("report_calls_parked_in_an_election", int64(g.nParkedReports))
				if g.nReReports > 0 {
					rep.Count("cases_with_report_while_the_reporters_removal_was_parked", 1)
					if out.changes > 0 {
						rep.Count("cases_with_report_while_the_reporters_removal_was_parked_and_leader_change", 1)
					}
				}
				sig := fmt.Sprintf("%d/%d|%s", cs.N, cs.Leader, c07ProgString(cs.Prog))
				if g.nQueued == 0 {
					// nothing was parked: the program equals a sequential one
					rep.Eval()
					rep.Count("cases_with_nothing_parked", 1)
					continue
				}
				out.account(rep, sig)
				if i < 2 || i == nd || i == nd+1 {
					rep.Sample(map[string]interface{}{"replicas": cs.N, "initial_leader": fmt.Sprintf("r%d", cs.Leader%cs.N+1), "program": c07ProgString(cs.Prog),
						"calls_parked": g.nQueued, "leader_changes": out.changes, "isr_changes": out.isrChanges})
				}
			}
		}(k)
	}
	wg.Wait()
}
