//go:build verif

package server

// C14 (b) natsToProtoMessage on the structure-aware corpus and (c) a single-node
// server in a child process that receives the corpus as raw NATS messages on a
// stream subject and on the internal subjects whose handlers decode envelopes.
// The oracle is the reference decoder kit.C14Classify (written from
// documentation/envelope_protocol.md).

import (
	"bufio"
	"bytes"
	"context"
	"encoding/hex"
	"encoding/json"
	"fmt"
	"os"
	"os/exec"
	"path/filepath"
	"regexp"
	"runtime"
	"sort"
	"strings"
	"sync"
	"testing"
	"time"

	pb "github.com/golang/protobuf/proto"
	client "github.com/liftbridge-io/liftbridge-api/v2/go"
	"github.com/nats-io/nats.go"

	kit "github.com/liftbridge-io/liftbridge/internal/verifkit"
	proto "github.com/liftbridge-io/liftbridge/server/protocol"
)

// Message type numbers from the table in documentation/envelope_protocol.md.
const (
	c14TPublish     = 0
	c14TAck         = 1
	c14TReplReq     = 2
	c14TJoinReq     = 4
	c14TJoinResp    = 5
	c14TOffsetReq   = 6
	c14TOffsetResp  = 7
	c14TPropReq     = 8
	c14TPropResp    = 9
	c14TInfoReq     = 10
	c14TInfoResp    = 11
	c14TStatusReq   = 12
	c14TStatusResp  = 13
	c14TNotify      = 14
	c14AckPrefix    = "c14.acks."
	c14StreamName   = "c14s"
	c14StreamSubj   = "c14.in"
	c14PausedStream = "c14p"
)

func c14New(t byte) pb.Message {
	switch t {
	case c14TPublish:
		return new(client.Message)
	case c14TAck:
		return new(client.Ack)
	case c14TReplReq:
		return new(proto.ReplicationRequest)
	case c14TJoinReq:
		return new(proto.RaftJoinRequest)
	case c14TJoinResp:
		return new(proto.RaftJoinResponse)
	case c14TOffsetReq:
		return new(proto.LeaderEpochOffsetRequest)
	case c14TOffsetResp:
		return new(proto.LeaderEpochOffsetResponse)
	case c14TPropReq:
		return new(proto.PropagatedRequest)
	case c14TPropResp:
		return new(proto.PropagatedResponse)
	case c14TInfoReq:
		return new(proto.ServerInfoRequest)
	case c14TInfoResp:
		return new(proto.ServerInfoResponse)
	case c14TStatusReq:
		return new(proto.PartitionStatusRequest)
	case c14TStatusResp:
		return new(proto.PartitionStatusResponse)
	case c14TNotify:
		return new(proto.PartitionNotification)
	}
	return nil
}

var c14SafeWord = regexp.MustCompile(`^[a-z0-9]+$`)

// c14SafeInbox: an ack inbox the harness owns.  A decoded publish makes the
// server send an ack to whatever subject the message names; that effect is not
// part of C14, so such inputs are only sent when the subject is ours.
func c14SafeInbox(s string) bool {
	return s == "" || (strings.HasPrefix(s, c14AckPrefix) && c14SafeWord.MatchString(s[len(c14AckPrefix):]))
}

// c14Bodies: well-formed payloads.  Publish messages name no ack inbox or one
// of the harness's own.
func c14Bodies() kit.C14Bodies {
	o := kit.C14FillOpts{MaxBlob: 2048, Extreme: 60}
	return func(t byte, r *kit.RNG) []byte {
		if t == 3 {
			return r.Bytes(16 + r.Intn(40))
		}
		m := c14New(t)
		kit.C14Fill(m, r, o)
		if cm, ok := m.(*client.Message); ok {
			cm.AckInbox = ""
			if r.Bool() {
				cm.AckInbox = fmt.Sprintf("%sx%d", c14AckPrefix, r.Intn(1000000))
			}
			cm.AckPolicy = client.AckPolicy([]int32{0, 1, 2, 7}[r.Intn(4)])
		}
		b, err := pb.Marshal(m)
		if err != nil {
			panic(fmt.Sprintf("c14: reference marshal of a generated value failed: %v", err))
		}
		if b == nil {
			b = []byte{}
		}
		return b
	}
}

// ---- hand-made protobuf wire format (independent of the protobuf library) for
// the corners of the Publish message itself: api.proto Message has offset=1,
// key=2, value=3, headers=9 (map entry: key=1, value=2), ackInbox=10,
// correlationId=11, ackPolicy=12.

func c14Varint(v uint64) []byte {
	var b []byte
	for v >= 0x80 {
		b = append(b, byte(v)|0x80)
		v >>= 7
	}
	return append(b, byte(v))
}

func c14LenField(field int, body []byte) []byte {
	out := c14Varint(uint64(field<<3 | 2))
	out = append(out, c14Varint(uint64(len(body)))...)
	return append(out, body...)
}

func c14VarField(field int, v uint64) []byte {
	return append(c14Varint(uint64(field<<3)), c14Varint(v)...)
}

func c14Join(parts ...[]byte) []byte {
	var out []byte
	for _, p := range parts {
		out = append(out, p...)
	}
	return out
}

type c14Corner struct {
	Name    string
	Payload []byte
}

// c14PublishCorners: well-formed Publish payloads that sit on the corners of
// the message schema and of the commit-log record format the value ends up in.
func c14PublishCorners(r *kit.RNG) (out []c14Corner) {
	entry := func(k, v []byte) []byte {
		var e []byte
		if k != nil {
			e = append(e, c14LenField(1, k)...)
		}
		if v != nil {
			e = append(e, c14LenField(2, v)...)
		}
		return c14LenField(9, e)
	}
	val := c14LenField(3, []byte("corner-value"))
	manyN := func(n int) []byte {
		var many []byte
		for i := 0; i < n; i++ {
			many = append(many, entry([]byte(fmt.Sprintf("h%05x", i)), []byte("v"))...)
		}
		return many
	}
	many := manyN(65537)
	// header counts around the limits of the record format's 16-bit count field
	// (the server adds "subject" and "reply", so the stored count is n+2):
	// 32765 still fits and must be stored decoded, the others are beyond it
	var counts []c14Corner
	for _, n := range []int{32765, 32766, 32767, 32768, 65533, 65534, 65535, 65536} {
		counts = append(counts, c14Corner{fmt.Sprintf("headers-%d", n), c14Join(val, manyN(n))})
	}
	defer func() { out = append(out[:11:11], append(counts, out[11:]...)...) }()
	return []c14Corner{
		{"header-entry-without-key", c14Join(val, entry(nil, []byte("x")))},
		{"header-entry-empty-value", c14Join(val, entry([]byte("k"), []byte{}))},
		{"header-duplicate-key", c14Join(val, entry([]byte("k"), []byte("a")), entry([]byte("k"), []byte("b")))},
		{"header-named-subject-and-reply", c14Join(val, entry([]byte("subject"), []byte("evil")), entry([]byte("reply"), []byte("evil")))},
		{"empty-key-and-value-present", c14Join(c14LenField(2, nil), c14LenField(3, nil))},
		{"no-fields", nil},
		{"unknown-fields", c14Join(c14VarField(15, 99), val, c14LenField(1000, r.Bytes(9)))},
		{"value-twice", c14Join(c14LenField(3, []byte("first")), c14LenField(3, []byte("second")))},
		{"all-fields", c14Join(c14VarField(1, 1<<62), c14LenField(2, []byte("key")), val, c14VarField(4, 123), c14LenField(5, []byte("strm")), c14VarField(6, 3),
			c14LenField(7, []byte("subj")), c14LenField(8, []byte("rep")), entry([]byte("h1"), []byte("v1")), c14LenField(10, []byte(c14AckPrefix+"corner")),
			c14LenField(11, []byte("corr")), c14VarField(12, 1))},
		{"negative-ack-policy-and-offset", c14Join(val, c14VarField(12, 1<<64-1), c14VarField(1, 1<<64-1))},
		{"headers-65537", c14Join(val, many)},
		{"value-512KiB", c14LenField(3, r.Bytes(512<<10))},
		// (a server that stores these two in a form it cannot read back makes the
		// rest of its log unverifiable, so they come after the other corners)
		{"header-entry-without-value", c14Join(val, entry([]byte("k"), nil))},
		{"header-entry-empty", c14Join(val, entry(nil, nil))},
		{"header-key-32767-bytes", c14Join(val, entry(bytes.Repeat([]byte("k"), 32767), []byte("v")))},
		{"header-key-40000-bytes", c14Join(val, entry(bytes.Repeat([]byte("k"), 40000), []byte("v")))},
		{"header-key-65541-bytes", c14Join(val, entry(bytes.Repeat([]byte("k"), 65541), []byte("v")))},
	}
}

// c14CornerItems wraps every corner payload in a plain and a CRC envelope.
func c14CornerInputs(r *kit.RNG) []kit.C14Input {
	var out []kit.C14Input
	for i, c := range c14PublishCorners(r) {
		out = append(out, kit.C14Input{Data: kit.C14Encode(c14TPublish, c.Payload, i%2 == 1), Tag: "publish-corner " + c.Name})
	}
	return out
}

// c14Ref is what the reference says about a byte string as a message of type t.
type c14Ref struct {
	Env   kit.C14Env
	May   bool       // the reference can decode it as type t (valid or unspecified)
	Must  bool       // ... and the documentation pins that it is accepted
	Want  pb.Message // decoded value when May
	Class string
	// Beyond: a decodable publish whose headers do not fit the 16-bit size
	// fields of the commit-log record format (key > 32767 bytes, > 32767
	// headers).  No document says what happens to it: stored decoded, stored
	// verbatim or refused are all accepted; a crash or a mangled record is not.
	Beyond bool
}

func c14Reference(data []byte, t byte) c14Ref {
	r := c14Ref{Env: kit.C14Classify(data)}
	r.Class = r.Env.Class
	if r.Env.Verdict == kit.C14Invalid || !r.Env.HasType {
		return r
	}
	if r.Env.Type != t {
		r.Class = "type-mismatch"
		return r
	}
	m := c14New(t)
	if m == nil {
		return r
	}
	if err := pb.Unmarshal(r.Env.Payload, m); err != nil {
		r.Class += "/bad-protobuf"
		return r
	}
	r.May, r.Must, r.Want = true, r.Env.Verdict == kit.C14Valid, m
	if cm, ok := m.(*client.Message); ok {
		// the server adds the "subject" and "reply" headers before storing
		r.Beyond = len(cm.Headers)+2 > 32767
		for k := range cm.Headers {
			if len(k) > 32767 {
				r.Beyond = true
			}
		}
		if r.Beyond {
			r.Must = false
		}
	}
	return r
}

// c14CrashClass names the class of an input for crash fingerprints and for the
// "do not send this class to later children" rule: for a decodable publish
// with an extreme shape it is that shape, otherwise the envelope class.
func c14CrashClass(kind string, data []byte) string {
	ref := c14Reference(data, c14KindType(kind))
	if kind == "stream" && ref.May {
		m := ref.Want.(*client.Message)
		if len(m.Headers)+2 > 32767 {
			return "publish-headers>32767"
		}
		for k, v := range m.Headers {
			if len(k) > 32767 {
				return "publish-header-key>32767B"
			}
			if v == nil {
				return "publish-header-without-value"
			}
		}
	}
	return ref.Env.Class
}

func c14Hex(b []byte) string {
	if len(b) > 400 {
		return hex.EncodeToString(b[:400]) + fmt.Sprintf("...(%d bytes)", len(b))
	}
	return hex.EncodeToString(b)
}

func c14PanicFrame() string {
	pcs := make([]uintptr, 64)
	n := runtime.Callers(3, pcs)
	frames := runtime.CallersFrames(pcs[:n])
	for {
		f, more := frames.Next()
		if strings.Contains(f.Function, "github.com/liftbridge-io/liftbridge/server") &&
			!strings.Contains(f.File, "zz_verif_") && !strings.Contains(f.File, "/harness/") {
			name := f.Function[strings.LastIndex(f.Function, "/")+1:]
			if i := strings.Index(name, "."); i >= 0 {
				name = name[i+1:]
			}
			return name
		}
		if !more {
			return "?"
		}
	}
}

func c14Safe(fn func()) (frame, text string, panicked bool) {
	defer func() {
		if p := recover(); p != nil {
			frame, text, panicked = c14PanicFrame(), fmt.Sprint(p), true
		}
	}()
	fn()
	return
}

// c14Stored is a stored message reduced to what the property talks about.
type c14Stored struct {
	Key, Value []byte
	Headers    map[string][]byte // without the "subject" / "reply" entries the server adds
}

func c14UserHeaders(h map[string][]byte) map[string][]byte {
	out := map[string][]byte{}
	for k, v := range h {
		if k == "subject" || k == "reply" {
			continue
		}
		out[k] = v
	}
	return out
}

func c14HeadersEqual(a, b map[string][]byte) bool {
	if len(a) != len(b) {
		return false
	}
	for k, v := range a {
		w, ok := b[k]
		if !ok || !bytes.Equal(v, w) {
			return false
		}
	}
	return true
}

// c14Judge decides whether what was stored for the raw bytes `data` is allowed:
// the decoded envelope's value, or the bytes verbatim.  Returns "" or a
// (kind, description).
func c14Judge(data []byte, ref c14Ref, got c14Stored) (kind, what string) {
	isRaw := len(got.Key) == 0 && bytes.Equal(got.Value, data) && len(got.Headers) == 0
	isDec := false
	if ref.May {
		w := ref.Want.(*client.Message)
		isDec = bytes.Equal(got.Key, w.Key) && bytes.Equal(got.Value, w.Value) && c14HeadersEqual(got.Headers, c14UserHeaders(w.Headers))
	}
	switch {
	case ref.Must && !isDec && isRaw:
		return "raw-for-valid", "a valid publish envelope was stored verbatim instead of as the message it encodes"
	case ref.Must && !isDec:
		return "stored-neither", fmt.Sprintf("a valid publish envelope was stored as key=%x value=%s headers=%d, which is neither the encoded message nor the raw bytes", got.Key, c14Hex(got.Value), len(got.Headers))
	case ref.Must:
		return "", ""
	case ref.May && (isDec || isRaw):
		return "", ""
	case !ref.May && isRaw:
		return "", ""
	case !ref.May && len(got.Key) == 0 && len(got.Headers) == 0:
		return "not-verbatim", fmt.Sprintf("bytes that are not a publish envelope were stored as value=%s instead of verbatim", c14Hex(got.Value))
	case !ref.May:
		return "decoded-invalid", fmt.Sprintf("bytes that are not a publish envelope were stored as a decoded message key=%x value=%s headers=%d", got.Key, c14Hex(got.Value), len(got.Headers))
	}
	return "stored-neither", fmt.Sprintf("stored key=%x value=%s headers=%d is neither the message the envelope may encode nor the raw bytes", got.Key, c14Hex(got.Value), len(got.Headers))
}

// ---------------------------------------------------------------- (b)

func TestVerifC14NatsToProto(t *testing.T) {
	rep := kit.NewReport("C14", "nats2proto")
	defer rep.Write()
	rep.SetRule("natsToProtoMessage (the publish path's converter) is called on the structure-aware grid for message types {Publish, Ack, PropagatedRequest} (every header-length byte, flag byte, type byte, truncation, payload length 0..40, CRC right/wrong, magic/version variants) plus seeded random / mutated envelopes; the commit-log message it returns must be the decoded envelope's key/value/headers (when the reference says valid publish envelope), the bytes verbatim (when the reference says not an envelope), either (corners the document leaves open); a panic is a violation; non-trivial = passes the magic gate; distinct = (class, version, header length, flags, type, length)")
	rep.Assume("the 'subject' and 'reply' headers the server adds are not part of the comparison")
	bodies := c14Bodies()
	grid := kit.C14Grid(kit.NewRNG(kit.Mix(kit.Seed(), 0xC14D)), bodies, []byte{c14TPublish, c14TAck, c14TPropReq}, kit.Scale(0, 1))
	grid = append(grid, c14CornerInputs(kit.NewRNG(kit.Mix(kit.Seed(), 0xC14D1)))...)
	nseeded := kit.Scale(150000, 1500000)
	total := len(grid) + nseeded
	rep.SetInfo("grid_inputs", len(grid))
	rep.SetInfo("seeded_inputs", nseeded)
	var mu sync.Mutex
	sigs := map[string]struct{}{}
	kit.Parallel(kit.Workers(), kit.Workers(), func(w int) {
		local := map[string]struct{}{}
		counts := map[string]int64{}
		for i := w; i < total; i += kit.Workers() {
			if rep.NumViolations() >= 6 {
				break
			}
			var in kit.C14Input
			if i < len(grid) {
				in = grid[i]
			} else {
				in = kit.C14Seeded(kit.NewRNG(kit.Mix(kit.Mix(kit.Seed(), 0xC14E), uint64(i))), bodies, []byte{c14TPublish, c14TPublish, c14TAck})
			}
			data := in.Data
			keep := append([]byte(nil), data...)
			ref := c14Reference(data, c14TPublish)
			rep.Eval()
			counts["class_"+ref.Env.Class]++
			if ref.Env.Class != "magic" && ref.Env.Class != "short" {
				local[kit.C14Sig(data, ref.Env)] = struct{}{}
			}
			msg := &nats.Msg{Subject: c14StreamSubj, Data: data}
			if i%3 == 0 {
				msg.Reply = "c14.reply"
			}
			replay := map[string]any{"input_hex": c14Hex(keep), "input_len": len(keep), "made_by": in.Tag, "corpus_index": i,
				"reference": ref.Env.VerdictName() + "/" + ref.Class}
			var out c14Stored
			frame, text, panicked := c14Safe(func() {
				m := natsToProtoMessage(msg, 7)
				out = c14Stored{Key: m.Key, Value: m.Value, Headers: c14UserHeaders(m.Headers)}
			})
			if panicked {
				replay["panic"] = text
				rep.Violation("C14:"+frame+":"+ref.Class, fmt.Sprintf("natsToProtoMessage panicked (%s) on a %d-byte NATS payload of class %s", text, len(keep), ref.Class), replay)
				continue
			}
			if kind, what := c14Judge(keep, ref, out); kind != "" {
				rep.Violation("C14:nats2proto:"+kind+":"+ref.Class, what, replay)
				continue
			}
			switch {
			case ref.Must:
				counts["stored_decoded_as_required"]++
			case ref.May && bytes.Equal(out.Value, keep):
				counts["unspecified_stored_verbatim"]++
			case ref.May:
				counts["unspecified_stored_decoded"]++
			default:
				counts["stored_verbatim_as_required"]++
			}
			if i%9973 == 11 {
				rep.Sample(map[string]any{"input_hex": c14Hex(keep), "made_by": in.Tag, "reference": ref.Env.VerdictName() + "/" + ref.Class, "stored_value_len": len(out.Value)})
			}
		}
		mu.Lock()
		for s := range local {
			sigs[s] = struct{}{}
		}
		mu.Unlock()
		for k, v := range counts {
			rep.Count(k, v)
		}
	})
	for s := range sigs {
		rep.Nontrivial(s)
	}
}

// ---------------------------------------------------------------- (c) schedule

// Subject kinds.  For each: the message type its handler decodes and whether
// inputs that the reference can decode may be sent (see c14SafeToSend).
var c14Kinds = []struct {
	Name string
	Type byte
}{
	{"stream", c14TPublish},
	{"info", c14TInfoReq},
	{"status", c14TStatusReq},
	{"notify", c14TNotify},
	{"offset", c14TOffsetReq},
	{"replicate", c14TReplReq},
	{"propagate", c14TPropReq},
	{"join", c14TJoinReq},
}

func c14KindType(kind string) byte {
	for _, k := range c14Kinds {
		if k.Name == kind {
			return k.Type
		}
	}
	return 255
}

type c14Item struct {
	Kind  string
	Data  []byte
	Tag   string
	Reply bool
}

// c14SafeToSend filters inputs whose *decoded meaning* would make the server do
// things that are outside C14 (and, for the metadata subjects, would change the
// Raft group itself): a decodable publish naming a foreign ack inbox; anything
// the reference can decode as a PropagatedRequest or RaftJoinRequest (those
// would be executed: stream creation / deletion, adding a voter); a decodable
// ReplicationRequest claiming to come from the server itself; a notification
// for the harness's fence partition.
func c14SafeToSend(kind string, data []byte) (ok bool, ref c14Ref) {
	ref = c14Reference(data, c14KindType(kind))
	if !ref.May {
		return true, ref
	}
	switch kind {
	case "stream":
		return c14SafeInbox(ref.Want.(*client.Message).AckInbox), ref
	case "propagate", "join":
		return false, ref
	case "replicate":
		return ref.Want.(*proto.ReplicationRequest).ReplicaID != "a", ref
	case "notify":
		return ref.Want.(*proto.PartitionNotification).Stream != c14PausedStream, ref
	}
	return true, ref
}

// c14Schedule is the list of raw NATS messages of one chunk; a pure function of
// (seed, chunk, tier).
func c14Schedule(seed uint64, chunk int, level int) []c14Item {
	r := kit.NewRNG(kit.Mix(kit.Mix(seed, 0xC14F), uint64(chunk)))
	bodies := c14Bodies()
	var items []c14Item
	nStreamGrid, nStreamSeeded, nIntGrid, nIntSeeded := 2600, 1500, 150, 100
	for _, k := range c14Kinds {
		// the grid depends on the seed only, so that chunks walk through it
		grid := kit.C14Grid(kit.NewRNG(kit.Mix(seed, 0xC140+uint64(k.Type))), bodies, []byte{k.Type}, 0)
		ng, ns := nIntGrid, nIntSeeded
		if k.Name == "stream" {
			ng, ns = nStreamGrid, nStreamSeeded
		}
		stride := (len(grid) + ng - 1) / ng
		for i := chunk % stride; i < len(grid); i += stride {
			items = append(items, c14Item{Kind: k.Name, Data: grid[i].Data, Tag: grid[i].Tag})
		}
		for i := 0; i < ns; i++ {
			in := kit.C14Seeded(r, bodies, []byte{k.Type, k.Type, k.Type, c14TPublish})
			items = append(items, c14Item{Kind: k.Name, Data: in.Data, Tag: in.Tag})
		}
	}
	for i := len(items) - 1; i > 0; i-- {
		j := r.Intn(i + 1)
		items[i], items[j] = items[j], items[i]
	}
	for i := range items {
		items[i].Reply = r.Chance(1, 4)
	}
	// The corners of the Publish message itself go last: if one of them is
	// stored in a form that cannot be read back, everything before it still is.
	// Except the oversized header keys: a server that dies on receiving them
	// takes the (not yet verified) log of its child with it, so they go first.
	var first []c14Item
	for _, in := range c14CornerInputs(r) {
		it := c14Item{Kind: "stream", Data: in.Data, Tag: in.Tag}
		if strings.Contains(in.Tag, "header-key-") {
			first = append(first, it)
		} else {
			items = append(items, it)
		}
	}
	return append(first, items...)
}

// ---------------------------------------------------------------- (c) child

type c14RawSpec struct {
	Seed    uint64   `json:"seed"`
	Chunk   int      `json:"chunk"`
	Level   int      `json:"level"`
	From    int      `json:"from"`
	Skip    []string `json:"skip"` // reference classes not sent (they crashed a previous child)
	Log     string   `json:"log"`
	Out     string   `json:"out"`
	WorkDir string   `json:"workdir"`
}

type c14RawViol struct {
	FP     string         `json:"fp"`
	What   string         `json:"what"`
	Replay map[string]any `json:"replay"`
}

type c14RawResult struct {
	Done    bool             `json:"done"`
	Counts  map[string]int64 `json:"counts"`
	Sigs    []string         `json:"sigs"`
	Viols   []c14RawViol     `json:"viols"`
	Inconc  []string         `json:"inconc"`
	Samples []map[string]any `json:"samples"`
}

type c14Expect struct {
	Index    int
	Data     []byte
	Ref      c14Ref
	Tag      string
	Fence    bool
	FenceVal string
	// Optional: may be absent from the log (a fence that was never acked; a
	// publish whose headers exceed the size fields of the commit-log record).
	Optional bool
}

const c14Watchdog = 20 * time.Second

func TestVerifC14RawNATSChild(t *testing.T) {
	sp := os.Getenv("C14_RAW_SPEC")
	if sp == "" {
		t.Skip("child of TestVerifC14RawNATS")
	}
	var spec c14RawSpec
	raw, err := os.ReadFile(sp)
	if err != nil {
		t.Fatal(err)
	}
	if err := json.Unmarshal(raw, &spec); err != nil {
		t.Fatal(err)
	}
	os.Setenv("VERIF_WORK", spec.WorkDir)
	res := &c14RawResult{Counts: map[string]int64{}}
	sigs := map[string]struct{}{}
	write := func() {
		for s := range sigs {
			res.Sigs = append(res.Sigs, s)
		}
		out, _ := json.Marshal(res)
		os.WriteFile(spec.Out+".tmp", out, 0644)
		os.Rename(spec.Out+".tmp", spec.Out)
	}
	viol := func(fp, what string, replay map[string]any) {
		for _, v := range res.Viols {
			if v.FP == fp {
				res.Counts["violating_items"]++
				return
			}
		}
		res.Viols = append(res.Viols, c14RawViol{fp, what, replay})
	}
	inconc := func(s string) { res.Inconc = append(res.Inconc, s) }

	logw, err := os.OpenFile(spec.Log, os.O_CREATE|os.O_WRONLY|os.O_APPEND, 0644)
	if err != nil {
		t.Fatal(err)
	}
	defer logw.Close()
	fmt.Fprintf(logw, "# phase start\n")

	c, s, err := vfSingle("c14", nil)
	if err != nil {
		inconc("server did not start: " + err.Error())
		res.Done = true
		write()
		return
	}
	defer c.Cleanup()
	if err := c.CreateStream(&client.CreateStreamRequest{Subject: c14StreamSubj, Name: c14StreamName, ReplicationFactor: 1}); err != nil {
		inconc("create stream: " + err.Error())
		res.Done = true
		write()
		return
	}
	if _, err := c.PartitionLeader(c14StreamName, 0, c14Watchdog); err != nil {
		inconc(err.Error())
		res.Done = true
		write()
		return
	}
	// A paused partition: a notification for it leaves a token in its notify
	// channel, which is the completion fence of the notification subject.
	if err := c.CreateStream(&client.CreateStreamRequest{Subject: "c14.paused", Name: c14PausedStream, ReplicationFactor: 1}); err != nil {
		inconc("create fence stream: " + err.Error())
		res.Done = true
		write()
		return
	}
	{
		ctx, cancel := context.WithTimeout(context.Background(), c14Watchdog)
		_, err := s.api.PauseStream(ctx, &client.PauseStreamRequest{Name: c14PausedStream})
		cancel()
		if err != nil {
			inconc("pause fence stream: " + err.Error())
			res.Done = true
			write()
			return
		}
	}
	pp := s.metadata.GetPartition(c14PausedStream, 0)
	p := s.metadata.GetPartition(c14StreamName, 0)
	if pp == nil || p == nil || !vfWait(c14Watchdog, func() bool { return !pp.IsLeader() && p.IsLeader() }) {
		inconc("fence partition did not pause / stream partition not leading")
		res.Done = true
		write()
		return
	}
	p.mu.RLock()
	replSub := p.leaderReplSub
	p.mu.RUnlock()

	subjects := map[string]string{
		"stream":    c14StreamSubj,
		"info":      s.getServerInfoInbox(),
		"status":    s.getPartitionStatusInbox(s.config.Clustering.ServerID),
		"notify":    s.getPartitionNotificationInbox(s.config.Clustering.ServerID),
		"offset":    p.getLeaderOffsetRequestInbox(),
		"replicate": p.getReplicationRequestInbox(),
		"propagate": s.getPropagateInbox(),
		"join":      fmt.Sprintf("%s.join", s.baseMetadataRaftSubject()),
	}
	nc := c.NC
	acks := make(chan *nats.Msg, 65536)
	if _, err := nc.ChanSubscribe(c14AckPrefix+">", acks); err != nil {
		t.Fatal(err)
	}
	nc.Flush()

	mustMarshal := func(m pb.Message) []byte {
		b, err := pb.Marshal(m)
		if err != nil {
			panic(err)
		}
		return b
	}
	// request → reply fence; the reply must be an envelope of the response type.
	reqFence := func(kind string, reqType byte, req pb.Message, respType byte) error {
		m, err := nc.Request(subjects[kind], kit.C14Encode(reqType, mustMarshal(req), false), c14Watchdog)
		if err != nil {
			return err
		}
		r := c14Reference(m.Data, respType)
		if !r.May {
			res.Counts["fence_reply_not_decodable_"+kind]++
		}
		return nil
	}
	var expect []c14Expect
	replSent := int64(0)
	fenceNo := 0
	fence := func(kind string, idx int) error {
		fenceNo++
		fmt.Fprintf(logw, "%d F %s\n", idx, kind)
		switch kind {
		case "stream":
			// An acked publish after the raw message.  If the server drops the
			// batch the fence travelled in, the fence is sent again; any ack for
			// a fence sent after the raw message proves that message was handled.
			sentAt := map[string]int{}
			start := time.Now()
			for attempt := 0; ; attempt++ {
				fenceNo++
				corr := fmt.Sprintf("f%d", fenceNo)
				f := &client.Message{Value: []byte("c14-fence-" + corr), AckInbox: c14AckPrefix + corr, CorrelationId: corr, AckPolicy: client.AckPolicy_LEADER}
				if err := nc.Publish(c14StreamSubj, kit.C14Encode(c14TPublish, mustMarshal(f), fenceNo%2 == 0)); err != nil {
					return err
				}
				sentAt[corr] = len(expect)
				expect = append(expect, c14Expect{Index: idx, Fence: true, FenceVal: "c14-fence-" + corr, Optional: true})
				if attempt > 0 {
					res.Counts["stream_fence_resent"]++
				}
				retry := time.After(1500 * time.Millisecond)
			wait:
				for {
					select {
					case m := <-acks:
						res.Counts["acks_received"]++
						r := c14Reference(m.Data, c14TAck)
						if !r.May {
							continue
						}
						if at, ok := sentAt[r.Want.(*client.Ack).CorrelationId]; ok {
							expect[at].Optional = false
							return nil
						}
					case <-retry:
						break wait
					}
				}
				if time.Since(start) > c14Watchdog {
					return errVfTimeout
				}
			}
		case "info":
			return reqFence(kind, c14TInfoReq, &proto.ServerInfoRequest{Id: "c14-harness"}, c14TInfoResp)
		case "status":
			return reqFence(kind, c14TStatusReq, &proto.PartitionStatusRequest{Stream: c14StreamName, Partition: 0}, c14TStatusResp)
		case "offset":
			return reqFence(kind, c14TOffsetReq, &proto.LeaderEpochOffsetRequest{LeaderEpoch: 0}, c14TOffsetResp)
		case "propagate":
			return reqFence(kind, c14TPropReq, &proto.PropagatedRequest{Op: proto.Op_PAUSE_STREAM,
				PauseStreamOp: &proto.PauseStreamOp{Stream: "c14-no-such-stream", Partitions: []int32{0}}}, c14TPropResp)
		case "join":
			return reqFence(kind, c14TJoinReq, &proto.RaftJoinRequest{NodeID: s.config.Clustering.ServerID}, c14TJoinResp)
		case "replicate":
			// no reply on this subject: a second (rejected) message being taken
			// off the subscription means the handler of the first has returned
			if err := nc.Publish(subjects[kind], []byte("c14-fence")); err != nil {
				return err
			}
			replSent++
			want := replSent
			if !vfWait(c14Watchdog, func() bool { d, _ := replSub.Delivered(); return d >= want }) {
				return errVfTimeout
			}
			return nil
		case "notify":
			if err := nc.Publish(subjects[kind], kit.C14Encode(c14TNotify, mustMarshal(&proto.PartitionNotification{Stream: c14PausedStream, Partition: 0}), false)); err != nil {
				return err
			}
			select {
			case <-pp.notify:
				return nil
			case <-time.After(c14Watchdog):
				return errVfTimeout
			}
		}
		return fmt.Errorf("unknown kind %s", kind)
	}

	items := c14Schedule(spec.Seed, spec.Chunk, spec.Level)
	skip := map[string]bool{}
	for _, k := range spec.Skip {
		skip[k] = true
	}
	aborted := false
	fmt.Fprintf(logw, "# phase spray\n")
	for i := spec.From; i < len(items) && !aborted; i++ {
		it := items[i]
		ok, ref := c14SafeToSend(it.Kind, it.Data)
		if !ok {
			res.Counts["not_sent_decoded_meaning_out_of_scope_"+it.Kind]++
			continue
		}
		if skip[c14CrashClass(it.Kind, it.Data)] {
			res.Counts["not_sent_class_crashed_earlier_child"]++
			continue
		}
		fmt.Fprintf(logw, "%d X %s %s\n", i, it.Kind, hex.EncodeToString(it.Data))
		reply := ""
		if it.Reply {
			reply = fmt.Sprintf("c14.reply.%d", i)
		}
		var perr error
		if reply != "" {
			perr = nc.PublishRequest(subjects[it.Kind], reply, it.Data)
		} else {
			perr = nc.Publish(subjects[it.Kind], it.Data)
		}
		if perr != nil {
			inconc(fmt.Sprintf("publish of item %d failed: %v", i, perr))
			aborted = true
			break
		}
		if it.Kind == "replicate" {
			replSent++
		}
		res.Counts["sent_"+it.Kind]++
		res.Counts["sent_class_"+ref.Env.Class]++
		if ref.May {
			res.Counts["sent_decodable_"+it.Kind]++
		}
		if ref.Env.Class != "magic" && ref.Env.Class != "short" {
			sigs[it.Kind+"|"+kit.C14Sig(it.Data, ref.Env)] = struct{}{}
		}
		if it.Kind == "stream" {
			expect = append(expect, c14Expect{Index: i, Data: it.Data, Ref: ref, Tag: it.Tag, Optional: ref.Beyond})
		}
		if len(res.Samples) < 4 && i%211 == 3 {
			res.Samples = append(res.Samples, map[string]any{"subject": subjects[it.Kind], "payload_hex": c14Hex(it.Data), "made_by": it.Tag,
				"reference": ref.Env.VerdictName() + "/" + ref.Class})
		}
		if err := fence(it.Kind, i); err != nil {
			inconc(fmt.Sprintf("watchdog: fence after item %d on %s did not complete: %v", i, it.Kind, err))
			aborted = true
			break
		}
		res.Counts["fences_completed"]++
	}

	// ---- afterwards: the server still acks a publish ...
	fmt.Fprintf(logw, "# phase probe\n")
	probeOffset := int64(-1)
	if !aborted {
		ctx, cancel := context.WithTimeout(context.Background(), c14Watchdog)
		resp, err := s.api.Publish(ctx, &client.PublishRequest{Stream: c14StreamName, Value: []byte("c14-probe"), AckPolicy: client.AckPolicy_LEADER})
		cancel()
		switch {
		case err != nil && ctx.Err() != nil:
			inconc("watchdog: probe publish not acked: " + err.Error())
			aborted = true
		case err != nil:
			viol("C14:probe-publish-refused", "after the raw messages the server refused a regular publish: "+err.Error(), nil)
			aborted = true
		case resp.Ack == nil:
			viol("C14:probe-publish-refused", "after the raw messages a regular publish (ack policy LEADER) returned no ack", nil)
			aborted = true
		default:
			probeOffset = resp.Ack.Offset
			res.Counts["probe_acked"]++
			expect = append(expect, c14Expect{Index: -1, Fence: true, FenceVal: "c14-probe"})
		}
	}
	// ---- ... its log holds, in order of arrival, one message per raw NATS
	// message: the decoded envelope or the bytes verbatim ...
	fmt.Fprintf(logw, "# phase verify\n")
	if !aborted {
		type rec struct {
			c14Stored
			Offset  int64
			Subject string
		}
		// align walks the stored records and the expectations in step; an
		// optional expectation that does not match the record is skipped.
		isFenceRec := func(v []byte) bool { return bytes.HasPrefix(v, []byte("c14-fence-")) || string(v) == "c14-probe" }
		align := func(where string, recs []rec, complete bool) (next int, synced bool) {
			j := 0
			defer func() { next = j }()
			for i, rc := range recs {
				if rc.Offset != int64(i) {
					viol("C14:stored-order", fmt.Sprintf("%s: record %d has offset %d", where, i, rc.Offset), nil)
					return
				}
				for {
					if j >= len(expect) {
						viol("C14:stored-count", fmt.Sprintf("%s: record %d (value %s) corresponds to no message that was sent", where, i, c14Hex(rc.Value)), nil)
						return
					}
					e := expect[j]
					j++
					kind, what := "", ""
					if e.Fence {
						if string(rc.Value) != e.FenceVal {
							kind, what = "order", fmt.Sprintf("record %d should be %q, value is %s", i, e.FenceVal, c14Hex(rc.Value))
						}
					} else {
						kind, what = c14Judge(e.Data, e.Ref, rc.c14Stored)
					}
					if kind == "" {
						if e.Fence {
							break
						}
						res.Counts["stored_compared_"+where]++
						if rc.Subject != c14StreamSubj {
							viol("C14:stored-subject", fmt.Sprintf("%s: record %d carries subject %q", where, i, rc.Subject), nil)
						}
						if where == "log" {
							switch {
							case e.Ref.Must:
								res.Counts["stored_decoded_as_required"]++
							case e.Ref.May && bytes.Equal(rc.Value, e.Data):
								res.Counts["unspecified_stored_verbatim"]++
							case e.Ref.May:
								res.Counts["unspecified_stored_decoded"]++
							default:
								res.Counts["stored_verbatim_as_required"]++
							}
						}
						break
					}
					// An optional expectation is absent when the record at hand is
					// (for an optional fence) anything else, (for an optional raw
					// message) one of the harness's fences.
					if e.Optional && (e.Fence || isFenceRec(rc.Value)) {
						if where == "log" {
							if e.Fence {
								res.Counts["unacked_fence_not_stored"]++
							} else {
								res.Counts["beyond_format_publish_not_stored"]++
							}
						}
						continue
					}
					if e.Fence {
						viol("C14:stored-order", where+": "+what, nil)
						return
					}
					// The record belongs to this raw message and is wrong; go on
					// with the next record.
					viol("C14:stored:"+kind+":"+c14CrashClass("stream", e.Data), where+": "+what, map[string]any{"item": e.Index, "payload_hex": c14Hex(e.Data), "payload_len": len(e.Data),
						"made_by": e.Tag, "reference": e.Ref.Env.VerdictName() + "/" + e.Ref.Class, "log_offset": i})
					break
				}
			}
			synced = true
			if !complete {
				return
			}
			for ; j < len(expect); j++ {
				if e := expect[j]; !e.Optional {
					what := "fence " + e.FenceVal
					if !e.Fence {
						what = fmt.Sprintf("raw message %d (%s, %d bytes, reference %s/%s)", e.Index, e.Tag, len(e.Data), e.Ref.Env.VerdictName(), e.Ref.Class)
					}
					viol("C14:stored-count", fmt.Sprintf("%s: %d records; nothing was stored for %s", where, len(recs), what), nil)
					return
				}
			}
			return
		}
		lrecs, err := vfReadLog(p.log, 0, true)
		var recs []rec
		for _, rc := range lrecs {
			recs = append(recs, rec{c14Stored{Key: rc.Key, Value: rc.Value, Headers: c14UserHeaders(rc.Headers)}, rc.Offset, string(rc.Headers["subject"])})
		}
		unreadable := false
		switch {
		case err != nil && strings.Contains(err.Error(), "panic"):
			// The server's own record accessors panicked on record len(recs): the
			// message stored there cannot be read back.  Find which input it is:
			// the first non-optional expectation after the ones already matched.
			unreadable = true
			j, synced := align("log", recs, false)
			var cand *c14Expect
			for ; synced && j < len(expect); j++ {
				if !expect[j].Fence {
					cand = &expect[j]
					break
				}
			}
			if cand != nil {
				viol("C14:stored-unreadable:"+c14CrashClass("stream", cand.Data), fmt.Sprintf("the message the server stored for a raw NATS payload (item %d, %s, reference %s/%s) cannot be read back from the partition log: %v — every reader of that offset (subscriptions included) hits the same panic",
					cand.Index, cand.Tag, cand.Ref.Env.VerdictName(), cand.Ref.Class, err),
					map[string]any{"item": cand.Index, "payload_hex": c14Hex(cand.Data), "payload_len": len(cand.Data), "made_by": cand.Tag, "log_offset": len(recs), "read_error": err.Error()})
			} else {
				viol("C14:stored-unreadable:?", "a stored record cannot be read back from the partition log: "+err.Error(), map[string]any{"log_offset": len(recs)})
			}
			res.Counts["log_records_not_verifiable_after_unreadable_record"]++
		case err != nil:
			viol("C14:log-unreadable", "reading the partition log after the raw messages failed: "+err.Error(), nil)
		default:
			align("log", recs, true)
			if probeOffset != int64(len(recs)-1) {
				viol("C14:probe-offset", fmt.Sprintf("the probe publish was acked at offset %d but the log ends at offset %d", probeOffset, len(recs)-1), nil)
			}
		}
		res.Counts["log_records_checked"] += int64(len(recs))
		// Everything found so far is on disk before the subscription is tried: a
		// record that cannot be read back kills the process there.
		res.Done = true
		write()
		res.Sigs = nil
		fmt.Fprintf(logw, "# phase subscribe\n")
		// ---- ... and it serves a subscription with the same content.
		want := len(recs)
		if unreadable {
			want++
		}
		ctx, cancel := context.WithCancel(context.Background())
		sub, serr := s.api.SubscribeInternal(ctx, &client.SubscribeRequest{Stream: c14StreamName, Partition: 0, StartPosition: client.StartPosition_EARLIEST})
		if serr != nil {
			viol("C14:subscribe-refused", "after the raw messages the server refused a subscription: "+serr.Error(), nil)
		} else {
			var srecs []rec
			timer := time.NewTimer(c14Watchdog)
		loop:
			for len(srecs) < want {
				select {
				case m := <-sub.Messages():
					srecs = append(srecs, rec{c14Stored{Key: m.Key, Value: m.Value, Headers: c14UserHeaders(m.Headers)}, m.Offset, m.Subject})
					timer.Reset(c14Watchdog)
				case st := <-sub.Errors():
					viol("C14:subscription-error", fmt.Sprintf("subscription failed after %d messages: %v", len(srecs), st.Err()), nil)
					break loop
				case <-timer.C:
					inconc(fmt.Sprintf("watchdog: subscription delivered %d of %d messages", len(srecs), want))
					break loop
				}
			}
			timer.Stop()
			align("subscription", srecs, len(srecs) == len(recs) && !unreadable)
			res.Counts["subscription_messages_checked"] += int64(len(srecs))
			sub.Close()
		}
		cancel()
	}
	fmt.Fprintf(logw, "# phase done\n")
	res.Done = true
	write()
}

// ---------------------------------------------------------------- (c) parent

var c14CrashFrameRe = regexp.MustCompile(`(?m)^(github\.com/liftbridge-io/liftbridge/server[^\n]*)\([^\n]*\)\n\t(\S+):\d+`)

func c14CrashInfo(out string) (line, frame string) {
	frame = "?"
	i := strings.Index(out, "panic: ")
	if j := strings.Index(out, "fatal error: "); j >= 0 && (i < 0 || j < i) {
		i = j
	}
	if i < 0 {
		return "no panic / fatal error line in the child's output", frame
	}
	tail := out[i:]
	line = strings.SplitN(tail, "\n", 2)[0]
	for _, m := range c14CrashFrameRe.FindAllStringSubmatch(tail, -1) {
		if strings.Contains(m[2], "zz_verif_") {
			continue
		}
		name := m[1][strings.LastIndex(m[1], "/")+1:]
		if k := strings.Index(name, "."); k >= 0 {
			name = name[k+1:]
		}
		return line, name
	}
	return line, frame
}

// c14LastLogged: the last item / fence / phase a child logged.
func c14LastLogged(path string) (idx int, what, kind, hexdata, phase string) {
	idx = -1
	f, err := os.Open(path)
	if err != nil {
		return
	}
	defer f.Close()
	sc := bufio.NewScanner(f)
	sc.Buffer(make([]byte, 1<<20), 1<<26)
	for sc.Scan() {
		ln := sc.Text()
		if strings.HasPrefix(ln, "# phase ") {
			phase = strings.TrimPrefix(ln, "# phase ")
			continue
		}
		// "<i> X <kind> <hex>" = raw message i is about to be sent; "<i> F <kind>"
		// = its completion fence (a well-formed message) is about to be sent.  A
		// death while the fence is in flight is still attributed to message i:
		// the fence only waits for the handler of i to return.
		fs := strings.Fields(ln)
		if len(fs) >= 4 && fs[1] == "X" {
			fmt.Sscanf(fs[0], "%d", &idx)
			what, kind, hexdata = "X", fs[2], fs[3]
		} else if len(fs) == 3 && fs[1] == "X" {
			fmt.Sscanf(fs[0], "%d", &idx)
			what, kind, hexdata = "X", fs[2], ""
		} else if len(fs) >= 3 && fs[1] == "F" {
			what = "X+fence-in-flight"
		}
	}
	return
}

func TestVerifC14RawNATS(t *testing.T) {
	rep := kit.NewReport("C14", "rawnats")
	defer rep.Write()
	rep.SetRule("a single-node server (own nats-server, race build) in a child process receives raw NATS messages from one connection: per chunk ~4100 on a stream subject and ~250 on each internal subject whose handler decodes an envelope (server info, partition status, partition notification, leader-epoch-offset, replication request, propagate, Raft join); payloads = slices of the structure-aware grid for that subject's message type + seeded random / mutated envelopes; every message is logged before it is sent and followed by a completion fence on the same subject (acked publish, request/reply, delivered-counter, notify token). A dead child = violation naming the logged input. Afterwards: probe publish must be acked at the expected offset, the partition log must hold exactly one record per stream-subject message, each = the decoded envelope's key/value/headers (reference: valid publish envelope) or the bytes verbatim (reference: not an envelope), and a subscription from EARLIEST must deliver the same. evaluations = raw messages sent; non-trivial = passes the magic gate; distinct = (subject kind, class, version, header length, flags, type, length)")
	rep.Assume("inputs whose *decoded meaning* is outside C14 are not sent: decodable publishes that name a foreign ack inbox (the server would publish to it), anything the reference can decode as PropagatedRequest / RaftJoinRequest (would be executed against the Raft group), a ReplicationRequest claiming to be the server itself, notifications for the fence partition; Raft transport and bootstrap subjects are not sprayed (they do not decode envelopes, and bootstrap.reply exits the process by design)")
	rep.Assume("corners the envelope document does not pin (header length < 8, undefined flag bits, CRC flag with a header > 12 bytes): stored decoded or verbatim are both accepted")
	rep.Assume("after a child died, later children do not send inputs of the same reference class again (counted as not_sent_class_crashed_earlier_child)")

	work := os.Getenv("VERIF_WORK")
	if work == "" {
		work = t.TempDir()
	}
	chunks := kit.Scale(1, 20)
	chunks = kit.EnvInt("C14_CHUNKS", chunks)
	var mu sync.Mutex
	sigs := map[string]struct{}{}
	evals := int64(0)
	kit.Parallel(chunks, kit.Scale(1, 4), func(chunk int) {
		items := c14Schedule(kit.Seed(), chunk, kit.Scale(0, 1))
		from := 0
		var skip []string
		for attempt := 0; from < len(items); attempt++ {
			if attempt > 12 {
				rep.Inconc(fmt.Sprintf("chunk %d: more than 12 crashes, items from %d not sent", chunk, from))
				return
			}
			base := filepath.Join(work, fmt.Sprintf("raw-chunk%d-try%d", chunk, attempt))
			spec := c14RawSpec{Seed: kit.Seed(), Chunk: chunk, Level: kit.Scale(0, 1), From: from, Skip: skip,
				Log: base + ".inputs.log", Out: base + ".result.json", WorkDir: work}
			raw, _ := json.Marshal(spec)
			os.WriteFile(base+".spec.json", raw, 0644)
			ctx, cancel := context.WithTimeout(context.Background(), 8*time.Minute)
			cmd := exec.CommandContext(ctx, os.Getenv("VERIF_SELF"), "-test.run", "^TestVerifC14RawNATSChild$", "-test.count", "1", "-test.timeout", "0")
			if os.Getenv("VERIF_SELF") == "" {
				self, _ := os.Executable()
				cmd = exec.CommandContext(ctx, self, "-test.run", "^TestVerifC14RawNATSChild$", "-test.count", "1", "-test.timeout", "0")
			}
			cmd.Env = append(os.Environ(), "C14_RAW_SPEC="+base+".spec.json")
			var outb bytes.Buffer
			cmd.Stdout, cmd.Stderr = &outb, &outb
			err := cmd.Run()
			timedOut := ctx.Err() != nil
			cancel()
			os.WriteFile(base+".output.txt", outb.Bytes(), 0644)
			var r c14RawResult
			if raw, rerr := os.ReadFile(spec.Out); rerr == nil && json.Unmarshal(raw, &r) == nil && r.Done {
				mu.Lock()
				for k, v := range r.Counts {
					rep.Count(k, v)
					if strings.HasPrefix(k, "sent_") && !strings.HasPrefix(k, "sent_class_") && !strings.HasPrefix(k, "sent_decodable_") {
						evals += v
					}
				}
				for _, s := range r.Sigs {
					sigs[s] = struct{}{}
				}
				mu.Unlock()
				for _, v := range r.Viols {
					rep.Violation(v.FP, v.What, v.Replay)
				}
				for _, s := range r.Inconc {
					rep.Inconc(fmt.Sprintf("chunk %d: %s", chunk, s))
				}
				for _, s := range r.Samples {
					rep.Sample(s)
				}
				died := err != nil && !timedOut && strings.Contains(outb.String(), "\ngoroutine ")
				if !died {
					rep.Count("children_completed", 1)
					return
				}
				// The child recorded its findings and then died while serving the
				// subscription.  If it had already found a stored record that
				// cannot be read back, this is the same defect seen from the
				// server's side; otherwise it is a crash of its own.
				rep.Count("child_deaths", 1)
				cl, frame := c14CrashInfo(outb.String())
				tail := outb.String()
				if k := strings.Index(tail, "panic: "); k > 0 {
					tail = tail[k:]
				}
				if len(tail) > 5000 {
					tail = tail[:5000]
				}
				fp := "C14:" + frame + ":after-spray"
				for _, v := range r.Viols {
					if strings.HasPrefix(v.FP, "C14:stored-unreadable:") {
						fp = v.FP
					}
				}
				rep.Violation(fp, "the server process died while serving a subscription over the messages it had stored for the raw NATS payloads: "+cl,
					map[string]any{"chunk": chunk, "child_output": tail})
				return
			}
			if timedOut {
				rep.Inconc(fmt.Sprintf("chunk %d: watchdog expired on the child process", chunk))
				return
			}
			idx, what, kind, hexdata, phase := c14LastLogged(spec.Log)
			cl, frame := c14CrashInfo(outb.String())
			rep.Count("child_deaths", 1)
			tail := outb.String()
			if k := strings.Index(tail, "panic: "); k > 0 {
				tail = tail[k:]
			}
			if len(tail) > 5000 {
				tail = tail[:5000]
			}
			if idx < 0 || phase != "spray" {
				if phase == "start" || phase == "" {
					rep.Inconc(fmt.Sprintf("chunk %d: child died before sending anything (err=%v): %s", chunk, err, cl))
				} else {
					rep.Violation("C14:"+frame+":after-spray", fmt.Sprintf("the server process died in phase %q after the raw messages: %s", phase, cl),
						map[string]any{"chunk": chunk, "from": from, "child_output": tail})
				}
				return
			}
			data, _ := hex.DecodeString(hexdata)
			class := c14CrashClass(kind, data)
			mu.Lock()
			evals += int64(1)
			mu.Unlock()
			rep.Violation("C14:"+frame+":"+class, fmt.Sprintf("the server process died after receiving a raw NATS message on its %s subject (%d bytes, reference class %s): %s", kind, len(data), class, cl),
				map[string]any{"chunk": chunk, "item": idx, "subject_kind": kind, "payload_hex": c14Hex(data), "payload_len": len(data), "made_by": items[idx].Tag, "last_logged": what, "child_output": tail})
			skip = append(skip, class)
			sort.Strings(skip)
			from = idx + 1
		}
	})
	for i := int64(0); i < evals; i++ {
		rep.Eval()
	}
	for s := range sigs {
		rep.Nontrivial(s)
	}
}
