//go:build verif

package server

// C11 — "refused sets" unit.  In the other units every SetCursor is accepted
// by the cursors partition (or times out).  Here the cursors partition REFUSES
// some of them, or the caller gives up on them:
//
//   - the cursor message is larger than clustering.replication.max.bytes (small
//     here): the leader answers with a negative ack (Ack_TOO_LARGE) and appends
//     nothing.  Cursor ids / stream names of seeded lengths around the limit
//     (found by bisection on what the API reports), and for the ids just below
//     it small vs large offsets (the offset's varint makes the message a few
//     bytes longer), so that ONE cursor has both accepted and refused sets;
//   - streams.encryption is on and the partition.seal hook makes chosen Seal
//     calls on the cursors partition fail: negative ack Ack_ENCRYPTION for ANY
//     cursor at any time;
//   - the cursors stream is read-only for a while: the publish precondition
//     refuses every set;
//   - the caller's deadline is already over or a fraction of a millisecond
//     away: the set fails with an unknown outcome.
//
// The harness takes the outcome of every set exactly as the API reports it:
// acknowledged (must be durable: cached or not, after purge / eviction /
// compaction / pause+resume / restart), refused (must never be returned by a
// fetch, c11Judge "refused-set-value") or unknown (stays an open operation).

import (
	"context"
	"errors"
	"fmt"
	"os"
	"strings"
	"sync"
	"sync/atomic"
	"testing"
	"time"

	client "github.com/liftbridge-io/liftbridge-api/v2/go"

	kit "github.com/liftbridge-io/liftbridge/internal/verifkit"
)

// seal failures on the cursors stream: a process-wide countdown (the hook
// cannot tell the servers of parallel cases apart; whichever cursors partition
// seals next takes the failure, and the harness judges by what the API reports)
var (
	c11SealArmed atomic.Int64
	c11SealOnce  sync.Once
	c11SealHits  atomic.Int64
)

func c11InstallSealHook() {
	c11SealOnce.Do(func() {
		vfHooks.On("partition.seal", func(a ...interface{}) error {
			if len(a) == 0 {
				return nil
			}
			if s, _ := a[0].(string); s != cursorsStream {
				return nil
			}
			for {
				n := c11SealArmed.Load()
				if n <= 0 {
					return nil
				}
				if c11SealArmed.CompareAndSwap(n, n-1) {
					c11SealHits.Add(1)
					return errors.New("verif: injected seal failure")
				}
			}
		})
	})
}

const c11BigOffset = int64(1) << 55 // 8-byte varint instead of 2

func c11Pad(prefix string, l int) string {
	if len(prefix) >= l {
		return prefix[:l]
	}
	return prefix + strings.Repeat("x", l-len(prefix))
}

type c11RefStats struct {
	acked, refused, unknown map[string]int // per key
	byWhy                   map[string]int
}

func (e *c11Env) refusedStats() c11RefStats {
	st := c11RefStats{map[string]int{}, map[string]int{}, map[string]int{}, map[string]int{}}
	for _, o := range e.snapshot() {
		if o.Kind != "set" {
			continue
		}
		switch {
		case o.OK:
			st.acked[o.Key]++
		case o.Refused != "":
			st.refused[o.Key]++
			st.byWhy[o.Refused]++
		default:
			st.unknown[o.Key]++
		}
	}
	return st
}

func c11RunRefused(rep *kit.Report, idx int, seed uint64) {
	rng := kit.NewRNG(seed)
	maxBytes := []int64{600, 900, 1400}[rng.Intn(3)]
	enc := idx%2 == 1
	cfg := c11Cfg{Parts: int32(1 + (idx/2)%2), SegBytes: []int64{1500, 6000}[rng.Intn(2)], CacheOff: idx%3 == 2, Clients: 3, Ops: kit.Scale(30, 60), CleanMode: "forced"}
	trans := []string{"purge", "readonly", "pause", "restart", "compact", "deadline"}
	if idx%3 == 0 {
		trans = append(trans, "evict")
	}
	for i := len(trans) - 1; i > 0; i-- {
		j := rng.Intn(i + 1)
		trans[i], trans[j] = trans[j], trans[i]
	}
	trans = trans[:kit.Scale(4, 6)]
	cfg.Steps = append([]string{fmt.Sprintf("refused:max.bytes=%d,encryption=%v", maxBytes, enc)}, trans...)
	e := &c11Env{rep: rep, seed: seed, cfg: cfg, unit: "refused", val: 1000}
	c, srv, err := vfSingle("c11ref", func(c *Config) {
		c.CursorsStream.Partitions = cfg.Parts
		c.CursorsStream.ReplicationFactor = 1
		c.Streams.SegmentMaxBytes = cfg.SegBytes
		c.Streams.CleanerInterval = time.Hour
		c.Clustering.ReplicationMaxBytes = maxBytes
		c.Streams.Encryption = enc
	})
	if err != nil {
		rep.Inconc(fmt.Sprintf("server start failed: %v", err))
		return
	}
	e.c = c
	defer e.close()
	e.applyServerKnobs(srv)
	if !c11Ready(srv, cfg.Parts, 30*time.Second) {
		rep.Inconc("cursors partitions not led")
		return
	}
	rep.Eval()
	n := e.c.Nodes["a"]

	// ---- keys
	var keys []c11Key
	for i := 0; i < 5; i++ {
		keys = append(keys, c11Key{fmt.Sprintf("n%d", i), "rs", int32(i % 2)})
	}
	// definitely oversized: the id (or the stream name) alone is longer than the limit
	keys = append(keys, c11Key{c11Pad("bigid-", int(maxBytes)+rng.Range(1, 200)), "rs", 0},
		c11Key{"bigst", c11Pad("bigstream-", int(maxBytes)+rng.Range(1, 200)), 1},
		c11Key{c11Pad("halfid-", int(maxBytes)/2+40), c11Pad("halfst-", int(maxBytes)/2+40), 0})
	// the boundary: the shortest id whose cursor message the API reports as refused
	probe := func(l int) (refused, known bool) {
		op := e.doSet(n, 0, c11Key{c11Pad(fmt.Sprintf("probe%04d-", l), l), "rs", 0}, "refused/probe")
		return op.Refused == "too-large", op.OK || op.Refused != ""
	}
	lo, hi := 12, int(maxBytes)
	rlo, klo := probe(lo)
	rhi, khi := probe(hi)
	lstar := 0
	if klo && khi && !rlo && rhi {
		for hi-lo > 1 {
			mid := (lo + hi) / 2
			r, k := probe(mid)
			if !k {
				break
			}
			if r {
				hi = mid
			} else {
				lo = mid
			}
		}
		if hi-lo == 1 {
			lstar = hi
		}
	}
	var boundary []c11Key
	if lstar > 0 {
		rep.Count("boundary_found", 1)
		for l := lstar - 5; l <= lstar+1; l++ {
			boundary = append(boundary, c11Key{c11Pad(fmt.Sprintf("edge%04d-", l), l), "rs", 0})
		}
		// the same with a long stream name and a short id
		for l := lstar - 4; l <= lstar+4; l += 2 {
			boundary = append(boundary, c11Key{"es", c11Pad(fmt.Sprintf("edgest%04d-", l), l), 0})
		}
	} else {
		rep.Count("boundary_not_found", 1)
	}
	keys = append(keys, boundary...)

	alive := func() bool {
		e.mu.Lock()
		defer e.mu.Unlock()
		return !e.inconc && !e.failed
	}
	fetchAll := func(phase string) {
		for _, k := range keys {
			if f := e.fetchQuiescent(n, k, phase); f.OK {
				e.judgeNow(f, false)
				rep.Count("quiescent_fetches", 1)
			}
		}
	}
	// one sequential round of sets (small / large offset, seal failure armed
	// for this very set) and fetches over all keys
	round := func(phase string, ops int) {
		for i := 0; i < ops && alive(); i++ {
			k := keys[rng.Intn(len(keys))]
			switch x := rng.Intn(10); {
			case x < 3:
				if f := e.doFetch(n, 0, k, phase); f.OK {
					e.judgeNow(f, false)
				}
			case x < 6:
				e.doSet(n, 0, k, phase)
			case x < 8:
				e.doSetOpt(n, 0, k, phase, c11BigOffset, e.timeout())
			default:
				if enc {
					c11SealArmed.Add(1)
				}
				s := e.doSet(n, 0, k, phase)
				if s.OK || s.Refused != "" {
					// read back at once: what the API reported must be what a fetch sees
					if f := e.doFetch(n, 0, k, phase); f.OK {
						e.judgeNow(f, false)
					}
				}
			}
		}
	}

	round("refused/round-0", kit.Scale(50, 90))
	fetchAll("refused/after-round-0")
	if !cfg.CacheOff {
		e.purge(n.Server())
		fetchAll("refused/after-round-0/cold")
	}
	done := 0
	for ti, tr := range trans {
		if !alive() {
			break
		}
		phase := "refused/after-" + tr
		switch tr {
		case "purge":
			e.step("purge")
			e.purge(n.Server())
		case "evict":
			e.evict(n, rng)
		case "compact":
			e.step("compact")
			e.compactQuiescent(n.Server())
		case "pause":
			if !e.pauseAll(n) {
				continue
			}
		case "restart":
			if !e.restartSingle() {
				return
			}
			n = e.c.Nodes["a"]
		case "readonly":
			if !e.readonlyWindow(n, rng, keys) {
				continue
			}
		case "deadline":
			// callers that give up at once or after a fraction of a millisecond
			e.step("short-deadlines")
			for i := 0; i < 16; i++ {
				d := []time.Duration{time.Nanosecond, 150 * time.Microsecond, 400 * time.Microsecond, time.Millisecond, 3 * time.Millisecond}[rng.Intn(5)]
				k := keys[rng.Intn(len(keys))]
				var add int64
				if rng.Bool() {
					add = c11BigOffset
				}
				e.doSetOpt(n, 0, k, "refused/short-deadline", add, d)
			}
		}
		done++
		rep.Count("transitions_"+tr, 1)
		fetchAll(phase)
		if !cfg.CacheOff {
			e.purge(n.Server())
			fetchAll(phase + "/cold")
		}
		if ti == len(trans)/2 && alive() {
			// concurrent clients over the boundary and the normal keys, seal
			// failures armed in the background
			hot := append(append([]c11Key(nil), keys[:5]...), boundary...)
			warm := keys[5:8]
			stop := make(chan struct{})
			var bg sync.WaitGroup
			if enc {
				bg.Add(1)
				go func() {
					defer bg.Done()
					for {
						select {
						case <-stop:
							return
						case <-time.After(2 * time.Millisecond):
							if c11SealArmed.Load() < 2 {
								c11SealArmed.Add(1)
							}
						}
					}
				}()
			}
			e.concurrent(n, rng, "refused/concurrent", hot, warm)
			close(stop)
			bg.Wait()
			fetchAll("refused/after-concurrent")
		}
		round(fmt.Sprintf("refused/round-%d", ti+1), kit.Scale(30, 60))
	}
	if alive() {
		fetchAll("refused/final")
		if !cfg.CacheOff {
			e.purge(n.Server())
			fetchAll("refused/final/cold")
		}
	}
	e.finish()

	st := e.refusedStats()
	mixed := 0
	for k, a := range st.acked {
		if a > 0 && st.refused[k] > 0 {
			mixed++
		}
	}
	for why, c := range st.byWhy {
		rep.Count("sets_refused_"+why, int64(c))
	}
	total := func(m map[string]int) (s int64) {
		for _, c := range m {
			s += int64(c)
		}
		return
	}
	rep.Count("sets_acknowledged", total(st.acked))
	rep.Count("sets_unknown_outcome", total(st.unknown))
	rep.Count("cursors_with_acknowledged_and_refused_sets", int64(mixed))
	rep.Count("cache_purges", atomic.LoadInt64(&e.purges))
	rep.Count("restarts", int64(e.restarts))
	rep.Count("pause_resume", int64(e.pauses))
	e.mu.Lock()
	complete := !e.inconc
	steps := append([]string(nil), e.steps...)
	e.mu.Unlock()
	if complete && st.byWhy["too-large"] > 0 && (!enc || st.byWhy["encryption"] > 0) && mixed > 0 && done >= 2 {
		rep.Nontrivial(fmt.Sprintf("%s/%d", cfg.sig(), seed))
	}
	if idx < 2 {
		rep.Sample(map[string]any{"history_seed": seed, "config": cfg.sig(), "steps": steps, "boundary_id_length": lstar,
			"refused_by_reason": st.byWhy, "cursors_with_both_outcomes": mixed})
	}
}

// readonlyWindow sets the cursors stream read-only through the API, issues
// sets (which the publish precondition must refuse) and fetches, and makes the
// stream writable again.
func (e *c11Env) readonlyWindow(n *vfNode, rng *kit.RNG, keys []c11Key) bool {
	srv := n.Server()
	e.step("readonly-on")
	set := func(ro bool) bool {
		ctx, cancel := context.WithTimeout(context.Background(), 15*time.Second)
		_, err := srv.api.SetStreamReadonly(ctx, &client.SetStreamReadonlyRequest{Name: cursorsStream, Readonly: ro})
		cancel()
		if err != nil {
			e.rep.Count("readonly_cursors_stream_not_reachable", 1)
			return false
		}
		return vfWait(10*time.Second, func() bool {
			for _, p := range c11CursorPartitions(srv) {
				if p.IsPaused() || p.IsReadonly() != ro {
					return false
				}
			}
			return true
		})
	}
	if !set(true) {
		set(false)
		return false
	}
	for i := 0; i < 10; i++ {
		k := keys[rng.Intn(len(keys))]
		e.doSetOpt(n, 0, k, "refused/readonly", 0, 2*time.Second)
		if i%3 == 0 {
			if f := e.fetchQuiescent(n, k, "refused/readonly"); f.OK {
				e.judgeNow(f, false)
			}
		}
	}
	if !e.cfg.CacheOff {
		e.purge(srv)
	}
	for i := 0; i < 6; i++ {
		if f := e.fetchQuiescent(n, keys[rng.Intn(len(keys))], "refused/readonly/cold"); f.OK {
			e.judgeNow(f, false)
		}
	}
	e.step("readonly-off")
	if !set(false) {
		e.inconclusive("the cursors stream could not be made writable again")
		return false
	}
	return true
}

func TestVerifC11Refused(t *testing.T) {
	rep := kit.NewReport("C11", "refused")
	defer rep.Write()
	rep.SetRule("single-node servers with clustering.replication.max.bytes = 600 / 900 / 1400 (half of them with streams.encryption on and seal failures injected at the partition.seal hook of the cursors partition), cache on and off, 1-2 cursors partitions: " +
		"cursors with normal ids, ids / stream names longer than the limit, and ids / stream names whose length is within a few bytes of the shortest REFUSED length (found by bisection on what SetCursor reports), set with small and with 8-byte-varint offsets so that one cursor has accepted and refused sets; " +
		"sequential rounds of set / fetch / set-with-a-seal-failure-armed + read-back, a seeded order of {cache purge, LRU eviction, compaction, PauseStream + resume, restart, cursors stream read-only for a while (publish precondition refuses), 16 sets with deadlines of 1 ns .. 3 ms}, each followed by a fetch of every cursor as is and after a cache purge, one concurrent phase (3 clients, seal failures armed in the background); " +
		"every set is classified exactly as the API reported it: acknowledged / refused (negative ack or read-only precondition, returned before its deadline) / unknown; oracle = per-cursor register rule + 'the offset of a refused set is never returned' + porcupine (refused sets left out, unknown ones open); " +
		"non-trivial = history complete, >= 1 too-large refusal, >= 1 encryption refusal when encryption is on, >= 1 cursor with both acknowledged and refused sets, >= 2 transitions; distinct = config + history seed")
	rep.Assume("a SetCursor error that carries the API's wording of a negative ack (message exceeds max replication size / encryption failed on partition / incorrect expected offset) or of the read-only precondition, returned before the call's deadline, means the cursors partition did not append the cursor (documented meaning of these acks): the set never takes effect; every other failed set may or may not take effect (open operation)")
	rep.Assume("a SetCursor that returned without error succeeded in the sense of the property: its offset is what fetches must return until a later set succeeds, whatever is cached")
	os.Setenv("LIFTBRIDGE_ENCRYPTION_KEY", "0123456789abcdef0123456789abcdef")
	c11InstallSealHook()
	total := kit.Scale(6, 36)
	root := kit.NewRNG(kit.Mix(kit.Seed(), 0xC11E))
	seeds := make([]uint64, total)
	for i := range seeds {
		seeds[i] = root.Uint64()
	}
	kit.Parallel(total, 3, func(i int) {
		if only := c11ReplaySeed(); only != "" && only != fmt.Sprint(seeds[i]) {
			return
		}
		if rep.NumViolations() >= 4 {
			return
		}
		c11RunRefused(rep, i, seeds[i])
	})
	rep.Count("seal_failures_injected", c11SealHits.Load())
}
