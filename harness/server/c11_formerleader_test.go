//go:build verif

package server

// C11 — fetches sent to a former cursors-partition leader that is still
// running (what a client with stale metadata does).
//
// The cursors-partition leadership is moved round after round inside one
// 3-server cluster, by the controller's own election path
// (metadataAPI.electNewPartitionLeader, what follower reports lead to) or by
// isolating the leader (pauseReplication) until the followers have it replaced;
// the old leader keeps running with whatever its cursor cache held.  After
// every move new values are stored at the new leader and then EVERY running
// server that is not the leader is asked for every cursor: it may refuse
// (FailedPrecondition: not an observation) or answer, and an answer is judged
// with the same register rule as any other fetch (phase "from-former-leader",
// or "from-non-leader" for a server that has not led yet).

import (
	"context"
	"fmt"
	"os"
	"sync/atomic"
	"testing"
	"time"

	kit "github.com/liftbridge-io/liftbridge/internal/verifkit"
)

const c11FormerLeaderRule = "3-server clusters (cursors stream: 1 partition, replication factor 3, cache on; thorough: every third cluster cache off), 4 (thorough 10) rounds each: " +
	"at the cursors-partition leader L every cursor (4-8 hot, 6-10 warm) is fetched (after a seeded cache purge, so part of the cache is filled from the log) and a seeded 2/3 get a new value (cache filled by the set); replicas settle; " +
	"leadership is moved away from L while L keeps running - by the controller's own metadataAPI.electNewPartitionLeader (ISR complete) or by isolating L with pauseReplication until the followers have it replaced (then the isolation ends); " +
	"once every server names the new leader N, a seeded >= 1/2 of the cursors get a new acknowledged value at N; then every running server other than N is sent FetchCursor for every cursor " +
	"(a refusal is no observation, an answer is judged by the register rule), then N is. Leadership keeps moving, so former leaders also return to office. " +
	"non-trivial = all rounds completed with a leader change each and every non-leader was asked for every cursor; distinct = scenario seed"

// electAway moves the cursors-partition leadership away from the current
// leader through the controller's election path.
func (cc *c11Cluster) electAway(from string) bool {
	cc.step("elect-away(%s)", from)
	ok := vfWait(30*time.Second, func() bool {
		ml, err := cc.c.MetaLeader(10 * time.Second)
		if err != nil {
			return false
		}
		p := ml.metadata.GetPartition(cursorsStream, 0)
		if p == nil {
			return false
		}
		leader, epoch := p.GetLeader()
		if leader != from {
			return true // already replaced
		}
		ctx, cancel := context.WithTimeout(context.Background(), 10*time.Second)
		st := ml.metadata.electNewPartitionLeader(ctx, p, leader, epoch)
		cancel()
		return st == nil
	})
	if !ok {
		cc.inconclusive("controller did not elect a new cursors-partition leader in place of " + from)
	}
	return ok
}

// askNonLeaders sends FetchCursor for every key to every running server other
// than the leader.  Callers have waited until every running server names that
// leader.  A refusal is no observation; an answer is judged like any fetch.
func (cc *c11Cluster) askNonLeaders(leader *vfNode, keys []c11Key, led map[string]bool) (asked, answered int64) {
	for _, f := range cc.c.Running() {
		if f.ID == leader.ID {
			continue
		}
		phase := "from-non-leader"
		if led[f.ID] {
			phase = "from-former-leader"
		}
		cc.step("ask(%s:%s)", f.ID, phase)
		for _, k := range keys {
			op := cc.doFetch(f, 0, k, phase)
			asked++
			if op.OK {
				answered++
				cc.judgeNow(op, false)
			}
		}
	}
	cc.rep.Count("fetches_sent_to_non_leaders", asked)
	cc.rep.Count("non_leader_answered", answered)
	cc.rep.Count("non_leader_refused", asked-answered)
	return
}

func c11RunFormerLeader(rep *kit.Report, unit string, g int, seed uint64) {
	rng := kit.NewRNG(seed)
	cfg := c11Cfg{Parts: 1, SegBytes: []int64{1200, 4000}[rng.Intn(2)], Clients: 1, CleanMode: "forced", Steps: []string{"former-leader"}}
	cfg.CacheOff = kit.Thorough() && g%3 == 2
	cc, err := c11NewCluster(rep, unit, seed, cfg)
	if err != nil {
		rep.Inconc(fmt.Sprintf("cluster start failed: %v", err))
		return
	}
	defer cc.close()
	rep.Eval()
	keys := append(c11HotKeys(rng.Range(4, 8)), c11WarmKeys(rng.Range(6, 10))...)
	rounds := kit.Scale(4, 10)
	isolateRound := rng.Intn(rounds) // at least one move by isolation, the others seeded
	led := map[string]bool{}
	var asked int64
	done := 0
	for r := 0; r < rounds && cc.alive(); r++ {
		l := cc.leader()
		if l == nil {
			break
		}
		led[l.ID] = true
		cc.step("round %d leader=%s", r, l.ID)
		// what L's cache holds: values read from the log and values set here
		if rng.Chance(1, 2) && !cfg.CacheOff {
			cc.purge(l.Server())
		}
		for _, k := range keys {
			if f := cc.fetchQuiescent(l, k, "at-leader"); f.OK {
				cc.judgeNow(f, false)
			}
			if rng.Chance(2, 3) {
				cc.doSet(l, 0, k, "at-leader")
			}
		}
		if !cc.alive() || !cc.waitISR(cc.c.IDs...) || !cc.settle() {
			break
		}
		mode := "elect"
		if r == isolateRound || rng.Chance(1, 5) {
			mode = "isolate"
		}
		if mode == "elect" {
			if !cc.electAway(l.ID) {
				break
			}
		} else {
			cc.isolate(l, keys, rng)
		}
		n := cc.waitLeaderNot(l.ID)
		if n == nil {
			break
		}
		if mode == "isolate" {
			cc.unpause(l)
		}
		rep.Count("leader_moves_"+mode, 1)
		// new values at the new leader
		perm := make([]int, len(keys))
		for i := range perm {
			perm[i] = i
		}
		for i := len(perm) - 1; i > 0; i-- {
			j := rng.Intn(i + 1)
			perm[i], perm[j] = perm[j], perm[i]
		}
		for _, i := range perm[:rng.Range((len(keys)+1)/2, len(keys))] {
			cc.doSet(n, 0, keys[i], "at-new-leader")
		}
		// every server names N (waitLeaderNot); ask the others
		a, _ := cc.askNonLeaders(n, keys, led)
		asked += a
		for _, k := range keys {
			if f := cc.fetchQuiescent(n, k, "after-leader-change"); f.OK {
				cc.judgeNow(f, false)
				rep.Count("quiescent_fetches", 1)
			}
		}
		if cc.alive() {
			done++
		}
	}
	cc.finish()
	cc.mu.Lock()
	complete, changes, steps, nops := !cc.inconc, cc.leaderChanges, append([]string(nil), cc.steps...), len(cc.ops)
	cc.mu.Unlock()
	rep.Count("ops", int64(nops))
	rep.Count("leader_changes", int64(changes))
	rep.Count("rounds_completed", int64(done))
	rep.Count("servers_that_led", int64(len(led)))
	rep.Count("cache_purges", atomic.LoadInt64(&cc.purges))
	rep.Count("sets_with_unknown_outcome", atomic.LoadInt64(&cc.setUnknown))
	if complete && done == rounds && changes >= rounds && asked >= int64(2*rounds*len(keys)) {
		rep.Nontrivial(fmt.Sprintf("former-leader/%s/%d", cfg.sig(), seed))
	}
	rep.Sample(map[string]any{"history_seed": seed, "config": cfg.sig(), "steps": steps, "ops": nops})
}

// TestVerifC11FormerLeader runs the former-leader scenarios.
func TestVerifC11FormerLeader(t *testing.T) {
	unit := os.Getenv("VERIF_UNIT")
	if unit == "" {
		unit = "formerleader"
	}
	rep := kit.NewReport("C11", unit)
	defer rep.Write()
	rep.SetRule(c11FormerLeaderRule)
	rep.Assume("a server is asked as a non-leader only after every running server, itself included, names the new leader (a deposed leader that has not yet learnt of its replacement is not asked); a refusal is not an observation")
	total := kit.Scale(1, 3)
	root := kit.NewRNG(kit.Mix(kit.Seed(), 0xC11F))
	for g := 0; g < total; g++ {
		seed := root.Uint64()
		if rep.NumViolations() >= 4 {
			break
		}
		c11RunFormerLeader(rep, unit, g, seed)
	}
}
