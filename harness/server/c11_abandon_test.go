//go:build verif

package server

// C11 — abandoned fetches.
//
// Workload class: FetchCursor calls whose caller gives up (context already
// cancelled, deadline shorter than the reverse scan of the cursors log,
// cancellation in the middle of the scan) for cursors that are NOT in the
// manager's cache (after a cache purge, after eviction by > 512 other cursors,
// after a restart), followed by ordinary fetches of the same cursors.
//
// An abandoned fetch is an operation that returned an error to its caller (a
// gRPC client sees its own context error, whatever the handler computed): it
// is recorded with OK=false and is no observation.  But it must not change
// what later fetches return: the ordinary fetches that follow are judged with
// the same register rule as everywhere else (phase "after-abandoned-fetch").
// Cursors that were made uncached in the same way but were not given an
// abandoned fetch are the controls (phase "uncached-control").

import (
	"context"
	"fmt"
	"os"
	"runtime"
	"sync"
	"sync/atomic"
	"testing"
	"time"

	client "github.com/liftbridge-io/liftbridge-api/v2/go"

	kit "github.com/liftbridge-io/liftbridge/internal/verifkit"
)

const c11AbandonRule = "seeded histories on a real single-node server (1-2 cursors partitions, 600-6000 B segments, cache on; thorough: 1 in 6 cache off): " +
	"acknowledged sets of 3 probe, 24-48 victim and 8 control cursors (1-2 values each) buried under 200-500 other cursors (multi-segment log, seeded forced compaction); then a seeded order of " +
	"{cache purge by BecomePartitionLeader(), LRU eviction by > 512 acknowledged other cursors, restart on the same data directory}; after each: the scan time of one uncached probe is measured, " +
	"then 3/4 of the victims and two never-set cursors get 2-5 ABANDONED FetchCursor calls each (context already cancelled | deadline = 5-95% of the probe's scan time | cancel() after 5-95% of it; " +
	"1, 4 or 16 concurrent callers, in half of the phases with GOMAXPROCS lowered to 1-3 for the phase; from the second step on, 1 in 4 with a concurrent setter of other cursors), a few victims get an abandoned fetch racing a SetCursor of the same cursor; " +
	"then every victim, never-set cursor and control is fetched with an ordinary deadline and some victims get a new value. " +
	"An abandoned call (context done when it returned) is recorded as a failed fetch = no observation; a call that finished before its deadline is an ordinary observation. " +
	"Oracle = the same per-fetch staleness rule + porcupine register model. non-trivial = the history completed, >= 10 victims were absent from the cache when abandoned, >= 10 calls ended abandoned and the log had >= 3 segments; " +
	"distinct = config signature + history seed"

// doAbandonedFetch issues a FetchCursor whose caller gives up: mode
// "precancelled" (context cancelled before the call), "deadline" (context
// deadline d) or "cancel" (cancel() d after the call began).
func (e *c11Env) doAbandonedFetch(n *vfNode, cl int, k c11Key, phase, mode string, d time.Duration) c11Op {
	op := c11Op{Client: cl, Kind: "fetch", Key: k.String(), Phase: phase, Node: n.ID}
	srv := n.Server()
	if srv == nil {
		op.Call = c11Now()
		op.Ret, op.Err = op.Call, "node down"
		return e.record(op)
	}
	var (
		ctx    context.Context
		cancel context.CancelFunc
	)
	switch mode {
	case "precancelled":
		ctx, cancel = context.WithCancel(context.Background())
		cancel()
	case "deadline":
		ctx, cancel = context.WithTimeout(context.Background(), d)
	default: // cancel
		ctx, cancel = context.WithCancel(context.Background())
		t := time.AfterFunc(d, cancel)
		defer t.Stop()
	}
	op.Call = c11Now()
	resp, err := srv.api.FetchCursor(ctx, &client.FetchCursorRequest{Stream: k.Stream, Partition: k.Part, CursorId: k.ID})
	op.Ret = c11Now()
	ctxErr := ctx.Err()
	cancel()
	switch {
	case ctxErr != nil:
		// The caller had given up by the time the call returned: whatever the
		// in-process handler returned, the caller of the RPC gets its own
		// context error.  Not an observation.
		op.Err = fmt.Sprintf("abandoned (%s): %v", mode, ctxErr)
		if err != nil {
			op.Err += "; handler: " + err.Error()
		} else {
			op.Err += fmt.Sprintf("; handler returned %d to nobody", resp.Offset)
			e.rep.Count("abandoned_fetch_handler_returned_a_value", 1)
		}
		e.rep.Count("abandoned_fetches_"+mode, 1)
	case err != nil:
		op.Err = err.Error()
	default:
		// finished before the caller gave up: an ordinary observation
		op.OK = true
		op.Val = resp.Offset
		e.rep.Count("short_deadline_fetch_finished_in_time", 1)
	}
	return e.record(op)
}

type c11AbTarget struct {
	k      c11Key
	mode   string
	frac   int // percent of the measured scan time (deadline / cancel)
	repeat int
}

func (e *c11Env) cached(srv *Server, k c11Key) bool {
	return srv.cursors.cache.Contains(string(srv.cursors.getCursorKey(k.ID, k.Stream, k.Part)))
}

func c11RunAbandon(rep *kit.Report, unit string, g int, seed uint64) {
	rng := kit.NewRNG(seed)
	cfg := c11Cfg{Parts: int32(1 + g%2), SegBytes: []int64{600, 1500, 6000}[rng.Intn(3)], Clients: 4, CleanMode: "forced"}
	cfg.CacheOff = kit.Thorough() && g%6 == 5
	methods := []string{"purge", "evict", "restart"}
	if kit.Thorough() {
		methods = append(methods, []string{"purge", "evict", "restart"}[rng.Intn(3)])
	}
	for i := len(methods) - 1; i > 0; i-- {
		j := rng.Intn(i + 1)
		methods[i], methods[j] = methods[j], methods[i]
	}
	for _, m := range methods {
		cfg.Steps = append(cfg.Steps, "abandon-after-"+m)
	}
	e, err := c11NewSingle(rep, unit, seed, cfg)
	if err != nil {
		rep.Inconc(fmt.Sprintf("server start failed: %v", err))
		return
	}
	defer e.close()
	rep.Eval()
	n := e.c.Nodes["a"]
	alive := func() bool {
		e.mu.Lock()
		defer e.mu.Unlock()
		return !e.inconc
	}

	// ---- fill: probes deepest, then victims and controls, then everything else on top
	var probes, victims, controls, never []c11Key
	for i := 0; i < 3; i++ {
		probes = append(probes, c11Key{fmt.Sprintf("pr%d", i), "ps", int32(i)})
	}
	for i, nv := 0, rng.Range(24, 48); i < nv; i++ {
		victims = append(victims, c11Key{fmt.Sprintf("v%d", i), fmt.Sprintf("vs%d", i%3), int32(i % 4)})
	}
	for i := 0; i < 8; i++ {
		controls = append(controls, c11Key{fmt.Sprintf("ct%d", i), fmt.Sprintf("vs%d", i%3), int32(i % 4)})
	}
	for i := 0; i < 2; i++ {
		never = append(never, c11Key{fmt.Sprintf("nv%d", i), "nvs", int32(i)})
	}
	e.step("fill")
	for _, k := range probes {
		e.doSet(n, 0, k, "fill")
	}
	for r, rounds := 0, rng.Range(1, 2); r < rounds; r++ {
		all := append(append([]c11Key(nil), victims...), controls...)
		for i := len(all) - 1; i > 0; i-- {
			j := rng.Intn(i + 1)
			all[i], all[j] = all[j], all[i]
		}
		for _, k := range all {
			e.doSet(n, 0, k, "fill")
		}
	}
	fillers := rng.Range(200, 500)
	var wg sync.WaitGroup
	for w := 0; w < 4; w++ {
		wg.Add(1)
		go func(w int) {
			defer wg.Done()
			for i := 0; i < fillers/4; i++ {
				e.doSet(n, w, e.newCold(), "fill")
			}
		}(w)
	}
	wg.Wait()
	if rng.Chance(1, 2) {
		e.step("compact")
		e.compactQuiescent(n.Server())
	}

	var abandonedTotal, uncachedTotal int64
	for round, m := range methods {
		if !alive() {
			break
		}
		srv := n.Server()
		switch m {
		case "purge":
			e.step("purge")
			e.purge(srv)
		case "evict":
			e.evict(n, rng)
		case "restart":
			if !e.restartSingle() {
				continue
			}
			srv = n.Server()
		}
		if srv == nil {
			break
		}
		// scan time of one uncached, deep cursor (workload parameter only)
		scan := 5 * time.Millisecond
		pk := probes[round%len(probes)]
		probeCached := e.cached(srv, pk)
		if f := e.fetchQuiescent(n, pk, "probe"); f.OK {
			e.judgeNow(f, false)
			if d := time.Duration(f.Ret - f.Call); !probeCached && d > 0 {
				scan = d
			}
		}
		rep.Max("probe_scan_us_max", int64(scan/time.Microsecond))

		// ---- targets
		var targets []c11AbTarget
		targeted := map[string]bool{}
		for _, k := range append(append([]c11Key(nil), victims...), never...) {
			if !rng.Chance(3, 4) {
				continue
			}
			t := c11AbTarget{k: k, mode: []string{"precancelled", "deadline", "cancel"}[rng.Intn(3)], frac: rng.Range(5, 95), repeat: rng.Range(2, 5)}
			targets = append(targets, t)
			targeted[k.String()] = true
			if !cfg.CacheOff && !e.cached(srv, k) {
				uncachedTotal++
			}
		}
		workers := []int{1, 4, 16}[rng.Intn(3)]
		// Seeded scheduling stress for the abandon phase only: with few
		// processors the goroutines of a scan (caller, subscribe loop) wait in
		// run queues, so the moment of the cancellation falls between their
		// steps more often than while one of them is parked.
		procs := 0
		if rng.Chance(1, 2) {
			procs = rng.Range(1, 3)
		}
		busy := round > 0 && rng.Chance(1, 4)
		e.step("abandon(%d targets, %d callers, concurrent-sets=%v, scan=%s, gomaxprocs=%d)", len(targets), workers, busy, scan, procs)
		prevProcs := 0
		if procs > 0 {
			prevProcs = runtime.GOMAXPROCS(procs)
		}
		stop := make(chan struct{})
		var bg sync.WaitGroup
		if busy {
			bg.Add(1)
			go func() {
				defer bg.Done()
				for {
					select {
					case <-stop:
						return
					default:
					}
					e.doSet(n, 9, e.newCold(), "abandon-phase")
				}
			}()
		}
		for w := 0; w < workers; w++ {
			wg.Add(1)
			go func(w int) {
				defer wg.Done()
				for i := w; i < len(targets); i += workers {
					t := targets[i]
					phase := "short-deadline-fetch"
					for r := 0; r < t.repeat; r++ {
						d := scan * time.Duration(t.frac) / 100
						op := e.doAbandonedFetch(n, w, t.k, phase, t.mode, d)
						if op.OK {
							e.judgeNow(op, true)
						} else {
							atomic.AddInt64(&abandonedTotal, 1)
							// a later attempt that finishes in time is a fetch after an abandoned one
							phase = "after-abandoned-fetch/repeat"
						}
					}
				}
			}(w)
		}
		wg.Wait()
		close(stop)
		bg.Wait()
		if prevProcs > 0 {
			runtime.GOMAXPROCS(prevProcs)
		}

		// ---- what ordinary fetches return afterwards
		check := func(k c11Key, phase string) {
			if f := e.fetchQuiescent(n, k, phase); f.OK {
				e.judgeNow(f, false)
				rep.Count("quiescent_fetches", 1)
			}
		}
		for _, k := range append(append([]c11Key(nil), victims...), never...) {
			if targeted[k.String()] {
				check(k, "after-abandoned-fetch/"+m)
				rep.Count("fetches_after_abandoned_fetch", 1)
			} else {
				check(k, "uncached-control/"+m)
			}
		}
		for _, k := range controls {
			check(k, "uncached-control/"+m)
		}

		// ---- an abandoned fetch racing a set of the same cursor
		if !cfg.CacheOff {
			e.purge(srv)
		}
		for i := 0; i < 4; i++ {
			k := victims[rng.Intn(len(victims))]
			mode := []string{"precancelled", "deadline", "cancel"}[rng.Intn(3)]
			d := scan * time.Duration(rng.Range(5, 95)) / 100
			wg.Add(1)
			go func() {
				defer wg.Done()
				if op := e.doAbandonedFetch(n, 1, k, "abandoned-racing-set", mode, d); !op.OK {
					atomic.AddInt64(&abandonedTotal, 1)
				}
			}()
			s := e.doSet(n, 0, k, "racing-abandoned-fetch")
			wg.Wait()
			if s.OK {
				check(k, "after-abandoned-fetch/racing-set")
				rep.Count("read_your_write_checks", 1)
			}
		}
		// new values for some victims (cached again by the set; the next step
		// makes them uncached)
		for i := 0; i < 6; i++ {
			e.doSet(n, 0, victims[rng.Intn(len(victims))], "new-value")
		}
	}
	if alive() {
		e.step("final")
		for _, k := range append(append(append([]c11Key(nil), victims...), controls...), never...) {
			if f := e.fetchQuiescent(n, k, "final"); f.OK {
				e.judgeNow(f, false)
			}
		}
	}
	var segs int64
	if srv := n.Server(); srv != nil {
		_, segs = c11LogStats(srv)
	}
	e.finish()

	e.mu.Lock()
	complete := !e.inconc
	steps := append([]string(nil), e.steps...)
	nops := len(e.ops)
	e.mu.Unlock()
	rep.Count("ops", int64(nops))
	rep.Count("abandoned_fetches", atomic.LoadInt64(&abandonedTotal))
	rep.Count("targets_absent_from_cache_when_abandoned", uncachedTotal)
	rep.Max("max_segment_files_all_partitions", segs)
	rep.Count("compaction_removed_records", atomic.LoadInt64(&e.compactRemoved))
	rep.Count("cache_purges", atomic.LoadInt64(&e.purges))
	rep.Count("restarts", int64(e.restarts))
	if e.cacheFull {
		rep.Count("lru_filled_to_capacity", 1)
	}
	if complete && atomic.LoadInt64(&abandonedTotal) >= 10 && (uncachedTotal >= 10 || cfg.CacheOff) && segs >= 3 {
		rep.Nontrivial(fmt.Sprintf("%s/%d", cfg.sig(), seed))
	}
	rep.Sample(map[string]any{"history_seed": seed, "config": cfg.sig(), "steps": steps, "ops": nops})
}

// TestVerifC11Abandon runs the abandoned-fetch histories of one shard.
func TestVerifC11Abandon(t *testing.T) {
	shard, shards := kit.EnvInt("C11_SHARD", 0), kit.EnvInt("C11_SHARDS", 1)
	unit := os.Getenv("VERIF_UNIT")
	if unit == "" {
		unit = fmt.Sprintf("abandon%d", shard)
	}
	rep := kit.NewReport("C11", unit)
	defer rep.Write()
	rep.SetRule(c11AbandonRule)
	rep.Assume("a FetchCursor whose context was done when the call returned is what its caller abandoned: the in-process handler's return value is not an observation (an RPC client gets its context error); the deadlines are workload parameters derived from a measured scan time, no oracle uses them")
	total := kit.Scale(2, 24)
	root := kit.NewRNG(kit.Mix(kit.Seed(), 0xC11A))
	for g := 0; g < total; g++ {
		seed := root.Uint64()
		if g%shards != shard {
			continue
		}
		if only := c11ReplaySeed(); only != "" && only != fmt.Sprint(seed) {
			continue
		}
		if rep.NumViolations() >= 4 {
			break
		}
		c11RunAbandon(rep, unit, g, seed)
	}
}
