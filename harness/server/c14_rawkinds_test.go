//go:build verif

package server

// C14 unit `rawkinds`: the raw-NATS corpus on streams of DIFFERENT
// configurations, on servers with different batching settings, read back
// through subscriptions.
//
// The unit `rawnats` sprays one plain stream and fences every single message,
// so the leader's per-message preparation only ever runs in its plainest form:
// no sealing, no expected-offset check, batches of one.  What the leader does
// with a payload depends on the stream (encryption at rest: seal on publish /
// unseal on subscribe; optimistic concurrency control: expected offset, batches
// of one, refusals; compaction: small segments, cleaned before the read-back;
// read-only: refusals; the reserved cursors stream) and on the server's
// batching settings (three copies of the batch-fill code).  Here every child
// server carries one stream of each kind and receives, on every one of them,
// the corner classes of the payload space (empty payload, 1 byte, non-envelope
// bytes, valid envelopes of another type, publish envelopes with absent /
// empty-but-present key, value, headers, ack policies) plus a seeded slice of
// the structure-aware corpus, in bursts of several messages per fence.
//
// Oracle (same as rawnats, plus the read-back half): the server survives;
// every payload is stored as the message it encodes or verbatim, or refused;
// and what is stored is READABLE BACK: a subscription from the earliest offset
// delivers every stored message (on an encrypted stream: the plaintext that
// was sent) and is not terminated by any of them.

import (
	"bytes"
	"context"
	"encoding/hex"
	"encoding/json"
	"fmt"
	"os"
	"os/exec"
	"path/filepath"
	"sort"
	"strings"
	"sync"
	"testing"
	"time"

	pb "github.com/golang/protobuf/proto"
	client "github.com/liftbridge-io/liftbridge-api/v2/go"
	"github.com/nats-io/nats.go"

	kit "github.com/liftbridge-io/liftbridge/internal/verifkit"
	"github.com/liftbridge-io/liftbridge/server/encryption"
	proto "github.com/liftbridge-io/liftbridge/server/protocol"
)

const (
	c14kFencePfx  = "c14k-fence-"
	c14kProbe     = "c14k-probe"
	c14kKeyEnv    = "LIFTBRIDGE_ENCRYPTION_KEY"
	c14kWatchdog  = 30 * time.Second
	c14kCursorID  = "c14kcur"
	c14kCursorStr = "c14k-plain"
)

// ---------------------------------------------------------------- stream kinds

type c14kKind struct {
	Name      string
	Encrypted bool
	OCC       bool // optimistic concurrency control
	Compact   bool // compaction on, small segments, cleaned before the read-back
	Readonly  bool // read-only while the bulk of the corpus arrives
	Cursors   bool // the reserved cursors stream
}

var c14kKinds = []c14kKind{
	{Name: "plain"},
	{Name: "encrypted", Encrypted: true},
	{Name: "occ", OCC: true},
	{Name: "compact", Compact: true},
	{Name: "encrypted-occ-compact", Encrypted: true, OCC: true, Compact: true},
	{Name: "readonly", Readonly: true},
	{Name: "cursors", Cursors: true},
}

// Server batching settings (batch.max.messages / batch.max.time); 0 = default.
type c14kBatching struct {
	Name    string
	Max     int
	Wait    time.Duration
	ReplMax int // clustering.replication.max.bytes: larger messages are refused with a nack
}

var c14kBatchings = []c14kBatching{
	{"batch-default", 0, 0, 0},
	{"batch-4-wait-3ms-max-48KiB", 4, 3 * time.Millisecond, 48 << 10},
	{"batch-3-nowait", 3, 0, 0},
	{"batch-64-wait-1ms-max-1KiB", 64, time.Millisecond, 1 << 10},
}

// ---------------------------------------------------------------- schedule

type c14kItem struct {
	Class string // input class: corner name, or the reference class of a corpus element
	Data  []byte
	Tag   string
	Reply bool
	// Sealed: the payload is made in the child: a value sealed by the server's
	// own codec, sent RAW (content differs from run to run, the class does not).
	Sealed bool
}

// One step of a child's program.
type c14kStep struct {
	Stream int        // index into c14kKinds
	Op     string     // "burst" | "readonly-on" | "readonly-off"
	Items  []c14kItem // burst: sent back to back, then one completion fence (none while read-only)
}

func c14kPublishCorner(name string, tag string, parts ...[]byte) []c14kItem {
	p := c14Join(parts...)
	return []c14kItem{
		{Class: name, Data: kit.C14Encode(c14TPublish, p, false), Tag: tag + " plain envelope"},
		{Class: name, Data: kit.C14Encode(c14TPublish, p, true), Tag: tag + " crc envelope"},
	}
}

// c14kCorners: the corner classes of the payload space, for one stream kind.
func c14kCorners(r *kit.RNG, k c14kKind, shared []c14Corner) []c14kItem {
	var out []c14kItem
	raw := func(class string, data []byte) {
		out = append(out, c14kItem{Class: class, Data: data, Tag: "corner " + class})
	}
	// ---- payloads that are no envelope at all
	raw("raw-empty", []byte{})
	raw("raw-empty", nil)
	raw("raw-1-byte", []byte{0})
	raw("raw-1-byte", []byte{0xB9})
	raw("raw-1-byte", []byte{'\n'})
	raw("raw-text", []byte("hello, liftbridge"))
	raw("raw-magic-only", []byte{0xB9, 0x0E, 0x43, 0xB4})
	raw("raw-7-bytes", []byte{0xB9, 0x0E, 0x43, 0xB4, 0, 8, 0})
	all := make([]byte, 256)
	for i := range all {
		all[i] = byte(i)
	}
	raw("raw-all-byte-values", all)
	raw("raw-64KiB", r.Bytes(64<<10))
	out = append(out, c14kItem{Class: "raw-sealed-value", Tag: "corner raw-sealed-value (a value sealed by the server's codec, sent raw)", Sealed: true})
	// ---- valid envelopes of another type
	mk := func(m pb.Message) []byte {
		b, err := pb.Marshal(m)
		if err != nil {
			panic(err)
		}
		return b
	}
	raw("wrongtype-ack", kit.C14Encode(c14TAck, mk(&client.Ack{Stream: "s", Offset: 3, CorrelationId: "c"}), false))
	raw("wrongtype-ack", kit.C14Encode(c14TAck, mk(&client.Ack{Stream: "s", Offset: 3, CorrelationId: "c"}), true))
	raw("wrongtype-ack-no-payload", kit.C14Encode(c14TAck, nil, false))
	raw("wrongtype-notification", kit.C14Encode(c14TNotify, mk(&proto.PartitionNotification{Stream: "x", Partition: 1}), false))
	raw("wrongtype-status-request", kit.C14Encode(c14TStatusReq, mk(&proto.PartitionStatusRequest{Stream: "x"}), true))
	raw("wrongtype-3", kit.C14Encode(3, r.Bytes(24), false))
	raw("wrongtype-15-no-payload", kit.C14Encode(15, nil, false))
	raw("wrongtype-255-no-payload", kit.C14Encode(255, nil, false))
	// ---- publish envelopes on the corners of key / value / headers
	entry := func(k, v []byte) []byte {
		var e []byte
		if k != nil {
			e = append(e, c14LenField(1, k)...)
		}
		if v != nil {
			e = append(e, c14LenField(2, v)...)
		}
		return c14LenField(9, e)
	}
	val := c14LenField(3, []byte("corner-value"))
	inbox := func(n string) []byte { return c14LenField(10, []byte(c14AckPrefix+"k"+n)) }
	var pubs []c14kItem
	pub := func(name string, parts ...[]byte) {
		pubs = append(pubs, c14kPublishCorner(name, "corner "+name, parts...)...)
	}
	pub("publish-no-fields")
	pub("publish-empty-value", c14LenField(3, nil))
	pub("publish-empty-key", c14LenField(2, nil))
	pub("publish-empty-key-and-value", c14LenField(2, nil), c14LenField(3, nil))
	pub("publish-key-only", c14LenField(2, []byte("k1")))
	pub("publish-key-and-empty-value", c14LenField(2, []byte("k1")), c14LenField(3, nil))
	pub("publish-value-only", val)
	pub("publish-1-byte-value", c14LenField(3, []byte{0}))
	pub("publish-key-and-value", c14LenField(2, []byte("k2")), val)
	pub("publish-headers-only", entry([]byte("h"), []byte("v")))
	pub("publish-header-empty-value", val, entry([]byte("h"), []byte{}))
	pub("publish-header-empty-key", val, entry([]byte{}, []byte("v")))
	pub("publish-empty-value-with-header", c14LenField(3, nil), entry([]byte("h"), []byte("v")))
	pub("publish-ack-leader", val, inbox("l"), c14LenField(11, []byte("corr-l")), c14VarField(12, 0))
	pub("publish-ack-all", val, inbox("a"), c14LenField(11, []byte("corr-a")), c14VarField(12, 1))
	pub("publish-ack-all-empty-value", c14LenField(3, nil), inbox("ae"), c14LenField(11, []byte("corr-ae")), c14VarField(12, 1))
	pub("publish-ack-all-no-inbox", val, c14VarField(12, 1))
	pub("publish-ack-none", val, inbox("n"), c14VarField(12, 2))
	pub("publish-ack-policy-7", val, inbox("u"), c14VarField(12, 7))
	pub("publish-value-64KiB", c14LenField(3, r.Bytes(64<<10)))
	for _, c := range shared {
		pub("publish-"+c.Name, c.Payload)
	}
	if k.Cursors {
		// messages that sit where the server keeps its own cursors
		key := c14LenField(2, []byte(fmt.Sprintf("%s,%s,0", c14kCursorID, c14kCursorStr)))
		cur, err := (&proto.Cursor{Stream: c14kCursorStr, Partition: 0, CursorId: c14kCursorID, Offset: 5}).Marshal()
		if err != nil {
			panic(err)
		}
		pub("cursor-key-valid-cursor", key, c14LenField(3, cur))
		pub("cursor-key-garbage-value", key, c14LenField(3, r.Bytes(17)))
		pub("cursor-key-empty-value", key, c14LenField(3, nil))
		pub("cursor-key-no-value", key)
	}
	out = append(out, pubs...)
	if k.OCC {
		// the same publishes with "no expected offset" (-1), which an
		// optimistic-concurrency stream accepts at any position
		for _, p := range pubs {
			env := kit.C14Classify(p.Data)
			body := c14Join(env.Payload, c14VarField(1, 1<<64-1))
			out = append(out, c14kItem{Class: p.Class + "+offset-1", Data: kit.C14Encode(c14TPublish, body, len(out)%2 == 0), Tag: p.Tag + ", expected offset -1"})
		}
	}
	return out
}

// c14kShared: the corners of the Publish message from the rawnats unit that are
// small enough to be sent to every stream.
func c14kShared(r *kit.RNG) []c14Corner {
	var out []c14Corner
	for _, c := range c14PublishCorners(r) {
		if len(c.Payload) <= 80<<10 {
			out = append(out, c)
		}
	}
	return out
}

func c14kClass(it c14kItem) string {
	if it.Class != "" {
		return it.Class
	}
	return c14CrashClass("stream", it.Data)
}

// c14kSchedule is the program of one child: a pure function of (seed, chunk,
// tier), except for the bytes of the `raw-sealed-value` items.
func c14kSchedule(seed uint64, chunk int, level int) []c14kStep {
	r := kit.NewRNG(kit.Mix(kit.Mix(seed, 0xC14B), uint64(chunk)))
	bodies := c14Bodies()
	shared := c14kShared(r)
	nSeeded := 110
	if level > 0 {
		nSeeded = 400
	}
	grid := kit.C14Grid(kit.NewRNG(kit.Mix(seed, 0xC14B0)), bodies, []byte{c14TPublish}, 0)
	var steps []c14kStep
	replMax := c14kBatchingOf(chunk).ReplMax
	burstSizes := []int{1, 1, 2, 3, 3, 4, 5, 8, 13}
	for si, k := range c14kKinds {
		items := c14kCorners(r, k, shared)
		for i := 0; i < nSeeded; i++ {
			var in kit.C14Input
			if i%4 == 3 {
				in = grid[r.Intn(len(grid))]
			} else {
				in = kit.C14Seeded(r, bodies, []byte{c14TPublish, c14TPublish, c14TPublish, c14TAck})
			}
			items = append(items, c14kItem{Data: in.Data, Tag: in.Tag})
		}
		// Every class at a seeded position; the empty payload additionally as the
		// very first and the very last message of the stream.
		for i := len(items) - 1; i > 0; i-- {
			j := r.Intn(i + 1)
			items[i], items[j] = items[j], items[i]
		}
		items = append([]c14kItem{{Class: "raw-empty", Data: []byte{}, Tag: "corner raw-empty (first message of the stream)"}}, items...)
		items = append(items, c14kItem{Class: "raw-empty", Data: []byte{}, Tag: "corner raw-empty (last message of the stream)"})
		var sendable []c14kItem
		for _, it := range items {
			if it.Sealed {
				sendable = append(sendable, it)
				continue
			}
			if ok, _ := c14SafeToSend("stream", it.Data); ok {
				it.Reply = r.Chance(1, 4)
				sendable = append(sendable, it)
			}
		}
		items = sendable
		roAt, rwAt := -1, -1
		if k.Readonly {
			// a writable head and tail, read-only in between
			roAt, rwAt = len(items)/5, len(items)*4/5
		}
		for i := 0; i < len(items); {
			if i == roAt {
				steps = append(steps, c14kStep{Stream: si, Op: "readonly-on"})
				roAt = -1
			}
			if i == rwAt {
				steps = append(steps, c14kStep{Stream: si, Op: "readonly-off"})
				rwAt = -1
			}
			n := burstSizes[r.Intn(len(burstSizes))]
			if k.OCC {
				// one message per fence: a refused message is then always followed
				// by a fence in the log, which keeps the alignment exact
				n = 1
			}
			st := c14kStep{Stream: si, Op: "burst"}
			for ; n > 0 && i < len(items) && i != roAt && i != rwAt; n-- {
				it := items[i]
				// (also alone: a message larger than the server's replication limit)
				beyond := !it.Sealed && (c14Reference(it.Data, c14TPublish).Beyond || (replMax > 0 && len(it.Data) > replMax))
				if beyond && len(st.Items) > 0 {
					break // a message the record format cannot hold travels alone (the server drops the batch it is in)
				}
				st.Items = append(st.Items, it)
				i++
				if beyond {
					break
				}
			}
			steps = append(steps, st)
		}
	}
	return steps
}

// ---------------------------------------------------------------- child

type c14kSpec struct {
	Seed    uint64   `json:"seed"`
	Chunk   int      `json:"chunk"`
	Level   int      `json:"level"`
	From    int      `json:"from"` // first step to execute
	Skip    []string `json:"skip"` // "<stream kind>|<class>" not sent (they were in a burst that killed a previous child)
	Log     string   `json:"log"`
	Out     string   `json:"out"`
	WorkDir string   `json:"workdir"`
}

type c14kExpect struct {
	Step     int
	Class    string
	Data     []byte
	Ref      c14Ref
	Tag      string
	Fence    bool
	FenceVal string
	Optional bool // may be absent; then the record at its place is one of the harness's fences
	Loose    bool // may be absent, whatever follows (sent while the stream was read-only)
}

type c14kStream struct {
	Kind    c14kKind
	Name    string
	Subject string
	p       *partition
	expect  []c14kExpect
	sent    int
}

type c14kRec struct {
	c14Stored
	Offset  int64
	Subject string
}

func c14kIsFenceVal(v []byte) bool {
	return bytes.HasPrefix(v, []byte(c14kFencePfx)) || string(v) == c14kProbe
}

func c14kBatchingOf(chunk int) c14kBatching {
	return c14kBatchings[chunk%len(c14kBatchings)]
}

func TestVerifC14RawKindsChild(t *testing.T) {
	sp := os.Getenv("C14K_SPEC")
	if sp == "" {
		t.Skip("child of TestVerifC14RawKinds")
	}
	var spec c14kSpec
	raw, err := os.ReadFile(sp)
	if err != nil {
		t.Fatal(err)
	}
	if err := json.Unmarshal(raw, &spec); err != nil {
		t.Fatal(err)
	}
	os.Setenv("VERIF_WORK", spec.WorkDir)
	if os.Getenv(c14kKeyEnv) == "" {
		os.Setenv(c14kKeyEnv, "0123456789abcdef0123456789abcdef")
	}
	res := &c14RawResult{Counts: map[string]int64{}}
	sigs := map[string]struct{}{}
	write := func() {
		res.Sigs = res.Sigs[:0]
		for s := range sigs {
			res.Sigs = append(res.Sigs, s)
		}
		out, _ := json.Marshal(res)
		os.WriteFile(spec.Out+".tmp", out, 0644)
		os.Rename(spec.Out+".tmp", spec.Out)
	}
	perGroup := map[string]int{}
	viol := func(fp, what string, replay map[string]any) {
		for _, v := range res.Viols {
			if v.FP == fp {
				res.Counts["violating_items"]++
				return
			}
		}
		// one defect shows under many input classes: at most 5 fingerprints that
		// differ in the class only
		group := fp[:strings.LastIndex(fp, ":")+1]
		if perGroup[group]++; perGroup[group] > 5 {
			res.Counts["violations_of_further_classes_not_listed"]++
			return
		}
		res.Viols = append(res.Viols, c14RawViol{fp, what, replay})
	}
	inconc := func(s string) { res.Inconc = append(res.Inconc, s) }
	giveUp := func(s string) {
		inconc(s)
		res.Done = true
		write()
	}

	logw, err := os.OpenFile(spec.Log, os.O_CREATE|os.O_WRONLY|os.O_APPEND, 0644)
	if err != nil {
		t.Fatal(err)
	}
	defer logw.Close()
	t0 := time.Now()
	stamp := func() { fmt.Fprintf(logw, "# t=%.1fs\n", time.Since(t0).Seconds()) }
	fmt.Fprintf(logw, "# phase start\n")

	batching := c14kBatchingOf(spec.Chunk)
	c, s, err := vfSingle("c14k", func(cfg *Config) {
		if batching.Max > 0 {
			cfg.BatchMaxMessages = batching.Max
		}
		cfg.BatchMaxTime = batching.Wait
		if batching.ReplMax > 0 {
			cfg.Clustering.ReplicationMaxBytes = int64(batching.ReplMax)
		}
		cfg.CursorsStream.Partitions = 1
		cfg.CursorsStream.ReplicationFactor = 1
		cfg.CursorsStream.AutoPauseTime = 0
	})
	if err != nil {
		giveUp("server did not start: " + err.Error())
		return
	}
	defer func() {
		// The verdicts are on disk by now; a server that does not stop is not
		// C14's matter and must not hold the unit up.
		done := make(chan struct{})
		go func() { c.Cleanup(); close(done) }()
		select {
		case <-done:
		case <-time.After(30 * time.Second):
			fmt.Fprintf(logw, "# shutdown did not return\n")
			os.RemoveAll(c.Dir)
			os.Exit(0)
		}
	}()
	codec, err := encryption.NewLocalEncryptionHandler()
	if err != nil {
		giveUp("harness codec: " + err.Error())
		return
	}

	yes := &client.NullableBool{Value: true}
	streams := make([]*c14kStream, len(c14kKinds))
	for i, k := range c14kKinds {
		st := &c14kStream{Kind: k, Name: "c14k-" + k.Name, Subject: "c14k.in." + k.Name}
		streams[i] = st
		if k.Cursors {
			st.Name = cursorsStream
			if !vfWait(c14kWatchdog, func() bool {
				p := s.metadata.GetPartition(cursorsStream, 0)
				return p != nil && p.IsLeader()
			}) {
				giveUp("the cursors stream did not come up")
				return
			}
			st.p = s.metadata.GetPartition(cursorsStream, 0)
			st.Subject = st.p.Subject
			continue
		}
		req := &client.CreateStreamRequest{Subject: st.Subject, Name: st.Name, ReplicationFactor: 1}
		if k.Encrypted {
			req.Encryption = yes
		}
		if k.OCC {
			req.OptimisticConcurrencyControl = yes
		}
		if k.Compact {
			req.CompactEnabled = yes
			req.SegmentMaxBytes = &client.NullableInt64{Value: 16 << 10}
			req.CleanerInterval = &client.NullableInt64{Value: 6 * 3600 * 1000} // cleaned by the harness, at a known moment
		}
		if err := c.CreateStream(req); err != nil {
			giveUp("create stream " + st.Name + ": " + err.Error())
			return
		}
		if _, err := c.PartitionLeader(st.Name, 0, c14kWatchdog); err != nil {
			giveUp(err.Error())
			return
		}
		st.p = s.metadata.GetPartition(st.Name, 0)
		if st.p == nil || (k.Encrypted != (st.p.encryptionHandler != nil)) || k.OCC != st.p.log.IsConcurrencyControlEnabled() {
			giveUp("stream " + st.Name + " does not have the configuration it was created with")
			return
		}
	}

	nc := c.NC
	acks := make(chan *nats.Msg, 65536)
	if _, err := nc.ChanSubscribe(c14AckPrefix+">", acks); err != nil {
		t.Fatal(err)
	}
	nc.Flush()
	mustMarshal := func(m pb.Message) []byte {
		b, err := pb.Marshal(m)
		if err != nil {
			panic(err)
		}
		return b
	}
	fenceNo := 0
	// fence: an acked publish after the burst.  NATS keeps the order of one
	// connection's messages on one subject and the leader handles them in that
	// order, so an ack for a fence sent after the burst proves every message of
	// the burst has been handled.  A fence lost with a dropped batch is resent.
	fence := func(st *c14kStream, step int) error {
		fmt.Fprintf(logw, "%d F %s\n", step, st.Kind.Name)
		sentAt := map[string]int{}
		start := time.Now()
		for attempt := 0; ; attempt++ {
			fenceNo++
			corr := fmt.Sprintf("c14kf%d", fenceNo)
			f := &client.Message{Value: []byte(c14kFencePfx + corr), AckInbox: c14AckPrefix + corr, CorrelationId: corr, AckPolicy: client.AckPolicy_LEADER, Offset: -1}
			if err := nc.Publish(st.Subject, kit.C14Encode(c14TPublish, mustMarshal(f), fenceNo%2 == 0)); err != nil {
				return err
			}
			sentAt[corr] = len(st.expect)
			st.expect = append(st.expect, c14kExpect{Step: step, Fence: true, FenceVal: c14kFencePfx + corr, Optional: true})
			if attempt > 0 {
				res.Counts["fence_resent"]++
			}
			// (a resend that was not needed only adds an optional fence)
			pause := 300 * time.Millisecond << uint(attempt)
			if pause > 3*time.Second {
				pause = 3 * time.Second
			}
			retry := time.After(pause)
		wait:
			for {
				select {
				case m := <-acks:
					res.Counts["acks_received"]++
					r := c14Reference(m.Data, c14TAck)
					if !r.May {
						continue
					}
					a := r.Want.(*client.Ack)
					if at, ok := sentAt[a.CorrelationId]; ok {
						if a.AckError != client.Ack_OK {
							viol("C14:fence-refused:"+st.Kind.Name, fmt.Sprintf("a regular publish (no expected offset) on the %s stream was answered with ack error %v after the raw messages", st.Kind.Name, a.AckError), map[string]any{"step": step})
							return fmt.Errorf("fence refused: %v", a.AckError)
						}
						st.expect[at].Optional = false
						return nil
					}
				case <-retry:
					break wait
				}
			}
			if time.Since(start) > c14kWatchdog {
				return errVfTimeout
			}
		}
	}
	setReadonly := func(st *c14kStream, on bool) error {
		ctx, cancel := context.WithTimeout(context.Background(), c14kWatchdog)
		defer cancel()
		if _, err := s.api.SetStreamReadonly(ctx, &client.SetStreamReadonlyRequest{Name: st.Name, Readonly: on}); err != nil {
			return err
		}
		if !vfWait(c14kWatchdog, func() bool { return st.p.IsReadonly() == on }) {
			return errVfTimeout
		}
		return nil
	}

	steps := c14kSchedule(spec.Seed, spec.Chunk, spec.Level)
	skip := map[string]bool{}
	for _, k := range spec.Skip {
		skip[k] = true
	}
	aborted := false
	readonlyNow := map[int]bool{}
	stamp()
	fmt.Fprintf(logw, "# phase spray\n")
	for si := spec.From; si < len(steps) && !aborted; si++ {
		step := steps[si]
		st := streams[step.Stream]
		switch step.Op {
		case "readonly-on", "readonly-off":
			on := step.Op == "readonly-on"
			if !on {
				// nothing of the read-only phase may still be queued when the
				// stream becomes writable again: no fence is possible here, so
				// what slips through is accepted (Loose) and counted.
				nc.Flush()
			}
			if err := setReadonly(st, on); err != nil {
				inconc(fmt.Sprintf("watchdog: %s of stream %s: %v", step.Op, st.Name, err))
				aborted = true
				break
			}
			readonlyNow[step.Stream] = on
			if !on {
				if err := fence(st, si); err != nil {
					inconc(fmt.Sprintf("watchdog: fence after the read-only phase did not complete: %v", err))
					aborted = true
				}
			}
			continue
		}
		var burst []c14kItem
		for _, it := range step.Items {
			if skip[st.Kind.Name+"|"+c14kClass(it)] {
				res.Counts["not_sent_class_crashed_earlier_child"]++
				continue
			}
			if it.Sealed {
				sealed, err := codec.Seal([]byte("c14k sealed by the harness"))
				if err != nil {
					inconc("harness codec: " + err.Error())
					continue
				}
				it.Data = append([]byte{}, sealed...)
			}
			burst = append(burst, it)
		}
		if len(burst) == 0 {
			continue
		}
		// log the whole burst, then send it
		for _, it := range burst {
			fmt.Fprintf(logw, "%d X %s %s %s\n", si, st.Kind.Name, c14kClass(it), hex.EncodeToString(it.Data))
		}
		for bi, it := range burst {
			var perr error
			if it.Reply {
				perr = nc.PublishRequest(st.Subject, fmt.Sprintf("c14k.reply.%d.%d", si, bi), it.Data)
			} else {
				perr = nc.Publish(st.Subject, it.Data)
			}
			if perr != nil {
				inconc(fmt.Sprintf("publish in step %d failed: %v", si, perr))
				aborted = true
				break
			}
			ref := c14Reference(it.Data, c14TPublish)
			class := c14kClass(it)
			st.sent++
			res.Counts["sent_"+st.Kind.Name]++
			res.Counts["sent_class_"+class]++
			e := c14kExpect{Step: si, Class: class, Data: it.Data, Ref: ref, Tag: it.Tag}
			// refusals that are part of the stream's contract: an expected offset
			// that is not the next one (a raw payload carries none = 0), a
			// read-only stream, a message beyond the record format
			tooLarge := batching.ReplMax > 0 && len(it.Data) > batching.ReplMax
			if tooLarge {
				res.Counts["sent_larger_than_replication_limit"]++
			}
			e.Optional = ref.Beyond || st.Kind.OCC || tooLarge
			e.Loose = readonlyNow[step.Stream]
			st.expect = append(st.expect, e)
			if len(res.Samples) < 6 && (si*7+bi)%97 == 5 {
				res.Samples = append(res.Samples, map[string]any{"stream_kind": st.Kind.Name, "batching": batching.Name, "payload_hex": c14Hex(it.Data), "made_by": it.Tag, "class": class, "burst_size": len(burst)})
			}
		}
		if aborted {
			break
		}
		res.Counts[fmt.Sprintf("bursts_of_%02d", len(burst))]++
		if readonlyNow[step.Stream] {
			continue
		}
		if err := fence(st, si); err != nil {
			inconc(fmt.Sprintf("watchdog: fence after step %d on the %s stream did not complete: %v", si, st.Kind.Name, err))
			aborted = true
			break
		}
		res.Counts["fences_completed"]++
	}
	if aborted {
		stamp()
		fmt.Fprintf(logw, "# phase done\n")
		res.Done = true
		write()
		return
	}

	// ---- afterwards, per stream: a regular publish is acked ...
	stamp()
	fmt.Fprintf(logw, "# phase verify\n")
	type plan struct {
		st       *c14kStream
		offsets  []int64       // committed offsets a subscription has to deliver, in order
		byOffset map[int64]int // offset -> index into st.expect
	}
	var plans []plan
	for _, st := range streams {
		kind := st.Kind.Name
		if st.sent == 0 {
			continue
		}
		stamp()
		fmt.Fprintf(logw, "# phase verify:%s\n", kind)
		probeOffset := int64(-1)
		if st.Kind.Cursors {
			// the reserved stream takes no API publishes; its probe is a fence
			if err := fence(st, -1); err != nil {
				inconc("watchdog: final fence on the cursors stream: " + err.Error())
				continue
			}
		} else {
			ctx, cancel := context.WithTimeout(context.Background(), c14kWatchdog)
			resp, err := s.api.Publish(ctx, &client.PublishRequest{Stream: st.Name, Value: []byte(c14kProbe), AckPolicy: client.AckPolicy_LEADER, ExpectedOffset: -1})
			cancel()
			switch {
			case err != nil && ctx.Err() != nil:
				inconc("watchdog: probe publish on " + kind + " not acked: " + err.Error())
				continue
			case err != nil:
				viol("C14:probe-publish-refused:"+kind, "after the raw messages the server refused a regular publish on the "+kind+" stream: "+err.Error(), nil)
				continue
			case resp.Ack == nil:
				viol("C14:probe-publish-refused:"+kind, "after the raw messages a regular publish (ack policy LEADER) on the "+kind+" stream returned no ack", nil)
				continue
			}
			probeOffset = resp.Ack.Offset
			res.Counts["probe_acked"]++
			st.expect = append(st.expect, c14kExpect{Step: -1, Fence: true, FenceVal: c14kProbe})
		}

		if !vfWait(c14kWatchdog, func() bool { return st.p.log.HighWatermark() == st.p.log.NewestOffset() }) {
			inconc("watchdog: the " + kind + " stream did not commit everything it stored")
			continue
		}
		// ---- ... the log holds, in order of arrival, one record per message
		// that was not refused: the decoded envelope or the bytes verbatim ...
		var recs []c14kRec
		holes := map[int64]string{} // offsets whose record the server's own accessors cannot read
		for start := int64(0); ; {
			lrecs, err := vfReadLog(st.p.log, start, true)
			for _, rc := range lrecs {
				v := rc.Value
				if st.Kind.Encrypted {
					if plain, uerr := codec.Read(v); uerr == nil {
						v = plain
						res.Counts["log_values_unsealed"]++
					} else {
						// Whether an encrypted stream may keep a value unsealed is
						// C17's question; here the record is compared as it is and
						// the subscription below decides whether it can be read.
						res.Counts["log_values_not_sealed_"+kind]++
					}
				}
				recs = append(recs, c14kRec{c14Stored{Key: rc.Key, Value: v, Headers: c14UserHeaders(rc.Headers)}, rc.Offset, string(rc.Headers["subject"])})
			}
			if err == nil {
				break
			}
			if !strings.Contains(err.Error(), "panic") {
				viol("C14:log-unreadable:"+kind, "reading the partition log of the "+kind+" stream after the raw messages failed: "+err.Error(), nil)
				break
			}
			bad := start
			if n := len(lrecs); n > 0 {
				bad = lrecs[n-1].Offset + 1
			}
			holes[bad] = err.Error()
			recs = append(recs, c14kRec{Offset: bad, Subject: "?"})
			if len(holes) > 20 || bad >= st.p.log.NewestOffset() {
				break
			}
			start = bad + 1
		}
		byOffset := map[int64]int{}
		j := 0
		synced := true
	align:
		for i, rc := range recs {
			if rc.Offset != int64(i) {
				viol("C14:stored-order:"+kind, fmt.Sprintf("%s stream: record %d has offset %d", kind, i, rc.Offset), nil)
				synced = false
				break
			}
			for {
				if j >= len(st.expect) {
					viol("C14:stored-count:"+kind, fmt.Sprintf("%s stream: record %d (value %s) corresponds to no message that was sent", kind, i, c14Hex(rc.Value)), nil)
					synced = false
					break align
				}
				e := st.expect[j]
				j++
				if herr, hole := holes[rc.Offset]; hole {
					// the record cannot be read: it belongs to the first
					// expectation that has to be there
					if e.Fence && e.Optional {
						continue
					}
					if e.Fence {
						e.Class, e.Tag = "harness-fence", "the harness's own acked publish"
					}
					byOffset[rc.Offset] = j - 1
					viol("C14:stored-unreadable:"+kind+":"+e.Class, fmt.Sprintf("%s stream: the message the server stored for a raw NATS payload (class %s, %s) cannot be read back from the partition log: %s", kind, e.Class, e.Tag, herr),
						map[string]any{"stream_kind": kind, "batching": batching.Name, "step": e.Step, "payload_hex": c14Hex(e.Data), "payload_len": len(e.Data), "made_by": e.Tag, "log_offset": rc.Offset, "read_error": herr})
					break
				}
				jk, what := "", ""
				if e.Fence {
					if string(rc.Value) != e.FenceVal {
						jk, what = "order", fmt.Sprintf("record %d should be %q, value is %s", i, e.FenceVal, c14Hex(rc.Value))
					}
				} else {
					jk, what = c14Judge(e.Data, e.Ref, rc.c14Stored)
				}
				if jk == "" {
					byOffset[rc.Offset] = j - 1
					if !e.Fence {
						res.Counts["stored_compared_log"]++
						if rc.Subject != st.Subject {
							viol("C14:stored-subject:"+kind, fmt.Sprintf("%s stream: record %d carries subject %q", kind, i, rc.Subject), nil)
						}
						form := "verbatim"
						if e.Ref.May && !(len(rc.Key) == 0 && len(rc.Headers) == 0 && bytes.Equal(rc.Value, e.Data)) {
							form = "decoded"
						}
						res.Counts["stored_"+form+"_"+kind]++
					}
					break
				}
				if e.Loose || (e.Optional && (e.Fence || c14kIsFenceVal(rc.Value))) {
					if !e.Fence {
						res.Counts["refused_"+kind]++
					}
					continue
				}
				if e.Fence {
					viol("C14:stored-order:"+kind, kind+" stream: "+what, nil)
					synced = false
					break align
				}
				byOffset[rc.Offset] = j - 1
				viol("C14:stored:"+jk+":"+kind+":"+e.Class, kind+" stream: "+what, map[string]any{"stream_kind": kind, "batching": batching.Name, "step": e.Step, "payload_hex": c14Hex(e.Data), "payload_len": len(e.Data),
					"made_by": e.Tag, "reference": e.Ref.Env.VerdictName() + "/" + e.Ref.Class, "log_offset": i})
				break
			}
		}
		if synced {
			for ; j < len(st.expect); j++ {
				if e := st.expect[j]; !e.Optional && !e.Loose {
					what := "fence " + e.FenceVal
					if !e.Fence {
						what = fmt.Sprintf("raw message of step %d (class %s, %s, %d bytes)", e.Step, e.Class, e.Tag, len(e.Data))
					}
					viol("C14:stored-count:"+kind, fmt.Sprintf("%s stream: %d records; nothing was stored for %s", kind, len(recs), what), nil)
					synced = false
					break
				}
				if !st.expect[j].Fence {
					res.Counts["refused_"+kind]++
				}
			}
		}
		if synced && probeOffset >= 0 && probeOffset != int64(len(recs)-1) {
			viol("C14:probe-offset:"+kind, fmt.Sprintf("%s stream: the probe publish was acked at offset %d but the log ends at offset %d", kind, probeOffset, len(recs)-1), nil)
		}
		res.Counts["log_records_checked"] += int64(len(recs))
		if !synced {
			res.Counts["streams_not_read_back_after_misaligned_log"]++
			continue
		}
		pl := plan{st: st, byOffset: byOffset}
		if st.Kind.Compact {
			// ---- a compacted stream is cleaned now, with no reader on it ...
			if frame, text, panicked := c14Safe(func() { err = st.p.log.Clean() }); panicked {
				viol("C14:"+frame+":clean:"+kind, "cleaning (compacting) the "+kind+" stream after the raw messages panicked: "+text, nil)
				continue
			} else if err != nil {
				viol("C14:clean-failed:"+kind, "cleaning (compacting) the "+kind+" stream after the raw messages failed: "+err.Error(), nil)
				continue
			}
			after, err := vfReadLog(st.p.log, 0, false)
			if err != nil {
				viol("C14:log-unreadable:"+kind, "reading the compacted log of the "+kind+" stream failed: "+err.Error(), nil)
				continue
			}
			for _, rc := range after {
				if _, ok := byOffset[rc.Offset]; !ok {
					viol("C14:compacted-unknown-offset:"+kind, fmt.Sprintf("%s stream: after compaction the log holds offset %d, which it did not hold before", kind, rc.Offset), nil)
					continue
				}
				pl.offsets = append(pl.offsets, rc.Offset)
			}
			res.Counts["records_removed_by_compaction_"+kind] += int64(len(recs) - len(after))
			if n := len(after); n == 0 || after[n-1].Offset != int64(len(recs)-1) {
				viol("C14:compacted-lost-newest:"+kind, fmt.Sprintf("%s stream: compaction removed the newest message (offset %d)", kind, len(recs)-1), nil)
			}
		} else {
			for _, rc := range recs {
				pl.offsets = append(pl.offsets, rc.Offset)
			}
		}
		plans = append(plans, pl)
	}
	// Everything found so far is on disk before the subscriptions are tried: a
	// record that cannot be read back may kill the process there.
	res.Done = true
	write()

	// ---- ... and a subscription from the earliest offset delivers every
	// stored message and is not ended by any of them.
	readBack := func(pass string) {
		for _, pl := range plans {
			st, kind := pl.st, pl.st.Kind.Name
			stamp()
			fmt.Fprintf(logw, "# phase %ssubscribe:%s\n", pass, kind)
			next := 0
			for terminations := 0; next < len(pl.offsets) && terminations < 40; {
				req := &client.SubscribeRequest{Stream: st.Name, Partition: 0, StartPosition: client.StartPosition_EARLIEST}
				if next > 0 {
					req.StartPosition, req.StartOffset = client.StartPosition_OFFSET, pl.offsets[next]
				}
				ctx, cancel := context.WithCancel(context.Background())
				sub, serr := s.api.SubscribeInternal(ctx, req)
				if serr != nil {
					cancel()
					viol("C14:subscribe-refused:"+kind, fmt.Sprintf("after the raw messages the server refused a subscription on the %s stream from offset %d: %v", kind, pl.offsets[next], serr), nil)
					break
				}
				timer := time.NewTimer(c14kWatchdog)
				stop := false
			recv:
				for next < len(pl.offsets) {
					ei, known := pl.byOffset[pl.offsets[next]]
					if !known {
						res.Counts["offsets_without_expectation"]++
						next++
						continue
					}
					e := st.expect[ei]
					select {
					case m := <-sub.Messages():
						timer.Reset(c14kWatchdog)
						if m.Offset != pl.offsets[next] {
							viol("C14:subscription-offsets:"+kind, fmt.Sprintf("%s stream: the subscription delivered offset %d where offset %d (class %s) is the next stored message", kind, m.Offset, pl.offsets[next], e.Class),
								map[string]any{"stream_kind": kind, "batching": batching.Name, "payload_hex": c14Hex(e.Data), "made_by": e.Tag})
							stop = true
							break recv
						}
						next++
						got := c14Stored{Key: m.Key, Value: m.Value, Headers: c14UserHeaders(m.Headers)}
						res.Counts["subscription_messages_checked"]++
						if e.Fence {
							if string(m.Value) != e.FenceVal {
								viol("C14:delivered:fence:"+kind, fmt.Sprintf("%s stream: offset %d was delivered as %s, the harness's own publish %q is stored there", kind, m.Offset, c14Hex(m.Value), e.FenceVal), nil)
							}
							continue
						}
						if jk, what := c14Judge(e.Data, e.Ref, got); jk != "" {
							viol("C14:delivered:"+jk+":"+kind+":"+e.Class, fmt.Sprintf("%s stream, subscription, offset %d: %s", kind, m.Offset, what), map[string]any{"stream_kind": kind, "batching": batching.Name, "step": e.Step,
								"payload_hex": c14Hex(e.Data), "payload_len": len(e.Data), "made_by": e.Tag, "reference": e.Ref.Env.VerdictName() + "/" + e.Ref.Class, "log_offset": m.Offset})
							continue
						}
						if m.Subject != st.Subject {
							viol("C14:stored-subject:"+kind, fmt.Sprintf("%s stream: the message delivered for offset %d carries subject %q", kind, m.Offset, m.Subject), nil)
						}
						form := "verbatim"
						if e.Ref.May && !(len(got.Key) == 0 && len(got.Headers) == 0 && bytes.Equal(got.Value, e.Data)) {
							form = "decoded"
						}
						if pass == "" {
							sigs[kind+"|"+batching.Name+"|"+e.Class+"|"+form] = struct{}{}
						}
						res.Counts[strings.ReplaceAll(pass, " ", "_")+"read_back_"+kind]++
					case sterr := <-sub.Errors():
						class := e.Class
						if e.Fence {
							class = "harness-fence"
						}
						viol("C14:stored-unreadable:"+kind+":"+class, fmt.Sprintf("%s stream: a %ssubscription from the earliest offset was terminated at offset %d with %q: the message stored there for a raw NATS payload (class %s, %s) cannot be delivered, and nothing after it can be reached by a subscription that starts at or before it",
							kind, pass, pl.offsets[next], sterr.Message(), class, e.Tag),
							map[string]any{"stream_kind": kind, "batching": batching.Name, "step": e.Step, "payload_hex": c14Hex(e.Data), "payload_len": len(e.Data), "made_by": e.Tag, "log_offset": pl.offsets[next],
								"subscription_error": sterr.Message(), "delivered_before": next})
						res.Counts["subscriptions_terminated_"+kind]++
						terminations++
						next++ // go on behind it
						break recv
					case <-timer.C:
						inconc(fmt.Sprintf("watchdog: the subscription on the %s stream delivered %d of %d messages", kind, next, len(pl.offsets)))
						stop = true
						break recv
					}
				}
				timer.Stop()
				sub.Close()
				cancel()
				if stop {
					break
				}
			}
			if st.Kind.Cursors && pass == "" {
				// the server's own use of that stream still works: a cursor set now is
				// fetched back from the log (cache purged), cursors whose key the raw
				// messages wrote under are fetched without hanging or dying
				fmt.Fprintf(logw, "# phase cursors\n")
				ctx, cancel := context.WithTimeout(context.Background(), c14kWatchdog)
				if _, err := s.api.SetCursor(ctx, &client.SetCursorRequest{Stream: c14kCursorStr, Partition: 0, CursorId: "c14kfresh", Offset: 41}); err != nil {
					if ctx.Err() != nil {
						inconc("watchdog: SetCursor after the raw messages: " + err.Error())
					} else {
						viol("C14:cursor-set-refused", "after raw messages on the cursors stream's subject SetCursor failed: "+err.Error(), nil)
					}
				} else {
					s.cursors.cache.Purge()
					resp, err := s.api.FetchCursor(ctx, &client.FetchCursorRequest{Stream: c14kCursorStr, Partition: 0, CursorId: "c14kfresh"})
					switch {
					case err != nil && ctx.Err() != nil:
						inconc("watchdog: FetchCursor after the raw messages: " + err.Error())
					case err != nil:
						viol("C14:cursor-fetch-failed", "after raw messages on the cursors stream's subject the cursor just set cannot be fetched: "+err.Error(), nil)
					case resp.Offset != 41:
						viol("C14:cursor-fetch-wrong", fmt.Sprintf("after raw messages on the cursors stream's subject the cursor just set to 41 is fetched as %d", resp.Offset), nil)
					default:
						res.Counts["cursor_round_trips"]++
					}
					s.cursors.cache.Purge()
					if _, err := s.api.FetchCursor(ctx, &client.FetchCursorRequest{Stream: c14kCursorStr, Partition: 0, CursorId: c14kCursorID}); err != nil && ctx.Err() != nil {
						inconc("watchdog: FetchCursor of the key the raw messages wrote under: " + err.Error())
					} else {
						res.Counts["cursor_fetches_over_raw_records"]++
					}
				}
				cancel()
			}
			write()
		}
	}
	readBack("")

	// ---- the same once more from a server that has recovered these logs from
	// disk (same data directory, same NATS server).
	if len(plans) > 0 && kit.EnvInt("C14K_RESTART", 1) == 1 {
		stamp()
		fmt.Fprintf(logw, "# phase restart\n")
		stopped := make(chan error, 1)
		go func() { stopped <- c.StopNode("a") }()
		var stopErr error
		select {
		case stopErr = <-stopped:
		case <-time.After(c14kWatchdog):
			stopErr = errVfTimeout
		}
		if stopErr != nil {
			inconc("restart pass not done, stopping the server: " + stopErr.Error())
		} else if err := c.StartNode("a"); err != nil {
			viol("C14:restart-failed", "the server does not start any more on the data directory that holds the messages stored for the raw NATS payloads: "+err.Error(), nil)
		} else if _, err := c.MetaLeader(c14kWatchdog); err != nil {
			// (also keeps the harness from stopping a server that is still
			// acquiring metadata leadership, which the server does not survive)
			inconc("after the restart: " + err.Error())
		} else {
			s = c.Nodes["a"].Server()
			var again []plan
			for _, pl := range plans {
				st := pl.st
				if _, err := c.PartitionLeader(st.Name, 0, c14kWatchdog); err != nil {
					inconc("after the restart: " + err.Error())
					continue
				}
				st.p = s.metadata.GetPartition(st.Name, 0)
				last := pl.offsets[len(pl.offsets)-1]
				if st.p == nil || !vfWait(c14kWatchdog, func() bool { return st.p.log.HighWatermark() >= last }) {
					inconc("watchdog: after the restart the " + st.Kind.Name + " stream did not commit what it had stored")
					continue
				}
				again = append(again, pl)
			}
			plans = again
			res.Counts["restarts"]++
			readBack("restarted-server ")
		}
	}
	stamp()
	fmt.Fprintf(logw, "# phase done\n")
	res.Done = true
	write()
}

// ---------------------------------------------------------------- parent

// c14kLastBurst: the items of the last burst a child logged, its step, stream
// kind and the last phase line.
func c14kLastBurst(path string) (step int, kind string, classes []string, hexes []string, phase string) {
	step = -1
	raw, err := os.ReadFile(path)
	if err != nil {
		return
	}
	for _, ln := range strings.Split(string(raw), "\n") {
		if strings.HasPrefix(ln, "# phase ") {
			phase = strings.TrimPrefix(ln, "# phase ")
			continue
		}
		fs := strings.Fields(ln)
		if len(fs) >= 4 && fs[1] == "X" {
			var n int
			fmt.Sscanf(fs[0], "%d", &n)
			if n != step {
				step, classes, hexes = n, nil, nil
			}
			kind = fs[2]
			classes = append(classes, fs[3])
			h := ""
			if len(fs) >= 5 {
				h = fs[4]
			}
			hexes = append(hexes, h)
		}
	}
	return
}

func TestVerifC14RawKinds(t *testing.T) {
	rep := kit.NewReport("C14", "rawkinds")
	defer rep.Write()
	rep.SetRule("per child process one single-node server (own nats-server, race build, LIFTBRIDGE_ENCRYPTION_KEY set) with one stream of each kind {plain, encrypted, optimistic concurrency control, compacted with 16 KiB segments, encrypted+occ+compacted, read-only for the middle of its input, the reserved cursors stream}; children differ in the server's batching settings and replication size limit {default; 4 messages / 3 ms wait / 48 KiB; 3 / no wait; 64 / 1 ms / 1 KiB}. Every stream receives on its NATS subject, from one connection, the corner classes of the payload space (empty payload - also as first and last message -, 1 byte, text, magic only, all byte values, 64 KiB, a value sealed by the server's own codec sent raw, valid envelopes of other types with and without payload, publish envelopes with no fields / absent / empty-but-present key, value, header key, header value / each ack policy / ack inbox / the small corners of the rawnats unit; with expected offset -1 on occ streams; under a cursor's key on the cursors stream) at seeded positions, plus a seeded slice of the structure-aware corpus, in bursts of 1..13 messages (logged before they are sent) followed by one acked fence publish. A dead child = violation naming the logged burst. Afterwards per stream: a regular publish is acked at the expected offset; the log holds one record per message in arrival order, each = the decoded envelope's key/value/headers or the bytes verbatim (after unsealing on encrypted streams), refusals only where the stream's contract has them (expected offset mismatch, read-only, beyond the record format, larger than the replication limit); compacted streams are then cleaned; a subscription from the EARLIEST offset must deliver every stored (surviving) message with the content that was sent and must not be terminated: a termination at offset k is a violation naming the payload stored at k, and the subscription is resumed behind it; the server is then stopped and started again on the same data directory and the subscriptions are repeated. evaluations = raw messages sent; non-trivial = message read back through a subscription; distinct = (stream kind, batching, input class, stored form)")
	rep.Assume("which of a refused / accepted pair an optimistic-concurrency or read-only stream chooses is not judged here (C16); whether an encrypted stream may keep some value unsealed is not judged here (C17): only that whatever is stored is delivered as what was sent")
	rep.Assume("compaction may remove any message but the newest; which ones is not judged here (C08)")
	rep.Assume("decodable publishes that name a foreign ack inbox are not sent; paused streams have no subscriber on their subject and are not sprayed")

	work := os.Getenv("VERIF_WORK")
	if work == "" {
		work = t.TempDir()
	}
	chunks := kit.EnvInt("C14K_CHUNKS", kit.Scale(2, 8))
	var mu sync.Mutex
	sigs := map[string]struct{}{}
	evals := int64(0)
	kit.Parallel(chunks, kit.Scale(2, 4), func(chunk int) {
		steps := c14kSchedule(kit.Seed(), chunk, kit.Scale(0, 1))
		from := 0
		var skip []string
		for attempt := 0; from < len(steps); attempt++ {
			if attempt > 8 {
				rep.Inconc(fmt.Sprintf("chunk %d: more than 8 crashes, steps from %d not executed", chunk, from))
				return
			}
			base := filepath.Join(work, fmt.Sprintf("kinds-chunk%d-try%d", chunk, attempt))
			spec := c14kSpec{Seed: kit.Seed(), Chunk: chunk, Level: kit.Scale(0, 1), From: from, Skip: skip,
				Log: base + ".inputs.log", Out: base + ".result.json", WorkDir: work}
			raw, _ := json.Marshal(spec)
			os.WriteFile(base+".spec.json", raw, 0644)
			ctx, cancel := context.WithTimeout(context.Background(), 8*time.Minute)
			self := os.Getenv("VERIF_SELF")
			if self == "" {
				self, _ = os.Executable()
			}
			cmd := exec.CommandContext(ctx, self, "-test.run", "^TestVerifC14RawKindsChild$", "-test.count", "1", "-test.timeout", "0")
			key := "0123456789abcdef0123456789abcdef"
			if chunk%2 == 1 {
				key = key[:16]
			}
			cmd.Env = append(os.Environ(), "C14K_SPEC="+base+".spec.json", c14kKeyEnv+"="+key)
			var outb bytes.Buffer
			cmd.Stdout, cmd.Stderr = &outb, &outb
			err := cmd.Run()
			timedOut := ctx.Err() != nil
			cancel()
			os.WriteFile(base+".output.txt", outb.Bytes(), 0644)
			tail := outb.String()
			if k := strings.Index(tail, "panic: "); k > 0 {
				tail = tail[k:]
			} else if k := strings.Index(tail, "fatal error: "); k > 0 {
				tail = tail[k:]
			}
			if len(tail) > 5000 {
				tail = tail[:5000]
			}
			step, kind, classes, hexes, phase := c14kLastBurst(spec.Log)
			// Stopping a server that is just acquiring metadata leadership makes
			// its leadership loop panic ("error on metadata leadership step down:
			// raft is already shutdown"): the harness's own Stop, no payload
			// involved, outside C14.
			ownShutdown := (phase == "done" || phase == "restart") && strings.Contains(outb.String(), "panic: error on metadata leadership step down")
			var r c14RawResult
			if raw, rerr := os.ReadFile(spec.Out); rerr == nil && json.Unmarshal(raw, &r) == nil && r.Done {
				mu.Lock()
				for k, v := range r.Counts {
					rep.Count(k, v)
					if strings.HasPrefix(k, "sent_") && !strings.HasPrefix(k, "sent_class_") {
						evals += v
					}
				}
				for _, s := range r.Sigs {
					sigs[s] = struct{}{}
				}
				mu.Unlock()
				for _, v := range r.Viols {
					rep.Violation(v.FP, v.What, v.Replay)
				}
				for _, s := range r.Inconc {
					rep.Inconc(fmt.Sprintf("chunk %d (%s): %s", chunk, c14kBatchingOf(chunk).Name, s))
				}
				for _, s := range r.Samples {
					rep.Sample(s)
				}
				died := err != nil && !timedOut && strings.Contains(outb.String(), "\ngoroutine ")
				if died && ownShutdown {
					rep.Count("children_died_in_the_servers_shutdown_race", 1)
					if phase == "restart" {
						rep.Inconc(fmt.Sprintf("chunk %d: restart pass not done: the server died while the harness stopped it (metadata leadership step-down during shutdown, outside C14)", chunk))
					}
					died = false
				}
				if !died {
					rep.Count("children_completed", 1)
					return
				}
				// The child had written its findings and died afterwards (reading
				// back / serving the subscriptions).
				rep.Count("child_deaths", 1)
				cl, frame := c14CrashInfo(outb.String())
				where := strings.TrimPrefix(strings.TrimPrefix(phase, "restarted-server "), "subscribe:")
				fp := "C14:" + frame + ":read-back:" + where
				for _, v := range r.Viols {
					if strings.HasPrefix(v.FP, "C14:stored-unreadable:"+where+":") {
						fp = v.FP
					}
				}
				rep.Violation(fp, fmt.Sprintf("the server process died in phase %q, while reading back the messages it had stored for the raw NATS payloads: %s", phase, cl),
					map[string]any{"chunk": chunk, "batching": c14kBatchingOf(chunk).Name, "child_output": tail})
				return
			}
			if timedOut {
				rep.Inconc(fmt.Sprintf("chunk %d: watchdog expired on the child process (phase %q)", chunk, phase))
				return
			}
			cl, frame := c14CrashInfo(outb.String())
			rep.Count("child_deaths", 1)
			if step < 0 || phase != "spray" {
				if phase == "start" || phase == "" || (phase == "spray" && step < 0) {
					rep.Inconc(fmt.Sprintf("chunk %d: child died before sending anything (err=%v): %s", chunk, err, cl))
				} else {
					rep.Violation("C14:"+frame+":read-back:"+strings.TrimPrefix(strings.TrimPrefix(phase, "verify:"), "subscribe:"), fmt.Sprintf("the server process died in phase %q after the raw messages: %s", phase, cl),
						map[string]any{"chunk": chunk, "from": from, "batching": c14kBatchingOf(chunk).Name, "child_output": tail})
				}
				return
			}
			// died during the spray: the culprit is in the last logged burst
			uniq := map[string]bool{}
			for _, cl := range classes {
				uniq[cl] = true
				skip = append(skip, kind+"|"+cl)
			}
			class := "burst"
			if len(uniq) == 1 {
				class = classes[0]
			}
			mu.Lock()
			evals += int64(len(classes))
			mu.Unlock()
			var shown []string
			for _, h := range hexes {
				b, _ := hex.DecodeString(h)
				shown = append(shown, c14Hex(b))
			}
			rep.Violation("C14:"+frame+":"+kind+":"+class, fmt.Sprintf("the server process died after receiving a burst of %d raw NATS message(s) on the subject of its %s stream (classes %v): %s", len(classes), kind, kit.SortedKeys(uniq), cl),
				map[string]any{"chunk": chunk, "batching": c14kBatchingOf(chunk).Name, "step": step, "stream_kind": kind, "burst_classes": classes, "burst_payloads_hex": shown, "child_output": tail})
			sort.Strings(skip)
			from = step + 1
		}
	})
	for i := int64(0); i < evals; i++ {
		rep.Eval()
	}
	for s := range sigs {
		rep.Nontrivial(s)
	}
}
