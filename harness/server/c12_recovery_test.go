//go:build verif

package server

// C12, FSM level, state class "servers that REBUILD their groups": besides the
// servers that apply every committed operation live (x, z, y of
// c12_fsm_test.go) every history is also applied to two restarted incarnations
// of server x (same server id, own data directory):
//
//   server r  (replay)    applies ops[0:replayK] with recovered=true, exactly
//             as Server.Apply does while it replays its Raft log after a
//             restart (groups are created in recovery mode, deleted streams are
//             tombstoned), then Server.finishedRecovery(index of the last
//             replayed entry) starts the groups; the rest of the history is
//             applied live.  replayK is seeded; every third history is replayed
//             completely.
//   server p  (snapshot)  Server.Snapshot()+Persist of x taken after
//             ops[0:snapK] is Restore()d; then either nothing is replayed (the
//             snapshot covers the log: Server.Apply calls startRecovered before
//             the next entry) or ops[snapK:snapJ] are replayed with
//             recovered=true followed by finishedRecovery; the rest is applied
//             live.
//
// From the moment its groups are started a restarted server is a server of the
// cluster like any other: at every later quiescent point it must satisfy the
// C12 oracle by itself (exactly one subscribed member per partition, ...),
// GetConsumerGroupAssignments must serve what it holds, and it must hold the
// same assignments as x for the same group epoch (a member may have fetched
// its assignment before the restart, another one after it).  States inside the
// recovery window are not judged: nothing is handed out there (no timers).

import (
	"bytes"
	"fmt"
	"io"

	kit "github.com/liftbridge-io/liftbridge/internal/verifkit"
)

type c12Sink struct {
	bytes.Buffer
	closed, cancelled bool
}

func (s *c12Sink) ID() string    { return "c12" }
func (s *c12Sink) Cancel() error { s.cancelled = true; return nil }
func (s *c12Sink) Close() error  { s.closed = true; return nil }

// planRecovery draws the split points (after the history was generated, so the
// histories of a seed are what they were before this state class existed).
func (r *c12FsmRun) planRecovery(rng *kit.RNG) {
	n := len(r.ops)
	r.replayK = n
	if !rng.Chance(1, 3) {
		r.replayK = rng.Range(1, n)
	}
	r.snapK = rng.Range(1, n)
	r.snapJ = r.snapK
	if r.snapK < n && rng.Bool() {
		r.snapJ = rng.Range(r.snapK+1, n)
	}
	r.recCompared = map[string]int{}
	r.recMultiStarts = map[string]int{}
	r.snapDiffers = map[string]int{}
}

func (r *c12FsmRun) recoveryNote() string {
	return fmt.Sprintf("server r = restarted x: ops[0:%d] applied with recovered=true, then finishedRecovery, rest live; server p = restarted x: Restore(Snapshot of x after ops[0:%d]), ops[%d:%d] applied with recovered=true, then started (finishedRecovery, or startRecovered when nothing is replayed), rest live", r.replayK, r.snapK, r.snapK, r.snapJ)
}

// modelMultiStream: some group has a member subscribed to >= 2 streams that
// shares one of them with another member — the situation in which the
// assignment of a stream depends on when it was last balanced.
func (r *c12FsmRun) modelMultiStream() bool {
	for _, g := range r.model.groups {
		for id, ss := range g {
			if len(ss) < 2 {
				continue
			}
			for s := range ss {
				for id2, ss2 := range g {
					if id2 != id && ss2[s] {
						return true
					}
				}
			}
		}
	}
	return false
}

// subscribedStreams: how many streams of the group have a subscriber.
func (r *c12FsmRun) subscribedStreams(gid string) int {
	set := map[string]bool{}
	for _, ss := range r.model.groups[gid] {
		for s := range ss {
			set[s] = true
		}
	}
	return len(set)
}

func (r *c12FsmRun) recoveryStarted(mode string) {
	if len(r.model.groups) > 0 {
		r.recMultiStarts[mode+":groups_started"] += len(r.model.groups)
	}
	if r.modelMultiStream() {
		r.recMultiStarts[mode+":started_with_members_sharing_>=2_streams"]++
	}
}

// judgeRecovered: the restarted server sv (groups started) against x at the
// same position of the history, and by itself.  Returns false when sv showed a
// violation (the case goes on without it).
func (r *c12FsmRun) judgeRecovered(sv *c12Srv, ref map[string]*c12View, step int, mode string) bool {
	vs := r.views(sv)
	for _, gid := range c12Keys(r.model.groups) {
		va, vb := ref[gid], vs[gid]
		if va == nil || vb == nil {
			continue // a missing group is reported by checkServer below
		}
		r.recCompared[mode]++
		wit := func() map[string]interface{} {
			return r.witness(step, map[string]interface{}{"group": gid, "group_on_x": va.String(), "group_on_" + sv.role: vb.String(), "history_truth": r.truth(gid).String()})
		}
		if va.Epoch != vb.Epoch {
			r.report(mode, "epochs-disagree", fmt.Sprintf("group %s after %s: the restarted server %s has group epoch %d, server x which applied the same operations live has %d: x: %s | %s: %s", gid, r.ops[step], sv.role, vb.Epoch, va.Epoch, va, sv.role, vb), wit(), vb, gid)
			r.failed = false
			return false
		}
		if mode == "snapshot" && r.pNoCompare {
			continue
		}
		if c12SameAssignments(va, vb) {
			continue
		}
		class := "servers-disagree"
		if mode == "snapshot" {
			// A snapshot carries the members, not the assignments: Restore
			// re-balances from the member list.  In a group with one subscribed
			// stream the assignment is a function of the member set, so this must
			// agree; with several streams it is history dependent.
			if r.subscribedStreams(gid) <= 1 {
				class = "servers-disagree:single-stream"
			}
			r.snapDiffers[class]++
			r.pNoCompare = true
		}
		r.report(mode, class, fmt.Sprintf("group %s after %s: the restarted server %s and server x (same server id, same committed operations) hold different assignments for the same group epoch %d: x: %s | %s: %s", gid, r.ops[step], sv.role, va.Epoch, va, sv.role, vb), wit(), vb, gid)
		r.failed = false
		if mode != "snapshot" {
			return false
		}
	}
	r.checkServer(sv, step, mode)
	if r.failed {
		r.failed = false
		return false
	}
	return true
}

// stepReplay drives server r for one operation of the history.
func (r *c12FsmRun) stepReplay(step int, op c12FsmOp, ref map[string]*c12View) {
	sv := r.srv["r"]
	if sv == nil || r.rOut {
		return
	}
	recovered := step < r.replayK
	if _, err := sv.s.apply(op.raftLog(r.caseNo), op.Index, recovered); err != nil {
		r.rOut = true
		r.rep.Violation("C12:fsm:replay:apply-error", fmt.Sprintf("server r: apply of %s (recovered=%v) failed: %v — the real FSM panics on this", op, recovered, err), r.witness(step, nil))
		return
	}
	sv.quiesce()
	if recovered {
		if step != r.replayK-1 {
			return // still replaying
		}
		if _, _, err := sv.s.finishedRecovery(op.Index); err != nil {
			r.rOut = true
			r.rep.Violation("C12:fsm:replay:finished-recovery-error", fmt.Sprintf("server r: finishedRecovery(%d) failed: %v — Server.Apply panics on this", op.Index, err), r.witness(step, nil))
			return
		}
		sv.quiesce()
		r.recoveryStarted("replay")
	}
	if !r.judgeRecovered(sv, ref, step, "replay") {
		r.rOut = true
	}
}

// stepSnapshot drives server p for one operation of the history.
func (r *c12FsmRun) stepSnapshot(step int, op c12FsmOp, ref map[string]*c12View) {
	sv := r.srv["p"]
	if sv == nil || r.pOut || step < r.snapK-1 {
		return
	}
	fail := func(class, what string) {
		r.pOut = true
		r.rep.Violation("C12:fsm:snapshot:"+class, what, r.witness(step, nil))
	}
	started := false
	switch {
	case step == r.snapK-1:
		x := r.srv["x"]
		snap, err := x.s.Snapshot()
		if err != nil {
			fail("snapshot-error", fmt.Sprintf("Snapshot() of server x after %s failed: %v", op, err))
			return
		}
		sink := &c12Sink{}
		if err := snap.Persist(sink); err != nil || !sink.closed || sink.cancelled {
			fail("snapshot-error", fmt.Sprintf("Persist of the snapshot of server x after %s failed: %v (closed=%v cancelled=%v)", op, err, sink.closed, sink.cancelled))
			return
		}
		snap.Release()
		if err := sv.s.Restore(io.NopCloser(bytes.NewReader(sink.Bytes()))); err != nil {
			fail("restore-error", fmt.Sprintf("Restore of the snapshot of server x taken after %s failed: %v", op, err))
			return
		}
		if r.snapJ == r.snapK {
			// nothing to replay: Server.Apply starts the restored state before it
			// applies the next entry
			if _, _, err := sv.s.startRecovered(); err != nil {
				fail("finished-recovery-error", fmt.Sprintf("startRecovered after Restore failed: %v — Server.Apply panics on this", err))
				return
			}
			started = true
		}
	default:
		recovered := step < r.snapJ
		if _, err := sv.s.apply(op.raftLog(r.caseNo), op.Index, recovered); err != nil {
			fail("apply-error", fmt.Sprintf("server p: apply of %s (recovered=%v) after Restore failed: %v — the real FSM panics on this", op, recovered, err))
			return
		}
		sv.quiesce()
		if recovered && step == r.snapJ-1 {
			if _, _, err := sv.s.finishedRecovery(op.Index); err != nil {
				fail("finished-recovery-error", fmt.Sprintf("server p: finishedRecovery(%d) failed: %v — Server.Apply panics on this", op.Index, err))
				return
			}
			started = true
		}
	}
	sv.quiesce()
	if step < r.snapJ-1 {
		return // still replaying the suffix
	}
	if started {
		r.recoveryStarted("snapshot")
	}
	if !r.judgeRecovered(sv, ref, step, "snapshot") {
		r.pOut = true
	}
}
