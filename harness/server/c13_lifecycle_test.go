//go:build verif

package server

// C13, event class "partition lifecycle": the seeded schedules of group
// subscribes / cancellations / loop exits are interleaved with what happens to
// the partition itself between (and concurrently with) those actions:
//
//   bounce   the server loses the partition leadership and regains it:
//            partition.SetLeader(other, e+1) (-> becomeFollower) then
//            partition.SetLeader(self, e+2) (-> becomeLeader) — exactly what
//            the FSM does when it applies two ChangeLeader operations
//   follow   leadership lost only (regained by a later "lead"); while the
//            server is not the leader, group subscribes are refused by
//            api.Subscribe and therefore not issued (the harness applies the
//            same gate), cancellations and loop exits go on
//   lead     SetLeader(self, e+1): regained, or re-elected with a new leader
//            epoch while leading (stopLeading + becomeLeader)
//   ro / rw  partition.SetReadonly(true / false): loops at the end of the log
//            end by themselves with "End of readonly partition"
//   pause / resume   api.PauseStream (the commit log is closed, every loop
//            ends) and the automatic resume by a publish (the partition object
//            is REPLACED by a new one)
//
// Subscribe loops read the local log and survive a leadership change, so all
// of the monitor's invariants must hold across these events unchanged: at most
// one ACTIVE subscription per group, the ACTIVE one is the subscription the
// partition names as the group's holder, an older epoch is refused while a
// newer holder exists, and nobody is cancelled without an equal/newer
// subscriber.  A subscription that ENDS because of an event (log closed, end of
// a read-only log) is an ordinary ending.  After a pause the harness waits
// until every subscription has ended (their consumers are un-gated first) — a
// logical wait; a subscription that is still ACTIVE after that is judged like
// any other.

import (
	"context"
	"fmt"
	"testing"
	"time"

	client "github.com/liftbridge-io/liftbridge-api/v2/go"

	kit "github.com/liftbridge-io/liftbridge/internal/verifkit"
)

var c13LifecycleNames = map[string]string{
	"bounce": "leadership(lost,regained)", "follow": "leadership(lost)", "lead": "leadership(self,new epoch)",
	"ro": "readonly(on)", "rw": "readonly(off)", "pause": "pause", "resume": "resume(by publish)",
}

const c13OtherLeader = "c13-other-replica"

// c13LcStamp: when (logical clock) a lifecycle event ran.
type c13LcStamp struct {
	Kind       string
	Start, End int64
}

// eventClassAfter names the latest partition lifecycle event that ended after
// logical time t ("" if none) — the oracle runs after every round, so the
// latest event is the one right before the observation.  Must be called with
// c.mu held.
func (c *c13Case) eventClassAfter(t int64) string {
	for i := len(c.lcStamps) - 1; i >= 0; i-- {
		e := c.lcStamps[i]
		if e.End <= t {
			continue
		}
		switch e.Kind {
		case "bounce", "follow", "lead":
			return "leadership-change"
		case "ro", "rw":
			return "readonly-toggle"
		}
		return "pause-resume"
	}
	return ""
}

// apiWouldSubscribe: the gate api.Subscribe applies before partition.Subscribe.
func (c *c13Case) apiWouldSubscribe(p *partition) bool {
	leader, _ := p.GetLeader()
	return leader == c.srv.config.Clustering.ServerID && !p.IsPaused()
}

// logEnds: every subscription whose consumer is receiving ends by itself
// (end of a read-only log, closed log of a paused partition).
func (c *c13Case) logEnds() bool {
	p := c.st.part()
	return p.IsReadonly() || p.IsPaused()
}

func (c *c13Case) setLeader(p *partition, leader string) bool {
	_, e := p.GetLeader()
	t := c.tick()
	if err := p.SetLeader(leader, e+1); err != nil {
		c.inconc = true
		c.rep.Inconc(fmt.Sprintf("%s case %d: partition.SetLeader(%s,%d) failed: %v", c.unit, c.id, leader, e+1, err))
		return false
	}
	c.logf(t, "partition.SetLeader(%s, leader epoch %d) returned; IsLeader=%v", leader, e+1, p.IsLeader())
	return true
}

// execLifecycle performs one partition lifecycle event.
func (c *c13Case) execLifecycle(a c13Act) {
	p := c.st.part()
	self := c.srv.config.Clustering.ServerID
	// how many subscriptions are ACTIVE (without the probe) when the event starts
	c.mu.Lock()
	nact := 0
	for _, s := range c.subs {
		if s.active() {
			nact++
		}
	}
	c.lcEvents = append(c.lcEvents, fmt.Sprintf("%s:%d", a.Kind, nact))
	if nact > 0 {
		c.lcWithActive++
		c.counts["lifecycle_events_with_an_active_subscription"]++
	}
	c.counts["lifecycle_events"]++
	c.mu.Unlock()
	stamp := c13LcStamp{Kind: a.Kind, Start: c.tick()}
	defer func() {
		stamp.End = c.tick()
		c.mu.Lock()
		c.lcStamps = append(c.lcStamps, stamp)
		c.mu.Unlock()
	}()
	switch a.Kind {
	case "bounce":
		if c.setLeader(p, c13OtherLeader) && c.setLeader(p, self) {
			c.n("event_leadership_lost_and_regained", 1)
		}
	case "follow":
		if c.setLeader(p, c13OtherLeader) {
			c.n("event_leadership_lost", 1)
		}
	case "lead":
		was := p.IsLeader()
		if c.setLeader(p, self) {
			if was {
				c.n("event_reelected_with_new_leader_epoch", 1)
			} else {
				c.n("event_leadership_regained", 1)
			}
		}
	case "ro", "rw":
		t := c.tick()
		p.SetReadonly(a.Kind == "ro")
		c.logf(t, "partition.SetReadonly(%v)", a.Kind == "ro")
		c.n("event_readonly_"+a.Kind, 1)
	case "pause":
		c.pause()
	case "resume":
		c.resume()
	}
}

// pause: PauseStream through the API (Raft), then every subscription has to
// end — the log is closed; consumers are un-gated so that they can receive
// the terminal status.
func (c *c13Case) pause() {
	ctx, cancel := context.WithTimeout(context.Background(), c13Watchdog)
	defer cancel()
	t := c.tick()
	if _, err := c.srv.api.PauseStream(ctx, &client.PauseStreamRequest{Name: c.st.name}); err != nil {
		c.inconc = true
		c.rep.Inconc(fmt.Sprintf("%s case %d: PauseStream failed: %v", c.unit, c.id, err))
		return
	}
	c.logf(t, "PauseStream(%s) applied: the partition's commit log is closed", c.st.name)
	c.n("event_pause", 1)
	c.mu.Lock()
	subs := append([]*c13Sub(nil), c.subs...)
	c.mu.Unlock()
	for _, s := range subs {
		s.undrain()
	}
	ended := c.wait(func() bool {
		for _, s := range subs {
			if s.active() {
				return false
			}
		}
		return true
	})
	if !ended {
		// not judged here: the ordinary oracle looks at whatever is still ACTIVE
		c.n("subscriptions_still_active_after_pause(watchdog)", 1)
	}
}

// resume: a publish resumes the paused partition (api.Publish -> resumeStream
// -> Raft -> metadataAPI.ResumePartition replaces the partition object).
func (c *c13Case) resume() {
	ctx, cancel := context.WithTimeout(context.Background(), c13Watchdog)
	defer cancel()
	t := c.tick()
	_, err := c.srv.api.Publish(ctx, &client.PublishRequest{Stream: c.st.name, Value: []byte("c13-resume"), AckPolicy: client.AckPolicy_ALL})
	if err != nil {
		c.inconc = true
		c.rep.Inconc(fmt.Sprintf("%s case %d: publish to resume the partition failed: %v", c.unit, c.id, err))
		return
	}
	np := c.srv.metadata.GetPartition(c.st.name, 0)
	if np == nil || np.IsPaused() || !np.IsLeader() {
		c.inconc = true
		c.rep.Inconc(fmt.Sprintf("%s case %d: partition not resumed as leader after a publish", c.unit, c.id))
		return
	}
	replaced := np != c.st.part()
	c.st.setPart(np)
	c.logf(t, "publish resumed the partition (partition object replaced: %v)", replaced)
	c.n("event_resume", 1)
}

// restore brings the partition back to "leader, writable, not paused" (the
// stream is reused by the next case).
func (c *c13Case) restore() {
	p := c.st.part()
	if p.IsPaused() {
		c.resume()
		p = c.st.part()
	}
	if p.IsReadonly() {
		p.SetReadonly(false)
	}
	if leader, _ := p.GetLeader(); leader != c.srv.config.Clustering.ServerID || !p.IsLeader() {
		c.setLeader(p, c.srv.config.Clustering.ServerID)
	}
}

// c13GenLifecycleProgram: a seeded schedule (same generator as the schedules
// unit) with lifecycle events inserted between its rounds (a round of their
// own) or into a round (concurrent with its subscribes / cancellations).
func c13GenLifecycleProgram(rng *kit.RNG) (prog []c13Round, ngroups int, events int) {
	base, ng := c13GenProgram(rng)
	leading, ro := true, false
	forceSub := func(rd *c13Round) {
		// the round after an event always contains a subscribe of group 0 so
		// that the event is followed by a member with an older / equal / newer epoch
		for _, a := range rd.Acts {
			if a.Kind == "sub" {
				return
			}
		}
		e := uint64(c13BaseEpoch - 1 + rng.Intn(4))
		rd.Acts = append(rd.Acts, c13Act{Kind: "sub", G: 0, Cid: []string{"x", "y", "lc"}[rng.Intn(3)], Epoch: e,
			Mode: []string{"new", "earliest", "new", "stopLatest"}[rng.Intn(4)], Gate: rng.Chance(3, 10), CloseAfterEnd: rng.Bool(), Pick: rng.Uint64()})
	}
	after := false
	for i := range base {
		rd := base[i]
		if after {
			forceSub(&rd)
			after = false
		}
		if i > 0 && rng.Chance(65, 100) {
			events++
			after = true
			var ev []c13Act
			alone := rng.Bool()
			switch x := rng.Intn(100); {
			case !leading:
				ev, leading = []c13Act{{Kind: "lead"}}, true
			case x < 28:
				ev = []c13Act{{Kind: "bounce"}}
			case x < 38:
				ev, leading = []c13Act{{Kind: "follow"}}, false
			case x < 62:
				ev = []c13Act{{Kind: "lead"}}
			case x < 88:
				if ro {
					ev, ro = []c13Act{{Kind: "rw"}}, false
				} else {
					ev, ro = []c13Act{{Kind: "ro"}}, true
				}
			default:
				// pause and resume: two rounds of their own (a read-only partition
				// could not be resumed by a publish)
				if ro {
					prog = append(prog, c13Round{Acts: []c13Act{{Kind: "rw"}}})
				}
				prog = append(prog, c13Round{Acts: []c13Act{{Kind: "pause"}}, Quiesce: true}, c13Round{Acts: []c13Act{{Kind: "resume"}}})
				ro = false // the resumed partition re-applies the flag of the protobuf; restored below anyway
			}
			for _, a := range ev {
				a.Pre, a.Pick = rng.Intn(3), rng.Uint64()
				if alone {
					prog = append(prog, c13Round{Acts: []c13Act{a}, Quiesce: rng.Chance(1, 4)})
				} else {
					rd.Acts = append(rd.Acts, a)
				}
			}
		}
		prog = append(prog, rd)
	}
	// the last round of the base program quiesces; regain the leadership first
	// if it is still lost so that the final subscribes are not all gated away
	if !leading {
		last := prog[len(prog)-1]
		prog[len(prog)-1] = c13Round{Acts: []c13Act{{Kind: "lead"}}}
		forceSub(&last)
		prog = append(prog, last)
	}
	return prog, ng, events
}

// c13LifecycleCombos: small-scope enumeration, one step at a time: member x
// (epoch 5) holds a subscription (receiving at the end of the log, or gated
// before it has read anything); one lifecycle event (sequence) happens; a
// member with the same or another consumer id and epoch 4, 5 or 6 subscribes;
// then a third member with epoch 5.
func c13LifecycleCombos() (progs [][]c13Round, labels []string) {
	events := map[string][]string{
		"bounce": {"bounce"}, "reelect": {"lead"}, "follow-lead": {"follow", "lead"},
		"ro-rw": {"ro", "rw"}, "ro": {"ro"}, "pause-resume": {"pause", "resume"},
	}
	for _, old := range []string{"new", "earliest-gated"} {
		for _, ev := range []string{"bounce", "reelect", "follow-lead", "ro-rw", "ro", "pause-resume"} {
			for _, cid2 := range []string{"x", "y"} {
				for _, e2 := range []uint64{4, 5, 6} {
					first := c13Act{Kind: "sub", G: 0, Cid: "x", Epoch: c13BaseEpoch, Mode: "new"}
					if old == "earliest-gated" {
						first.Mode, first.Gate = "earliest", true
					}
					prog := []c13Round{{Acts: []c13Act{first}}}
					for _, k := range events[ev] {
						prog = append(prog, c13Round{Acts: []c13Act{{Kind: k}}, Quiesce: k == "pause"})
					}
					prog = append(prog,
						c13Round{Acts: []c13Act{{Kind: "sub", G: 0, Cid: cid2, Epoch: e2, Mode: "new", CloseAfterEnd: true}}},
						c13Round{Acts: []c13Act{{Kind: "sub", G: 0, Cid: "w", Epoch: c13BaseEpoch, Mode: "new"}}, Quiesce: true})
					progs = append(progs, prog)
					labels = append(labels, fmt.Sprintf("old=x,e5,%s event=%s new=(%s,e%d) third=(w,e5)", old, ev, cid2, e2))
				}
			}
		}
	}
	return
}

// TestVerifC13Lifecycle: seeded schedules with partition lifecycle events.
func TestVerifC13Lifecycle(t *testing.T) {
	rep := kit.NewReport("C13", "lifecycle")
	defer rep.Write()
	defer c13UnitWatchdog(rep, "lifecycle")()
	rep.SetRule("first 72 enumerated sequential hand-overs across an event (holder x epoch 5 receiving at the log end or gated at the log start; event = leadership lost+regained in one step / re-election / lost, then regained / read-only on+off / read-only on / pause+resume; next member same or other consumer id with epoch 4, 5, 6; third member epoch 5), then the seeded programs of the schedules unit (rounds of concurrent group subscribes with older / equal / newer epochs, cancellations, Close(), gated consumers, delayed / parked loop clean-ups) with partition lifecycle events inserted between the rounds (own round) or into a round (concurrent): leadership lost and regained (partition.SetLeader(other,e+1) -> becomeFollower, SetLeader(self,e+2) -> becomeLeader, as the FSM does for ChangeLeader operations; in one action or spread over several rounds), re-election with a new leader epoch while leading, SetReadonly on/off, PauseStream followed by the automatic resume through a publish (partition object replaced); while the server is not the partition leader group subscribes are refused by api.Subscribe and are not issued; the round after an event contains a group subscribe. " + c13Rule + "; in this unit non-trivial = >= 1 lifecycle event was executed while >= 1 subscription of the case was ACTIVE")
	rep.Assume("a subscription that ends because of an event (commit log closed by a pause, end of a read-only log) is an ordinary ending; after a pause the harness un-gates every consumer and waits (watchdog, never a verdict) until all subscriptions have ended before it resumes the partition")
	rep.Assume("leadership is moved with direct partition.SetLeader calls on a single-node server (what the FSM's applyChangePartitionLeader calls), not by a real multi-node fail-over; the phantom leader never answers, the follower's leader time-out is set to one hour")
	workers := kit.Workers()
	env := c13StartWith(rep, "c13l", workers, func(cfg *Config) {
		cfg.Clustering.ReplicaMaxLeaderTimeout = time.Hour
	})
	if env == nil {
		return
	}
	defer env.stop()
	n := kit.EnvInt("VERIF_C13_LIFECYCLE_N", kit.Scale(900, 9000))
	root := kit.NewRNG(kit.Mix(kit.Seed(), 0xC13C))
	seeds := make([]uint64, n)
	for i := range seeds {
		seeds[i] = root.Uint64()
	}
	combos, labels := c13LifecycleCombos()
	rep.SetInfo("enumerated_hand_overs_across_an_event", len(combos))
	kit.Parallel(len(combos), workers, func(i int) {
		if rep.NumViolations() >= 6 {
			return
		}
		st := <-env.pool
		c := c13NewCase(rep, "lifecycle", 1000000+i, kit.Mix(kit.Seed(), uint64(i)), env.srv, st, 1, "pass", combos[i])
		c.lifecycle = true
		c.label = labels[i]
		c.run()
		env.pool <- st
	})
	kit.Parallel(n, workers, func(i int) {
		if rep.NumViolations() >= 6 {
			return
		}
		rng := kit.NewRNG(seeds[i])
		prog, ng, _ := c13GenLifecycleProgram(rng)
		st := <-env.pool
		c := c13NewCase(rep, "lifecycle", i, seeds[i], env.srv, st, ng, "random", prog)
		c.lifecycle = true
		c.run()
		if i < 3 {
			rep.Sample(map[string]interface{}{"case": i, "program": c13ProgString(prog), "outcome": c.signature()})
		}
		env.pool <- st
	})
}
