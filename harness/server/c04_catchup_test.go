//go:build verif

package server

// C04 unit "catchup" — followers that are MORE THAN ONE REPLICATION RESPONSE
// behind the leader.
//
// In the other C04 scenarios a follower that is released has two or three short
// messages to fetch: everything fits into one response, the leader-side
// replicator never fills a response up and the follower never asks twice in a
// row for data.  Here clustering.replication.max.bytes is small (512..2048)
// and messages of varied sizes are published while followers cannot fetch, so
// that the catch-up takes several responses which fill up at every alignment.
//
// Per cluster (3 servers, RF 3 or 2) several rounds; in every round some
// followers fall behind by 5..30 messages (mixed ALL / LEADER / NONE):
//
//   gate-one / gate-all   one / every follower parked at the follower.beforeFetch gate
//   deaf-leader           the leader ignores fetch requests (test-only pause switch)
//   gate-stall            as gate-one, and the follower stops again in the MIDDLE of
//                         its catch-up: its k-th answer is held at the
//                         follower.afterFetch gate (received, not stored)
//   restart               a follower's server is stopped and started again (thorough)
//
// and two ISR regimes: "stay" (lag time long: the followers stay in the ISR,
// the ALL acks wait for them) and "shrink" (lag time short: the leader drops
// them from the ISR, commits alone, and re-admits them after the catch-up).
// After the release more messages may be published while the catch-up runs.
//
// Oracle (c04_content_test.go): every positive ALL ack is judged on arrival
// against every member of the leader's ISR (log end covers the offset AND the
// record stored there is the acked message); at the end of every round, at
// quiescence (ISR complete again per leader and controller, all log ends
// equal), every ISR member must hold every ALL-acked message at its offset.
// LEADER acks: the leader holds the message at the acked offset; NONE never
// acked; no nacks (all messages are below the size limit).

import (
	"fmt"
	"strings"
	"sync"
	"testing"
	"time"

	client "github.com/liftbridge-io/liftbridge-api/v2/go"

	kit "github.com/liftbridge-io/liftbridge/internal/verifkit"
)

func TestVerifC04Catchup(t *testing.T) {
	rep := kit.NewReport("C04", "catchup")
	defer rep.Write()
	rep.SetRule("3-server clusters, RF 3 (or 2), clustering.replication.max.bytes in {512,768,1024,1536,2048}; per cluster several rounds in which followers fall 5..30 messages of varied sizes (10 bytes .. ~half the response limit; ~70% ALL, 20% LEADER, 10% NONE) behind — parked at the fetch gate (one / all followers), the leader deaf to fetches, a follower's server restarted, or parked and then stalled once more in the middle of the catch-up with an answer received but not stored (follower.afterFetch gate) — and then catch up over several replication responses, optionally while more messages are published; ISR regimes: followers stay in the ISR (ALL acks wait for them) or are dropped and re-admitted after the catch-up; oracle: every positive ALL ack is judged on arrival against EVERY member of the leader's ISR (log end covers the acked offset and the record stored there is the acked message: other content / a hole / log end before the offset are violations) and the HW; at the end of each round, at quiescence (ISR complete per leader and controller, all log ends equal) every ISR member holds every ALL-acked message at its acked offset; LEADER ack => leader holds the message there; NONE never acked; non-trivial = a follower needed >= 2 appends (responses) to catch up in the round; distinct = limit/regime/mode/messages behind/appends")
	rep.Assume("A positive ALL ack implies the message is committed; committed offsets are never truncated, so what an ISR member stores at an acked offset may be read after the ack arrived (no known HW-fallback truncation occurs here: the leader never changes in this unit).")
	root := kit.NewRNG(kit.Mix(kit.Seed(), 0xC04CA7))
	n := kit.Scale(2, 10)
	seeds := make([]uint64, n)
	for i := range seeds {
		seeds[i] = root.Uint64()
	}
	kit.Parallel(n, 2, func(i int) {
		if rep.NumViolations() >= 3 {
			return
		}
		c04CatchupRun(rep, i, seeds[i])
	})
}

func c04CatchupRun(rep *kit.Report, idx int, seed uint64) {
	rng := kit.NewRNG(seed)
	maxBytes := []int64{512, 768, 1024, 1536, 2048}[rng.Intn(5)]
	regime := []string{"stay", "shrink"}[idx%2]
	rf := int32(3)
	if rng.Chance(1, 4) {
		rf = 2
	}
	batchMax := []int{1, 16, 1024}[rng.Intn(3)]
	stream := fmt.Sprintf("c04u%d", idx)
	subject := stream + ".subj"
	witness := map[string]any{"scenario": idx, "scenario_seed": seed, "ReplicationMaxBytes": maxBytes, "regime": regime, "rf": rf, "BatchMaxMessages": batchMax}
	var trace []string
	var tmu sync.Mutex
	logf := func(f string, a ...interface{}) {
		tmu.Lock()
		if len(trace) < 3000 {
			trace = append(trace, fmt.Sprintf(f, a...))
		}
		tmu.Unlock()
	}
	fail := func(fp, what string) {
		tmu.Lock()
		tr := trace
		if len(tr) > 400 {
			tr = tr[len(tr)-400:]
		}
		witness["trace_tail"] = append([]string(nil), tr...)
		tmu.Unlock()
		rep.Violation(fp, what, witness)
	}
	inconc := func(what string) {
		rep.Inconc(fmt.Sprintf("[catchup scenario %d seed %d limit=%d %s] %s", idx, seed, maxBytes, regime, what))
	}
	lag := 30 * time.Second
	if regime == "shrink" {
		lag = 1200 * time.Millisecond
	}
	c, err := vfNewCluster("c04u", 3, func(cfg *Config) {
		cfg.Clustering.ReplicaMaxLeaderTimeout = 60 * time.Second // the leader never changes here
		cfg.Clustering.ReplicaMaxIdleWait = 200 * time.Millisecond
		cfg.Clustering.ReplicaFetchTimeout = 500 * time.Millisecond
		cfg.Clustering.ReplicaMaxLagTime = lag
		cfg.Clustering.MinISR = 1
		cfg.Clustering.ReplicationMaxBytes = maxBytes
		cfg.BatchMaxMessages = batchMax
	})
	if err != nil {
		inconc("cluster start: " + err.Error())
		return
	}
	defer c.Cleanup()

	// follower gate + append counter, keyed by this scenario's stream name
	var gmu sync.Mutex
	gates := map[string]chan struct{}{}
	parked := map[string]bool{}
	appends := map[string]int{}
	rm := vfHooks.On("follower.beforeFetch", func(a ...interface{}) error {
		if a[1].(string) != stream {
			return nil
		}
		id := a[0].(string)
		gmu.Lock()
		g := gates[id]
		if g != nil {
			parked[id] = true
		}
		gmu.Unlock()
		if g == nil {
			return nil
		}
		stop, _ := a[5].(<-chan struct{})
		select {
		case <-g:
		case <-stop:
		}
		gmu.Lock()
		parked[id] = false
		gmu.Unlock()
		return nil
	})
	defer rm()
	rm2 := vfHooks.On("partition.followerAppend", func(a ...interface{}) error {
		if a[1].(string) != stream {
			return nil
		}
		gmu.Lock()
		appends[a[0].(string)]++
		gmu.Unlock()
		logf("followerAppend server=%v first=%v n=%v epoch=%v", a[0], a[3], a[4], a[5])
		return nil
	})
	defer rm2()
	// mid-catch-up stall: the follower's k-th answer with data is held at the
	// follower.afterFetch gate (received, not stored)
	type stallT struct {
		after  int
		held   bool
		ch     chan struct{}
		caught chan struct{}
	}
	stalls := map[string]*stallT{}
	rm3 := vfHooks.On("follower.afterFetch", func(a ...interface{}) error {
		if a[1].(string) != stream || a[4].(int) <= 40 {
			return nil
		}
		gmu.Lock()
		st := stalls[a[0].(string)]
		if st == nil || st.held || st.after <= 0 {
			gmu.Unlock()
			return nil
		}
		st.after--
		if st.after > 0 {
			gmu.Unlock()
			return nil
		}
		st.held = true
		close(st.caught)
		ch := st.ch
		gmu.Unlock()
		logf("afterFetch gate: %v holds an answer of %v bytes unhandled", a[0], a[4])
		<-ch
		return nil
	})
	defer rm3()
	unstall := func(id string) {
		gmu.Lock()
		if st := stalls[id]; st != nil {
			st.held = false // not frozen any more, BEFORE it can move
			close(st.ch)
			delete(stalls, id)
		}
		gmu.Unlock()
	}
	openAll := func() {
		gmu.Lock()
		for id, g := range gates {
			close(g)
			delete(gates, id)
		}
		for id, st := range stalls {
			st.held = false
			close(st.ch)
			delete(stalls, id)
		}
		gmu.Unlock()
	}
	defer openAll()

	if err := c.CreateStream(&client.CreateStreamRequest{Subject: subject, Name: stream, ReplicationFactor: rf}); err != nil {
		inconc("create stream: " + err.Error())
		return
	}
	ln, err := c.PartitionLeader(stream, 0, 30*time.Second)
	if err != nil {
		inconc(err.Error())
		return
	}
	lp := ln.Partition(stream, 0)
	var fol []string
	for _, id := range vfSortedStrings(lp.GetReplicas()) {
		if id != ln.ID {
			fol = append(fol, id)
		}
	}
	if len(fol) != int(rf)-1 {
		inconc(fmt.Sprintf("unexpected replica set %v", lp.GetReplicas()))
		return
	}
	part := func(id string) *partition {
		n := c.Nodes[id]
		if n == nil {
			return nil
		}
		return n.Partition(stream, 0)
	}
	// frozen: parked at the fetch gate (set before the round's publishes, opened
	// after them): the replica can neither append nor re-enter the ISR
	// ... or its only fetch loop holds an answer unhandled at the afterFetch gate
	// (the leader never changes in this unit, so there is no second loop)
	frozen := func(id string) bool {
		gmu.Lock()
		defer gmu.Unlock()
		if st := stalls[id]; st != nil && st.held {
			return true
		}
		return gates[id] != nil && parked[id]
	}
	var judgedAtAck int64
	var amu sync.Mutex
	onAck := func(m *c04Msg, a *client.Ack) {
		logf("ack %s policy=%s err=%s offset=%d", m.Tag, m.Policy, a.AckError, a.Offset)
		if a.CorrelationId != m.Tag {
			fail("C04:ack-correlation", fmt.Sprintf("ack for %s carries correlation id %q", m.Tag, a.CorrelationId))
		}
		if a.AckError != client.Ack_OK {
			fail("C04:unexpected-nack", fmt.Sprintf("message %s (below the size limit) got ack error %s", m.Tag, a.AckError))
			return
		}
		switch m.Policy {
		case client.AckPolicy_NONE:
			fail("C04:none-acked", fmt.Sprintf("message %s with policy NONE was acked", m.Tag))
		case client.AckPolicy_LEADER:
			switch v, d := c04MemberHolds(lp, m.Tag, a.Offset); v {
			case "behind":
				fail("C04:acked-not-stored", fmt.Sprintf("LEADER ack for %s names offset %d but the leader's %s", m.Tag, a.Offset, d))
			case "other", "hole":
				fail("C04:ack-offset-mismatch", fmt.Sprintf("LEADER ack for %s names offset %d but the leader %s", m.Tag, a.Offset, d))
			}
		case client.AckPolicy_ALL:
			isr := lp.GetISR()
			fp, what, free := c04JudgeAllAck(isr, ln.ID, part, frozen, m.Tag, a.Offset)
			if fp != "" {
				fail(fp, what)
			}
			if free > 0 {
				rep.Count("free_running_isr_member_behind_at_ack_receipt_not_judged", int64(free))
			}
			if hw := lp.log.HighWatermark(); hw < a.Offset {
				fail("C04:all-acked-before-commit", fmt.Sprintf("ALL-policy ack for %s at offset %d received while the leader HW is %d", m.Tag, a.Offset, hw))
			}
			amu.Lock()
			judgedAtAck += int64(len(isr))
			amu.Unlock()
		}
	}
	pub, err := c04NewPub(c.URL, onAck)
	if err != nil {
		inconc("publisher: " + err.Error())
		return
	}
	defer pub.close()
	seq := 0
	size := func() int {
		half := int(maxBytes)/2 - 60
		switch rng.Intn(3) {
		case 0:
			return rng.Range(10, 40)
		case 1:
			return rng.Range(int(maxBytes)/8, int(maxBytes)/3)
		default:
			return rng.Range(int(maxBytes)/3, half)
		}
	}
	publish := func(prefix string, n int, pol func() client.AckPolicy) (acked, all []*c04Msg) {
		for i := 0; i < n; i++ {
			seq++
			m := &c04Msg{Tag: fmt.Sprintf("%su%d-m%04d", prefix, idx, seq), Policy: pol(), Expect: -1}
			pub.send(stream, subject, m, c04Value(m.Tag, size()))
			all = append(all, m)
			if m.Policy != client.AckPolicy_NONE {
				acked = append(acked, m)
			}
		}
		pub.nc.Flush()
		return acked, all
	}
	mixed := func() client.AckPolicy {
		switch x := rng.Intn(10); {
		case x < 7:
			return client.AckPolicy_ALL
		case x < 9:
			return client.AckPolicy_LEADER
		default:
			return client.AckPolicy_NONE
		}
	}
	always := func(p client.AckPolicy) func() client.AckPolicy { return func() client.AckPolicy { return p } }

	first, _ := publish("ok-", rng.Range(2, 4), always(client.AckPolicy_ALL))
	if !pub.waitAcked(first, 30*time.Second) {
		inconc("initial ALL publishes not acked")
		return
	}
	modes := []string{"gate-one", "gate-all", "deaf-leader", "gate-stall"}
	if kit.Thorough() {
		modes = append(modes, "restart")
	}
	rounds := kit.Scale(4, 6)
	start := rng.Intn(len(modes))
	for r := 0; r < rounds && rep.NumViolations() < 3; r++ {
		mode := modes[(start+r)%len(modes)]
		if !lp.IsLeader() {
			inconc("the partition leader changed")
			return
		}
		if _, _, ok := c04Quiescent(c, stream, int(rf), 40*time.Second); !ok {
			inconc(fmt.Sprintf("round %d: partition not quiet before the round", r))
			return
		}
		nBehind := rng.Range(5, 30)
		var behind []string
		switch mode {
		case "gate-one", "gate-stall":
			behind = []string{fol[rng.Intn(len(fol))]}
		case "restart":
			f := fol[rng.Intn(len(fol))]
			if ml := c.metaLeaderNow(); ml == nil || ml.config.Clustering.ServerID == f {
				mode = "gate-one" // do not restart the metadata leader
			}
			behind = []string{f}
		default:
			behind = append([]string(nil), fol...)
		}
		logf("ROUND %d mode=%s behind=%v messages=%d", r, mode, behind, nBehind)
		gmu.Lock()
		for id := range appends {
			appends[id] = 0
		}
		gmu.Unlock()
		// ---- make them fall behind
		switch mode {
		case "gate-one", "gate-all", "gate-stall":
			gmu.Lock()
			for _, id := range behind {
				gates[id] = make(chan struct{})
			}
			gmu.Unlock()
			okp := vfWait(20*time.Second, func() bool {
				gmu.Lock()
				defer gmu.Unlock()
				for _, id := range behind {
					if !parked[id] {
						return false
					}
				}
				return true
			})
			if !okp {
				inconc("followers never reached the fetch gate")
				return
			}
		case "deaf-leader":
			lp.pauseReplication()
		case "restart":
			if err := c.StopNode(behind[0]); err != nil {
				inconc("stop follower: " + err.Error())
				return
			}
		}
		wait, _ := publish(fmt.Sprintf("r%d-", r), nBehind, mixed)
		kick, _ := publish(fmt.Sprintf("r%dK-", r), 1, always(client.AckPolicy_LEADER))
		if !pub.waitAcked(kick, 30*time.Second) {
			inconc("leader did not write the round's messages")
			return
		}
		if regime == "shrink" {
			want := int(rf) - len(behind)
			if !vfWait(30*time.Second, func() bool { return lp.ISRSize() == want }) {
				inconc(fmt.Sprintf("ISR did not shrink to %d", want))
				return
			}
			logf("ISR shrank to %v", lp.GetISR())
		}
		// ---- release
		var stalled *stallT
		if mode == "gate-stall" {
			stalled = &stallT{after: rng.Range(1, 3), ch: make(chan struct{}), caught: make(chan struct{})}
			gmu.Lock()
			stalls[behind[0]] = stalled
			gmu.Unlock()
		}
		switch mode {
		case "gate-one", "gate-all", "gate-stall":
			for i, id := range behind {
				gmu.Lock()
				if g := gates[id]; g != nil {
					close(g)
					delete(gates, id)
				}
				gmu.Unlock()
				if i == 0 && len(behind) > 1 && rng.Bool() {
					time.Sleep(time.Duration(rng.Intn(30)) * time.Millisecond) // schedule shaping only
				}
			}
		case "deaf-leader":
			lp.mu.Lock()
			lp.pause = false
			lp.mu.Unlock()
		case "restart":
			if err := c.StartNode(behind[0]); err != nil {
				inconc("restart follower: " + err.Error())
				return
			}
		}
		logf("released %v", behind)
		if stalled != nil {
			// the follower stops in the middle of its catch-up with an answer it
			// has received and not stored; whatever ALL ack arrives meanwhile is
			// judged against it as a frozen replica.  The fence only makes sure
			// the leader has had its turn; nothing is decided by it.
			select {
			case <-stalled.caught:
				fence, _ := publish(fmt.Sprintf("r%dF-", r), 1, always(client.AckPolicy_LEADER))
				pub.waitAcked(fence, 20*time.Second)
				rep.Count("mid_catch_up_stalls", 1)
				logf("stalled follower %s released (log end %d, leader %d)", behind[0], part(behind[0]).log.NewestOffset(), lp.log.NewestOffset())
			case <-time.After(5 * time.Second):
				logf("the catch-up of %s needed fewer answers than the stall point", behind[0])
			}
			unstall(behind[0])
		}
		if rng.Bool() {
			more, _ := publish(fmt.Sprintf("r%dM-", r), rng.Range(3, 8), mixed)
			wait = append(wait, more...)
		}
		if !pub.waitAcked(wait, 60*time.Second) {
			inconc(fmt.Sprintf("round %d (%s): pending publishes not acked after the release", r, mode))
			return
		}
		qn, isr, ok := c04Quiescent(c, stream, int(rf), 60*time.Second)
		if !ok {
			inconc(fmt.Sprintf("round %d (%s): partition did not become quiet (ISR %v)", r, mode, lp.GetISR()))
			return
		}
		if qn.ID != ln.ID {
			inconc("the partition leader changed")
			return
		}
		judged := c04JudgeQuiescent(c, stream, qn, isr, c04PositiveAllAcks(pub), fail)
		rep.Eval()
		rep.Count("quiescent_member_ack_pairs_compared", int64(judged))
		gmu.Lock()
		maxApp := 0
		for _, id := range behind {
			if appends[id] > maxApp {
				maxApp = appends[id]
			}
		}
		gmu.Unlock()
		rep.Count("rounds", 1)
		rep.Count("rounds_"+mode, 1)
		rep.Max("max_appends_of_one_catch_up", int64(maxApp))
		if maxApp >= 2 {
			rep.Count("multi_response_catch_ups", 1)
			rep.Nontrivial(fmt.Sprintf("%d|%s|%s|rf%d|behind=%d|appends=%d", maxBytes, regime, mode, rf, nBehind, maxApp))
		}
	}
	// every message got at most one ack; NONE none
	pub.mu.Lock()
	all := append([]*c04Msg(nil), pub.all...)
	pub.mu.Unlock()
	pos := 0
	for _, m := range all {
		acks := pub.acks(m)
		if len(acks) > 1 {
			fail("C04:duplicate-ack", fmt.Sprintf("message %s received %d acks", m.Tag, len(acks)))
		}
		if len(acks) == 1 && acks[0].AckError == client.Ack_OK {
			pos++
		}
	}
	// final scan on the leader: every positive ack names the offset of its tag
	if stored, _, err := c04FinalScan(lp); err != nil {
		fail("C04:final-scan", err.Error())
	} else {
		for _, m := range all {
			acks := pub.acks(m)
			if len(acks) == 1 && acks[0].AckError == client.Ack_OK {
				if off, ok := stored[m.Tag]; !ok || off != acks[0].Offset {
					fail("C04:ack-offset-mismatch", fmt.Sprintf("message %s acked at offset %d but stored=%v at %d on the leader", m.Tag, acks[0].Offset, ok, off))
				}
			}
		}
	}
	amu.Lock()
	rep.Count("isr_members_read_at_all_ack_receipt", judgedAtAck)
	amu.Unlock()
	rep.Count("catchup_positive_acks", int64(pos))
	rep.Count("catchup_messages", int64(len(all)))
	rep.Sample(map[string]any{"scenario": idx, "limit": maxBytes, "regime": regime, "rf": rf, "leader": ln.ID, "followers": strings.Join(fol, ","), "messages": len(all)})
}
