//go:build verif

package server

// C19 — the telemetry switch over the life of one installation (real binary).
//
// The binary unit restarts an opted-out binary on its data directory, but that
// directory has never seen a run with telemetry on.  Here every sequence runs
// the real binary several times on ONE data directory under
// `strace -f -e trace=connect`:
//
//	telemetry on (config file or defaults; stopped with SIGINT or killed) ->
//	telemetry off through one opt-out route -> off again through another route
//	(thorough: -> on again -> off through a third route)
//
// The enabled run is the sequence's own positive control: its trace (or the
// HTTPS_PROXY listener) must show the telemetry attempt and it must leave
// <data dir>/.instance_id behind, otherwise the sequence is inconclusive.  The
// endpoint is unreachable for the enabled run in every sequence (no network:
// the resolver fails; behind the proxy listener: 502), so whatever an enabled
// run keeps for "later" is in the data directory when the operator opts out.
// Oracle for every run with telemetry off, over the whole life of the process
// (start, gRPC activity, SIGINT, exit): no connect() except unix sockets and
// loopback connections that are neither DNS nor the proxy, and the proxy
// listener saw nothing.

import (
	"bytes"
	"context"
	"fmt"
	"os"
	"os/exec"
	"path/filepath"
	"strconv"
	"strings"
	"syscall"
	"testing"
	"time"

	client "github.com/liftbridge-io/liftbridge-api/v2/go"
	"google.golang.org/grpc"
	"google.golang.org/grpc/credentials/insecure"

	kit "github.com/liftbridge-io/liftbridge/internal/verifkit"
)

type c19blSpec struct {
	Args    []string `json:"args"`
	Env     []string `json:"env"`
	Stop    string   `json:"stopped_with"` // SIGINT | SIGKILL
	Enabled bool     `json:"telemetry_on"`
}

type c19blResult struct {
	conns     []c19Connect
	attempts  []c19Connect
	proxy     []string
	telemetry []string // the binary's log lines that mention telemetry
	published int
}

// c19blRun: one life of the binary under strace.  It returns a reason when the
// life cannot serve as an observation.
func c19blRun(tag, strace, bin, cdir string, life int, spec c19blSpec, port, natsPort int, proxy *c19Proxy, n c19Needles, idFile string) (*c19blResult, string) {
	res := &c19blResult{}
	trace := filepath.Join(cdir, fmt.Sprintf("trace%d.txt", life))
	outPath := filepath.Join(cdir, fmt.Sprintf("out%d.txt", life))
	outf, err := os.OpenFile(outPath, os.O_CREATE|os.O_WRONLY|os.O_TRUNC, 0644)
	if err != nil {
		return nil, err.Error()
	}
	defer outf.Close()
	proxyPort, proxyBefore := 0, 0
	if proxy != nil {
		proxyPort = proxy.Port()
		proxyBefore = len(proxy.Lines())
	}
	cmd := exec.Command(strace, append([]string{"-f", "-e", "trace=connect", "-o", trace, bin}, spec.Args...)...)
	cmd.Env = c19CleanEnv(spec.Env...)
	cmd.Dir = cdir
	cmd.Stdout, cmd.Stderr = outf, outf
	cmd.SysProcAttr = &syscall.SysProcAttr{Setpgid: true}
	if err := cmd.Start(); err != nil {
		return nil, "cannot start strace: " + err.Error()
	}
	waitCh := make(chan error, 1)
	go func() { waitCh <- cmd.Wait() }()
	kill := func() {
		syscall.Kill(-cmd.Process.Pid, syscall.SIGKILL)
		<-waitCh
	}
	exited := func() bool {
		select {
		case err := <-waitCh:
			waitCh <- err
			return true
		default:
			return false
		}
	}
	tail := func() string {
		b, _ := os.ReadFile(outPath)
		return c19Tail(string(b), 500)
	}
	var tracee int
	if !vfWait(20*time.Second, func() bool { tracee = c19ChildOf(cmd.Process.Pid, bin); return tracee != 0 || exited() }) || tracee == 0 {
		kill()
		return nil, tag + ": traced process not found: " + tail()
	}
	conn, err := grpc.NewClient(fmt.Sprintf("127.0.0.1:%d", port), grpc.WithTransportCredentials(insecure.NewCredentials()))
	if err != nil {
		kill()
		return nil, "grpc client: " + err.Error()
	}
	defer conn.Close()
	api := client.NewAPIClient(conn)
	created := false
	up := vfWait(60*time.Second, func() bool {
		if exited() {
			return true
		}
		ctx, cancel := context.WithTimeout(context.Background(), 3*time.Second)
		defer cancel()
		_, err := api.CreateStream(ctx, &client.CreateStreamRequest{Name: n.Stream, Subject: n.Subject, ReplicationFactor: 1})
		if err == nil || strings.Contains(err.Error(), "already exists") {
			created = true
			return true
		}
		return false
	})
	if !up || !created {
		kill()
		return nil, fmt.Sprintf("%s: watchdog: binary did not serve gRPC / create a stream: %s", tag, tail())
	}
	// the stream of an earlier life may still be recovering: publishes are
	// activity, not part of the oracle
	for k := 0; k < 3; k++ {
		ctx, cancel := context.WithTimeout(context.Background(), 10*time.Second)
		_, err := api.Publish(ctx, &client.PublishRequest{Stream: n.Stream, Key: []byte(n.MsgKey), Value: []byte(n.MsgValue), AckPolicy: client.AckPolicy_LEADER})
		cancel()
		if err == nil {
			res.published++
		}
	}
	attemptSeen := func() bool {
		if proxy != nil && len(proxy.Lines()) > proxyBefore {
			return true
		}
		conns, _, _ := c19ParseTrace(trace, natsPort, proxyPort)
		for _, c := range conns {
			if c19IsAttempt(c.Class) {
				return true
			}
		}
		return false
	}
	if spec.Enabled {
		// positive control and producer of the on-disk state: the report attempt
		// has been made and the instance id has been persisted (logical
		// conditions; the watchdog only bounds the wait)
		vfWait(20*time.Second, func() bool {
			_, err := os.Stat(idFile)
			return err == nil && attemptSeen()
		})
	}
	switch spec.Stop {
	case "SIGKILL":
		syscall.Kill(tracee, syscall.SIGKILL)
		select {
		case <-waitCh:
		case <-time.After(30 * time.Second):
			kill()
			return nil, tag + ": watchdog: strace did not return after the binary was killed"
		}
	default:
		syscall.Kill(tracee, syscall.SIGINT)
		select {
		case <-waitCh:
		case <-time.After(60 * time.Second):
			kill()
			return nil, tag + ": watchdog: binary did not exit within 60 s after SIGINT: " + tail()
		}
	}
	conns, exited0, err := c19ParseTrace(trace, natsPort, proxyPort)
	if err != nil {
		return nil, tag + ": trace unreadable: " + err.Error()
	}
	if spec.Stop != "SIGKILL" && !exited0 {
		return nil, fmt.Sprintf("%s: binary did not exit with status 0 after SIGINT: %s", tag, tail())
	}
	res.conns = conns
	nats := 0
	for _, c := range conns {
		if c.Class == "nats" {
			nats++
		}
		if c19IsAttempt(c.Class) && len(res.attempts) < 10 {
			res.attempts = append(res.attempts, c)
		}
	}
	if nats == 0 {
		return nil, tag + ": trace shows no connect() to the NATS server — trace incomplete"
	}
	if proxy != nil {
		// a connection the binary opened just before exiting is read by the
		// listener's goroutine: every proxy connect() of the trace must have
		// been turned into a line before the lines are counted
		want := 0
		for _, c := range conns {
			if c.Class == "proxy" {
				want++
			}
		}
		vfWait(10*time.Second, func() bool { return len(proxy.Lines())-proxyBefore >= want })
		res.proxy = append([]string(nil), proxy.Lines()[proxyBefore:]...)
	}
	if ob, err := os.ReadFile(outPath); err == nil {
		for _, l := range bytes.Split(ob, []byte("\n")) {
			if bytes.Contains(bytes.ToLower(l), []byte("telemetry")) && len(res.telemetry) < 8 {
				res.telemetry = append(res.telemetry, string(l))
			}
		}
	}
	return res, ""
}

var c19blRoutes = []string{"config-file", "env-var:with-config-file", "env-var:no-config-file", "env-var:config-file-says-enabled"}

func TestVerifC19BinaryLifecycle(t *testing.T) {
	rep := kit.NewReport("C19", "binarylifecycle")
	defer rep.Write()
	rep.SetRule("the real liftbridge binary (go build of $VERIF_REPO's main package) under `strace -f -e trace=connect`, several lives on ONE data directory per sequence: telemetry ON (config file with interval 1 s, or flags only = defaults; ended with SIGINT or SIGKILL; behind an HTTPS_PROXY listener that answers 502, or without proxy so that the resolver fails) -> telemetry OFF through opt-out route (q+k) mod 4 of {telemetry.enabled: false in a config file, LIFTBRIDGE_TELEMETRY_ENABLED=false with a config file, the same with flags only, the same next to a config file that says enabled: true} -> OFF again through the next route (thorough: -> ON again -> OFF through a third route); every life is used over gRPC (stream with needle name — recovered in later lives —, publishes) and stopped.  The ON life must show the attempt (resolver connect to port 53 / CONNECT at the listener) and leave <data dir>/.instance_id, otherwise the sequence is inconclusive (it is the sequence's own positive control with the same observers).  Oracle on the complete trace of every OFF life: no connect() except unix sockets and loopback connections other than DNS / the proxy, and the listener saw nothing during that life.  non-trivial = an OFF life on a data directory a real ON life has used served gRPC, exited 0 after SIGINT and its trace was parsed; distinct = route x position in the sequence x proxy x how the ON life was configured and ended x round")
	rep.Assume("the sandbox has no network: a telemetry attempt is visible as the resolver's connect() to port 53 or as a connect() to the HTTPS_PROXY listener; strace -f sees every thread and child of the binary until the process has exited, so the observation window of an OFF life is its whole life including shutdown")
	rep.Assume("'disabled' is a property of the run, not of the installation's history (CHANGELOG.md documents the switch without conditions): what an earlier run with telemetry on left in the data directory gives an opted-out binary no licence to contact the endpoint")
	work := os.Getenv("VERIF_WORK")
	if work == "" {
		work = os.TempDir()
	}
	dir, err := os.MkdirTemp(work, "c19-binlife-")
	if err != nil {
		rep.Inconc(err.Error())
		return
	}
	defer os.RemoveAll(dir)
	repo := os.Getenv("VERIF_REPO")
	if repo == "" {
		repo = "/repo"
	}
	bin := filepath.Join(dir, "liftbridge-c19l")
	bcmd := exec.Command("go", "build", "-o", bin, ".")
	bcmd.Dir = repo
	bcmd.Env = append(c19CleanEnvKeepGo(), "GOFLAGS=-mod=mod", "GOPROXY=off")
	if out, err := bcmd.CombinedOutput(); err != nil {
		rep.Eval()
		rep.Inconc(fmt.Sprintf("cannot build the liftbridge binary: %v: %s", err, c19Tail(string(out), 600)))
		return
	}
	if real, err := filepath.EvalSymlinks(bin); err == nil {
		bin = real
	}
	strace, err := exec.LookPath("strace")
	if err == nil {
		probe := filepath.Join(dir, "probe.trace")
		if e := exec.Command(strace, "-f", "-e", "trace=connect", "-o", probe, "/bin/true").Run(); e != nil {
			err = fmt.Errorf("strace cannot trace here: %v", e)
		}
	}
	if err != nil {
		rep.Eval()
		rep.Inconc("strace not usable: " + err.Error())
		return
	}

	perRound := 4
	rounds := kit.Scale(1, 5)
	base := kit.Mix(kit.Seed(), 0xC19B1F)
	seedBits := kit.NewRNG(base)
	shift, killBit := seedBits.Intn(len(c19blRoutes)), seedBits.Intn(2)
	pattern := []bool{true, false, false} // ON, OFF, OFF
	if kit.Thorough() {
		pattern = []bool{true, false, false, true, false}
	}
	kit.Parallel(perRound*rounds, kit.EnvInt("C19_BINARY_WORKERS", 4), func(idx int) {
		q, round := idx%perRound, idx/perRound
		rng := kit.NewRNG(kit.Mix(base, uint64(idx)+1))
		n := c19NewNeedles(rng)
		useProxy := q%2 == 0
		onByFile := (q/2+round)%2 == 0
		onStop := "SIGINT"
		if (q+q/2+killBit+round)%2 == 1 {
			onStop = "SIGKILL"
		}
		cdir := filepath.Join(dir, fmt.Sprintf("seq%02d", idx))
		os.MkdirAll(cdir, 0755)
		defer os.RemoveAll(cdir)
		ns, natsURL, natsPort := c19StartNATS(n.NATSUser, n.NATSPass)
		defer ns.Shutdown()
		var proxy *c19Proxy
		var proxyEnv []string
		if useProxy {
			p, err := c19NewProxy()
			if err != nil {
				rep.Inconc("proxy listener: " + err.Error())
				return
			}
			proxy = p
			defer proxy.Close()
			pu := fmt.Sprintf("http://127.0.0.1:%d", proxy.Port())
			proxyEnv = []string{"HTTPS_PROXY=" + pu, "https_proxy=" + pu, "HTTP_PROXY=" + pu, "http_proxy=" + pu}
		}
		port, err := c19FreePort(rng)
		if err != nil {
			rep.Inconc(err.Error())
			return
		}
		dataDir := filepath.Join(cdir, n.DirName)
		idFile := filepath.Join(dataDir, ".instance_id")
		file := filepath.Join(cdir, "liftbridge.yaml")
		yaml := func(tel string) string {
			y := strings.Replace(c19Yaml(n, natsURL, dataDir, tel), "listen: 127.0.0.1:0", fmt.Sprintf("listen: 127.0.0.1:%d", port), 1)
			y = strings.Replace(y, "port: 0", fmt.Sprintf("port: %d", port), 1)
			y = strings.Replace(y, "level: error", "level: info", 1)
			os.WriteFile(file, []byte(y), 0644)
			return y
		}
		flagsOnly := []string{"--nats-servers", strings.Replace(natsURL, "nats://", fmt.Sprintf("nats://%s:%s@", n.NATSUser, n.NATSPass), 1),
			"--port", strconv.Itoa(port), "--data-dir", dataDir, "--raft-bootstrap-seed", "--id", n.ServerID, "--namespace", n.Namespace, "--level", "info"}
		onHow := "flags-only-defaults"
		if onByFile {
			onHow = "config-file"
		}
		seqTag := fmt.Sprintf("seq%d(proxy=%v, ON life: %s, ended with %s)", idx, useProxy, onHow, onStop)
		var history []map[string]any
		onLives, offK := 0, 0
		for life, on := range pattern {
			rep.Eval()
			spec := c19blSpec{Env: append([]string(nil), proxyEnv...), Stop: "SIGINT", Enabled: on}
			route, cfgFile := "", ""
			if on {
				spec.Stop = onStop
				if onLives > 0 {
					spec.Stop = "SIGINT"
				}
				if onByFile {
					route = "control-config-file"
					cfgFile = yaml("telemetry:\n  enabled: true\n  interval:\n    seconds: 1\n")
					spec.Args = []string{"--config", file}
				} else {
					route = "control-default"
					spec.Args = flagsOnly
				}
			} else {
				route = c19blRoutes[(q+offK+shift)%len(c19blRoutes)]
				offK++
				switch route {
				case "config-file":
					cfgFile = yaml("telemetry:\n  enabled: false\n")
					spec.Args = []string{"--config", file}
				case "env-var:with-config-file":
					cfgFile = yaml("")
					spec.Env = append(spec.Env, c19EnvVar+"=false")
					spec.Args = []string{"--config", file}
				case "env-var:no-config-file":
					spec.Env = append(spec.Env, c19EnvVar+"=false")
					spec.Args = flagsOnly
				case "env-var:config-file-says-enabled":
					cfgFile = yaml("telemetry:\n  enabled: true\n  interval:\n    seconds: 1\n")
					spec.Env = append(spec.Env, c19EnvVar+"=false")
					spec.Args = []string{"--config", file}
				}
			}
			tag := fmt.Sprintf("%s life %d (%s)", seqTag, life, route)
			_, errID := os.Stat(idFile)
			idBefore := errID == nil
			res, reason := c19blRun(tag, strace, bin, cdir, life, spec, port, natsPort, proxy, n, idFile)
			if reason != "" {
				rep.Inconc(reason)
				return
			}
			rep.Count("binary_lifetimes", 1)
			classes := map[string]int{}
			for _, c := range res.conns {
				classes[c.Class]++
				rep.Count("connect_"+c.Class, 1)
			}
			rep.Count("proxy_connections", int64(len(res.proxy)))
			_, errID = os.Stat(idFile)
			rec := map[string]any{"life": life, "telemetry_on": on, "route": route, "spec": spec, "config_file": c19NilIfEmpty(cfgFile), "connect_classes": classes,
				"attempts": res.attempts, "proxy_saw": res.proxy, "instance_id_file_before": idBefore, "instance_id_file_after": errID == nil,
				"binary_log_lines_about_telemetry": res.telemetry, "published": res.published}
			history = append(history, rec)
			if on {
				if len(res.attempts) == 0 && len(res.proxy) == 0 {
					rep.Inconc(tag + ": the life with telemetry ON shows no attempt — the observers of this sequence cannot decide")
					return
				}
				if errID != nil {
					rep.Inconc(tag + ": the life with telemetry ON left no .instance_id in the data directory")
					return
				}
				for _, l := range res.proxy {
					if !strings.Contains(l, kit.C19DocumentedHost) {
						rep.Violation("C19:unexpected-endpoint", "the binary asked the proxy for "+l+" — documentation names "+kit.C19DocumentedHost,
							map[string]any{"seed": kit.Seed(), "sequence": seqTag, "lives": history})
					}
				}
				onLives++
				rep.Count("on_lives_with_attempt_and_instance_id/"+spec.Stop, 1)
				continue
			}
			if len(res.attempts) > 0 || len(res.proxy) > 0 {
				first := ""
				if len(res.attempts) > 0 {
					first = res.attempts[0].Line
				} else {
					first = "proxy: " + res.proxy[0]
				}
				// the route is named when the binary says it started its collector
				// (the opt-out did not reach the server); otherwise the opt-out
				// worked and the history of the data directory made the binary talk
				fp := "C19:telemetry-sent-while-disabled:" + route
				collector := false
				for _, l := range res.telemetry {
					if strings.Contains(l, "collector started") || strings.Contains(l, "Sending") {
						collector = true
					}
				}
				if !collector && onLives > 0 {
					fp = "C19:telemetry-sent-while-disabled:data-dir-of-enabled-run"
				}
				rep.Violation(fp, fmt.Sprintf("real binary, telemetry switched off through route %q, on a data directory that %d earlier life/lives with telemetry ON and %d with telemetry off have used: the trace of this life shows an outbound connection attempt (%s)", route, onLives, life-onLives, first),
					map[string]any{"seed": kit.Seed(), "sequence": seqTag, "lives": history})
				// the rest of the sequence would only repeat it
				return
			}
			rep.Count("optout_lives_with_clean_trace", 1)
			rep.Count("optout_lives_with_clean_trace/after_"+strconv.Itoa(onLives)+"_on_lives", 1)
			if onLives > 0 {
				rep.Nontrivial(fmt.Sprintf("%s|life%d|proxy=%v|on=%s,%s|round%d", route, life, useProxy, onHow, onStop, round))
			}
			if idx == 0 {
				rep.Sample(map[string]any{"sequence": seqTag, "life": rec})
			}
		}
	})
}
