//go:build verif

package server

// C02, family F14: publishes IN FLIGHT at a deposed leader while it applies the
// leader change.
//
// Every other family quiesces the publishers before a fault step (publish
// waits for its acks), so the deposed leader's message loop is idle when the
// server applies the change, stops leading, reconciles its log with the new
// leader and starts following.  Here a publisher keeps sending (ack policy
// NONE) across that moment.  The deposed leader is still subscribed to the
// stream subject until it applies the change, so it and the new leader both
// sequence the messages; whatever the deposed leader wrote is uncommitted and
// must be gone — at every offset at or below its HW it must hold what the new
// leader holds — once it follows.  Two ways of being a deposed leader that
// does not know yet:
//
//   late-apply     the live leader's FSM applies the CHANGE_LEADER late (held at
//                  the partition.setLeader gate, as in F9) while the others
//                  have moved on;
//   restart-stale  the former leader was down when its successor was elected;
//                  it restarts, recovers from its own (stale) Raft log, resumes
//                  leading its old epoch, and only then receives the change
//                  (held at the same gate so that the phase is not a matter of
//                  luck).
//
// Oracle: the committed table and leader-completeness checks of the other
// families, nothing else.

import (
	"fmt"
	"sync/atomic"
	"time"

	client "github.com/liftbridge-io/liftbridge-api/v2/go"

	kit "github.com/liftbridge-io/liftbridge/internal/verifkit"
	proto "github.com/liftbridge-io/liftbridge/server/protocol"
)

var c02F14Seq int

func init() {
	c02Families["F14"] = c02F14
	c02FamilyCfg["F14"] = func(cfg *Config) { cfg.Clustering.ReplicaMaxLagTime = 10 * time.Second }
}

// c02Flood publishes tagged messages with ack policy NONE as fast as the
// connection takes them until stopped or the cap is reached.
type c02Flood struct {
	stop  chan struct{}
	done  chan struct{}
	sent  int64
	ended bool
}

func (e *c02Env) floodStart(max int) *c02Flood {
	e.step("flood: publishing (NONE) without pause, at most %d messages", max)
	f := &c02Flood{stop: make(chan struct{}), done: make(chan struct{})}
	// marshalled beforehand: the publisher must be faster than the leaders'
	// message loops, otherwise nothing is ever waiting in their channels
	msgs := make([][]byte, max)
	for i := range msgs {
		tag := fmt.Sprintf("%s-%d-flood%05d", e.family, e.seed%1000, i)
		data, err := proto.MarshalPublish(&client.Message{Value: []byte(tag), Key: []byte(fmt.Sprintf("k%d", i%3)), Stream: e.stream,
			Subject: e.subject, AckPolicy: client.AckPolicy_NONE})
		if err != nil {
			panic(err)
		}
		msgs[i] = data
	}
	go func() {
		defer close(f.done)
		for i, data := range msgs {
			select {
			case <-f.stop:
				return
			default:
			}
			if e.c.NC.Publish(e.subject, data) != nil {
				return
			}
			atomic.AddInt64(&f.sent, 1)
			if i%1024 == 1023 {
				e.c.NC.Flush()
			}
		}
	}()
	return f
}

func (f *c02Flood) end(e *c02Env) {
	if f.ended {
		return
	}
	f.ended = true
	close(f.stop)
	<-f.done
	e.c.NC.Flush()
	e.step("flood: stopped after %d messages", atomic.LoadInt64(&f.sent))
}

func c02F14(e *c02Env, rng *kit.RNG) {
	idx := c02F14Seq
	c02F14Seq++
	variant := []string{"late-apply", "restart-stale"}[idx%2]
	l := e.leader()
	if l == nil {
		return
	}
	if !e.publishAcked(rng.Range(2, 3), client.AckPolicy_ALL, 30*time.Second) {
		e.inconclusive("initial publishes not acked")
		return
	}
	e.settle("f14-initial")
	ml, err := e.c.MetaLeader(20 * time.Second)
	if err != nil {
		e.inconclusive("no metadata leader")
		return
	}
	if ml.config.Clustering.ServerID == l.ID {
		// The server whose FSM is going to be stalled must not be the metadata
		// leader: hand the partition to a follower first (an ordinary change).
		nx := c02Others(e.c, l.ID)[rng.Intn(2)]
		if !e.changeLeader(nx) || !e.waitLeads(nx) {
			return
		}
		for _, id := range c02Others(e.c, nx) {
			if !e.waitFollows(id, nx) {
				return
			}
		}
		if !e.publishAcked(1, client.AckPolicy_ALL, 40*time.Second) {
			e.inconclusive("publish after moving the partition off the metadata leader not acked")
			return
		}
		e.settle("f14-moved")
		l = e.c.Nodes[nx]
	}
	lp := l.Partition(e.stream, 0)
	_, epoch := lp.GetLeader()
	fol := c02Others(e.c, l.ID)
	x := fol[rng.Intn(2)]
	e.step("variant=%s deposed=%s/e%d successor=%s", variant, l.ID, epoch, x)
	e.count("f14_variant_"+variant, 1)
	var ag *c02ApplyGate
	switch variant {
	case "late-apply":
		ag = e.holdApply(l.ID, epoch)
		if lp.ISRSize() != 3 {
			e.inconclusive("ISR shrank before the leader could be deposed")
			return
		}
		if !e.changeLeader(x) || !e.waitLeads(x) {
			return
		}
	case "restart-stale":
		e.pauseReplication(l.ID)
		if !e.allAcked(e.publish(rng.Range(1, 2), client.AckPolicy_LEADER, 15*time.Second)) {
			e.inconclusive("tail on the leader not written")
			return
		}
		e.stop(l.ID)
		nl := e.waitLeaderNot(l.ID)
		if nl == nil {
			return
		}
		x = nl.ID
		e.checkLeaderComplete("f14-after-failover")
		ag = e.holdApply(l.ID, epoch)
		if !e.restart(l.ID) {
			return
		}
	}
	select {
	case <-ag.caught:
	case <-time.After(30 * time.Second):
		// restart-stale: the restarted server's own Raft log already held the
		// change, so it never resumed its old epoch
		e.releaseApply(l.ID)
		e.step("%s applied the leader change without a phase as deposed leader", l.ID)
		if e.waitFollows(l.ID, x) {
			e.publish(2, client.AckPolicy_ALL, 45*time.Second)
			e.settle("f14-no-deposed-phase")
		}
		return
	}
	zp := e.c.Nodes[l.ID].Partition(e.stream, 0)
	xp := e.c.Nodes[x].Partition(e.stream, 0)
	if zp == nil || xp == nil {
		e.inconclusive("partition objects missing")
		return
	}
	if !zp.IsLeader() {
		e.releaseApply(l.ID)
		e.step("%s is not leading its old epoch while the change is pending", l.ID)
		if e.waitFollows(l.ID, x) {
			e.publish(2, client.AckPolicy_ALL, 45*time.Second)
			e.settle("f14-not-leading")
		}
		return
	}
	z0, x0 := zp.log.NewestOffset(), xp.log.NewestOffset()
	fl := e.floodStart(kit.Scale(4000, 8000))
	defer fl.end(e)
	// both the deposed leader and its successor are sequencing the flood
	both := vfWait(20*time.Second, func() bool {
		return zp.log.NewestOffset() >= z0+50 && xp.log.NewestOffset() >= x0+50
	})
	if !both {
		e.inconclusive("the deposed leader and its successor did not both receive the flood")
		return
	}
	e.step("deposed %s wrote %d messages under e%d while %s leads (newest %d vs %d)", l.ID, zp.log.NewestOffset()-z0, epoch, x, zp.log.NewestOffset(), xp.log.NewestOffset())
	e.count("f14_deposed_leader_sequenced_publishes_while_successor_led", 1)
	// publishes are in flight at the deposed leader if it has not yet written
	// everything that was sent
	backlog := atomic.LoadInt64(&fl.sent) - (zp.log.NewestOffset() - z0)
	e.releaseApply(l.ID)
	e.step("leader change applied by %s with about %d published messages not yet written by it", l.ID, backlog)
	if !e.waitFollows(l.ID, x) {
		return
	}
	e.mu.Lock()
	e.covered = backlog > 0
	e.mu.Unlock()
	if backlog > 0 {
		e.count("f14_leader_change_applied_with_publishes_in_flight_at_the_deposed_leader", 1)
	}
	fl.end(e)
	if !e.publishAcked(2, client.AckPolicy_ALL, 60*time.Second) {
		e.inconclusive("publishes after the flood not acked")
		return
	}
	e.settle("f14-end")
}
