//go:build verif

package server

// C19 — telemetry can be switched off (real binary part).  /repo's main
// package is built into the work directory and every documented opt-out route
// is exercised on that binary under `strace -f -e trace=connect`.  The sandbox
// has no network, so a telemetry attempt shows up as a connect() of the
// resolver to port 53 (or, when a proxy is configured through HTTPS_PROXY, as a
// connect() to the harness's listener, which also records the CONNECT line).
// After a graceful stop (SIGINT) the trace of an opt-out run must contain no
// connect() other than unix sockets and loopback connections that are neither
// DNS nor the proxy.  Positive controls with telemetry on must show the
// attempt; otherwise the unit reports inconclusive.

import (
	"bufio"
	"bytes"
	"context"
	"fmt"
	"net"
	"os"
	"os/exec"
	"path/filepath"
	"regexp"
	"strconv"
	"strings"
	"sync"
	"syscall"
	"testing"
	"time"

	client "github.com/liftbridge-io/liftbridge-api/v2/go"
	"google.golang.org/grpc"
	"google.golang.org/grpc/credentials/insecure"

	kit "github.com/liftbridge-io/liftbridge/internal/verifkit"
)

type c19BinCase struct {
	Name   string
	Route  string // config-file | env-var:with-config-file | env-var:no-config-file | control-default | control-config-file
	Expect string // "zero" | "some"
	Proxy  bool   // HTTPS_PROXY points at the harness listener
}

// c19Proxy is a TCP listener that records the first line of every connection
// (an HTTP CONNECT for https through a proxy) and answers 502.
type c19Proxy struct {
	ln    net.Listener
	mu    sync.Mutex
	lines []string
}

func c19NewProxy() (*c19Proxy, error) {
	ln, err := net.Listen("tcp", "127.0.0.1:0")
	if err != nil {
		return nil, err
	}
	p := &c19Proxy{ln: ln}
	go func() {
		for {
			c, err := ln.Accept()
			if err != nil {
				return
			}
			go func(c net.Conn) {
				defer c.Close()
				c.SetDeadline(time.Now().Add(5 * time.Second))
				line, _ := bufio.NewReader(c).ReadString('\n')
				p.mu.Lock()
				p.lines = append(p.lines, strings.TrimSpace(line))
				p.mu.Unlock()
				c.Write([]byte("HTTP/1.1 502 Bad Gateway\r\nContent-Length: 0\r\nConnection: close\r\n\r\n"))
			}(c)
		}
	}()
	return p, nil
}

func (p *c19Proxy) Port() int { return p.ln.Addr().(*net.TCPAddr).Port }
func (p *c19Proxy) Lines() []string {
	p.mu.Lock()
	defer p.mu.Unlock()
	return append([]string(nil), p.lines...)
}
func (p *c19Proxy) Close() { p.ln.Close() }

// c19FreePort picks a listen port for the binary below the kernel's ephemeral
// range (every other harness process binds port 0, i.e. ephemeral ports, so a
// port found free here is not handed to somebody else before the binary binds
// it).  The port plays no role in any oracle.
func c19FreePort(rng *kit.RNG) (int, error) {
	for try := 0; try < 200; try++ {
		port := 20000 + rng.Intn(12000)
		ln, err := net.Listen("tcp", fmt.Sprintf(":%d", port))
		if err != nil {
			continue
		}
		ln.Close()
		return port, nil
	}
	return 0, fmt.Errorf("no free port found")
}

// c19ChildOf finds the child of strace that executes exe.  (strace also forks
// short-lived children of its own to probe ptrace features; those, and the
// tracee before its execve, do not have exe as their executable.)
func c19ChildOf(ppid int, exe string) int {
	ents, err := os.ReadDir("/proc")
	if err != nil {
		return 0
	}
	for _, e := range ents {
		pid, err := strconv.Atoi(e.Name())
		if err != nil {
			continue
		}
		b, err := os.ReadFile(filepath.Join("/proc", e.Name(), "stat"))
		if err != nil {
			continue
		}
		// pid (comm) state ppid ...
		s := string(b)
		i := strings.LastIndex(s, ")")
		if i < 0 {
			continue
		}
		f := strings.Fields(s[i+1:])
		if len(f) >= 2 {
			if pp, _ := strconv.Atoi(f[1]); pp == ppid {
				if l, err := os.Readlink(filepath.Join("/proc", e.Name(), "exe")); err == nil && l == exe {
					return pid
				}
			}
		}
	}
	return 0
}

type c19Connect struct {
	Family string `json:"family"`
	Addr   string `json:"addr,omitempty"`
	Port   int    `json:"port,omitempty"`
	Class  string `json:"class"`
	Line   string `json:"line"`
}

var (
	c19ReConnect = regexp.MustCompile(`connect\(\d+, \{sa_family=(AF_\w+)([^}]*)\}`)
	c19ReV4      = regexp.MustCompile(`sin_port=htons\((\d+)\), sin_addr=inet_addr\("([^"]+)"\)`)
	c19ReV6      = regexp.MustCompile(`sin6_port=htons\((\d+)\).*inet_pton\(AF_INET6, "([^"]+)"`)
)

func c19Loopback(addr string) bool {
	ip := net.ParseIP(addr)
	return ip != nil && ip.IsLoopback()
}

// c19ParseTrace classifies every connect() of an strace output.
func c19ParseTrace(path string, natsPort, proxyPort int) (conns []c19Connect, exited0 bool, err error) {
	b, err := os.ReadFile(path)
	if err != nil {
		return nil, false, err
	}
	for _, ln := range strings.Split(string(b), "\n") {
		if strings.Contains(ln, "+++ exited with 0 +++") {
			exited0 = true
		}
		m := c19ReConnect.FindStringSubmatch(ln)
		if m == nil {
			continue
		}
		c := c19Connect{Family: m[1], Line: strings.TrimSpace(ln)}
		if len(c.Line) > 220 {
			c.Line = c.Line[:220]
		}
		switch m[1] {
		case "AF_UNIX", "AF_LOCAL":
			c.Class = "unix"
		case "AF_UNSPEC":
			c.Class = "unspec" // dissolves a UDP association, not a connection
		case "AF_INET", "AF_INET6":
			var pm []string
			if m[1] == "AF_INET" {
				pm = c19ReV4.FindStringSubmatch(m[2])
			} else {
				pm = c19ReV6.FindStringSubmatch(m[2])
			}
			if pm == nil {
				c.Class = "unparsed"
				break
			}
			c.Port, _ = strconv.Atoi(pm[1])
			c.Addr = pm[2]
			lo := c19Loopback(c.Addr)
			switch {
			case c.Port == 53 || c.Port == 853 || c.Port == 5353:
				c.Class = "dns"
			case !lo:
				c.Class = "external"
			case proxyPort != 0 && c.Port == proxyPort:
				c.Class = "proxy"
			case c.Port == natsPort:
				c.Class = "nats"
			default:
				c.Class = "loopback-other"
			}
		default:
			c.Class = "other-family"
		}
		conns = append(conns, c)
	}
	return conns, exited0, nil
}

func c19IsAttempt(class string) bool {
	return class == "dns" || class == "external" || class == "proxy" || class == "unparsed" || class == "other-family"
}

func c19CleanEnv(extra ...string) []string {
	var out []string
	for _, kv := range os.Environ() {
		k := strings.SplitN(kv, "=", 2)[0]
		u := strings.ToUpper(k)
		if strings.HasPrefix(u, "LIFTBRIDGE_") || strings.HasSuffix(u, "_PROXY") || strings.HasPrefix(u, "VERIF_") || u == "GORACE" {
			continue
		}
		out = append(out, kv)
	}
	return append(out, extra...)
}

func TestVerifC19Binary(t *testing.T) {
	rep := kit.NewReport("C19", "binary")
	defer rep.Write()
	rep.SetRule("the real liftbridge binary (go build of $VERIF_REPO's main package) runs under `strace -f -e trace=connect` against a NATS server started by the harness; routes: telemetry.enabled: <off> in a config file; LIFTBRIDGE_TELEMETRY_ENABLED=<off> with a config file; the same with flags only (no config file); the same next to a config file that DISAGREES (spells out enabled: true, nested form in even and dotted form in odd rounds: the environment opt-out must win); <off> = the documented `false` in one of the first two rounds of every route, otherwise the next entry of a seeded rotation over the other spellings of 'off' (false literals of strconv.ParseBool / YAML 1.1 booleans, bare and quoted, the word `disabled`; classes alternate, a YAML-1.1 literal such as no/off first); next to the opt-out the reporting interval is left unset or set to a positive value, 0 or a negative value (in the file resp. through LIFTBRIDGE_TELEMETRY_INTERVAL_SECONDS — also next to a file that says off and has no interval of its own), rotating over routes and rounds; positive controls with telemetry on (defaults without proxy => resolver connect to port 53; config file + HTTPS_PROXY => CONNECT at the harness listener).  The binary is used over gRPC (stream with needle name, publishes), then stopped with SIGINT.  Oracle on the complete trace of an opt-out run: no connect() except unix sockets and loopback connections other than DNS / the proxy, and the proxy listener saw nothing.  non-trivial = binary served gRPC, exited 0 after SIGINT and the trace was parsed; distinct = route x proxy x interval class x spelling class x round")
	rep.Assume("the sandbox has no network: a telemetry attempt is visible as the resolver's connect() to port 53 (nameserver 127.0.0.1) or as a connect() to the HTTPS_PROXY listener; if neither positive control shows an attempt the unit is inconclusive and the in-process unit alone decides")
	rep.Assume("disagreeing sources: server/config.go declares LIFTBRIDGE_TELEMETRY_ENABLED / _INTERVAL_SECONDS as 'Environment variables overriding the telemetry settings' and CHANGELOG.md documents the variable as an opt-out without conditions, so LIFTBRIDGE_TELEMETRY_ENABLED=<off> must hold although the config file in use says enabled: true")
	rep.Assume("main.go has no command-line flag for telemetry; the programmatic route is covered by the in-process unit")
	work := os.Getenv("VERIF_WORK")
	if work == "" {
		work = os.TempDir()
	}
	dir, err := os.MkdirTemp(work, "c19-bin-")
	if err != nil {
		rep.Inconc(err.Error())
		return
	}
	defer os.RemoveAll(dir)
	repo := os.Getenv("VERIF_REPO")
	if repo == "" {
		repo = "/repo"
	}
	bin := filepath.Join(dir, "liftbridge-c19")
	bcmd := exec.Command("go", "build", "-o", bin, ".")
	bcmd.Dir = repo
	bcmd.Env = append(c19CleanEnvKeepGo(), "GOFLAGS=-mod=mod", "GOPROXY=off")
	if out, err := bcmd.CombinedOutput(); err != nil {
		rep.Eval()
		rep.Inconc(fmt.Sprintf("cannot build the liftbridge binary: %v: %s", err, c19Tail(string(out), 600)))
		return
	}
	if real, err := filepath.EvalSymlinks(bin); err == nil {
		bin = real // /proc/<pid>/exe shows the resolved path
	}
	strace, err := exec.LookPath("strace")
	if err == nil {
		probe := filepath.Join(dir, "probe.trace")
		if e := exec.Command(strace, "-f", "-e", "trace=connect", "-o", probe, "/bin/true").Run(); e != nil {
			err = fmt.Errorf("strace cannot trace here: %v", e)
		}
	}
	if err != nil {
		rep.Eval()
		rep.Inconc("strace not usable: " + err.Error())
		return
	}

	cases := []c19BinCase{
		{"control-default-noproxy", "control-default", "some", false},
		{"control-config-file-proxy", "control-config-file", "some", true},
		{"off-config-file", "config-file", "zero", true},
		{"off-env-with-config-file", "env-var:with-config-file", "zero", true},
		{"off-env-no-config-file", "env-var:no-config-file", "zero", true},
		{"off-config-file-noproxy", "config-file", "zero", false},
		// two sources that disagree: the file spells out enabled: true, the
		// operator opts out through the environment (see c19_conflict_test.go)
		{"off-env-vs-config-file-on", "env-var:config-file-says-enabled", "zero", true},
	}
	rounds := kit.Scale(2, 20)
	base := kit.Mix(kit.Seed(), 0xC19B)
	// how the opt-out is spelled rotates over routes and rounds (see
	// c19_spelling_test.go): every route sees the documented `false` in one of
	// the first two rounds and members of the other classes otherwise
	fileRot := c19SpellingRotation(kit.NewRNG(kit.Mix(base, 0xF11E)), c19FileSpellings)
	envRot := c19SpellingRotation(kit.NewRNG(kit.Mix(base, 0xE7)), c19EnvSpellings)
	spellingFor := func(name string, round int) c19Spelling {
		switch name {
		case "off-config-file":
			return fileRot[(2*round)%len(fileRot)]
		case "off-config-file-noproxy":
			if round == 0 {
				return c19Documented
			}
			return fileRot[(2*round-1)%len(fileRot)]
		case "off-env-with-config-file":
			if round == 0 {
				return c19Documented
			}
			return envRot[(2*round-1)%len(envRot)]
		case "off-env-no-config-file":
			if round == 1 {
				return c19Documented
			}
			return envRot[(2*round)%len(envRot)]
		case "off-env-vs-config-file-on":
			if round == 0 {
				return c19Documented
			}
			return envRot[(2*round+1)%len(envRot)]
		}
		return c19Documented
	}
	type result struct {
		cs       c19BinCase
		round    int
		ok       bool
		attempts []c19Connect
		proxy    []string
		replay   map[string]any
	}
	var mu sync.Mutex
	var results []result
	total := len(cases) * rounds
	kit.Parallel(total, kit.EnvInt("C19_BINARY_WORKERS", 4), func(idx int) {
		cs := cases[idx%len(cases)]
		round := idx / len(cases)
		rng := kit.NewRNG(kit.Mix(base, uint64(idx)))
		n := c19NewNeedles(rng)
		rep.Eval()
		cdir := filepath.Join(dir, fmt.Sprintf("case%02d", idx))
		os.MkdirAll(cdir, 0755)
		ns, natsURL, natsPort := c19StartNATS(n.NATSUser, n.NATSPass)
		defer ns.Shutdown()
		var proxy *c19Proxy
		proxyPort := 0
		env := []string{}
		if cs.Proxy {
			p, err := c19NewProxy()
			if err != nil {
				rep.Inconc("proxy listener: " + err.Error())
				return
			}
			proxy = p
			defer proxy.Close()
			proxyPort = proxy.Port()
			pu := fmt.Sprintf("http://127.0.0.1:%d", proxyPort)
			env = append(env, "HTTPS_PROXY="+pu, "https_proxy="+pu, "HTTP_PROXY="+pu, "http_proxy="+pu)
		}
		port, err := c19FreePort(rng)
		if err != nil {
			rep.Inconc(err.Error())
			return
		}
		dataDir := filepath.Join(cdir, n.DirName)
		file := filepath.Join(cdir, "liftbridge.yaml")
		yaml := func(tel string) string {
			y := strings.Replace(c19Yaml(n, natsURL, dataDir, tel), "listen: 127.0.0.1:0", fmt.Sprintf("listen: 127.0.0.1:%d", port), 1)
			y = strings.Replace(y, "port: 0", fmt.Sprintf("port: %d", port), 1)
			y = strings.Replace(y, "level: error", "level: info", 1)
			os.WriteFile(file, []byte(y), 0644)
			return y
		}
		flagsOnly := []string{"--nats-servers", strings.Replace(natsURL, "nats://", fmt.Sprintf("nats://%s:%s@", n.NATSUser, n.NATSPass), 1),
			"--port", strconv.Itoa(port), "--data-dir", dataDir, "--raft-bootstrap-seed", "--id", n.ServerID, "--namespace", n.Namespace, "--level", "info"}
		var args []string
		replay := map[string]any{"case": cs.Name, "route": cs.Route, "round": round, "seed": kit.Seed(), "proxy": cs.Proxy}
		// the reporting interval written next to the opt-out must not matter:
		// unset / positive / 0 / negative, rotating over routes and rounds
		ivClass, ivLine, ivVal := "unset", "", 0
		switch {
		case cs.Name == "off-config-file-noproxy" && round%2 == 0:
			ivClass, ivVal = "zero", 0
		case cs.Name == "off-config-file-noproxy":
			ivClass, ivVal = "negative", -rng.Range(1, 86400)
		case (cs.Name == "off-config-file" || cs.Name == "off-env-vs-config-file-on") && round%2 == 1:
			ivClass, ivVal = "positive", rng.Range(1, 5)
		case cs.Expect == "zero" && strings.HasPrefix(cs.Route, "env-var") && round%2 == 1:
			if (round/2)%2 == 0 {
				ivClass, ivVal = "zero", 0
			} else {
				ivClass, ivVal = "negative", -rng.Range(1, 86400)
			}
		}
		if ivClass != "unset" {
			ivLine = fmt.Sprintf("  interval:\n    seconds: %d\n", ivVal)
			replay["interval_class"] = ivClass
			replay["interval_seconds"] = ivVal
		}
		sp := spellingFor(cs.Name, round)
		if cs.Expect == "zero" {
			replay["optout_spelling"] = sp
		}
		switch cs.Route {
		case "config-file":
			replay["config_file"] = yaml("telemetry:\n  enabled: " + sp.Text + "\n" + ivLine)
			args = []string{"--config", file}
			if cs.Name == "off-config-file" && ivClass == "unset" {
				// disagreeing sources: the file says off, the environment still
				// carries a reporting interval
				ivClass, ivVal = "positive", rng.Range(1, 5)
				env = append(env, fmt.Sprintf("%s=%d", c19EnvInterval, ivVal))
				replay["interval_class"], replay["interval_seconds"], replay["interval_given_through"] = ivClass, ivVal, "env"
			}
		case "env-var:with-config-file":
			if ivLine != "" {
				replay["config_file"] = yaml("telemetry:\n" + ivLine)
			} else {
				replay["config_file"] = yaml("")
			}
			env = append(env, c19EnvVar+"="+sp.Text)
			args = []string{"--config", file}
		case "env-var:config-file-says-enabled":
			// nested form in even rounds, dotted form in odd rounds
			if round%2 == 0 {
				replay["config_file"] = yaml("telemetry:\n  enabled: true\n" + ivLine)
			} else if ivClass != "unset" {
				replay["config_file"] = yaml(fmt.Sprintf("telemetry.enabled: true\ntelemetry.interval.seconds: %d\n", ivVal))
			} else {
				replay["config_file"] = yaml("telemetry.enabled: true\n")
			}
			env = append(env, c19EnvVar+"="+sp.Text)
			args = []string{"--config", file}
		case "env-var:no-config-file":
			env = append(env, c19EnvVar+"="+sp.Text)
			if ivClass != "unset" {
				env = append(env, fmt.Sprintf("LIFTBRIDGE_TELEMETRY_INTERVAL_SECONDS=%d", ivVal))
			}
			args = flagsOnly
		case "control-default":
			args = flagsOnly
		case "control-config-file":
			replay["config_file"] = yaml("telemetry:\n  enabled: true\n")
			args = []string{"--config", file}
		}
		replay["args"] = args
		replay["env"] = env
		// one lifetime of the binary: start under strace, use, SIGINT, parse
		published := 0
		runLife := func(life int) ([]c19Connect, bool) {
			trace := filepath.Join(cdir, fmt.Sprintf("trace%d.txt", life))
			outf, _ := os.OpenFile(filepath.Join(cdir, "out.txt"), os.O_CREATE|os.O_WRONLY|os.O_APPEND, 0644)
			defer outf.Close()
			cmd := exec.Command(strace, append([]string{"-f", "-e", "trace=connect", "-o", trace, bin}, args...)...)
			cmd.Env = c19CleanEnv(env...)
			cmd.Dir = cdir
			cmd.Stdout, cmd.Stderr = outf, outf
			cmd.SysProcAttr = &syscall.SysProcAttr{Setpgid: true}
			if err := cmd.Start(); err != nil {
				rep.Inconc("cannot start strace: " + err.Error())
				return nil, false
			}
			waitCh := make(chan error, 1)
			go func() { waitCh <- cmd.Wait() }()
			kill := func() {
				syscall.Kill(-cmd.Process.Pid, syscall.SIGKILL)
				<-waitCh
			}
			exited := func() bool {
				select {
				case err := <-waitCh:
					waitCh <- err
					return true
				default:
					return false
				}
			}
			tail := func() string {
				b, _ := os.ReadFile(filepath.Join(cdir, "out.txt"))
				return c19Tail(string(b), 500)
			}
			var tracee int
			if !vfWait(20*time.Second, func() bool { tracee = c19ChildOf(cmd.Process.Pid, bin); return tracee != 0 || exited() }) || tracee == 0 {
				rep.Inconc(cs.Name + ": traced process not found: " + tail())
				kill()
				return nil, false
			}
			// wait until the binary serves gRPC, then use it
			addr := fmt.Sprintf("127.0.0.1:%d", port)
			conn, err := grpc.NewClient(addr, grpc.WithTransportCredentials(insecure.NewCredentials()))
			if err != nil {
				rep.Inconc("grpc client: " + err.Error())
				kill()
				return nil, false
			}
			defer conn.Close()
			api := client.NewAPIClient(conn)
			created := false
			up := vfWait(60*time.Second, func() bool {
				if exited() {
					return true
				}
				ctx, cancel := context.WithTimeout(context.Background(), 3*time.Second)
				defer cancel()
				_, err := api.CreateStream(ctx, &client.CreateStreamRequest{Name: n.Stream, Subject: n.Subject, ReplicationFactor: 1})
				if err == nil || strings.Contains(err.Error(), "already exists") {
					created = true
					return true
				}
				return false
			})
			if !up || !created {
				rep.Inconc(fmt.Sprintf("%s: watchdog: binary did not serve gRPC / create a stream: %s", cs.Name, tail()))
				kill()
				return nil, false
			}
			for k := 0; k < 3; k++ {
				ctx, cancel := context.WithTimeout(context.Background(), 10*time.Second)
				_, err := api.Publish(ctx, &client.PublishRequest{Stream: n.Stream, Key: []byte(n.MsgKey), Value: []byte(n.MsgValue), AckPolicy: client.AckPolicy_LEADER})
				cancel()
				if err == nil {
					published++
				}
			}
			if cs.Expect == "some" {
				// positive control: give the initial beacon its chance (logical
				// condition on the observers; the watchdog only bounds the wait)
				vfWait(15*time.Second, func() bool {
					if proxy != nil && len(proxy.Lines()) > 0 {
						return true
					}
					conns, _, _ := c19ParseTrace(trace, natsPort, proxyPort)
					for _, c := range conns {
						if c19IsAttempt(c.Class) {
							return true
						}
					}
					return false
				})
			}
			// graceful stop
			syscall.Kill(tracee, syscall.SIGINT)
			var werr error
			select {
			case werr = <-waitCh:
			case <-time.After(60 * time.Second):
				// ask the Go runtime of the binary for its goroutines (diagnosis
				// only), keep the dump next to the unit's log
				syscall.Kill(tracee, syscall.SIGQUIT)
				select {
				case <-waitCh:
					waitCh <- nil
				case <-time.After(10 * time.Second):
				}
				if b, err := os.ReadFile(filepath.Join(cdir, "out.txt")); err == nil {
					os.WriteFile(filepath.Join(work, fmt.Sprintf("c19-stuck-%s-%d.txt", cs.Name, idx)), b, 0644)
				}
				rep.Inconc(cs.Name + ": watchdog: binary did not exit within 60 s after SIGINT (goroutine dump kept in the unit's work directory)")
				kill()
				return nil, false
			}
			conns, exited0, err := c19ParseTrace(trace, natsPort, proxyPort)
			if err != nil {
				rep.Inconc(cs.Name + ": trace unreadable: " + err.Error())
				return nil, false
			}
			if !exited0 {
				rep.Inconc(fmt.Sprintf("%s: binary did not exit with status 0 after SIGINT (wait: %v): %s", cs.Name, werr, tail()))
				return nil, false
			}
			return conns, true
		}
		lifetimes := 1
		if kit.Thorough() || cs.Name == "off-config-file" || cs.Name == "off-env-with-config-file" {
			lifetimes = 2 // a restart on the same data directory must not change the answer
		}
		var conns []c19Connect
		for life := 0; life < lifetimes; life++ {
			c, ok := runLife(life)
			if !ok {
				return
			}
			conns = append(conns, c...)
			rep.Count("binary_lifetimes", 1)
		}
		classes := map[string]int{}
		var attempts []c19Connect
		for _, c := range conns {
			classes[c.Class]++
			rep.Count("connect_"+c.Class, 1)
			if c19IsAttempt(c.Class) && len(attempts) < 10 {
				attempts = append(attempts, c)
			}
		}
		if classes["nats"] == 0 {
			rep.Inconc(cs.Name + ": trace shows no connect() to the NATS server — trace incomplete")
			return
		}
		var plines []string
		if proxy != nil {
			plines = proxy.Lines()
			rep.Count("proxy_connections", int64(len(plines)))
		}
		replay["connect_classes"] = classes
		replay["published"] = published
		if ob, err := os.ReadFile(filepath.Join(cdir, "out.txt")); err == nil {
			var tl []string
			for _, l := range bytes.Split(ob, []byte("\n")) {
				if bytes.Contains(bytes.ToLower(l), []byte("telemetry")) {
					tl = append(tl, string(l))
				}
			}
			if len(tl) > 6 {
				tl = tl[:6]
			}
			replay["binary_log_lines_about_telemetry"] = tl
		}
		mu.Lock()
		results = append(results, result{cs, round, true, attempts, plines, replay})
		mu.Unlock()
		rep.Count("binary_runs_completed", 1)
		rep.Count("binary_runs_interval_"+ivClass, 1)
		if cs.Expect == "zero" {
			rep.Count("binary_runs_spelling_"+sp.Class, 1)
		}
		rep.Nontrivial(fmt.Sprintf("%s|proxy=%v|interval=%s|spelling=%s|round%d", cs.Route, cs.Proxy, ivClass, sp.Class, round))
		os.RemoveAll(cdir)
	})

	// ---- verdict: first the observers' liveness, then the opt-out routes
	dnsSeen, proxySeen := false, false
	for _, r := range results {
		if r.cs.Expect != "some" {
			continue
		}
		if len(r.attempts) > 0 && !r.cs.Proxy {
			dnsSeen = true
		}
		if r.cs.Proxy && (len(r.proxy) > 0 || len(r.attempts) > 0) {
			proxySeen = true
			for _, l := range r.proxy {
				if !strings.Contains(l, kit.C19DocumentedHost) {
					rep.Violation("C19:unexpected-endpoint", "the binary asked the proxy for "+l+" — documentation names "+kit.C19DocumentedHost, r.replay)
				}
			}
		}
		if r.round == 0 {
			rep.Sample(map[string]any{"case": r.cs.Name, "attempts": r.attempts, "proxy_saw": r.proxy})
		}
	}
	rep.SetInfo("control_without_proxy_shows_attempt", dnsSeen)
	rep.SetInfo("control_with_proxy_shows_attempt", proxySeen)
	for _, r := range results {
		if r.cs.Expect != "zero" {
			continue
		}
		observerLive := (r.cs.Proxy && proxySeen) || (!r.cs.Proxy && dnsSeen)
		if len(r.attempts) > 0 || len(r.proxy) > 0 {
			r.replay["connect_attempts"] = r.attempts
			r.replay["proxy_saw"] = r.proxy
			first := ""
			if len(r.attempts) > 0 {
				first = r.attempts[0].Line
			} else {
				first = "proxy: " + r.proxy[0]
			}
			sp, _ := r.replay["optout_spelling"].(c19Spelling)
			fp := "C19:telemetry-sent-while-disabled:" + r.cs.Route
			inproc := map[string]string{"config-file": "config-file-nested", "env-var:config-file-says-enabled": "env-var:with-config-file"}[r.cs.Route]
			if inproc == "" {
				inproc = r.cs.Route
			}
			if c19SpellingIneffective(inproc, sp) {
				fp += c19SpellingSuffix(sp)
			}
			if via, _ := r.replay["interval_given_through"].(string); via == "env" && r.cs.Route == "config-file" {
				fp += ":env-interval"
			}
			if c, _ := r.replay["interval_class"].(string); c == "zero" || c == "negative" {
				fp += ":interval-" + c
			}
			rep.Violation(fp,
				fmt.Sprintf("real binary, telemetry switched off through route %q (opt-out value written as %s; reporting interval: %v): the trace shows an outbound connection attempt (%s)", r.cs.Route, sp.Text, c19OrUnset(r.replay["interval_seconds"]), first), r.replay)
			continue
		}
		if !observerLive {
			rep.Inconc(fmt.Sprintf("%s: no attempt seen, but the positive control (proxy=%v) showed none either — strace route cannot decide", r.cs.Name, r.cs.Proxy))
			continue
		}
		rep.Count("optout_runs_with_clean_trace", 1)
		if r.round == 0 {
			rep.Sample(map[string]any{"case": r.cs.Name, "connect_classes": r.replay["connect_classes"]})
		}
	}
}

func c19OrUnset(v any) any {
	if v == nil {
		return "unset"
	}
	return v
}

// c19CleanEnvKeepGo: environment for `go build` (keeps GOCACHE, HOME, PATH...).
func c19CleanEnvKeepGo() []string {
	var out []string
	for _, kv := range os.Environ() {
		k := strings.SplitN(kv, "=", 2)[0]
		if k == "GOFLAGS" || k == "GOPROXY" || k == "GORACE" || k == "GOTOOLCHAIN" || k == "GOSUMDB" {
			continue
		}
		out = append(out, kv)
	}
	return out
}

func c19Tail(s string, n int) string {
	if len(s) > n {
		return s[len(s)-n:]
	}
	return s
}
