//go:build verif

package server

// C10, forward subscriptions: start x stop product on shaped logs.

import (
	"context"
	"fmt"
	"testing"

	client "github.com/liftbridge-io/liftbridge-api/v2/go"
	"google.golang.org/grpc/codes"
	"google.golang.org/grpc/status"

	kit "github.com/liftbridge-io/liftbridge/internal/verifkit"
)

type c10Outcome struct {
	ok        bool
	inconc    bool
	delivered int
	fenced    bool
	terminal  bool
	syncErr   bool
	skipped   bool
}

// c10Forward runs one forward request against the current log and judges it.
func (e *c10Env) c10Forward(s c10Start, t c10Stop, st *c10State, caseSeed uint64) (out c10Outcome) {
	rep := e.rep
	w := st.wantForward(s, t)
	reqStr := c10ReqString(s, t, false)
	var delivered []c10Msg
	queue := w.inRange(st.committed())
	expectedAll := append([]c10Msg(nil), queue...)
	witness := func(obs string) map[string]any {
		wm := map[string]any{"seed": kit.Seed(), "shape_seed": e.seed, "case_seed": caseSeed, "shape": e.shape, "log": st.summary(),
			"request": reqStr, "oracle": map[string]any{"requested_start": w.SReq, "effective_start": w.SEff, "has_bound": w.HasBound,
				"bound": w.Bound, "bound_kind": w.BoundWhy, "empty_range_ok": w.EmptyOK, "unspecified": w.Unspecified},
			"expected_offsets": c10Offs(expectedAll), "delivered_offsets": c10Offs(delivered), "observed": obs}
		for k, v := range e.extra {
			wm[k] = v
		}
		return wm
	}
	cause := e.causeForward(st, s, t, w)
	if cause != "" && c10Seen("fwd|"+cause) >= c10CauseCap {
		out.skipped = true
		return
	}
	fail := func(kind, what string) {
		fp := fmt.Sprintf("C10:fwd:%s:start=%s:stop=%s", kind, s.Class, t.Class)
		if cause == "" {
			// the segment list may have changed since the state was read
			// (background roll of the active segment): probe again
			if st2, err := e.state(); err == nil {
				stc := *st
				stc.Bases = st2.Bases
				cause = e.causeForward(&stc, s, t, w)
			}
		}
		if cause != "" {
			c10Mark("fwd|" + cause)
			fp = fmt.Sprintf("C10:fwd:%s:%s", cause, kind)
		} else {
			c10Unattributed.Add(1)
		}
		if e.tag != "" {
			// lifecycle unit: one fingerprint per (event, kind of deviation, stop class)
			fp = fmt.Sprintf("C10:life:%s:%s:stop=%s", e.tag, kind, t.Class)
			what = "after [" + e.tag + "]: " + what
		}
		rep.Violation(fp, fmt.Sprintf("%s on %s log: %s", reqStr, e.shape.label(), what), witness(what))
	}
	inconc := func(what string) {
		out.inconc = true
		rep.Inconc(fmt.Sprintf("forward %s on %s log (shape seed %d): %s", reqStr, e.shape.label(), e.seed, what))
	}

	ctx, cancel := context.WithCancel(context.Background())
	defer cancel()
	req := c10Request(e.stream, s, t, false)
	if e.reqMut != nil {
		e.reqMut(req)
	}
	sub, err := e.srv.api.SubscribeInternal(ctx, req)
	if e.afterSub != nil {
		e.afterSub()
	}
	if err != nil {
		out.syncErr = true
		code := status.Code(err)
		rep.Count("sync_error_"+code.String(), 1)
		switch {
		case w.MustFailEmpty:
			if code != codes.ResourceExhausted {
				fail("wrong-sync-status", fmt.Sprintf("stop LATEST on an empty stream must fail with ResourceExhausted (pinned by TestSubscribeStopPosition), got %v", err))
				return
			}
		case w.EmptyOK, w.Unspecified != "":
			// empty range: an immediate error is accepted in place of the terminal status
		default:
			fail("subscribe-error", fmt.Sprintf("subscribe call failed with %v although the requested range is not empty (expected offsets %s)", err, c10Offs(queue)))
			return
		}
		out.ok = true
		return
	}
	defer sub.Close()
	if w.MustFailEmpty {
		fail("wrong-sync-status", "stop LATEST on an empty stream must fail with ResourceExhausted (pinned by TestSubscribeStopPosition), the subscription was created")
		return
	}

	if w.Unspecified != "" {
		// safety half only: ascending, committed, retained content, >= effective start
		e.safetyForward(sub, st, w, fail, inconc, &out)
		return
	}

	hwNow := st.HW
	fenceUsed := false
	doFence := func() bool {
		fenceUsed = true
		out.fenced = true
		added, err := e.fence(st)
		if err != nil {
			inconc("fence could not be appended: " + err.Error())
			return false
		}
		if len(added) > 0 {
			hwNow = added[len(added)-1].Off
		}
		more := w.inRange(added)
		queue = append(queue, more...)
		expectedAll = append(expectedAll, more...)
		return true
	}
	canFence := func() bool { return !fenceUsed }
	terminalDue := func() bool { return w.HasBound && w.Bound <= hwNow }
	seen := map[int64]bool{}

	for {
		wait := c10Grace
		if !canFence() {
			wait = c10Watchdog
		}
		if len(queue) > 0 {
			ev := c10Next(sub, wait)
			switch ev.Kind {
			case "msg":
				m, q := ev.Msg, queue[0]
				delivered = append(delivered, m)
				out.delivered++
				switch {
				case c10Same(m, q):
					seen[m.Off] = true
					queue = queue[1:]
					continue
				case m.Off == q.Off:
					fail("content", fmt.Sprintf("delivered %v, the log holds %v", m, q))
				case seen[m.Off]:
					fail("duplicate", fmt.Sprintf("offset %d delivered twice", m.Off))
				case m.Off < w.SEff:
					fail("below-start", fmt.Sprintf("delivered offset %d below the effective start %d", m.Off, w.SEff))
				case m.Off < q.Off:
					fail("out-of-order", fmt.Sprintf("delivered offset %d while offset %d was next", m.Off, q.Off))
				default:
					fail("missing", fmt.Sprintf("offset %d was skipped: offset %d was delivered while %d (committed, retained, in range) was next", q.Off, m.Off, q.Off))
				}
				return
			case "status":
				out.terminal = true
				fail("ended-early", fmt.Sprintf("subscription ended with %v %q before delivering offset %d (still expected: %s)", ev.St.Code(), ev.St.Message(), queue[0].Off, c10Offs(queue)))
				return
			default:
				if canFence() {
					// PROBE: not a verdict; what arrives next is judged by order
					rep.Count("grace_expired_fence_sent_as_probe", 1)
					if !doFence() {
						return
					}
					continue
				}
				inconc(fmt.Sprintf("watchdog: neither offset %d nor an end arrived", queue[0].Off))
				return
			}
		}
		// everything expected so far was delivered
		if terminalDue() {
			ev := c10Next(sub, wait)
			switch ev.Kind {
			case "status":
				out.terminal = true
				if ev.St.Code() != codes.ResourceExhausted {
					fail("wrong-status", fmt.Sprintf("range ended with status %v %q, documented is ResourceExhausted", ev.St.Code(), ev.St.Message()))
					return
				}
				out.ok = true
				return
			case "msg":
				delivered = append(delivered, ev.Msg)
				fail("extra", fmt.Sprintf("delivered offset %d beyond the %s %d (offset %d retained: %v); the range had ended and ResourceExhausted was due", ev.Msg.Off, w.BoundWhy, w.Bound, w.Bound, st.has(w.Bound)))
				return
			default:
				if canFence() {
					rep.Count("grace_expired_fence_sent_as_probe", 1)
					if !doFence() {
						return
					}
					continue
				}
				inconc(fmt.Sprintf("watchdog: the range ended at %d (<= HW %d) but neither a status nor a message arrived", w.Bound, hwNow))
				return
			}
		}
		if canFence() {
			if !doFence() {
				return
			}
			continue
		}
		// keeps waiting, as asked (shown by the fence arriving as the next delivery)
		out.ok = true
		return
	}
}

// safetyForward: for requests whose meaning is not documented.
func (e *c10Env) safetyForward(sub *subscription, st *c10State, w c10Want, fail func(kind, what string), inconc func(string), out *c10Outcome) {
	last := int64(-1)
	for n := 0; n < len(st.All)+2; n++ {
		ev := c10Next(sub, c10Grace)
		if ev.Kind != "msg" {
			out.ok = true
			return
		}
		out.delivered++
		m := ev.Msg
		i, ok := st.idx[m.Off]
		switch {
		case !ok || !c10Same(st.All[i], m):
			fail("safety-not-retained", fmt.Sprintf("delivered %v which is not a retained message", m))
			return
		case m.Off > st.HW:
			fail("safety-uncommitted", fmt.Sprintf("delivered offset %d above the HW %d", m.Off, st.HW))
			return
		case m.Off <= last:
			fail("safety-order", fmt.Sprintf("delivered offset %d after %d", m.Off, last))
			return
		case m.Off < w.SEff:
			fail("safety-below-start", fmt.Sprintf("delivered offset %d below the effective start %d", m.Off, w.SEff))
			return
		}
		last = m.Off
	}
	out.ok = true
}

type c10Pair struct{ s, t string }

func c10Plan(rng *kit.RNG, starts, stops []string) []c10Pair {
	var plan []c10Pair
	for _, s := range starts {
		for _, t := range stops {
			plan = append(plan, c10Pair{s, t})
		}
	}
	for i := len(plan) - 1; i > 0; i-- {
		j := rng.Intn(i + 1)
		plan[i], plan[j] = plan[j], plan[i]
	}
	return plan
}

// c10GenShape derives shape #i of a run from the seed; kinds and flags cycle
// so that every tier covers all of them.
func c10GenShape(rng *kit.RNG, i int, reverse bool) c10Shape {
	kinds := []string{"compacted", "dense", "trimmed", "both", "compacted", "dense", "empty", "trimmed", "compacted", "dense"}
	sh := c10Shape{Kind: kinds[i%len(kinds)]}
	sh.SegBytes = []int64{1, 160, 420, 1 << 20}[rng.Intn(4)]
	sh.Batch = rng.Range(1, 3)
	switch sh.Kind {
	case "empty":
		sh.N = 0
		sh.SegBytes = []int64{1, 1 << 20}[rng.Intn(2)]
	case "dense":
		sh.N = rng.Range(1, 30)
		sh.ViaAPI = i%4 == 1
		sh.EmptyActive = i%20 == 5 && !reverse
		if sh.EmptyActive {
			sh.SegBytes, sh.ViaAPI = 1, false
		}
	case "compacted":
		sh.N = rng.Range(12, 50)
		sh.Keys = rng.Range(2, 8)
		sh.SegBytes = []int64{1, 160, 300, 420}[rng.Intn(4)]
		sh.HWInside = rng.Chance(1, 4)
		sh.ViaAPI = !sh.HWInside && rng.Chance(1, 4)
	case "trimmed":
		sh.N = rng.Range(8, 40)
		sh.SegBytes = []int64{1, 160, 300}[rng.Intn(3)]
		sh.RetMsgs = int64(rng.Range(2, sh.N-2))
		sh.ViaAPI = rng.Chance(1, 4)
	case "both":
		sh.N = rng.Range(16, 50)
		sh.Keys = rng.Range(2, 8)
		sh.SegBytes = []int64{1, 160, 300}[rng.Intn(3)]
		sh.RetMsgs = int64(rng.Range(6, sh.N/2+2))
	}
	if !sh.HWInside && !sh.EmptyActive && rng.Chance(2, 5) {
		sh.Tail = rng.Range(1, 4)
	}
	if sh.HWInside {
		sh.Tail = 1 // label only: the uncommitted suffix is what was not committed before Clean()
	}
	sh.Readonly = !sh.EmptyActive && i%5 == 3 || (i%10 == 6)
	if sh.Kind == "compacted" && !reverse {
		// compaction only: what a reader must do when RETENTION deletes the
		// segment it is positioned in is not documented (observed: the
		// subscription ends with Unknown "segment has been closed")
		sh.CleanWaiting = rng.Bool()
	}
	// half of the directly appended logs carry runs of equal timestamps
	sh.EqTS = !sh.ViaAPI && sh.N > 0 && rng.Bool()
	return sh
}

func c10Assumptions(rep *kit.Report) {
	rep.Assume("oracle content = raw scan of the partition log with an uncommitted reader (trusted; C01/C08 check it) + HighWatermark(); every clock reading is different (mocked clock, +10 per reading), so messages stamped by the server itself have strictly increasing timestamps; directly appended logs of shape '+eqts' carry runs of 2..5 consecutive messages with EQUAL timestamps (a clock that repeats a reading; nothing in the write path excludes it), inside a segment, across segment boundaries, at the log start and end; timestamps never decrease (not generated)")
	rep.Assume("with equal timestamps the documented wording is taken literally: a TIMESTAMP start is the FIRST retained message with timestamp >= the start time (client_implementation.md StartAtTime; commitlog.EarliestOffsetAfterTimestamp 'earliest offset whose timestamp is greater than or equal'), a STOP_TIMESTAMP range holds EVERY message with timestamp <= the stop time, i.e. it ends at the LAST message carrying that timestamp (commitlog.LatestOffsetBeforeTimestamp 'latest offset whose timestamp is less than or equal'; inclusive bound pinned by TestSubscribeStopPosition); the stop offset is resolved at subscribe time, so the fence (always a fresh timestamp) lies beyond it")
	rep.Assume("documented start rules used: OFFSET/TIMESTAMP = first retained message with offset/timestamp >= the value (client_implementation.md StartAtOffset/StartAtTime), so a start below the oldest retained offset or inside a compaction gap yields the next retained message (TestSubscribeOffsetUnderflow); EARLIEST = oldest retained, LATEST = newest, NEW_ONLY = after the newest; any resolved start above the HW waits for the next message that becomes committed, i.e. delivery resumes at HW+1 (TestSubscribeOffsetOverflow, TestSubscribeOffsetOverflowEmptyStream) - this also covers LATEST/NEW_ONLY/TIMESTAMP resolving into a not yet committed tail")
	rep.Assume("documented stop rules used: STOP_OFFSET / STOP_LATEST / STOP_TIMESTAMP deliver the retained messages up to and including the stop offset / the newest offset at subscribe time / the last message with timestamp <= the stop time (inclusive bounds pinned by TestSubscribeStopPosition) and then end with ResourceExhausted; the end is demanded as soon as a committed message at or beyond the stop offset exists; a read-only partition ends with ResourceExhausted at the end of the log (TestSetStreamReadonlySubscription); STOP_LATEST on an empty stream fails immediately with ResourceExhausted (TestSubscribeStopPosition)")
	rep.Assume("when the requested range can never hold a message (stop before the start, stop timestamp before the first message, NEW_ONLY on a read-only partition) an error returned by the subscribe call itself (any code) is accepted in place of the terminal status; if the subscription is created it must deliver nothing and end with ResourceExhausted")
	rep.Assume("not documented, safety half only (retained content, committed, ascending, not below the effective start): a stop offset that lies between HW+1 and a requested start offset above the HW")
	rep.Assume("not judged: what happens to a subscription positioned in a segment that RETENTION deletes underneath it (observed on this tree: it ends with Unknown 'segment has been closed'); Clean() is therefore run under a waiting subscription only on compaction-only logs, where the reader is expected to carry on (ErrSegmentReplaced handling) and the fence must still be the next delivery")
	rep.Assume("the HW is always set to the offset of a retained message (as the leader does); status message texts are not compared, only codes")
}

// c10Run drives one unit: nShapes shaped logs, each with up to nCases requests.
func c10Run(t *testing.T, unit string, reverse bool, nShapes, nCases int) {
	c10RunOpt(t, unit, reverse, nShapes, nCases, nil, nil)
}

// c10RunOpt: cfgMut adjusts the server configuration, gen replaces the shape
// generator (batch unit).
func c10RunOpt(t *testing.T, unit string, reverse bool, nShapes, nCases int, cfgMut func(*Config), gen func(rng *kit.RNG, i int) c10Shape) {
	rep := kit.NewReport("C10", unit)
	defer rep.Write()
	c10InstallClock()
	c10Assumptions(rep)
	rep.SetRule("seeded log shapes (kind dense/compacted/trimmed/both/empty x segment size 1B..1MiB x append batch 1..3 x uncommitted tail 0..4 x HW inside a compacted segment x read-only via SetStreamReadonly x published through the API or appended directly x empty active segment rolled by the cleaner) on one single-node server, one stream per shape; per shape a shuffled product of start classes (" + fmt.Sprint(len(c10StartClasses)) + ") x stop classes is resolved against the CURRENT log content and issued through apiServer.SubscribeInternal; every delivery is compared (offset, key, value, timestamp) with the list the oracle computed from a raw scan + HW, finite ranges must end with the documented status, keep-waiting is shown by a fence message (append + commit) arriving as the next delivery; non-trivial = request held on a log with gaps / trimmed head / HW below the end / read-only / several segments and delivered or ended; distinct = shape label + start class + stop class")
	if gen != nil {
		rep.SetRule("seeded logs PUBLISHED THROUGH THE PUBLISH API in bursts of 1..8 concurrent publishers (kinds dense / compacted / trimmed / both, segment size 1B..1MiB, uncommitted tail 0..3 appended directly, read-only) on a single-node server whose leader batches (this unit: see the unit name - batch.max.time 3 ms + batch.max.messages 5, or the defaults), every clock reading different (mocked clock); per log a shuffled product of the forward unit's start x stop classes, which include the RECEPTION TIMESTAMP OF AN ACK (first / middle / last message of a burst) as start and as stop time and the timestamp of a run of equal timestamps if the log has one; judged by the forward unit's oracle (raw scan + HW + documented rules: stop time T = every message with timestamp <= T, start time T = first message with timestamp >= T); non-trivial / distinct as in the forward unit")
	}
	c, srv, err := vfSingle("c10"+unit, func(cfg *Config) {
		cfg.Streams.CleanerInterval = 3600 * 1e9
		// keep the server's error log in the unit's log.txt (diagnosis only)
		cfg.LogSilent = false
		cfg.LogLevel = 2
		if cfgMut != nil {
			cfgMut(cfg)
		}
	})
	if err != nil {
		rep.Inconc("server start: " + err.Error())
		return
	}
	defer c.Cleanup()
	root := kit.NewRNG(kit.Mix(kit.Seed(), map[bool]uint64{false: 0xC10F, true: 0xC10B}[reverse]))
	if gen != nil {
		root = kit.NewRNG(kit.Mix(kit.Seed(), 0xC10BA7))
	}
	seeds := make([]uint64, nShapes)
	for i := range seeds {
		seeds[i] = root.Uint64()
	}
	kit.Parallel(nShapes, kit.Workers(), func(i int) {
		if c10Unattributed.Load() >= c10UnattributedCap {
			return
		}
		rng := kit.NewRNG(seeds[i])
		sh := c10Shape{}
		if gen != nil {
			sh = gen(rng, i)
		} else {
			sh = c10GenShape(rng, i, reverse)
		}
		e, err := c10Build(rep, c, srv, sh, seeds[i])
		if err != nil {
			rep.Inconc(fmt.Sprintf("shape %d (%+v) could not be built: %v", i, sh, err))
			return
		}
		defer e.destroy()
		rep.Count("shapes_"+sh.Kind, 1)
		if st, err := e.state(); err == nil {
			if len(st.gaps(st.Oldest, st.Newest)) > 0 {
				rep.Count("shapes_with_offset_gaps", 1)
			}
			if st.Oldest > 0 {
				rep.Count("shapes_with_trimmed_head", 1)
			}
			if len(st.Bases) > 1 {
				rep.Count("shapes_multi_segment", 1)
			}
			if st.HW < st.Newest {
				rep.Count("shapes_hw_below_end", 1)
			}
			if st.Readonly {
				rep.Count("shapes_readonly", 1)
			}
			if runs := st.eqRuns(); len(runs) > 0 {
				rep.Count("shapes_with_equal_timestamp_runs", 1)
				rep.Count("equal_timestamp_runs", int64(len(runs)))
				for _, r := range runs {
					if st.segOf(st.All[r[0]].Off) != st.segOf(st.All[r[1]].Off) {
						rep.Count("equal_timestamp_runs_across_segments", 1)
					}
					if r[0] == 0 {
						rep.Count("equal_timestamp_runs_at_log_start", 1)
					}
					if r[1] == len(st.All)-1 {
						rep.Count("equal_timestamp_runs_at_log_end", 1)
					}
				}
			}
			if len(st.Acks) > 0 {
				rep.Count("shapes_published_in_bursts", 1)
			}
			if len(st.Bases) > 0 && st.Bases[len(st.Bases)-1] > st.Newest && len(st.All) > 0 {
				rep.Count("shapes_empty_active_segment", 1)
			}
			if i < 4 {
				rep.Sample(map[string]any{"shape": sh, "log": st.summary()})
			}
		}
		if reverse {
			e.runReverseCases(rng, nCases)
		} else {
			e.runForwardCases(rng, nCases)
		}
	})
}

func (e *c10Env) runForwardCases(rng *kit.RNG, nCases int) {
	rep := e.rep
	plan := c10Plan(rng, c10StartClasses, c10StopClasses)
	done := 0
	for _, pr := range plan {
		if done >= nCases || c10Unattributed.Load() >= c10UnattributedCap {
			break
		}
		st, err := e.state()
		if err != nil {
			rep.Inconc("log state unreadable: " + err.Error())
			return
		}
		if len(st.All) > 400 {
			return
		}
		s, ok := st.resolveStart(pr.s, rng)
		if !ok {
			continue
		}
		w0 := st.wantForward(s, c10Stop{Pos: client.StopPosition_STOP_ON_CANCEL})
		tt, ok := st.resolveStop(pr.t, rng, w0.SReq, w0.SEff)
		if !ok {
			continue
		}
		done++
		caseSeed := rng.Uint64()
		out := e.c10Forward(s, tt, st, caseSeed)
		if out.skipped {
			rep.Count("requests_skipped_cause_already_recorded", 1)
			continue
		}
		e.quiesce()
		if out.fenced {
			e.reshape()
		}
		rep.Eval()
		rep.Count("forward_requests", 1)
		rep.Count("messages_delivered_and_compared", int64(out.delivered))
		if out.fenced {
			rep.Count("fences", 1)
		}
		if out.terminal {
			rep.Count("terminal_statuses_seen", 1)
		}
		if out.syncErr {
			rep.Count("subscribe_call_errors", 1)
		}
		special := len(st.gaps(st.Oldest, st.Newest)) > 0 || st.Oldest > 0 || st.HW < st.Newest || st.Readonly || len(st.Bases) > 1 || st.emptyActive() || len(st.eqRuns()) > 0 || len(st.Acks) > 0
		if (s.Pos == client.StartPosition_TIMESTAMP && st.runOf(s.TS) >= 2) || (tt.Pos == client.StopPosition_STOP_TIMESTAMP && st.runOf(tt.TS) >= 2) {
			rep.Count("requests_with_start_or_stop_time_on_an_equal_timestamp_run", 1)
		}
		if out.ok && special && (out.delivered > 0 || out.terminal || out.fenced) {
			rep.Nontrivial("fwd|" + e.shape.label() + "|" + pr.s + "|" + pr.t)
		}
		rep.Count("start_"+pr.s, 1)
		rep.Count("stop_"+pr.t, 1)
	}
	e.quiesce()
	e.c10ReadonlyTransition(rng)
}

// c10ReadonlyTransition: a subscription that is waiting at the end of the log
// when the stream is set read-only through the API must then end with
// ResourceExhausted (after the not yet committed tail, once that commits).
func (e *c10Env) c10ReadonlyTransition(rng *kit.RNG) {
	rep := e.rep
	st, err := e.state()
	if err != nil || st.Readonly {
		return
	}
	classes := []string{"earliest", "latest", "new-only", "off-existing", "off-in-gap", "off-hw", "off-beyond", "ts-at", "ts-between-gap", "ts-after-all", "off-below-oldest"}
	var s c10Start
	ok := false
	for try := 0; try < 8 && !ok; try++ {
		s, ok = st.resolveStart(classes[rng.Intn(len(classes))], rng)
	}
	if !ok {
		return
	}
	t := c10Stop{Class: "readonly-while-subscribed", Pos: client.StopPosition_STOP_ON_CANCEL}
	w := st.wantForward(s, t)
	if e.causeForward(st, s, t, w) != "" {
		return
	}
	reqStr := c10ReqString(s, t, false)
	var delivered []c10Msg
	queue := w.inRange(st.committed())
	expected := append([]c10Msg(nil), queue...)
	fail := func(kind, what string) {
		c10Unattributed.Add(1)
		rep.Violation(fmt.Sprintf("C10:fwd:readonly-while-subscribed:%s:start=%s", kind, s.Class),
			fmt.Sprintf("%s on %s log, stream set read-only while subscribed: %s", reqStr, e.shape.label(), what),
			map[string]any{"seed": kit.Seed(), "shape_seed": e.seed, "shape": e.shape, "log": st.summary(), "request": reqStr,
				"expected_offsets": c10Offs(expected), "delivered_offsets": c10Offs(delivered), "observed": what})
	}
	ctx, cancel := context.WithCancel(context.Background())
	defer cancel()
	sub, err := e.srv.api.SubscribeInternal(ctx, c10Request(e.stream, s, t, false))
	if err != nil {
		fail("subscribe-error", fmt.Sprintf("subscribe call failed with %v", err))
		return
	}
	defer sub.Close()
	rep.Eval()
	rep.Count("readonly_while_subscribed_cases", 1)
	phase := 0 // 0: committed part, 1: read-only set (+ tail committed)
	for {
		if len(queue) == 0 && phase == 0 {
			phase = 1
			actx, acancel := context.WithTimeout(context.Background(), c10Watchdog)
			_, err := e.srv.api.SetStreamReadonly(actx, &client.SetStreamReadonlyRequest{Name: e.stream, Readonly: true})
			acancel()
			if err != nil {
				rep.Inconc("SetStreamReadonly failed: " + err.Error())
				return
			}
			if !vfWait(c10Watchdog, func() bool { return e.p.log.IsReadonly() }) {
				rep.Inconc("partition never became read-only")
				return
			}
			e.p.log.SetHighWatermark(e.p.log.NewestOffset())
			for _, m := range st.All {
				if m.Off > st.HW && m.Off >= w.SEff {
					queue = append(queue, m)
					expected = append(expected, m)
				}
			}
		}
		ev := c10Next(sub, c10Watchdog)
		switch ev.Kind {
		case "timeout":
			rep.Inconc(fmt.Sprintf("forward %s on %s log, read-only while subscribed: watchdog in phase %d (next expected: %s)", reqStr, e.shape.label(), phase, c10Offs(queue)))
			return
		case "status":
			switch {
			case len(queue) > 0:
				fail("ended-early", fmt.Sprintf("ended with %v %q before delivering offset %d", ev.St.Code(), ev.St.Message(), queue[0].Off))
			case ev.St.Code() != codes.ResourceExhausted:
				fail("wrong-status", fmt.Sprintf("ended with %v %q, documented is ResourceExhausted (end of read-only partition)", ev.St.Code(), ev.St.Message()))
			default:
				rep.Count("terminal_statuses_seen", 1)
				rep.Nontrivial("fwd|" + e.shape.label() + "|" + s.Class + "|readonly-while-subscribed")
			}
			return
		}
		delivered = append(delivered, ev.Msg)
		if len(queue) == 0 || !c10Same(queue[0], ev.Msg) {
			fail("unexpected-delivery", fmt.Sprintf("delivered %v; still expected: %s", ev.Msg, c10Offs(queue)))
			return
		}
		queue = queue[1:]
		rep.Count("messages_delivered_and_compared", 1)
	}
}

func TestVerifC10Forward(t *testing.T) {
	c10Run(t, "forward", false, kit.Scale(90, 700), kit.Scale(120, 220))
}
