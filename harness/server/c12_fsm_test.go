//go:build verif

package server

// C12, FSM level: the same committed sequence of create-stream / delete-stream
// / create-group / join / leave / change-coordinator operations is applied
// through the real Server.apply (Raft indexes as epochs) to never-started
// Server objects whose id is no replica of any stream (no NATS, no Raft):
//
//   server x  quiescent between operations, named coordinator of new groups
//   server z  quiescent between operations (second, independent server)
//   server y  the asynchronous consumer-group notification of a stream
//             deletion (metadataAPI.removeStream -> goroutine ->
//             consumerGroup.StreamDeleted) is held at the hook point
//             "meta.streamDeletedAsync" while the next 1..3 committed
//             operations are applied, then let through.  This is a schedule
//             the real FSM produces whenever that goroutine is scheduled later
//             than the next Apply.
//
// At every quiescent point every group of every server is checked with the
// C12 oracle and compared with server x at the same position of the history:
// servers that applied the same operations must hand out identical assignments
// for the same group epoch.

import (
	"bytes"
	"fmt"
	"os"
	"runtime"
	"sort"
	"strings"
	"sync"
	"sync/atomic"
	"testing"
	"time"

	kit "github.com/liftbridge-io/liftbridge/internal/verifkit"
	proto "github.com/liftbridge-io/liftbridge/server/protocol"
)

type c12FsmOp struct {
	Kind        string // CS create stream, DS delete stream, CG create group (first join), J join, L leave, CC change coordinator
	Stream      string
	Parts       int32
	Group       string
	Member      string
	Streams     []string
	Coordinator string // CG, CC: role name x|z|o
	Expired     bool
	Hold        int // DS on server y: operations applied before the held notification is released
	Index       uint64
}

func (o c12FsmOp) String() string {
	switch o.Kind {
	case "CS":
		return fmt.Sprintf("%d:createStream(%s,%d)", o.Index, o.Stream, o.Parts)
	case "DS":
		h := ""
		if o.Hold > 0 {
			h = fmt.Sprintf("[y holds the group notification for %d ops]", o.Hold)
		}
		return fmt.Sprintf("%d:deleteStream(%s)%s", o.Index, o.Stream, h)
	case "CG":
		return fmt.Sprintf("%d:createGroup(%s,coord=%s,%s:%v)", o.Index, o.Group, o.Coordinator, o.Member, o.Streams)
	case "J":
		return fmt.Sprintf("%d:join(%s,%s,%v)", o.Index, o.Group, o.Member, o.Streams)
	case "L":
		return fmt.Sprintf("%d:leave(%s,%s)", o.Index, o.Group, o.Member)
	case "CC":
		return fmt.Sprintf("%d:changeCoordinator(%s,%s)", o.Index, o.Group, o.Coordinator)
	}
	return "?"
}

func c12FsmHistoryString(ops []c12FsmOp) string {
	ss := make([]string, len(ops))
	for i, o := range ops {
		ss[i] = o.String()
	}
	return strings.Join(ss, " ")
}

// ---------------------------------------------------------------- gate on the async notification

type c12Gate struct {
	mu       sync.Mutex
	hold     bool
	waiting  []chan struct{}
	arrivals int // notifications that reached the hook while held (asynchronously)
	inline   int // hook reached on the goroutine that runs Server.apply (no async window exists)
	passed   int // notifications that reached the hook while not held
}

var (
	c12Gates    sync.Map // server id -> *c12Gate
	c12HookOnce sync.Once
)

func c12InstallHook() {
	c12HookOnce.Do(func() {
		vfHooks.On("meta.streamDeletedAsync", func(args ...interface{}) error {
			if len(args) < 1 {
				return nil
			}
			id, _ := args[0].(string)
			gv, ok := c12Gates.Load(id)
			if !ok {
				return nil
			}
			g := gv.(*c12Gate)
			g.mu.Lock()
			if !g.hold {
				g.passed++
				g.mu.Unlock()
				return nil
			}
			buf := make([]byte, 16<<10)
			buf = buf[:runtime.Stack(buf, false)]
			if bytes.Contains(buf, []byte("server.(*Server).apply(")) {
				// The notification runs synchronously inside apply: blocking it
				// would block the FSM itself; there is nothing to overtake.
				g.inline++
				g.mu.Unlock()
				return nil
			}
			ch := make(chan struct{})
			g.waiting = append(g.waiting, ch)
			g.arrivals++
			g.mu.Unlock()
			<-ch
			return nil
		})
	})
}

func (g *c12Gate) setHold() {
	g.mu.Lock()
	g.hold = true
	g.mu.Unlock()
}

func (g *c12Gate) release() {
	g.mu.Lock()
	g.hold = false
	w := g.waiting
	g.waiting = nil
	g.mu.Unlock()
	for _, ch := range w {
		close(ch)
	}
}

// ---------------------------------------------------------------- servers

type c12Srv struct {
	role string
	id   string
	dir  string
	s    *Server
	gate *c12Gate
}

func newC12Srv(caseNo int, role string) *c12Srv {
	id := fmt.Sprintf("c12-%d-%s", caseNo, role)
	if role == "r" || role == "p" {
		// a RESTARTED server x: same server id (it is the coordinator of the
		// groups x coordinates, so what it hands out is observable), own data dir
		id = fmt.Sprintf("c12-%d-x", caseNo)
	}
	dir := vfWorkDir("c12fsm")
	cfg := NewDefaultConfig()
	cfg.Clustering.ServerID = id
	cfg.Clustering.Namespace = "c12"
	cfg.DataDir = dir
	cfg.LogSilent = true
	cfg.LogRecovery = true // finishedRecovery would otherwise un-silence the logger
	cfg.Telemetry.Enabled = false
	cfg.Groups.ConsumerTimeout = time.Hour // no liveness timer ever fires
	cfg.Groups.CoordinatorTimeout = time.Hour
	sv := &c12Srv{role: role, id: id, dir: dir, s: New(cfg), gate: &c12Gate{}}
	if role != "r" && role != "p" {
		c12Gates.Store(id, sv.gate)
	}
	return sv
}

func (sv *c12Srv) cleanup() {
	// Let a still-held notification finish BEFORE stopping: Server.Stop ->
	// metadataAPI.Reset takes mu then consumerGroupsMu, the notification takes
	// consumerGroupsMu then (via countStreamPartitions) mu.
	sv.gate.release()
	sv.quiesce()
	sv.s.Stop() // nolint: errcheck
	if sv.role != "r" && sv.role != "p" {
		c12Gates.Delete(sv.id)
	}
	os.RemoveAll(sv.dir)
}

// quiesce waits for every goroutine the server started (the notification).
func (sv *c12Srv) quiesce() { sv.s.goroutineWait.Wait() }

func c12RoleID(caseNo int, role string) string {
	if role == "o" {
		return "c12-other"
	}
	return fmt.Sprintf("c12-%d-%s", caseNo, role)
}

// raftLog builds a fresh operation object (apply mutates / keeps them).
func (o c12FsmOp) raftLog(caseNo int) *proto.RaftLog {
	switch o.Kind {
	case "CS":
		ps := make([]*proto.Partition, o.Parts)
		for i := range ps {
			ps[i] = &proto.Partition{Subject: o.Stream, Stream: o.Stream, Id: int32(i), ReplicationFactor: 1,
				Replicas: []string{"c12-r1"}, Leader: "c12-r1", Isr: []string{"c12-r1"}}
		}
		return &proto.RaftLog{Op: proto.Op_CREATE_STREAM, CreateStreamOp: &proto.CreateStreamOp{
			Stream: &proto.Stream{Name: o.Stream, Subject: o.Stream, Partitions: ps, CreationTimestamp: int64(o.Index)}}}
	case "DS":
		return &proto.RaftLog{Op: proto.Op_DELETE_STREAM, DeleteStreamOp: &proto.DeleteStreamOp{Stream: o.Stream}}
	case "CG":
		return &proto.RaftLog{Op: proto.Op_CREATE_CONSUMER_GROUP, CreateConsumerGroupOp: &proto.CreateConsumerGroupOp{
			ConsumerGroup: &proto.ConsumerGroup{Id: o.Group, Coordinator: c12RoleID(caseNo, o.Coordinator),
				Members: []*proto.Consumer{{Id: o.Member, Streams: append([]string(nil), o.Streams...)}}}}}
	case "J":
		return &proto.RaftLog{Op: proto.Op_JOIN_CONSUMER_GROUP, JoinConsumerGroupOp: &proto.JoinConsumerGroupOp{
			GroupId: o.Group, ConsumerId: o.Member, Streams: append([]string(nil), o.Streams...)}}
	case "L":
		return &proto.RaftLog{Op: proto.Op_LEAVE_CONSUMER_GROUP, LeaveConsumerGroupOp: &proto.LeaveConsumerGroupOp{
			GroupId: o.Group, ConsumerId: o.Member, Expired: o.Expired}}
	case "CC":
		return &proto.RaftLog{Op: proto.Op_CHANGE_CONSUMER_GROUP_COORDINATOR, ChangeConsumerGroupCoordinatorOp: &proto.ChangeConsumerGroupCoordinatorOp{
			GroupId: o.Group, Coordinator: c12RoleID(caseNo, o.Coordinator)}}
	}
	return nil
}

// ---------------------------------------------------------------- history generator (valid histories)

type c12FsmModel struct {
	parts  map[string]int32                      // existing streams
	groups map[string]map[string]map[string]bool // group -> member -> subscribed (not deleted since)
}

func (m *c12FsmModel) existing() []string { return c12Keys(m.parts) }

func (m *c12FsmModel) step(o c12FsmOp) {
	switch o.Kind {
	case "CS":
		m.parts[o.Stream] = o.Parts
	case "DS":
		delete(m.parts, o.Stream)
		for _, g := range m.groups {
			for _, ss := range g {
				delete(ss, o.Stream)
			}
		}
	case "CG", "J":
		if m.groups[o.Group] == nil {
			m.groups[o.Group] = map[string]map[string]bool{}
		}
		set := map[string]bool{}
		for _, s := range o.Streams {
			set[s] = true
		}
		m.groups[o.Group][o.Member] = set
	case "L":
		delete(m.groups[o.Group], o.Member)
		if len(m.groups[o.Group]) == 0 {
			delete(m.groups, o.Group)
		}
	}
}

func (m *c12FsmModel) subscribersOf(stream string) (groups []string) {
	for _, gid := range c12Keys(m.groups) {
		for _, ss := range m.groups[gid] {
			if ss[stream] {
				groups = append(groups, gid)
				break
			}
		}
	}
	return
}

func c12GenHistory(rng *kit.RNG) []c12FsmOp {
	m := &c12FsmModel{parts: map[string]int32{}, groups: map[string]map[string]map[string]bool{}}
	nStreams := rng.Range(2, 4)
	nGroups := rng.Range(1, 2)
	nMembers := rng.Range(2, 4)
	maxP := rng.Range(1, 3)
	var ops []c12FsmOp
	idx := uint64(rng.Range(1, 5))
	emit := func(o c12FsmOp) {
		idx++
		o.Index = idx
		m.step(o)
		ops = append(ops, o)
	}
	pickSubset := func() []string {
		ex := m.existing()
		var out []string
		switch rng.Intn(3) {
		case 0:
			out = append(out, ex...)
		default:
			for _, s := range ex {
				if rng.Bool() {
					out = append(out, s)
				}
			}
		}
		if len(out) == 0 {
			out = append(out, ex[rng.Intn(len(ex))])
		}
		// request order is not sorted
		if len(out) > 1 && rng.Bool() {
			out[0], out[len(out)-1] = out[len(out)-1], out[0]
		}
		return out
	}
	join := func(gid string) bool {
		if len(m.parts) == 0 {
			return false
		}
		var free []string
		for i := 0; i < nMembers; i++ {
			id := fmt.Sprintf("m%d", i)
			if _, ok := m.groups[gid][id]; !ok {
				free = append(free, id)
			}
		}
		if len(free) == 0 {
			return false
		}
		o := c12FsmOp{Kind: "J", Group: gid, Member: free[rng.Intn(len(free))], Streams: pickSubset()}
		if m.groups[gid] == nil {
			o.Kind = "CG"
			o.Coordinator = []string{"x", "x", "z", "o"}[rng.Intn(4)]
		}
		emit(o)
		return true
	}
	leave := func(gid string) bool {
		g := m.groups[gid]
		if len(g) == 0 {
			return false
		}
		ids := c12Keys(g)
		emit(c12FsmOp{Kind: "L", Group: gid, Member: ids[rng.Intn(len(ids))], Expired: rng.Bool()})
		return true
	}
	// a few streams first
	for i := 0; i < nStreams; i++ {
		if i < 2 || rng.Bool() {
			emit(c12FsmOp{Kind: "CS", Stream: fmt.Sprintf("s%d", i), Parts: int32(rng.Range(1, maxP))})
		}
	}
	length := rng.Range(6, 16)
	var affected []string // groups subscribed to the stream deleted by the previous op
	hold := 0
	for len(ops) < length+nStreams {
		gid := fmt.Sprintf("g%d", rng.Intn(nGroups))
		if len(affected) > 0 && rng.Chance(4, 5) {
			gid = affected[rng.Intn(len(affected))]
		}
		x := rng.Intn(100)
		if hold > 0 {
			// inside a hold window: prefer group operations on the affected group
			hold--
			if x < 60 {
				x = 30
			} else if x < 80 {
				x = 70
			} else if x < 90 {
				x = 95
			}
		} else {
			affected = nil
		}
		switch {
		case x < 12:
			var missing []string
			for i := 0; i < nStreams; i++ {
				if _, ok := m.parts[fmt.Sprintf("s%d", i)]; !ok {
					missing = append(missing, fmt.Sprintf("s%d", i))
				}
			}
			if len(missing) > 0 {
				emit(c12FsmOp{Kind: "CS", Stream: missing[rng.Intn(len(missing))], Parts: int32(rng.Range(1, maxP))})
			}
		case x < 55:
			join(gid)
		case x < 75:
			if _, ok := m.groups[gid]; ok {
				leave(gid)
			}
		case x < 92:
			ex := m.existing()
			if len(ex) == 0 {
				continue
			}
			// prefer streams somebody is subscribed to
			s := ex[rng.Intn(len(ex))]
			for try := 0; try < 3 && len(m.subscribersOf(s)) == 0; try++ {
				s = ex[rng.Intn(len(ex))]
			}
			aff := m.subscribersOf(s)
			o := c12FsmOp{Kind: "DS", Stream: s}
			if rng.Chance(3, 4) {
				o.Hold = rng.Range(1, 3)
			}
			emit(o)
			if hold == 0 {
				affected, hold = aff, o.Hold
			}
		default:
			if _, ok := m.groups[gid]; ok {
				emit(c12FsmOp{Kind: "CC", Group: gid, Coordinator: []string{"x", "z", "o"}[rng.Intn(3)]})
			}
		}
	}
	return ops
}

// ---------------------------------------------------------------- running a history

type c12FsmRun struct {
	rep    *kit.Report
	caseNo int
	ops    []c12FsmOp
	model  *c12FsmModel
	srv    map[string]*c12Srv
	failed bool
	yOut   bool // server y showed a violation and is not driven any further
	// recovery instances (restarted incarnations of server x, see runRecovery)
	replayK        int  // r applies ops[0:replayK] with recovered=true, then finishedRecovery
	snapK, snapJ   int  // p: Restore(snapshot of x after ops[0:snapK]), ops[snapK:snapJ] recovered=true, then started
	rOut, pOut     bool // not driven any further after a violation
	pNoCompare     bool // p's assignments already differed from x (history dependence): only the single-server oracle and the epoch are judged from then on
	recCompared    map[string]int
	recMultiStarts map[string]int
	snapDiffers    map[string]int
	// observations
	holds, overtaken, checks, compared, served, absent int
	symptoms                                           map[string]int
	window                                             map[string]bool // streams deleted inside the current/last hold window of y
}

func (r *c12FsmRun) truth(gid string) *c12Truth {
	return &c12Truth{Parts: r.model.parts, Subs: r.model.groups[gid]}
}

func (r *c12FsmRun) witness(step int, extra map[string]interface{}) map[string]interface{} {
	w := map[string]interface{}{
		"history": c12FsmHistoryString(r.ops), "after_operation": r.ops[step].String(), "case": r.caseNo,
		"note": "every server applies the history through Server.apply with the shown Raft indexes; x and z wait for the stream-deletion notification goroutine after every operation, y holds it at hook meta.streamDeletedAsync where marked",
	}
	if r.srv["r"] != nil {
		w["recovery_instances"] = r.recoveryNote()
	}
	for k, v := range extra {
		w[k] = v
	}
	return w
}

func (r *c12FsmRun) views(sv *c12Srv) map[string]*c12View {
	out := map[string]*c12View{}
	for _, g := range sv.s.metadata.GetConsumerGroups() {
		out[g.GetID()] = c12Snapshot(g)
	}
	return out
}

// checkServer evaluates the oracle on every group of one server at a
// quiescent point and returns its views.
func (r *c12FsmRun) checkServer(sv *c12Srv, step int, mode string) map[string]*c12View {
	vs := r.views(sv)
	// the harness' partition counts must be what the server itself answers
	for s, n := range r.model.parts {
		if got := sv.s.metadata.countStreamPartitions(s); got != n {
			r.failed = true
			r.rep.Violation("C12:fsm:"+mode+":partition-count", fmt.Sprintf("server %s counts %d partitions for stream %s, history created it with %d", sv.role, got, s, n), r.witness(step, nil))
			return vs
		}
	}
	if len(vs) != len(r.model.groups) {
		r.fail(sv, step, mode, c12Finding{Class: "membership", What: fmt.Sprintf("server has groups %v, history says %v", c12Keys(vs), c12Keys(r.model.groups))}, vs, "")
		return vs
	}
	for _, gid := range c12Keys(r.model.groups) {
		v := vs[gid]
		if v == nil {
			r.fail(sv, step, mode, c12Finding{Class: "membership", What: "group " + gid + " missing"}, vs, gid)
			return vs
		}
		r.checks++
		finds, _ := c12Check(v, r.truth(gid))
		if len(finds) > 0 {
			r.fail(sv, step, mode, finds[0], vs, gid)
			return vs
		}
		// what the coordinator serves
		if v.Coordinator == sv.id {
			for id, m := range v.Members {
				got, ep, err := sv.s.metadata.GetConsumerGroupAssignments(gid, id, v.Epoch)
				if err != nil {
					r.fail(sv, step, mode, c12Finding{Class: "not-served", What: fmt.Sprintf("coordinator: GetConsumerGroupAssignments(%s,%s,current epoch %d): %v", gid, id, v.Epoch, err)}, vs, gid)
					return vs
				}
				norm := map[string][]int32{}
				for s, ps := range got {
					cp := append([]int32(nil), ps...)
					sort.Slice(cp, func(a, b int) bool { return cp[a] < cp[b] })
					norm[s] = cp
				}
				if ep != v.Epoch || !c12AssignSubset(norm, m.Assign) || !c12AssignSubset(m.Assign, norm) {
					r.fail(sv, step, mode, c12Finding{Class: "served-differs", What: fmt.Sprintf("coordinator serves %v epoch %d, state has %v epoch %d", norm, ep, m.Assign, v.Epoch)}, vs, gid)
					return vs
				}
				r.served++
			}
		}
	}
	return vs
}

// lostNotification reports whether the view still carries a subscription to
// a stream whose deletion was applied (and, on y, held) — the direct trace of
// a StreamDeleted call that was refused by the group's epoch check.
func (r *c12FsmRun) lostNotification(v *c12View, gid string) (string, bool) {
	if v == nil {
		return "", false
	}
	want := r.model.groups[gid]
	for id, m := range v.Members {
		for _, s := range m.Streams {
			if !want[id][s] && r.window[s] {
				return s, true
			}
		}
	}
	return "", false
}

// report files a violation.  On server y, once a held notification has been
// let through, the ONLY thing y did differently from x is the position of that
// notification relative to the following operations, so every difference is
// filed under one fingerprint (one defect) and the symptom is recorded apart.
func (r *c12FsmRun) report(mode, class, what string, wit map[string]interface{}, yView *c12View, gid string) {
	r.failed = true
	if mode == "overtake" && r.overtaken > 0 {
		symptom := class
		if s, lost := r.lostNotification(yView, gid); lost {
			symptom = "deleted-stream-kept"
			what = fmt.Sprintf("StreamDeleted(%s) was refused by the group's epoch check, group %s keeps the deleted stream; %s", s, gid, what)
		}
		r.symptoms[symptom]++
		wit["symptom"] = symptom
		what = "server y ran the asynchronous consumer-group notification of a stream deletion after later committed operations [" + symptom + "]: " + what
		c12SymptomMu.Lock()
		if _, ok := c12SymptomWitness[symptom]; !ok {
			c12SymptomWitness[symptom] = map[string]interface{}{"what": what, "witness": wit}
		}
		c12SymptomMu.Unlock()
		r.rep.Violation("C12:fsm:overtake:stream-delete-notification-overtaken", what, wit)
		return
	}
	r.rep.Violation("C12:fsm:"+mode+":"+class, what, wit)
}

var (
	c12SymptomMu      sync.Mutex
	c12SymptomWitness = map[string]interface{}{}
)

func (r *c12FsmRun) fail(sv *c12Srv, step int, mode string, f c12Finding, vs map[string]*c12View, gid string) {
	extra := map[string]interface{}{"server": sv.role, "group": gid}
	if gid != "" {
		extra["group_on_"+sv.role] = vs[gid].String()
		extra["history_truth"] = r.truth(gid).String()
	}
	r.report(mode, f.Class, fmt.Sprintf("server %s after %s: %s", sv.role, r.ops[step], f.What), r.witness(step, extra), vs[gid], gid)
}

// compare: same history position, same group epoch => same assignments.
func (r *c12FsmRun) compare(ref, other map[string]*c12View, a, b *c12Srv, step int, mode string) {
	for _, gid := range c12Keys(r.model.groups) {
		va, vb := ref[gid], other[gid]
		if va == nil || vb == nil {
			continue
		}
		r.compared++
		if va.Epoch == vb.Epoch && c12SameAssignments(va, vb) {
			continue
		}
		class := "servers-disagree"
		if va.Epoch != vb.Epoch {
			class = "epochs-disagree"
		}
		what := fmt.Sprintf("group %s after %s: servers %s and %s applied the same operations but hold %s: %s | %s: %s", gid, r.ops[step], a.role, b.role, a.role, va, b.role, vb)
		r.report(mode, class, what, r.witness(step, map[string]interface{}{"group": gid, "group_on_" + a.role: va.String(), "group_on_" + b.role: vb.String(), "history_truth": r.truth(gid).String()}), vb, gid)
		return
	}
}

func (r *c12FsmRun) run() {
	r.model = &c12FsmModel{parts: map[string]int32{}, groups: map[string]map[string]map[string]bool{}}
	r.window = map[string]bool{}
	r.symptoms = map[string]int{}
	x, z, y := r.srv["x"], r.srv["z"], r.srv["y"]
	holdLeft := 0
	holding := false
	for step, op := range r.ops {
		r.model.step(op)
		// quiescent servers
		var ref map[string]*c12View
		for _, sv := range []*c12Srv{x, z} {
			if _, err := sv.s.apply(op.raftLog(r.caseNo), op.Index, false); err != nil {
				r.failed = true
				r.rep.Violation("C12:fsm:quiescent:apply-error", fmt.Sprintf("server %s: apply of %s (valid history) failed: %v — the real FSM panics on this", sv.role, op, err), r.witness(step, nil))
				return
			}
			sv.quiesce()
			vs := r.checkServer(sv, step, "quiescent")
			if r.failed {
				return
			}
			if sv == x {
				ref = vs
			} else {
				r.compare(ref, vs, x, z, step, "quiescent")
				if r.failed {
					return
				}
			}
		}
		// restarted incarnations of x (c12_recovery_test.go)
		r.stepReplay(step, op, ref)
		r.stepSnapshot(step, op, ref)
		// server y (no longer driven once it has shown a violation: everything
		// after that would be a consequence of the same event)
		if r.yOut {
			continue
		}
		if op.Kind == "DS" && op.Hold > 0 && !holding {
			holding, holdLeft = true, op.Hold+1
			r.window = map[string]bool{}
			y.gate.setHold()
			r.holds++
		}
		if holding && op.Kind == "DS" {
			r.window[op.Stream] = true
		}
		if _, err := y.s.apply(op.raftLog(r.caseNo), op.Index, false); err != nil {
			r.yOut = true
			y.gate.release()
			r.rep.Violation("C12:fsm:overtake:apply-error", fmt.Sprintf("server y: apply of %s failed: %v — the real FSM panics on this", op, err), r.witness(step, nil))
			continue
		}
		if holding {
			holdLeft--
			if holdLeft > 0 && step != len(r.ops)-1 {
				continue // the notification is still held: not a quiescent point
			}
			holding = false
			// Before letting go: either a notification goroutine is parked at the
			// gate (it has been overtaken by the operations applied meanwhile), or
			// the server has no goroutine outstanding at all (nothing asynchronous).
			done := make(chan struct{})
			go func() { y.s.goroutineWait.Wait(); close(done) }()
			parked := false
			for !parked {
				y.gate.mu.Lock()
				parked = len(y.gate.waiting) > 0
				y.gate.mu.Unlock()
				if parked {
					break
				}
				select {
				case <-done:
				default:
					time.Sleep(50 * time.Microsecond)
					continue
				}
				break
			}
			if parked {
				r.overtaken++
			} else {
				r.absent++
			}
			y.gate.release()
			<-done
		} else {
			y.quiesce()
		}
		r.compare(ref, r.views(y), x, y, step, "overtake")
		if !r.failed {
			r.checkServer(y, step, "overtake")
		}
		if r.failed {
			r.failed, r.yOut = false, true
		}
	}
}

// TestVerifC12Fsm: seeded committed histories through Server.apply.
func TestVerifC12Fsm(t *testing.T) {
	rep := kit.NewReport("C12", "fsm")
	defer rep.Write()
	c12InstallHook()
	rep.SetRule("seeded valid committed histories (6..20 operations: create/delete/re-create streams with 1..3 partitions, create group, join, leave/expire, change coordinator; 1..2 groups, <= 4 members, <= 4 streams) applied through the real Server.apply with Raft indexes as epochs to three never-started servers: x and z wait for the asynchronous StreamDeleted notification after every operation, y holds it at hook meta.streamDeletedAsync for the next 1..3 operations (biased to joins/leaves of the affected group) and then lets it through; two restarted incarnations of x (same server id): r applies a seeded prefix (every third history: all of it) with recovered=true and then finishedRecovery, the rest live; p Restores a Snapshot+Persist of x taken at a seeded split, replays nothing (startRecovered) or a seeded part of the suffix with recovered=true (finishedRecovery), the rest live; at every quiescent point: C12 oracle on every group of every server, GetConsumerGroupAssignments on the coordinator == state, x == z and x == y (assignments and epoch) at the same history position, and from the moment their groups are started x == r and x == p (assignments and epoch; p is no longer compared once its multi-stream assignments differed, only its epoch and the single-server oracle); non-trivial = a deletion of a stream with subscribers was held on y while a later operation of an affected group was applied, or a restarted server started a group in which a member subscribed to >= 2 streams shares one with another member; distinct = history text")
	rep.Assume("servers whose id is no replica need no NATS/Raft: Server.apply is the function the real FSM calls for every committed entry; holding the notification goroutine is a schedule of the real server (the goroutine is started by apply and not awaited)")
	rep.Assume("transient states while a notification is still held are not judged; only states after all started goroutines finished")
	rep.Assume("a restarted server is judged from the moment Server.finishedRecovery / startRecovered has started its groups (before that it hands out nothing); the InstallSnapshot path of a RUNNING follower (Restore without any later start of the restored groups) is not driven")
	root := kit.NewRNG(kit.Mix(kit.Seed(), 0xC12F))
	n := kit.EnvInt("VERIF_C12_FSM_N", kit.Scale(400, 4000))
	seeds := make([]uint64, n)
	for i := range seeds {
		seeds[i] = root.Uint64()
	}
	var holds, overtaken, checks, compared, served, absent, opsN, inline atomic.Int64
	kit.Parallel(n, kit.Workers(), func(i int) {
		if rep.NumViolations() >= 8 || c12FailedCases.Load() >= 200 {
			return
		}
		rng := kit.NewRNG(seeds[i])
		r := &c12FsmRun{rep: rep, caseNo: i, ops: c12GenHistory(rng), srv: map[string]*c12Srv{}}
		r.planRecovery(rng)
		for _, role := range []string{"x", "z", "y", "r", "p"} {
			r.srv[role] = newC12Srv(i, role)
		}
		r.run()
		if r.failed { // x or z (quiescent); a divergence of y does not end the case
			c12FailedCases.Add(1)
		}
		nontrivial := r.overtaken > 0
		for k, v := range r.recCompared {
			rep.Count("restarted_server_group_states_compared_with_x:"+k, int64(v))
		}
		for k, v := range r.recMultiStarts {
			rep.Count("restarted_server:"+k, int64(v))
			if v > 0 && k != "replay:groups_started" && k != "snapshot:groups_started" {
				nontrivial = true
			}
		}
		for k, v := range r.snapDiffers {
			rep.Count("snapshot_restored_server_assignments_differ_from_x:"+k, int64(v))
		}
		holds.Add(int64(r.holds))
		overtaken.Add(int64(r.overtaken))
		for k, v := range r.symptoms {
			rep.Count("y_diverged_after_overtaken_notification:"+k, int64(v))
		}
		checks.Add(int64(r.checks))
		compared.Add(int64(r.compared))
		served.Add(int64(r.served))
		absent.Add(int64(r.absent))
		opsN.Add(int64(len(r.ops)))
		inline.Add(int64(r.srv["y"].gate.inline))
		for _, sv := range r.srv {
			sv.cleanup()
		}
		rep.Eval()
		if nontrivial {
			rep.Nontrivial(c12FsmHistoryString(r.ops))
		}
		if i < 2 {
			rep.Sample(map[string]interface{}{"history": c12FsmHistoryString(r.ops)})
		}
	})
	rep.Count("operations_applied_per_server", opsN.Load())
	rep.Count("hold_windows_opened_on_y", holds.Load())
	rep.Count("hold_windows_with_a_held_notification", overtaken.Load())
	rep.Count("hold_windows_where_no_async_notification_arrived", absent.Load())
	rep.Count("notifications_run_inline_in_apply", inline.Load())
	c12SymptomMu.Lock()
	if len(c12SymptomWitness) > 0 {
		rep.SetInfo("first_witness_per_symptom", c12SymptomWitness)
	}
	c12SymptomMu.Unlock()
	rep.Count("group_states_checked", checks.Load())
	rep.Count("cross_server_comparisons", compared.Load())
	rep.Count("getassignments_compared", served.Load())
}
