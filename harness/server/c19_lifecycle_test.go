//go:build verif

package server

// C19 — the telemetry switch over the LIFE of one installation (in-process).
//
// The other in-process units start every server with telemetry off on a data
// directory nobody has used before.  An operator who opts out has usually run
// the server with the default (telemetry on) first: the data directory then
// holds whatever a real enabled run leaves behind (today: <data dir>/.instance_id).
// This unit drives lifecycle sequences over ONE data directory each:
//
//	enabled run -> stop -> disabled run (every disabling route) -> stop ->
//	disabled again (another route) -> enabled again -> disabled again
//
// with its neighbours (opt-out first, then enabled, then opt-out; an idle gap
// between the enabled and the disabled run; two enabled runs before the
// opt-out; data directories that were never used by an enabled run but hold an
// instance-id file in one of the states of the matrix unit), while the
// endpoint answers 200 / 500 / fails at network level / never answers in the
// enabled phases (so that whatever failure or retry state a run keeps exists).
//
// The recorder that replaces http.DefaultTransport is process-global, so the
// sequences advance in lock step through a fixed pattern of SLOTS; in a
// disabled slot only servers with telemetry switched off run (a sequence may
// sit a slot out).  A slot is judged when every Stop() of the slot has returned
// AND a quiescence fence has been passed: no goroutine of the process is left
// whose stack lies in the telemetry package, in net/http's client or in the
// recorder (a goroutine that was created but has not run yet is listed with
// its entry function, so it counts).  Oracle: disabled slot => the recorder
// holds ZERO requests of any method to any URL, whoever made them; enabled
// slot => every request passes the judge of the in-process unit.  Requests that
// arrive after a fence are part of the next slot's record; the last slot is a
// disabled one.

import (
	"context"
	"fmt"
	"io"
	"net/http"
	"os"
	"path/filepath"
	"runtime"
	"sort"
	"strings"
	"sync"
	"testing"
	"time"

	client "github.com/liftbridge-io/liftbridge-api/v2/go"
	gnatsd "github.com/nats-io/nats-server/v2/server"

	kit "github.com/liftbridge-io/liftbridge/internal/verifkit"
)

// c19lRecorder replaces http.DefaultTransport: it records EVERY request (any
// method, any URL, from any goroutine) and answers according to the mode:
// 0 answer 200, 1 answer 500, 2 network error, 3 never answer (the call
// returns when the request's context ends or the slot is released).
type c19lRecorder struct {
	mu      sync.Mutex
	reqs    []kit.C19Request
	mode    int
	release chan struct{}
	// requests handed to the transport with a context that had already ended
	cancelled int64
}

func (r *c19lRecorder) RoundTrip(req *http.Request) (*http.Response, error) {
	var body []byte
	if req.Body != nil {
		body, _ = io.ReadAll(req.Body)
		req.Body.Close()
	}
	h := map[string][]string{}
	for k, v := range req.Header {
		h[k] = append([]string(nil), v...)
	}
	if err := req.Context().Err(); err != nil {
		// net/http's own transport does not touch the network for a request
		// whose context has already ended (a collector that is being stopped):
		// counted, not recorded
		r.mu.Lock()
		r.cancelled++
		r.mu.Unlock()
		return nil, err
	}
	r.mu.Lock()
	r.reqs = append(r.reqs, kit.C19Request{Method: req.Method, URL: req.URL.String(), Header: h, Body: string(body)})
	mode, release := r.mode, r.release
	r.mu.Unlock()
	answer := func(code int, status, body string) (*http.Response, error) {
		return &http.Response{StatusCode: code, Status: status, Proto: "HTTP/1.1", ProtoMajor: 1, ProtoMinor: 1,
			Header: http.Header{}, Body: io.NopCloser(strings.NewReader(body)), Request: req}, nil
	}
	switch mode {
	case 1:
		return answer(500, "500 Internal Server Error", "")
	case 2:
		return nil, fmt.Errorf("c19 recorder: simulated network failure")
	case 3:
		select {
		case <-req.Context().Done():
			return nil, req.Context().Err()
		case <-release:
			return nil, fmt.Errorf("c19 recorder: the endpoint never answered")
		}
	}
	return answer(200, "200 OK", "{}")
}

// arm sets the answer mode for the next slot.
func (r *c19lRecorder) arm(mode int) {
	r.mu.Lock()
	r.mode = mode
	r.release = make(chan struct{})
	r.mu.Unlock()
}

// unblock lets every call that waits for an answer return.
func (r *c19lRecorder) unblock() {
	r.mu.Lock()
	if r.release != nil {
		select {
		case <-r.release:
		default:
			close(r.release)
		}
	}
	r.mu.Unlock()
}

func (r *c19lRecorder) take() []kit.C19Request {
	r.mu.Lock()
	defer r.mu.Unlock()
	out := r.reqs
	r.reqs = nil
	return out
}

// mentions counts the recorded requests that carry s anywhere (URL, headers, body).
func (r *c19lRecorder) mentions(s string) int {
	r.mu.Lock()
	defer r.mu.Unlock()
	n := 0
	for _, rq := range r.reqs {
		if c19lCarries(rq, s) {
			n++
		}
	}
	return n
}

func c19lCarries(rq kit.C19Request, s string) bool {
	if s == "" {
		return false
	}
	if strings.Contains(rq.URL, s) || strings.Contains(rq.Body, s) {
		return true
	}
	for k, vs := range rq.Header {
		if strings.Contains(k, s) {
			return true
		}
		for _, v := range vs {
			if strings.Contains(v, s) {
				return true
			}
		}
	}
	return false
}

var c19lModeNames = []string{"answers-200", "answers-500", "network-error", "never-answers"}

// c19lBusy lists the goroutines whose stack lies in the telemetry package, in
// net/http's client or in the recorder.  Goroutines that have been created but
// have not run yet appear with their entry function.
func c19lBusy() []string {
	buf := make([]byte, 1<<20)
	for {
		n := runtime.Stack(buf, true)
		if n < len(buf) {
			buf = buf[:n]
			break
		}
		buf = make([]byte, 2*len(buf))
	}
	var busy []string
	for _, g := range strings.Split(string(buf), "\n\n") {
		if strings.Contains(g, "c19lBusy") {
			continue // the caller
		}
		if strings.Contains(g, "liftbridge/server/telemetry.") || strings.Contains(g, "net/http.(*Client)") || strings.Contains(g, "c19lRecorder).RoundTrip") {
			if len(g) > 600 {
				g = g[:600]
			}
			busy = append(busy, g)
		}
	}
	return busy
}

// c19lFence waits (logical condition, bounded by a watchdog) until no goroutine
// is left that could still be on its way to the transport.
func c19lFence(timeout time.Duration) (bool, []string) {
	deadline := time.Now().Add(timeout)
	for {
		busy := c19lBusy()
		if len(busy) == 0 {
			return true, nil
		}
		if time.Now().After(deadline) {
			return false, busy
		}
		time.Sleep(20 * time.Millisecond)
	}
}

type c19lPhase struct {
	Slot     int         `json:"slot"`
	Kind     string      `json:"kind"` // E (telemetry on) | D (telemetry off)
	Route    string      `json:"route"`
	IvClass  string      `json:"interval_class"`
	Spelling c19Spelling `json:"optout_spelling"`
	// filled when the phase runs
	History   string `json:"data_directory_history"`
	Parsed    string `json:"parsed_telemetry,omitempty"`
	Collector string `json:"collector,omitempty"`
	IDAfter   string `json:"instance_id_file_after_the_run,omitempty"`
	Outcome   string `json:"outcome,omitempty"`
	cell      *c19mCell
}

type c19lSeq struct {
	Idx     int                `json:"idx"`
	Shape   string             `json:"shape"`
	Planted string             `json:"instance_id_file_planted,omitempty"`
	Needles c19Needles         `json:"needles"`
	Phases  map[int]*c19lPhase `json:"phases"`
	// state
	ns          *gnatsd.Server
	dir         string
	dataDir     string
	natsURL     string
	listen      string
	ids         map[string]bool // every content of .instance_id seen for this directory
	enabledRuns int
	runs        int
	dead        string // why the rest of the sequence is not run
	rng         *kit.RNG
}

func (s *c19lSeq) tag() string {
	t := fmt.Sprintf("seq%d(%s", s.Idx, s.Shape)
	if s.Planted != "" {
		t += ":" + s.Planted
	}
	return t + ")"
}

// noteID remembers what <data dir>/.instance_id holds right now.
func (s *c19lSeq) noteID() string {
	b, err := os.ReadFile(filepath.Join(s.dataDir, ".instance_id"))
	if err != nil {
		return ""
	}
	id := strings.TrimSpace(string(b))
	if len(id) >= 8 {
		s.ids[id] = true
	}
	return id
}

func (s *c19lSeq) history() string {
	switch {
	case s.enabledRuns > 0:
		return "data-dir-of-enabled-run"
	case s.Planted != "":
		return "planted-instance-id-file"
	case s.runs > 0:
		return "data-dir-of-disabled-run"
	}
	return "fresh"
}

// c19lLife: one server lifetime on the sequence's data directory.  sent (E
// phases) waits until the recorder holds more requests carrying the id than k.
func c19lLife(s *c19lSeq, p *c19lPhase, cfg *Config, rec *c19lRecorder, mode int, rep *kit.Report) string {
	srv := New(cfg)
	if err := srv.Start(); err != nil {
		return fmt.Sprintf("server did not start: %v", err)
	}
	s.listen = fmt.Sprintf("127.0.0.1:%d", srv.port)
	p.Collector = "off"
	if srv.telemetry != nil {
		p.Collector = "on"
	}
	id := s.noteID()
	reason := ""
	awaitReport := func(what string) {
		if p.Kind != "E" || p.Collector != "on" || id == "" {
			return
		}
		k := rec.mentions(id)
		if what == "first" {
			k = 0
		}
		if vfWait(20*time.Second, func() bool { return rec.mentions(id) > k }) {
			rep.Count("enabled_phase_reports_awaited/"+what, 1)
		} else if reason == "" {
			reason = "observation incomplete: watchdog: no " + what + " report of the enabled server was recorded"
		}
	}
	awaitReport("first")
	if !c19WaitReady(srv) {
		srv.Stop()
		return "watchdog: server did not become metadata leader"
	}
	n := s.Needles
	ctx, cancel := context.WithTimeout(context.Background(), 20*time.Second)
	_, err := srv.api.CreateStream(ctx, &client.CreateStreamRequest{Name: n.Stream, Subject: n.Subject, ReplicationFactor: 1, Group: n.Group})
	cancel()
	if err != nil && !strings.Contains(err.Error(), "already exists") {
		reason = fmt.Sprintf("activity incomplete: create stream: %v", err)
	} else if !vfWait(20*time.Second, func() bool {
		pt := srv.metadata.GetPartition(n.Stream, 0)
		return pt != nil && pt.IsLeader()
	}) {
		reason = "activity incomplete: watchdog: stream has no leader"
	} else {
		ctx, cancel := context.WithTimeout(context.Background(), 20*time.Second)
		_, err := srv.api.Publish(ctx, &client.PublishRequest{Stream: n.Stream, Key: []byte(n.MsgKey), Value: []byte(n.MsgValue),
			Headers: map[string][]byte{"x-needle": []byte(n.HeaderVal)}, AckPolicy: client.AckPolicy_LEADER})
		cancel()
		if err != nil {
			reason = fmt.Sprintf("activity incomplete: publish: %v", err)
		}
	}
	if mode != 3 {
		// a report built after the user data exists (interval 1 s); an endpoint
		// that never answers keeps the first report in flight until Stop()
		awaitReport("later")
	}
	if err := srv.Stop(); err != nil {
		return fmt.Sprintf("Stop failed: %v", err)
	}
	p.IDAfter = s.noteID()
	return reason
}

func TestVerifC19Lifecycle(t *testing.T) {
	rep := kit.NewReport("C19", "lifecycle")
	defer rep.Write()
	rep.SetRule("http.DefaultTransport is a recorder that records every request (any method, any URL, any goroutine).  Lifecycle sequences, each over ONE data directory (own NATS server, own needles), advance in lock step through the slot pattern D E D D E D (D: only servers with telemetry switched off run; E: only servers with telemetry on; a sequence may sit a slot out): canonical x5 = E D D E D with the disabling route of the k-th D phase of sequence i = route (i+k) mod 5 of {programmatic, config file nested, config file dotted, LIFTBRIDGE_TELEMETRY_ENABLED=<off> with a config file, the same without}, so that EVERY route is used directly after a real enabled run, after another disabled run and after a re-enabled run; optout-first = D E D; idle-gap = E - D; twice-enabled = E E D; planted x3 = D D D on a data directory that no enabled run has used but whose .instance_id was put into a state of the matrix unit (id of an earlier run with / without newline, and one of: empty file, directory, non-empty directory, dangling symlink, symlink loop; seeded).  Each phase is a real server lifetime: start, metadata leader, stream + publish with needles (the stream of the earlier phases is recovered), Stop().  In E slots the endpoint answers 200 / answers 500 / fails at network level / never answers (seeded rotation over slots and rounds), so the data directory carries whatever state a run with an unreachable or failing endpoint leaves; interval 1 s, the first report and (unless the endpoint never answers) one built after the activity are awaited.  Next to the opt-out the reporting interval is unset or positive; the opt-out is spelled `false` in a sequence's first D phase and rotates through the other spellings afterwards.  A slot is judged when every Stop() of the slot has returned and the quiescence fence has been passed (no goroutine left with a frame in server/telemetry, net/http's Client or the recorder; created-but-not-yet-run goroutines are listed with their entry function).  Oracle: D slot => ZERO requests in the record, including everything that arrived since the previous slot was judged (a request is attributed to its sequence through any instance id the data directory has ever held, found anywhere in URL, headers or body); E slot => every request passes the judge (whitelisted JSON keys, documented host, no unknown header, version-4 UUID instance id, no needle of any sequence running in the slot, no host fact).  non-trivial = the phase's server came up, was used and stopped (E: its reports were seen); distinct = shape x slot x route x interval class x spelling class x history of the data directory x endpoint behaviour x round")
	rep.Assume("'disabled' is a property of the run, not of the installation's history: a server started with telemetry switched off makes no request whatever an earlier run with telemetry on (or anything else) left in the data directory — CHANGELOG.md documents the switch without any condition")
	rep.Assume("a request made by something that is not a goroutine at fence time (a runtime timer armed for later, an external process) is only seen if it fires before the unit ends: it then lands in a later slot's record (the last slot is a D slot and is fenced as well)")
	rep.Assume("the persistence of the instance id over an opt-out (re-enabled run reports the id of the first enabled run) is counted, not judged: the documentation promises 'persistent per installation', the collector unit judges persistence on one directory without an opt-out in between")
	defer c19PlantEnv(rep)()

	rec := &c19lRecorder{}
	oldTransport := http.DefaultTransport
	http.DefaultTransport = rec
	defer func() { http.DefaultTransport = oldTransport }()
	for _, k := range []string{c19EnvVar, c19EnvInterval} {
		if old, had := os.LookupEnv(k); had {
			defer os.Setenv(k, old)
		}
		os.Unsetenv(k)
	}

	slots := []string{"D", "E", "D", "D", "E", "D"}
	workers := kit.EnvInt("C19_LIFECYCLE_WORKERS", 6)
	rounds := kit.Scale(1, 4)
	root := kit.NewRNG(kit.Mix(kit.Seed(), 0xC191F))
	base := vfWorkDir("c19l")
	defer os.RemoveAll(base)
	fileRot := c19SpellingRotation(root.Fork(0xF11E), c19FileSpellings)
	envRot := c19SpellingRotation(root.Fork(0xE7), c19EnvSpellings)
	nspell := 0
	oddStates := []string{"empty-file", "directory-at-path", "nonempty-directory-at-path", "dangling-symlink", "symlink-loop"}

	for round := 0; round < rounds; round++ {
		rrng := root.Fork(uint64(1000 + round))
		// ------------------------------------------------ the sequences of this round
		var seqs []*c19lSeq
		add := func(shape, planted string, at []int, route func(k int) string) {
			i := len(seqs)
			rng := root.Fork(uint64(round*100 + i))
			s := &c19lSeq{Idx: round*100 + i, Shape: shape, Planted: planted, Needles: c19NewNeedles(rng), Phases: map[int]*c19lPhase{}, ids: map[string]bool{}, rng: rng.Fork(1)}
			k := 0
			for _, slot := range at {
				p := &c19lPhase{Slot: slot, Kind: slots[slot], IvClass: "unset", Spelling: c19Documented}
				if p.Kind == "E" {
					p.Route = []string{"default-on", "config-file-on"}[rng.Intn(2)]
				} else {
					p.Route = route(k)
					if rng.Intn(2) == 1 {
						p.IvClass = "positive"
					}
					if k > 0 {
						switch {
						case strings.HasPrefix(p.Route, "config-file"):
							p.Spelling = fileRot[nspell%len(fileRot)]
							nspell++
						case strings.HasPrefix(p.Route, "env-var"):
							p.Spelling = envRot[nspell%len(envRot)]
							nspell++
						}
					}
					k++
				}
				s.Phases[slot] = p
			}
			seqs = append(seqs, s)
		}
		nr := len(c19mOffRoutes)
		shift := rrng.Intn(nr)
		for i := 0; i < nr; i++ {
			i := i
			add("canonical", "", []int{1, 2, 3, 4, 5}, func(k int) string { return c19mOffRoutes[(i+k+shift)%nr] })
		}
		// the other shapes: the k-th D phase of the j-th of them uses route
		// (j + 2k + shift') mod 5, so that the routes are spread over them too
		shift2 := rrng.Intn(nr)
		spread := func(j int) func(int) string {
			return func(k int) string { return c19mOffRoutes[(j+2*k+shift2)%nr] }
		}
		add("optout-first", "", []int{0, 1, 2}, spread(0))
		add("idle-gap", "", []int{1, 3}, spread(1))
		add("twice-enabled", "", []int{1, 4, 5}, spread(2))
		for j, st := range []string{"file-from-earlier-run", "file-with-trailing-newline", oddStates[rrng.Intn(len(oddStates))]} {
			add("planted", st, []int{0, 2, 5}, spread(3+j))
		}
		for _, s := range seqs {
			s.dir = filepath.Join(base, fmt.Sprintf("r%d-seq%02d", round, s.Idx%100))
			s.dataDir = filepath.Join(s.dir, s.Needles.DirName)
			if err := os.MkdirAll(s.dir, 0755); err != nil {
				s.dead = err.Error()
				continue
			}
			s.ns, s.natsURL, _ = c19StartNATS(s.Needles.NATSUser, s.Needles.NATSPass)
			if s.Planted != "" {
				pc := &c19mCell{IDState: s.Planted, dir: s.dir, dataDir: s.dataDir}
				if err := c19mPrepareIDFile(pc, s.rng); err != nil {
					s.dead = fmt.Sprintf("instance-id file state could not be produced: %v", err)
					rep.Inconc(s.tag() + ": " + s.dead)
				}
				s.noteID()
			}
		}
		// endpoint behaviour per slot: the two E slots of a round differ, all
		// four behaviours come up over seeds / rounds
		modeE := rrng.Intn(4)
		modeD := rrng.Intn(3)

		// ------------------------------------------------ the slots
		rec.take()
		for slot, kind := range slots {
			mode := (modeD + slot) % 3
			if kind == "E" {
				mode = (modeE + slot/3) % 4
			}
			rec.arm(mode)
			var running []*c19lSeq
			for _, s := range seqs {
				if s.Phases[slot] != nil && s.dead == "" {
					running = append(running, s)
				}
			}
			kit.Parallel(len(running), workers, func(i int) {
				s := running[i]
				p := s.Phases[slot]
				rep.Eval()
				p.History = s.history()
				c := &c19mCell{Idx: s.Idx, Round: round + slot, Phase: "L", Route: p.Route, IvClass: p.IvClass, IvVia: "none", Spelling: p.Spelling,
					Needles: s.Needles, dir: s.dir, dataDir: s.dataDir, natsURL: s.natsURL}
				if p.IvClass == "positive" {
					c.Interval = []int{1, 2, 60, 3600, 86400}[s.rng.Intn(5)]
				}
				p.cell = c
				cfg, err := c19mConfig(c)
				if err != nil {
					// a tree may refuse a spelling loudly; that is not "sent while disabled"
					rep.Count("configuration_refused/"+p.Route, 1)
					p.Outcome = "configuration refused: " + err.Error()
					return
				}
				p.Parsed = c.Parsed
				if p.Kind == "D" && cfg.Telemetry.Enabled {
					rep.Count("D_phases_parsed_enabled", 1)
				}
				reason := c19lLife(s, p, cfg, rec, mode, rep)
				s.runs++
				if p.Kind == "E" && p.Collector == "on" {
					s.enabledRuns++
				}
				p.Outcome = "completed"
				if reason != "" {
					p.Outcome = reason
					rep.Inconc(fmt.Sprintf("%s slot %d (%s %s): %s", s.tag(), slot, p.Kind, p.Route, reason))
					if !strings.HasPrefix(reason, "activity incomplete") && !strings.HasPrefix(reason, "observation incomplete") {
						s.dead = reason
					}
				}
				rep.Count("server_lifetimes_slot_"+kind, 1)
			})
			// every Stop() of the slot has returned; let calls that wait for an
			// answer return, then the fence
			rec.unblock()
			quiet, busy := c19lFence(30 * time.Second)
			reqs := rec.take()
			rep.Count(fmt.Sprintf("requests_recorded_%s_slots", kind), int64(len(reqs)))
			rep.Count("slots_judged_"+kind, 1)
			if !quiet {
				rep.Inconc(fmt.Sprintf("round %d slot %d (%s): watchdog: %d goroutine(s) were still inside the telemetry package / the HTTP client after every Stop() had returned, e.g. %s", round, slot, kind, len(busy), busy[0]))
			}
			var tags []string
			for _, s := range running {
				p := s.Phases[slot]
				tags = append(tags, fmt.Sprintf("%s %s via %s on %s", s.tag(), p.Kind, p.Route, p.History))
			}
			sort.Strings(tags)
			replayBase := func() map[string]any {
				return map[string]any{"seed": kit.Seed(), "round": round, "slot": slot, "slot_kind": kind, "slot_pattern": strings.Join(slots, " "),
					"endpoint_behaviour": c19lModeNames[mode], "servers_running_in_the_slot": tags}
			}
			owner := func(rq kit.C19Request) *c19lSeq {
				for _, s := range seqs {
					for id := range s.ids {
						if c19lCarries(rq, id) {
							return s
						}
					}
				}
				return nil
			}
			if kind == "D" {
				blamed := map[*c19lSeq][]kit.C19Request{}
				var orphan []kit.C19Request
				for _, rq := range reqs {
					if s := owner(rq); s != nil {
						blamed[s] = append(blamed[s], rq)
					} else {
						orphan = append(orphan, rq)
					}
				}
				for s, rs := range blamed {
					r := replayBase()
					r["sequence"] = s
					r["requests"] = rs
					p := s.Phases[slot]
					if p == nil || p.cell == nil {
						rep.Violation("C19:telemetry-request-after-stop", fmt.Sprintf("%d request(s) carrying the instance id of %s were made in a slot in which no server ran on that data directory and every running server had telemetry switched off (first: %s %s)", len(rs), s.tag(), rs[0].Method, rs[0].URL), r)
						continue
					}
					// one defect -> one fingerprint: when the opt-out did not even
					// reach the server (configuration parsed as enabled, or a
					// collector was built although it was off) the route is what
					// failed and the fingerprint is the one of the other units;
					// when the configuration was off and no collector existed, the
					// route worked and the history of the data directory is what
					// made the server talk
					fp := "C19:telemetry-sent-while-disabled:" + p.Route
					if c19SpellingIneffective(p.Route, p.Spelling) {
						fp += c19SpellingSuffix(p.Spelling)
					}
					routeWorked := strings.HasPrefix(p.Parsed, "enabled=false") && p.Collector == "off"
					if routeWorked && (p.History == "data-dir-of-enabled-run" || p.History == "planted-instance-id-file") {
						fp = "C19:telemetry-sent-while-disabled:" + p.History
					}
					rep.Violation(fp, fmt.Sprintf("telemetry switched off through route %q (opt-out written as %s; parsed: %s) on a data directory with history %q (%d earlier run(s), %d of them with telemetry on%s): %d request(s) were made between the start of the server and the quiescence fence after its Stop() (first: %s %s)",
						p.Route, c19mWritten(p.cell), p.Parsed, p.History, s.runs-1, s.enabledRuns, c19lPlantedNote(s), len(rs), rs[0].Method, rs[0].URL), r)
				}
				if len(orphan) > 0 {
					r := replayBase()
					r["requests"] = orphan
					rep.Violation("C19:telemetry-sent-while-disabled:lifecycle", fmt.Sprintf("%d request(s) were made while only servers with telemetry switched off were running (first: %s %s); they carry no instance id a data directory of this run has held", len(orphan), orphan[0].Method, orphan[0].URL), r)
				}
				for _, s := range running {
					p := s.Phases[slot]
					if p.Outcome == "completed" {
						if len(reqs) == 0 {
							rep.Count("disabled_lifetimes_with_zero_requests", 1)
							rep.Count("silent/"+p.History, 1)
							rep.Count("silent/"+p.History+"/"+p.Route, 1)
						}
						rep.Nontrivial(fmt.Sprintf("%s|slot%d|D|%s|%s|%s|%s|%s|round%d", s.Shape+s.Planted, slot, p.Route, p.IvClass, p.Spelling.Class, p.History, c19lModeNames[mode], round))
					}
				}
			} else {
				needles := map[string]string{}
				for _, s := range running {
					for l, n := range s.Needles.asMap(s.natsURL, s.listen) {
						who := "(" + s.tag() + ")"
						if strings.Contains(l, "#") {
							needles[l+" "+who] = n
						} else {
							needles[l+"#"+who] = n
						}
					}
				}
				expect := kit.C19Expect{Version: Version, GOOS: runtime.GOOS, GOARCH: runtime.GOARCH}
				for _, rq := range reqs {
					issues, _ := kit.C19Judge(rq, needles, expect)
					rep.Count("requests_judged", 1)
					for _, is := range issues {
						r := replayBase()
						r["request"] = rq
						if s := owner(rq); s != nil {
							r["sequence"] = s
						}
						rep.Violation(is.Fingerprint, is.What+" — telemetry enabled, lifecycle slot "+fmt.Sprint(slot), r)
					}
				}
				for _, s := range running {
					p := s.Phases[slot]
					if p.Collector == "on" && len(s.ids) > 1 {
						rep.Count("instance_id_changed_over_the_lifecycle", 1)
					} else if p.Collector == "on" && s.enabledRuns > 1 {
						rep.Count("re_enabled_run_kept_the_instance_id", 1)
					}
					if p.Outcome == "completed" && p.Collector == "on" {
						rep.Nontrivial(fmt.Sprintf("%s|slot%d|E|%s|%s|%s|round%d", s.Shape, slot, p.Route, p.History, c19lModeNames[mode], round))
					} else if p.Outcome == "completed" {
						rep.Inconc(fmt.Sprintf("%s slot %d: telemetry enabled (%s) but no collector was created", s.tag(), slot, p.Route))
					}
				}
				if len(running) > 0 && len(reqs) == 0 {
					rep.Inconc(fmt.Sprintf("round %d slot %d: servers with telemetry on ran but the recorder saw no request — the recorder would be blind to a leak", round, slot))
				}
			}
			if round == 0 && (slot == 1 || slot == 2) {
				smp := map[string]any{"slot": slot, "kind": kind, "endpoint_behaviour": c19lModeNames[mode], "servers": tags, "requests": len(reqs)}
				if len(reqs) > 0 {
					smp["first_request"] = reqs[0]
				}
				rep.Sample(smp)
			}
			// keep the verdict even if a later slot takes the process down
			rep.Write()
		}
		for _, s := range seqs {
			if s.ns != nil {
				s.ns.Shutdown()
			}
			os.RemoveAll(s.dir)
		}
		rec.mu.Lock()
		rep.SetInfo("requests_with_ended_context_not_recorded", rec.cancelled)
		rec.mu.Unlock()
	}
}

func c19lPlantedNote(s *c19lSeq) string {
	if s.Planted == "" {
		return ""
	}
	return "; .instance_id planted as " + s.Planted
}
