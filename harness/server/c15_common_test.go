//go:build verif

package server

// C15 — with ACLs on, an unauthorised call is refused and changes nothing.
//
// Infrastructure shared by the C15 units: generated casbin model/policy files,
// a single-node server with TLSClientAuthz on (the enforcer is built by the
// real startAPIServer), in-process dispatch of every RPC through the generated
// gRPC service descriptor and the real Authz interceptors (the client id comes
// out of a verified-certificate chain placed in the peer info, exactly what
// addUserContext reads), stub gRPC streams, a state digest, fences and the
// standing subscriptions that must survive every refused call.

import (
	"context"
	"crypto/tls"
	"crypto/x509"
	"crypto/x509/pkix"
	"errors"
	"fmt"
	"io"
	"os"
	"os/signal"
	"path/filepath"
	"reflect"
	"runtime/pprof"
	"sort"
	"strconv"
	"strings"
	"sync"
	"sync/atomic"
	"syscall"
	"time"

	client "github.com/liftbridge-io/liftbridge-api/v2/go"
	"google.golang.org/grpc"
	"google.golang.org/grpc/codes"
	"google.golang.org/grpc/credentials"
	"google.golang.org/grpc/metadata"
	"google.golang.org/grpc/peer"
	"google.golang.org/grpc/status"
	gproto "google.golang.org/protobuf/proto"

	kit "github.com/liftbridge-io/liftbridge/internal/verifkit"
	proto "github.com/liftbridge-io/liftbridge/server/protocol"
)

const (
	c15Admin    = "admin"
	c15Stranger = "stranger"
	c15Marker   = "c15marker"
	c15CurStr   = "__cursors"
	c15StdGroup = "gs"  // group id of the standing group subscriptions
	c15StdCons  = "std" // their consumer id
	c15StdEpoch = uint64(5)
	c15MetaGrp  = "g0" // metadata consumer group with members m1, m2
	c15Wait     = 30 * time.Second
	c15Call45   = 25 * time.Second // deadline of examined / admin unary calls (watchdog only)
)

// The ACL actions the documentation (authentication_authorization.md) and the
// repository's own fixture define.  Resource = stream name, except "*" for
// FetchMetadata and the NATS subject for PublishToSubject (pinned by
// TestAuthzWithDeniedResource / api.go).
var c15DocActions = []string{
	"CreateStream", "DeleteStream", "PauseStream", "SetStreamReadonly", "Subscribe", "FetchMetadata",
	"FetchPartitionMetadata", "Publish", "PublishToSubject", "SetCursor", "FetchCursor",
}

var c15GroupMethods = []string{
	"JoinConsumerGroup", "LeaveConsumerGroup", "FetchConsumerGroupAssignments", "ReportConsumerGroupCoordinator",
}

var (
	c15Live   = []string{"s0", "s1", "s2"} // 2 partitions each, standing subscriptions
	c15Del    = []string{"d0", "d1"}       // exist; targets of DeleteStream
	c15New    = []string{"n0", "n1"}       // do not exist; targets of CreateStream
	c15Cli    = []string{"c1", "c2", "c3"}
	c15Model  = "[request_definition]\nr = sub, obj, act\n\n[policy_definition]\np = sub, obj, act\n\n[policy_effect]\ne = some(where (p.eft == allow))\n\n[matchers]\nm = r.sub == p.sub && r.obj == p.obj && r.act == p.act\n"
	c15Fencer = []byte("c15fence")
)

// The subject differs from the stream name on purpose: a check against the
// wrong resource name must not pass by accident.
func c15Subject(stream string) string { return "sub." + stream }

// ---------------------------------------------------------------- policy

type c15Policy struct {
	Gen   int
	Lines map[string]map[string]bool // client -> "obj|act"
}

func (p *c15Policy) grant(c, obj, act string) {
	if p.Lines[c] == nil {
		p.Lines[c] = map[string]bool{}
	}
	p.Lines[c][obj+"|"+act] = true
}

func (p *c15Policy) has(c, obj, act string) bool { return p.Lines[c][obj+"|"+act] }

func (p *c15Policy) hasAll(c string, pairs [][2]string) bool {
	for _, pr := range pairs {
		if !p.has(c, pr[0], pr[1]) {
			return false
		}
	}
	return true
}

func (p *c15Policy) marker() string { return fmt.Sprintf("g%d", p.Gen) }

func (p *c15Policy) csv() string {
	var lines []string
	for c, m := range p.Lines {
		for k := range m {
			i := strings.LastIndex(k, "|")
			lines = append(lines, fmt.Sprintf("p, %s, %s, %s", c, k[:i], k[i+1:]))
		}
	}
	sort.Strings(lines)
	lines = append(lines, fmt.Sprintf("p, %s, gen, %s", c15Marker, p.marker()))
	return strings.Join(lines, "\n") + "\n"
}

// linesOf returns the policy lines of one client that mention one of the
// given resources (for witnesses).
func (p *c15Policy) linesOf(c string, objs ...string) []string {
	var out []string
	for k := range p.Lines[c] {
		i := strings.LastIndex(k, "|")
		for _, o := range objs {
			if k[:i] == o {
				out = append(out, k)
			}
		}
	}
	sort.Strings(out)
	return out
}

// c15Resources: every resource name a generated policy may mention.
func c15Resources() []string {
	var rs []string
	for _, s := range c15Live {
		rs = append(rs, s, c15Subject(s))
	}
	for _, s := range c15Del {
		rs = append(rs, s)
	}
	for _, s := range c15New {
		rs = append(rs, s, c15Subject(s))
	}
	rs = append(rs, "*", c15CurStr, c15MetaGrp)
	return rs
}

// c15GenPolicy: admin holds every line (documented actions on every resource,
// plus the method names of the consumer-group RPCs on every plausible resource
// so that "allowed ⇒ works" also holds on a tree that adds checks there); the
// stranger holds nothing; c1..c3 hold a seeded subset of (resource, action).
func c15GenPolicy(rng *kit.RNG, gen int) *c15Policy {
	p := &c15Policy{Gen: gen, Lines: map[string]map[string]bool{}}
	res := c15Resources()
	for _, r := range append(append([]string{}, res...), c15Subject("s0")+".1", c15Subject("s1")+".1", c15Subject("s2")+".1", "gnew", c15StdGroup, "gx") {
		for _, a := range c15DocActions {
			p.grant(c15Admin, r, a)
		}
		for _, a := range c15GroupMethods {
			p.grant(c15Admin, r, a)
		}
	}
	for _, c := range c15Cli {
		num := []int{1, 2, 3}[rng.Intn(3)] // density 1/4, 1/2, 3/4
		for _, r := range res {
			for _, a := range c15DocActions {
				if rng.Chance(num, 4) {
					p.grant(c, r, a)
				}
			}
		}
	}
	p.Lines[c15Stranger] = map[string]bool{}
	return p
}

// ---------------------------------------------------------------- dispatch

var c15Dumped int32

var (
	c15Unary  = map[string]grpc.MethodDesc{}
	c15Stream = map[string]grpc.StreamDesc{}
)

func init() {
	for _, m := range client.API_ServiceDesc.Methods {
		c15Unary[m.MethodName] = m
	}
	for _, s := range client.API_ServiceDesc.Streams {
		c15Stream[s.StreamName] = s
	}
}

// c15APIMethods lists the exported methods of the client.APIServer interface
// by reflection.
func c15APIMethods() []string {
	t := reflect.TypeOf((*client.APIServer)(nil)).Elem()
	var out []string
	for i := 0; i < t.NumMethod(); i++ {
		m := t.Method(i)
		if m.PkgPath != "" { // unexported (mustEmbedUnimplementedAPIServer)
			continue
		}
		out = append(out, m.Name)
	}
	sort.Strings(out)
	return out
}

// Callers without a usable client identity.  With ACLs on they hold, like the
// stranger, no policy line — but for a different reason: the server cannot
// derive any client id from their context (the id is the CommonName of the leaf
// of the first verified chain), or derives one that merely resembles a client
// that holds lines.  The ids below are never written into a policy file; they
// select the shape of the context c15PeerCtx builds.
const (
	c15NoPeer         = "~noid:no-peer-info"          // context without peer info at all
	c15NoAuthInfo     = "~noid:no-auth-info"          // peer info without transport credentials
	c15Unverified     = "~noid:unverified-chain"      // TLS state: presented leaf CN=admin, nothing verified
	c15EmptyChain     = "~noid:empty-verified-chain"  // TLS state: one verified chain of length 0, presented leaf CN=admin
	c15SANOnly        = "~noid:san-only-certificate"  // verified leaf without CommonName (organisation + DNS SAN only)
	c15SANOnlyIssuer  = "~noid:san-only-issuer-admin" // the same, its issuer in the verified chain is called admin
	c15BlankCN        = "~id:blank-common-name"       // verified leaf, CommonName is one space
	c15AdminCase      = "~id:admin-other-case"        // verified leaf, CommonName "ADMIN"
	c15AdminSpace     = "~id:admin-trailing-space"    // verified leaf, CommonName "admin "
	c15IdentityPrefix = "~"
)

// c15IdentityKinds: the identity-less / look-alike callers, in rotation order.
var c15IdentityKinds = []string{c15SANOnly, c15NoPeer, c15Unverified, c15SANOnlyIssuer, c15NoAuthInfo, c15EmptyChain, c15BlankCN, c15AdminCase, c15AdminSpace}

// c15Lineless: clients that hold no policy line whatever the generated set is.
func c15Lineless(cli string) bool {
	return cli == c15Stranger || strings.HasPrefix(cli, c15IdentityPrefix)
}

// c15IdentityKind returns the kind label of an identity-less / look-alike
// caller ("" for ordinary clients).
func c15IdentityKind(cli string) string {
	if !strings.HasPrefix(cli, c15IdentityPrefix) {
		return ""
	}
	return cli[strings.Index(cli, ":")+1:]
}

// c15IdentityClass: the fingerprint class of such a caller — "no-identity" (the
// server can derive no client id) or "look-alike-identity" (a verified name
// that is not the name any policy line carries).  One defect in the identity
// handling then shows as one fingerprint per method, not per kind.
func c15IdentityClass(cli string) string {
	switch {
	case strings.HasPrefix(cli, "~noid:"):
		return "no-identity"
	case strings.HasPrefix(cli, "~id:"):
		return "look-alike-identity"
	}
	return ""
}

// c15DescribeClient: what the caller's context looks like (for witnesses).
func c15DescribeClient(cli string) string {
	switch cli {
	case c15NoPeer:
		return "context carries no peer info"
	case c15NoAuthInfo:
		return "peer info without AuthInfo"
	case c15Unverified:
		return "TLS peer presented a certificate with CommonName \"admin\" but no chain was verified (VerifiedChains empty)"
	case c15EmptyChain:
		return "TLS state with one verified chain of length 0 (presented certificate CommonName \"admin\")"
	case c15SANOnly:
		return "verified client certificate without CommonName (subject O=Example Org, DNS SAN svc.internal): client id is the empty string"
	case c15SANOnlyIssuer:
		return "verified client certificate without CommonName whose issuer in the chain has CommonName \"admin\": client id is the empty string"
	case c15BlankCN:
		return "verified client certificate with CommonName \" \" (one space)"
	case c15AdminCase:
		return "verified client certificate with CommonName \"ADMIN\" (policy lines name \"admin\"; the documented model matches exactly)"
	case c15AdminSpace:
		return "verified client certificate with CommonName \"admin \" (trailing space; policy lines name \"admin\")"
	}
	return "verified client certificate with CommonName " + strconv.Quote(cli)
}

// c15PeerCtx builds the context a TLS-authenticated gRPC call carries: peer
// info with a verified chain whose leaf has the client id as CommonName.  The
// real interceptors (AuthzUnaryInterceptor / AuthzStreamInterceptor →
// addUserContext) turn it into the context value the handlers read.  For the
// identity-less kinds the context is what such a caller's connection yields.
func c15PeerCtx(parent context.Context, id string) context.Context {
	tlsCtx := func(st tls.ConnectionState) context.Context {
		st.HandshakeComplete = true
		return peer.NewContext(parent, &peer.Peer{AuthInfo: credentials.TLSInfo{State: st}})
	}
	named := func(cn string) *x509.Certificate { return &x509.Certificate{Subject: pkix.Name{CommonName: cn}} }
	sanOnly := &x509.Certificate{Subject: pkix.Name{Organization: []string{"Example Org"}}, DNSNames: []string{"svc.internal"}}
	switch id {
	case c15NoPeer:
		return parent
	case c15NoAuthInfo:
		return peer.NewContext(parent, &peer.Peer{})
	case c15Unverified:
		return tlsCtx(tls.ConnectionState{PeerCertificates: []*x509.Certificate{named(c15Admin)}})
	case c15EmptyChain:
		return tlsCtx(tls.ConnectionState{PeerCertificates: []*x509.Certificate{named(c15Admin)}, VerifiedChains: [][]*x509.Certificate{{}}})
	case c15SANOnly:
		return tlsCtx(tls.ConnectionState{PeerCertificates: []*x509.Certificate{sanOnly}, VerifiedChains: [][]*x509.Certificate{{sanOnly, named("Test CA")}}})
	case c15SANOnlyIssuer:
		return tlsCtx(tls.ConnectionState{PeerCertificates: []*x509.Certificate{sanOnly}, VerifiedChains: [][]*x509.Certificate{{sanOnly, named(c15Admin)}}})
	case c15BlankCN:
		id = " "
	case c15AdminCase:
		id = strings.ToUpper(c15Admin)
	case c15AdminSpace:
		id = c15Admin + " "
	}
	cert := named(id)
	return tlsCtx(tls.ConnectionState{PeerCertificates: []*x509.Certificate{cert}, VerifiedChains: [][]*x509.Certificate{{cert}}})
}

// call runs one unary RPC.  timeout 0 = no deadline (fire-and-forget publish).
func (w *c15World) call(method, id string, req gproto.Message, timeout time.Duration) (interface{}, error) {
	md, ok := c15Unary[method]
	if !ok {
		return nil, fmt.Errorf("c15: %s is not a unary method of the service descriptor", method)
	}
	ctx := c15PeerCtx(context.Background(), id)
	cancel := func() {}
	if timeout > 0 {
		ctx, cancel = context.WithTimeout(ctx, timeout)
	} else {
		ctx, cancel = context.WithCancel(ctx)
	}
	defer cancel()
	// diagnosis aid only: one goroutine dump into the unit log when a call
	// takes unusually long (explains an INCONCLUSIVE line afterwards)
	stall := time.AfterFunc(12*time.Second, func() {
		if atomic.CompareAndSwapInt32(&c15Dumped, 0, 1) {
			fmt.Fprintf(os.Stderr, "c15: %s by %s still running after 12s; goroutines:\n", method, id)
			pprof.Lookup("goroutine").WriteTo(os.Stderr, 2)
		}
	})
	defer stall.Stop()
	dec := func(m interface{}) error {
		gproto.Merge(m.(gproto.Message), req)
		return nil
	}
	return md.Handler(w.srv.api, ctx, dec, AuthzUnaryInterceptor)
}

// c15Str is a stub grpc.ServerStream.
type c15Str struct {
	ctx    context.Context
	cancel context.CancelFunc
	in     chan gproto.Message
	out    chan gproto.Message
	done   chan struct{}
	mu     sync.Mutex
	err    error
}

func c15NewStr(id string) *c15Str {
	ctx, cancel := context.WithCancel(c15PeerCtx(context.Background(), id))
	return &c15Str{ctx: ctx, cancel: cancel, in: make(chan gproto.Message, 64), out: make(chan gproto.Message, 8192), done: make(chan struct{})}
}

func (s *c15Str) SetHeader(metadata.MD) error  { return nil }
func (s *c15Str) SendHeader(metadata.MD) error { return nil }
func (s *c15Str) SetTrailer(metadata.MD)       {}
func (s *c15Str) Context() context.Context     { return s.ctx }
func (s *c15Str) SendMsg(m interface{}) error {
	if s.ctx.Err() != nil {
		return status.Error(codes.Canceled, "stream closed")
	}
	cp := gproto.Clone(m.(gproto.Message))
	select {
	case s.out <- cp:
		return nil
	case <-s.ctx.Done():
		return status.Error(codes.Canceled, "stream closed")
	}
}
func (s *c15Str) RecvMsg(m interface{}) error {
	select {
	case r, ok := <-s.in:
		if !ok {
			return io.EOF
		}
		gproto.Merge(m.(gproto.Message), r)
		return nil
	case <-s.ctx.Done():
		return status.Error(codes.Canceled, "stream closed")
	}
}

func (s *c15Str) closed() bool {
	select {
	case <-s.done:
		return true
	default:
		return false
	}
}

func (s *c15Str) result() error {
	s.mu.Lock()
	defer s.mu.Unlock()
	return s.err
}

// waitDone waits for the handler to return (logical condition; watchdog).
func (s *c15Str) waitDone(d time.Duration) bool {
	select {
	case <-s.done:
		return true
	case <-time.After(d):
		return false
	}
}

// stream starts a streaming RPC in a goroutine, through the real stream
// interceptor.  Like gRPC, the stream context ends when the handler returns.
func (w *c15World) stream(name, id string, reqs ...gproto.Message) (*c15Str, error) {
	sd, ok := c15Stream[name]
	if !ok {
		return nil, fmt.Errorf("c15: %s is not a streaming method of the service descriptor", name)
	}
	st := c15NewStr(id)
	for _, r := range reqs {
		st.in <- r
	}
	info := &grpc.StreamServerInfo{FullMethod: "/proto.API/" + name, IsClientStream: sd.ClientStreams, IsServerStream: sd.ServerStreams}
	go func() {
		err := AuthzStreamInterceptor(w.srv.api, st, info, sd.Handler)
		st.mu.Lock()
		st.err = err
		st.mu.Unlock()
		st.cancel()
		close(st.done)
	}()
	return st, nil
}

// next returns the next message the handler sent, or nil when the handler
// returned first / the watchdog fired (timedOut).
func (s *c15Str) next(d time.Duration) (m gproto.Message, timedOut bool) {
	select {
	case m := <-s.out:
		return m, false
	default:
	}
	t := time.NewTimer(d)
	defer t.Stop()
	select {
	case m := <-s.out:
		return m, false
	case <-s.done:
		select {
		case m := <-s.out:
			return m, false
		default:
		}
		return nil, false
	case <-t.C:
		return nil, true
	}
}

// drain returns everything sent so far.
func (s *c15Str) drain() []gproto.Message {
	var out []gproto.Message
	for {
		select {
		case m := <-s.out:
			out = append(out, m)
		default:
			return out
		}
	}
}

// ---------------------------------------------------------------- world

type c15Standing struct {
	key    string
	stream string
	part   int32
	group  bool
	st     *c15Str
}

type c15World struct {
	rep        *kit.Report
	c          *vfCluster
	srv        *Server
	dir        string
	modelPath  string
	policyPath string
	pol        *c15Policy
	hup        chan os.Signal
	standing   map[string]*c15Standing
	seq        int
	curNext    map[int32]int64  // next offset to decode per cursors partition
	curVals    map[string]int64 // latest cursor per key, decoded from the cursors log
	nCurParts  int32
	reloads    int
	sampled    int
	sweeps     int // identity sweeps generated so far (rotation of kinds x methods)
	kindRot    int // start of this process' rotation through c15IdentityKinds
	hupBarrier int
	keepDir    bool // leave the authorisation files in place at close()
}

func c15PartKey(s string, p int32) string { return fmt.Sprintf("%s/%d", s, p) }

// c15PathLayout: how the configured model and policy paths are laid out on
// disk (regular files, symbolic links, a mounted ConfigMap, ...).  Setup
// creates whatever holds the given model and policy text under dir and returns
// the two paths an operator would put into the configuration.
type c15PathLayout struct {
	Name  string
	Setup func(dir, model, policy string) (modelPath, policyPath string, err error)
}

// c15NewWorld starts the server with the given policy loaded at start-up
// (cold load) and builds the default world with admin calls.
func c15NewWorld(rep *kit.Report, tag string, pol *c15Policy) (*c15World, error) {
	return c15NewWorldLayout(rep, tag, pol, nil)
}

// c15NewWorldLayout: the same with the authorisation files laid out by lay
// (nil: two regular files given by absolute path).
func c15NewWorldLayout(rep *kit.Report, tag string, pol *c15Policy, lay *c15PathLayout) (*c15World, error) {
	w := &c15World{rep: rep, pol: pol, standing: map[string]*c15Standing{}, curNext: map[int32]int64{}, curVals: map[string]int64{}, nCurParts: 2}
	w.dir = vfWorkDir("c15" + tag + "-authz")
	if lay != nil {
		var err error
		if w.modelPath, w.policyPath, err = lay.Setup(w.dir, c15Model, pol.csv()); err != nil {
			return nil, fmt.Errorf("laying out the authorisation files (%s): %v", lay.Name, err)
		}
		w.keepDir = true // a stopped server's SIGHUP goroutine lives on and re-reads its files
	} else {
		w.modelPath = filepath.Join(w.dir, "model.conf")
		w.policyPath = filepath.Join(w.dir, "policy.csv")
		if err := os.WriteFile(w.modelPath, []byte(c15Model), 0644); err != nil {
			return nil, err
		}
		if err := os.WriteFile(w.policyPath, []byte(pol.csv()), 0644); err != nil {
			return nil, err
		}
	}
	repo := os.Getenv("VERIF_REPO")
	if repo == "" {
		repo = "/repo"
	}
	certs := filepath.Join(repo, "server", "configs", "certs")
	// Twin SIGHUP channel: the runtime hands a signal to every Notify channel
	// in one pass, so a receipt here means the server's channel got it too.
	w.hup = make(chan os.Signal, 16)
	signal.Notify(w.hup, syscall.SIGHUP)
	c, srv, err := vfSingle("c15"+tag, func(cfg *Config) {
		cfg.TLSCert = filepath.Join(certs, "server", "server-cert.pem")
		cfg.TLSKey = filepath.Join(certs, "server", "server-key.pem")
		cfg.TLSClientAuth = true
		cfg.TLSClientAuthCA = filepath.Join(certs, "ca-cert.pem")
		cfg.TLSClientAuthz = true
		cfg.TLSClientAuthzModel = w.modelPath
		cfg.TLSClientAuthzPolicy = w.policyPath
		cfg.CursorsStream.Partitions = w.nCurParts
		cfg.CursorsStream.AutoPauseTime = 0 // no wall-clock driven state change
		cfg.Streams.AutoPauseTime = 0
		cfg.Groups.ConsumerTimeout = time.Hour // members never expire by the clock
		cfg.Groups.CoordinatorTimeout = time.Hour
	})
	if err != nil {
		return nil, err
	}
	w.c, w.srv = c, srv
	if srv.authzEnforcer == nil || !srv.config.TLSClientAuthz {
		w.close()
		return nil, errors.New("server started without an authorization enforcer")
	}
	// cursors stream is created when the node becomes metadata leader
	if !vfWait(c15Wait, func() bool {
		for i := int32(0); i < w.nCurParts; i++ {
			p := srv.metadata.GetPartition(c15CurStr, i)
			if p == nil || !p.IsLeader() {
				return false
			}
		}
		return true
	}) {
		w.close()
		return nil, fmt.Errorf("cursors stream not ready: %w", errVfTimeout)
	}
	if err := w.normalize(); err != nil {
		w.close()
		return nil, fmt.Errorf("building the default world: %v", err)
	}
	// one message per live partition so that a subscription from EARLIEST has
	// something to deliver, and one stored cursor per live stream
	for _, s := range c15Live {
		for p := int32(0); p < 2; p++ {
			if _, err := w.adminPublish(s, p, []byte("seed")); err != nil {
				w.close()
				return nil, err
			}
		}
		if _, err := w.call("SetCursor", c15Admin, &client.SetCursorRequest{Stream: s, Partition: 0, CursorId: "cur0", Offset: 7}, c15Call45); err != nil {
			w.adminRefused("SetCursor", s, err)
			w.close()
			return nil, fmt.Errorf("admin SetCursor: %v", err)
		}
	}
	return w, nil
}

func (w *c15World) close() {
	for _, s := range w.standing {
		s.st.cancel()
	}
	signal.Stop(w.hup)
	if w.c != nil {
		w.c.Cleanup()
	}
	if !w.keepDir {
		os.RemoveAll(w.dir)
	}
}

func (w *c15World) adminPublish(stream string, part int32, val []byte) (int64, error) {
	r, err := w.call("Publish", c15Admin, &client.PublishRequest{Stream: stream, Partition: part, Key: c15Fencer, Value: val, AckPolicy: client.AckPolicy_ALL}, c15Wait)
	if err != nil {
		w.adminRefused("Publish", stream, err)
		return 0, fmt.Errorf("admin Publish %s/%d: %v", stream, part, err)
	}
	resp := r.(*client.PublishResponse)
	if resp.Ack == nil {
		return 0, fmt.Errorf("admin Publish %s/%d: no ack", stream, part)
	}
	return resp.Ack.Offset, nil
}

// ---------------------------------------------------------------- reload

func (w *c15World) enforce(sub, obj, act string) bool {
	ok, err := w.srv.api.enforcePolicy(sub, obj, act)
	return err == nil && ok
}

// setPolicy rewrites the policy file and delivers a real SIGHUP to this
// process.  It returns (true, nil) once the enforcer answers with the new
// generation marker.  A reload that never takes effect although the signal was
// dispatched (twin channel) and the process kept making progress (admin round
// trips through NATS and Raft between the retries) is a stuck state, not a
// slow one: reported as applied=false.
func (w *c15World) setPolicy(pol *c15Policy) (applied bool, err error) {
	tmp := w.policyPath + ".tmp"
	if err := os.WriteFile(tmp, []byte(pol.csv()), 0644); err != nil {
		return false, err
	}
	if err := os.Rename(tmp, w.policyPath); err != nil {
		return false, err
	}
	old := w.pol
	w.pol = pol
	for attempt := 0; attempt < 3; attempt++ {
		for len(w.hup) > 0 {
			<-w.hup
		}
		if err := syscall.Kill(os.Getpid(), syscall.SIGHUP); err != nil {
			return false, err
		}
		w.reloads++
		select {
		case <-w.hup:
		case <-time.After(c15Wait):
			w.pol = old
			return false, fmt.Errorf("SIGHUP not dispatched to the process within %v: %w", c15Wait, errVfTimeout)
		}
		if vfWait(c15Wait/2, func() bool { return w.enforce(c15Marker, "gen", pol.marker()) }) {
			return true, nil
		}
		// progress proof before declaring the reload stuck
		if _, err := w.adminPublishOld(old); err != nil {
			w.pol = old
			return false, fmt.Errorf("process not making progress while waiting for the reload: %v: %w", err, errVfTimeout)
		}
		w.hupBarrier++
	}
	return false, nil
}

// adminPublishOld: a round trip that works under the old and the new policy
// (admin holds every line in both).
func (w *c15World) adminPublishOld(_ *c15Policy) (int64, error) {
	return w.adminPublish(c15CurStr, 0, []byte("progress"))
}

// ---------------------------------------------------------------- digest

type c15Digest map[string]string

func (w *c15World) digest() c15Digest {
	d := c15Digest{}
	s := w.srv
	for _, st := range s.metadata.GetStreams() {
		name := st.GetName()
		cfg := "nil"
		if c := st.GetConfig(); c != nil {
			b, _ := c.Marshal()
			cfg = fmt.Sprintf("%x", b)
		}
		d["stream/"+name] = fmt.Sprintf("subject=%s tombstoned=%v cfg=%s", st.GetSubject(), st.IsTombstoned(), cfg)
		d["resumeall/"+name] = fmt.Sprint(st.GetResumeAll())
		for id, p := range st.GetPartitions() {
			k := c15PartKey(name, id)
			d["paused/"+k] = fmt.Sprint(p.IsPaused())
			d["readonly/"+k] = fmt.Sprint(p.IsReadonly())
			l, e := p.GetLeader()
			d["leader/"+k] = fmt.Sprintf("%s@%d isr=%v", l, e, vfSortedStrings(p.GetISR()))
			d["newest/"+k] = fmt.Sprint(p.log.NewestOffset())
			d["hw/"+k] = fmt.Sprint(p.log.HighWatermark())
			p.consumersMu.Lock()
			var cs []string
			for g, m := range p.consumers {
				cs = append(cs, fmt.Sprintf("%s=%s@%d", g, m.consumerID, m.groupEpoch))
			}
			p.consumersMu.Unlock()
			sort.Strings(cs)
			d["pcons/"+k] = strings.Join(cs, ",")
		}
	}
	for _, g := range s.metadata.GetConsumerGroups() {
		id := g.GetID()
		co, ep := g.GetCoordinator()
		d["group/"+id] = fmt.Sprintf("coordinator=%s epoch=%d", co, ep)
		for m, ss := range g.GetMembers() {
			d["gmember/"+id+"/"+m] = strings.Join(vfSortedStrings(ss), ",")
		}
		g.mu.RLock()
		var as []string
		for mid, m := range g.members {
			for stn, ps := range m.assignments {
				q := append([]int32(nil), ps...)
				sort.Slice(q, func(i, j int) bool { return q[i] < q[j] })
				as = append(as, fmt.Sprintf("%s:%s=%v", mid, stn, q))
			}
		}
		g.mu.RUnlock()
		sort.Strings(as)
		d["gassign/"+id] = strings.Join(as, ";")
		s.metadata.consumerGroupsMu.RLock()
		fo := s.metadata.groupFailovers[g]
		s.metadata.consumerGroupsMu.RUnlock()
		if fo != nil {
			fo.mu.Lock()
			var ws []string
			for x := range fo.witnesses {
				ws = append(ws, x)
			}
			fo.mu.Unlock()
			sort.Strings(ws)
			d["gfail/"+id] = strings.Join(ws, ",")
		}
	}
	// stored cursors, decoded from the cursors partitions (independent of the
	// server's cache), and the cache itself
	for i := int32(0); i < w.nCurParts; i++ {
		p := s.metadata.GetPartition(c15CurStr, i)
		if p == nil || p.IsPaused() {
			continue
		}
		recs, err := vfReadLog(p.log, w.curNext[i], false)
		if err != nil {
			d["cursorlog/"+fmt.Sprint(i)] = "unreadable: " + err.Error()
			continue
		}
		for _, r := range recs {
			w.curNext[i] = r.Offset + 1
			if string(r.Key) == string(c15Fencer) {
				continue
			}
			cur := &proto.Cursor{}
			if err := cur.Unmarshal(r.Value); err != nil {
				w.curVals[string(r.Key)] = -999
				continue
			}
			w.curVals[string(r.Key)] = cur.Offset
		}
	}
	for k, v := range w.curVals {
		d["cursor/"+k] = fmt.Sprint(v)
	}
	s.cursors.mu.RLock()
	for _, k := range s.cursors.cache.Keys() {
		if v, ok := s.cursors.cache.Peek(k); ok {
			d["ccache/"+fmt.Sprint(k)] = fmt.Sprint(v)
		}
	}
	s.cursors.mu.RUnlock()
	for k, sb := range w.standing {
		if sb.st.closed() {
			d["sub/"+k] = "closed"
		} else {
			d["sub/"+k] = "open"
		}
	}
	return d
}

// c15DiffKeys: keys whose values differ, offsets (newest/hw) excluded — those
// are decided with fences.
func c15DiffKeys(a, b c15Digest) []string {
	var out []string
	seen := map[string]bool{}
	for k, v := range a {
		seen[k] = true
		if strings.HasPrefix(k, "newest/") || strings.HasPrefix(k, "hw/") {
			continue
		}
		if bv, ok := b[k]; !ok || bv != v {
			out = append(out, k)
		}
	}
	for k := range b {
		if seen[k] || strings.HasPrefix(k, "newest/") || strings.HasPrefix(k, "hw/") {
			continue
		}
		out = append(out, k)
	}
	sort.Strings(out)
	return out
}

func c15DescribeDiff(a, b c15Digest, keys []string) string {
	var sb strings.Builder
	for i, k := range keys {
		if i == 8 {
			fmt.Fprintf(&sb, " …(+%d)", len(keys)-8)
			break
		}
		av, aok := a[k]
		bv, bok := b[k]
		if !aok {
			av = "<absent>"
		}
		if !bok {
			bv = "<absent>"
		}
		fmt.Fprintf(&sb, " [%s: %s → %s]", k, av, bv)
	}
	return sb.String()
}

// ---------------------------------------------------------------- normalise

func (w *c15World) adminCall(method string, req gproto.Message) error {
	_, err := w.call(method, c15Admin, req, c15Call45)
	if err != nil {
		w.adminRefused(method, c15Text(req), err)
		return fmt.Errorf("admin %s: %v", method, err)
	}
	return nil
}

// adminRefused: the admin client holds every policy line (documented actions
// on every resource the harness uses), so an authorisation error for one of
// the harness' own preparation calls contradicts the documented contract.
func (w *c15World) adminRefused(method, what string, err error) {
	if !c15AuthzError(err) {
		return
	}
	w.rep.Eval()
	w.rep.Violation("C15:"+method+":refused-although-authorised",
		fmt.Sprintf("preparation call %s(%s) by the admin client, which holds every documented policy entry for it, was refused: %v", method, what, err),
		map[string]interface{}{"seed": kit.Seed(), "client": c15Admin, "method": method, "request": what, "policy_generation": w.pol.Gen})
}

func c15Text(m gproto.Message) string {
	s := fmt.Sprint(m)
	if len(s) > 300 {
		s = s[:300] + "…"
	}
	return s
}

func c15AuthzError(err error) bool {
	if err == nil {
		return false
	}
	s := err.Error()
	return strings.Contains(s, "not authorized") || strings.Contains(s, "Failed to retrieve client ID") || strings.Contains(s, "PERMISSION_DENIED")
}

func (w *c15World) waitLeaders(stream string, n int32) error {
	if !vfWait(c15Wait, func() bool {
		for i := int32(0); i < n; i++ {
			p := w.srv.metadata.GetPartition(stream, i)
			if p == nil || (!p.IsPaused() && !p.IsLeader()) {
				return false
			}
		}
		return true
	}) {
		return fmt.Errorf("stream %s: partitions not leading: %w", stream, errVfTimeout)
	}
	return nil
}

func (w *c15World) ensureStream(name string, parts int32) error {
	if w.srv.metadata.GetStream(name) != nil {
		return nil
	}
	if err := w.adminCall("CreateStream", &client.CreateStreamRequest{Name: name, Subject: c15Subject(name), Partitions: parts, ReplicationFactor: 1}); err != nil {
		return err
	}
	return w.waitLeaders(name, parts)
}

// normalize brings the world back to its default with authorised calls: live
// streams exist, nothing paused or read-only, d* exist, n* absent, group g0 =
// {m1,m2} on s0,s1, no other group, standing subscriptions open.
func (w *c15World) normalize() error {
	for _, s := range c15Live {
		if err := w.ensureStream(s, 2); err != nil {
			return err
		}
	}
	for _, s := range c15Del {
		if err := w.ensureStream(s, 1); err != nil {
			return err
		}
	}
	for _, s := range c15New {
		if w.srv.metadata.GetStream(s) != nil {
			if err := w.adminCall("DeleteStream", &client.DeleteStreamRequest{Name: s}); err != nil {
				return err
			}
		}
	}
	for _, s := range c15Live {
		st := w.srv.metadata.GetStream(s)
		var ro []int32
		for id, p := range st.GetPartitions() {
			if p.IsReadonly() {
				ro = append(ro, id)
			}
		}
		if len(ro) > 0 {
			if err := w.adminCall("SetStreamReadonly", &client.SetStreamReadonlyRequest{Name: s, Partitions: ro, Readonly: false}); err != nil {
				return err
			}
		}
		for id := int32(0); id < 2; id++ {
			p := w.srv.metadata.GetPartition(s, id)
			if p != nil && p.IsPaused() {
				if _, err := w.adminPublish(s, id, []byte("resume")); err != nil {
					return err
				}
			}
		}
		if err := w.waitLeaders(s, 2); err != nil {
			return err
		}
	}
	// metadata groups
	for _, g := range w.srv.metadata.GetConsumerGroups() {
		id := g.GetID()
		for m := range g.GetMembers() {
			if id == c15MetaGrp && (m == "m1" || m == "m2") {
				continue
			}
			if err := w.adminCall("LeaveConsumerGroup", &client.LeaveConsumerGroupRequest{GroupId: id, ConsumerId: m}); err != nil {
				return err
			}
		}
	}
	for _, m := range []string{"m1", "m2"} {
		g := w.srv.metadata.GetConsumerGroup(c15MetaGrp)
		if g == nil || !g.IsMember(m) {
			if err := w.adminCall("JoinConsumerGroup", &client.JoinConsumerGroupRequest{GroupId: c15MetaGrp, ConsumerId: m, Streams: []string{"s0", "s1"}}); err != nil {
				return err
			}
		}
	}
	return w.ensureStanding()
}

// ensureStanding (re)opens the standing subscriptions on every live partition
// that is not paused: one plain subscription per partition and one group
// subscription (group gs, consumer std, epoch 5) on partition 1.
func (w *c15World) ensureStanding() error {
	for _, s := range c15Live {
		for id := int32(0); id < 2; id++ {
			p := w.srv.metadata.GetPartition(s, id)
			paused := p == nil || p.IsPaused() || p.IsReadonly() // no standing subscription can live there
			for _, grp := range []bool{false, true} {
				if grp && id != 1 {
					continue
				}
				key := c15PartKey(s, id) + "/plain"
				if grp {
					key = c15PartKey(s, id) + "/group"
				}
				cur := w.standing[key]
				if cur != nil && (cur.st.closed() || paused) {
					cur.st.cancel()
					cur.st.waitDone(c15Wait)
					delete(w.standing, key)
					cur = nil
				}
				if cur != nil || paused {
					continue
				}
				req := &client.SubscribeRequest{Stream: s, Partition: id, StartPosition: client.StartPosition_NEW_ONLY}
				if grp {
					// a previous (authorised) take-over may still be winding down
					if !vfWait(c15Wait, func() bool {
						q := w.srv.metadata.GetPartition(s, id)
						return q != nil && q.GetGroupConsumer(c15StdGroup) == nil
					}) {
						return fmt.Errorf("group entry on %s/%d not released: %w", s, id, errVfTimeout)
					}
					req.Consumer = &client.Consumer{GroupId: c15StdGroup, ConsumerId: c15StdCons, GroupEpoch: c15StdEpoch}
				}
				st, err := w.stream("Subscribe", c15Admin, req)
				if err != nil {
					return err
				}
				m, to := st.next(c15Wait)
				if to {
					st.cancel()
					return fmt.Errorf("standing subscription %s: no confirmation: %w", key, errVfTimeout)
				}
				if m == nil {
					return fmt.Errorf("standing subscription %s refused: %v", key, st.result())
				}
				w.standing[key] = &c15Standing{key: key, stream: s, part: id, group: grp, st: st}
			}
		}
	}
	return nil
}

// ---------------------------------------------------------------- fences

type c15FenceOut struct {
	offsets   map[string]int64 // partition key -> offset the fence landed on
	extra     map[string]int   // standing key -> messages delivered before the fence
	closed    []string         // standing subscriptions that ended
	inconc    []string
	unfenced  []string
	fenceVals map[string]string
}

// fence publishes, as admin with AckPolicy ALL, one marker to every partition
// that is neither paused nor read-only (before and after the call) and waits
// for it on the standing subscriptions.  The server publishes everything
// through one NATS connection, so whatever the examined call put on a subject
// is sequenced before the marker: the marker's offset counts what was
// published.
func (w *c15World) fence(d0, d1 c15Digest) *c15FenceOut {
	out := &c15FenceOut{offsets: map[string]int64{}, extra: map[string]int{}, fenceVals: map[string]string{}}
	type target struct {
		s string
		p int32
	}
	var ts []target
	consider := func(s string, n int32) {
		skip := false
		if d1["resumeall/"+s] == "true" {
			for i := int32(0); i < n; i++ {
				if d1["paused/"+c15PartKey(s, i)] == "true" {
					skip = true // a publish would resume the others
				}
			}
		}
		for i := int32(0); i < n; i++ {
			k := c15PartKey(s, i)
			ok := !skip && d0["paused/"+k] == "false" && d1["paused/"+k] == "false" && d0["readonly/"+k] == "false" && d1["readonly/"+k] == "false"
			if ok {
				ts = append(ts, target{s, i})
			} else if _, e0 := d0["newest/"+k]; e0 {
				out.unfenced = append(out.unfenced, k)
			}
		}
	}
	for _, s := range c15Live {
		consider(s, 2)
	}
	for _, s := range c15Del {
		consider(s, 1)
	}
	consider(c15CurStr, w.nCurParts)
	w.seq++
	var mu sync.Mutex
	var wg sync.WaitGroup
	for _, t := range ts {
		wg.Add(1)
		go func(t target) {
			defer wg.Done()
			k := c15PartKey(t.s, t.p)
			val := fmt.Sprintf("fence-%d-%s", w.seq, k)
			off, err := w.adminPublish(t.s, t.p, []byte(val))
			mu.Lock()
			defer mu.Unlock()
			if err != nil {
				out.inconc = append(out.inconc, err.Error())
				return
			}
			out.offsets[k] = off
			out.fenceVals[k] = val
		}(t)
	}
	wg.Wait()
	for key, sb := range w.standing {
		pk := c15PartKey(sb.stream, sb.part)
		val, fenced := out.fenceVals[pk]
		if !fenced {
			if sb.st.closed() {
				out.closed = append(out.closed, key)
			}
			continue
		}
		n := 0
		for {
			m, to := sb.st.next(c15Wait)
			if to {
				out.inconc = append(out.inconc, fmt.Sprintf("standing subscription %s open but fence not delivered within %v", key, c15Wait))
				break
			}
			if m == nil {
				out.closed = append(out.closed, key)
				break
			}
			msg := m.(*client.Message)
			if string(msg.Value) == val {
				break
			}
			if n0, err := strconv.ParseInt(d0["newest/"+pk], 10, 64); err == nil && msg.Offset <= n0 {
				continue // stored before the examined call (the harness' own seeds and resumes)
			}
			n++
		}
		out.extra[key] = n
	}
	sort.Strings(out.closed)
	return out
}

// quiesce waits until the only subscription loops on the live partitions are
// those of the open standing subscriptions and the only group entries theirs
// (loops of subscriptions ended by the harness' own preparation — a pause
// closes the log under them — release their entries asynchronously).
func (w *c15World) quiesce() bool {
	return vfWait(c15Wait, func() bool {
		for _, s := range c15Live {
			for id := int32(0); id < 2; id++ {
				p := w.srv.metadata.GetPartition(s, id)
				if p == nil {
					continue
				}
				p.mu.RLock()
				n := p.subscriberCount
				p.mu.RUnlock()
				if n != w.openStandingOn(s, id) {
					return false
				}
				sb := w.standing[c15PartKey(s, id)+"/group"]
				want := 0
				if sb != nil && !sb.st.closed() {
					want = 1
				}
				p.consumersMu.Lock()
				got := len(p.consumers)
				_, std := p.consumers[c15StdGroup]
				p.consumersMu.Unlock()
				if got != want || (want == 1 && !std) {
					return false
				}
			}
		}
		return true
	})
}

func (w *c15World) openStandingOn(stream string, part int32) int64 {
	var n int64
	for _, sb := range w.standing {
		if sb.stream == stream && sb.part == part && !sb.st.closed() {
			n++
		}
	}
	return n
}
