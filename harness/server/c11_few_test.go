//go:build verif

package server

// C11 — "few cursors" unit.  The other units bury their cursors under hundreds
// of others, so the cursors partition always holds many messages and its
// high watermark is large.  Here the partition holds exactly 1, 2 or 3
// cursors when something happens to it that makes the server re-read its
// state from disk (restart on the same data directory, pause + resume,
// both, twice), with the cache on and off; every cursor must then be
// fetched with the value last stored.  The very first message of a log
// (offset 0, high watermark 0) is the boundary the big histories never see.

import (
	"fmt"
	"testing"

	kit "github.com/liftbridge-io/liftbridge/internal/verifkit"
)

func c11FewCase(rep *kit.Report, idx int, seed uint64, count int, trans []string, cacheOff bool) {
	cfg := c11Cfg{Parts: 1, SegBytes: 1500, CacheOff: cacheOff, Clients: 1, CleanMode: "forced", Steps: append([]string{"few"}, trans...)}
	e, err := c11NewSingle(rep, "few", seed, cfg)
	if err != nil {
		rep.Inconc(fmt.Sprintf("server start failed: %v", err))
		return
	}
	defer e.close()
	rep.Eval()
	n := e.c.Nodes["a"]
	keys := make([]c11Key, count)
	for i := range keys {
		keys[i] = e.newCold()
	}
	answered, wanted := 0, 0
	fetchAll := func(phase string) {
		for _, k := range keys {
			wanted++
			if f := e.fetchQuiescent(n, k, phase); f.OK {
				answered++
				e.judgeNow(f, false)
			}
		}
	}
	// a cursor that was never set, asked before and after
	never := e.newCold()
	for _, k := range keys {
		if s := e.doSet(n, 0, k, "few-set"); !s.OK {
			e.inconclusive("set not acknowledged: " + s.Err)
			return
		}
	}
	fetchAll("few-after-set")
	for ti, tr := range trans {
		phase := "few-after-" + tr
		switch tr {
		case "restart":
			if !e.restartSingle() {
				return
			}
		case "pause":
			if !e.pauseAll(n) {
				e.inconclusive("pause not reached")
				return
			}
			// the next fetch / set resumes the partition
		case "purge":
			if !cacheOff {
				e.purge(n.Server())
			}
		}
		n = e.c.Nodes["a"]
		fetchAll(phase)
		if f := e.fetchQuiescent(n, never, phase); f.OK {
			e.judgeNow(f, false)
		}
		rep.Count("transitions_"+tr, 1)
		// overwrite one cursor between transitions (still few messages)
		if ti < len(trans)-1 {
			if s := e.doSet(n, 0, keys[ti%count], "few-set"); !s.OK {
				e.inconclusive("set not acknowledged: " + s.Err)
				return
			}
		}
	}
	e.finish()
	rep.Count("cases", 1)
	rep.Count(fmt.Sprintf("cases_with_%d_cursors", count), 1)
	if answered == wanted {
		rep.Nontrivial(fmt.Sprintf("n=%d|%v|cacheOff=%v", count, trans, cacheOff))
	}
	if idx < 2 {
		rep.Sample(map[string]any{"cursors": count, "transitions": trans, "cache_off": cacheOff, "fetches_answered": answered})
	}
}

func TestVerifC11Few(t *testing.T) {
	rep := kit.NewReport("C11", "few")
	defer rep.Write()
	rep.SetRule("single-node servers whose cursors partition holds exactly 1, 2 or 3 cursors (so offsets 0..2, HW 0..2) when the server restarts on the same data directory, the cursors stream is paused and resumed by the next fetch, the cache is purged, or several of these in a row (one cursor overwritten in between), cache on and off; after every transition every cursor and one never-set cursor are fetched and judged by the per-cursor register rule; non-trivial = every fetch was answered; distinct = cursor count + transition list + cache mode")
	type cse struct {
		count    int
		trans    []string
		cacheOff bool
	}
	var cases []cse
	lists := [][]string{{"restart"}, {"pause"}, {"restart", "restart"}, {"pause", "restart"}, {"purge", "pause", "purge"}, {"restart", "pause", "restart"}}
	for _, count := range []int{1, 2, 3} {
		for li, l := range lists {
			if !kit.Thorough() && count == 3 && li >= 2 {
				continue
			}
			cases = append(cases, cse{count, l, (li+count)%3 == 0})
			if kit.Thorough() {
				cases = append(cases, cse{count, l, (li+count)%3 != 0})
			}
		}
	}
	root := kit.NewRNG(kit.Mix(kit.Seed(), 0xC11F))
	seeds := make([]uint64, len(cases))
	for i := range seeds {
		seeds[i] = root.Uint64()
	}
	kit.Parallel(len(cases), 4, func(i int) {
		if rep.NumViolations() >= 4 {
			return
		}
		c11FewCase(rep, i, seeds[i], cases[i].count, cases[i].trans, cases[i].cacheOff)
	})
}
