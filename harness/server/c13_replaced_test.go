//go:build verif

package server

// C13, class "what the replaced member's consumer is doing at the instant it
// is replaced, and whether the replaced subscription is really ENDED".
//
// This file holds
//   - rule (E) of the monitor (replaced member not cancelled: a state predicate
//     on the real objects, judged at once, see c13_monitor_test.go) and rule
//     (F) (fence: judged by delivery), used by every unit built on c13Case;
//   - the bounded-wait discipline of the C13 units: every wait is a logical
//     wait with a watchdog, a unit that has seen several watchdog expiries
//     stops starting new cases (and says so), and a unit-level watchdog writes
//     the report with what was observed so far shortly before the driver's
//     time limit - a unit never ends as a bare hang;
//   - the unit `replaced`: sequential and concurrent hand-overs in which the
//     member that is replaced (or not replaced: older epoch) is consumed by
//     every kind of consumer - parked in one select over Messages(), Errors()
//     and Closed() (cancelling its context on a status / closing like
//     api.Subscribe / only recording the status and listening on), not
//     listening on Errors() at all, not receiving at all (gated), busy with a
//     backlog, or replaced right after its own Subscribe returned - with the
//     replacement judged by rule (E) at the instant the replacing Subscribe
//     has returned and by fences afterwards.

import (
	"context"
	"flag"
	"fmt"
	"os"
	"runtime"
	"sort"
	"strconv"
	"strings"
	"sync"
	"sync/atomic"
	"testing"
	"time"

	client "github.com/liftbridge-io/liftbridge-api/v2/go"

	kit "github.com/liftbridge-io/liftbridge/internal/verifkit"
)

// ---------------------------------------------------------------- bounded waits

// c13Expired counts watchdog expiries of logical waits in this process (one
// unit = one process).
var (
	c13Expired    atomic.Int64
	c13MaxExpired = int64(kit.EnvInt("C13_MAX_EXPIRED_WAITS", 8))
	c13CutOnce    sync.Once
	c13SkipRuleE  = kit.EnvInt("C13_SKIP_RULE_E", 0) == 1 // harness self-test only: lets rules (A)/(F) be seen on their own
)

// cutShort: after several expired waits the unit stops starting cases - each
// further case would most likely sit in the same wait.  What was observed so
// far is reported; the rest is inconclusive.
func (c *c13Case) cutShort() bool {
	if c13Expired.Load() < c13MaxExpired {
		return false
	}
	c13CutOnce.Do(func() {
		c.rep.Inconc(fmt.Sprintf("%s: %d logical waits ended by their watchdog; the unit starts no further cases (counter cases_not_run_after_repeated_watchdog_expiries)", c.unit, c13Expired.Load()))
	})
	c.rep.Count("cases_not_run_after_repeated_watchdog_expiries", 1)
	for _, g := range c.groups {
		c13Groups.Delete(g)
	}
	return true
}

// c13UnitWatchdog writes the report (with what was observed so far) and ends
// the process shortly before the driver's time limit for the unit.
func c13UnitWatchdog(rep *kit.Report, unit string) (stop func()) {
	var limit time.Duration
	if f := flag.Lookup("test.timeout"); f != nil {
		if d, err := time.ParseDuration(f.Value.String()); err == nil {
			limit = d
		}
	}
	if limit <= 0 {
		return func() {}
	}
	margin := limit / 8
	if margin < 20*time.Second {
		margin = 20 * time.Second
	}
	if margin >= limit {
		margin = limit / 2
	}
	t := time.AfterFunc(limit-margin, func() {
		rep.Inconc(fmt.Sprintf("%s: unit watchdog: still running %s before its time limit of %s (logical waits ended by their watchdog so far: %d); report written with what was observed", unit, margin, limit, c13Expired.Load()))
		rep.Write()
		os.Exit(0)
	})
	return func() { t.Stop() }
}

// stuckState describes, from the real objects, which loops a quiescence wait
// is still waiting for.
func (c *c13Case) stuckState(subs []*c13Sub) string {
	var l []string
	for _, s := range subs {
		if s.active() {
			continue
		}
		closed := !s.open()
		st := ""
		if e, _ := s.endCode.Load().(string); e != "" {
			st = fmt.Sprintf(" consumer(%s) took status %q", s.kind(), e)
		}
		l = append(l, fmt.Sprintf("sub#%d(g%d %s e%d) Closed()=%v ctx-cancelled-by-harness=%v%s", s.Idx, s.call.G, s.call.Cid, s.call.Epoch, closed, s.ctxCancelAt.Load() != 0, st))
		if len(l) >= 6 {
			break
		}
	}
	return "not-ACTIVE subscriptions: " + strings.Join(l, "; ")
}

// settle brings every receiving consumer back into its select: a probe is
// only answered from inside the select, and after the answer the goroutine
// needs a few instructions to be parked in it again.
func (c *c13Case) settle() {
	c.mu.Lock()
	subs := append([]*c13Sub(nil), c.subs...)
	c.mu.Unlock()
	n := 0
	for _, s := range subs {
		if s.receiving() && s.open() {
			if a, ok := s.alive(); ok && a {
				n++
			}
		}
	}
	for i := 0; i < 64; i++ {
		runtime.Gosched()
	}
	c.n("consumers_settled_in_their_select_before_a_round", int64(n))
}

// ---------------------------------------------------------------- goroutine identity

// c13GoID: id of the calling goroutine ("goroutine N [running]:").
func c13GoID() int64 {
	var buf [64]byte
	n := runtime.Stack(buf[:], false)
	f := strings.Fields(string(buf[:n]))
	if len(f) < 2 || f[0] != "goroutine" {
		return 0
	}
	id, err := strconv.ParseInt(f[1], 10, 64)
	if err != nil {
		return 0
	}
	return id
}

var c13StackBufs = sync.Pool{New: func() interface{} { b := make([]byte, 16384); return &b }}

// c13CreatorID: id of the goroutine that created the calling goroutine, from
// the trailer of its own traceback ("created by ... in goroutine N"); 0 if it
// cannot be read (the monitor then falls back to matching by consumer id).
func c13CreatorID() int64 {
	bp := c13StackBufs.Get().(*[]byte)
	defer c13StackBufs.Put(bp)
	buf := *bp
	n := runtime.Stack(buf, false)
	if n > 400 {
		buf, n = buf[n-400:n], 400 // the trailer is what is needed
	}
	t := string(buf[:n])
	i := strings.LastIndex(t, "\ncreated by ")
	if i < 0 {
		return 0
	}
	line := t[i+1:]
	if j := strings.IndexByte(line, '\n'); j >= 0 {
		line = line[:j]
	}
	k := strings.LastIndex(line, " in goroutine ")
	if k < 0 {
		return 0
	}
	id, err := strconv.ParseInt(strings.TrimSpace(line[k+len(" in goroutine "):]), 10, 64)
	if err != nil {
		return 0
	}
	return id
}

// ---------------------------------------------------------------- rule (E)

// checkReplaced is rule (E).  Called with no Subscribe call in flight.
//
// For a subscription S of group g: S's entry is installed by its own Subscribe
// and taken away only (1) by removeGroupSubscriber run by S's own loop on its
// way out - after the hook sub.beforeRemoveGroup(g, S's consumer id) fired -
// or (2) by an accepted Subscribe of g, which Close()s the member it replaces
// before it returns.  Hence: entry(t0) != S and S.Closed() still open at a
// later instant  =>  a hook passage of (g, consumer id of S) fired after S's
// Subscribe was invoked - and after the last instant at which S was confirmed
// ACTIVE (loop in its body: no status handed over, not closed) - and before
// t0.  Several open subscriptions of one consumer id need as many passages
// (matched by time).
func (c *c13Case) checkReplaced() {
	if c.failed || c13SkipRuleE {
		return
	}
	c.mu.Lock()
	subs := append([]*c13Sub(nil), c.subs...)
	c.mu.Unlock()
	for g, group := range c.groups {
		byCid := map[string][]*c13Sub{}
		var named *c13Sub
		entry := "nil"
		n := 0
		for _, s := range subs {
			if s.call.G != g {
				continue
			}
			e := s.part.GetGroupConsumer(group) // read first ...
			if e != nil && e.sub == s.sub {
				named = s
				entry = fmt.Sprintf("sub#%d {consumer %s epoch %d}", s.Idx, e.consumerID, e.groupEpoch)
				continue
			}
			if !s.open() { // ... then Closed(): open now => open when the entry was read
				continue
			}
			byCid[s.call.Cid] = append(byCid[s.call.Cid], s)
			n++
		}
		if n == 0 {
			continue
		}
		// passages attributed exactly (creator goroutine of the exiting loop =
		// goroutine that made the Subscribe call), the rest by (group, consumer id)
		fired := map[int64]bool{}
		fires := map[string][]int64{}
		nattr := 0
		c.mu.Lock()
		gids := map[int64]bool{}
		for _, k := range c.calls {
			if k.gid != 0 {
				gids[k.gid] = true
			}
		}
		for _, p := range c.passes {
			if p.Group != group {
				continue
			}
			if p.Creator != 0 && gids[p.Creator] {
				fired[p.Creator] = true
				nattr++
			} else {
				fires[p.Cid] = append(fires[p.Cid], p.Fire)
			}
		}
		c.mu.Unlock()
		for cid, all := range byCid {
			var ss []*c13Sub
			for _, s := range all {
				if s.call.gid != 0 && fired[s.call.gid] {
					continue // its own loop reached its clean-up
				}
				ss = append(ss, s)
			}
			// S's own passage fired after its Subscribe was invoked and after the
			// last instant at which S was confirmed ACTIVE (loop still in its body)
			lb := func(s *c13Sub) int64 {
				if a := s.aliveAt.Load(); a > s.call.Inv {
					return a
				}
				return s.call.Inv
			}
			sort.Slice(ss, func(i, j int) bool { return lb(ss[i]) > lb(ss[j]) })
			f := fires[cid]
			sort.Slice(f, func(i, j int) bool { return f[i] > f[j] })
			for i, s := range ss {
				if i < len(f) && f[i] > lb(s) {
					c.n("rule_E_passages_attributed_by_consumer_id_only", 1)
					continue
				}
				c.reportNotCancelled(g, s, named, entry, len(ss), len(f))
				return
			}
		}
		c.rep.Max("rule_E_clean-up_passages_attributed_to_their_call_by_goroutine_identity(max per check)", int64(nattr))
		c.n("open_subscriptions_that_are_not_the_entry_explained_by_their_own_loop's_clean-up", int64(n))
	}
}

func (c *c13Case) reportNotCancelled(g int, s, named *c13Sub, entry string, nopen, nfires int) {
	c.mu.Lock()
	var by []string
	for _, k := range c.calls {
		if k.G == g && k != s.call && k.Result == c13Accepted && k.Ret > s.call.Ret {
			rel := "OLDER"
			if k.Epoch >= s.call.Epoch {
				rel = "equal/newer"
			}
			by = append(by, fmt.Sprintf("call#%d(consumer %s epoch %d: %s)", k.Idx, k.Cid, k.Epoch, rel))
		}
	}
	c.mu.Unlock()
	took := "its consumer (" + s.kind() + ") has recorded no status so far"
	if e, _ := s.endCode.Load().(string); e != "" {
		took = fmt.Sprintf("its consumer (%s) took the status %q from Errors() - a status is not a cancellation: Closed() stayed open", s.kind(), e)
	}
	what := fmt.Sprintf("sub#%d (group g%d consumer %s epoch %d, accepted by call#%d) is no longer the group's entry (GetGroupConsumer = %s) with no call in flight, yet its Closed() channel is still open and its subscribe loop never reached its clean-up "+
		"(no passage of ITS loop through the hook sub.beforeRemoveGroup - passages are attributed by the creator goroutine of the exiting loop; passages of this consumer id that could not be attributed: %d, open not-entry subscriptions of that id without a passage: %d): the accepted Subscribe that took its place returned WITHOUT cancelling it (accepted after it: %s); %s. "+
		"Expected: the replacing Subscribe Close()s the member it replaces before it returns",
		s.Idx, g, s.call.Cid, s.call.Epoch, s.call.Idx, entry, nfires, nopen, strings.Join(by, ", "), took)
	fp := "C13:two-active:replaced-member-not-cancelled"
	if named == nil || named.call.Ret < s.call.Ret {
		// not replaced by a later member: its entry is simply gone (or is an
		// earlier subscription) although nobody cancelled it and its loop is
		// still there
		fp = "C13:entry-lost:open-subscription-whose-loop-never-cleaned-up"
		what = fmt.Sprintf("sub#%d (group g%d consumer %s epoch %d, accepted by call#%d) is not the group's entry (GetGroupConsumer = %s) with no call in flight, yet its Closed() channel is open and its subscribe loop never reached its clean-up (no passage of its loop through the hook sub.beforeRemoveGroup): "+
			"the entry of a subscription is only taken away by its own loop's clean-up or by a later accepted Subscribe that cancels it first; %s", s.Idx, g, s.call.Cid, s.call.Epoch, s.call.Idx, entry, took)
	}
	extra := map[string]interface{}{"replaced_member_consumer_kind": s.kind(), "partition.subscriberCount": c.subscriberCount()}
	c13DemoMu.Lock()
	defer c13DemoMu.Unlock()
	if !c13Demoed[fp+s.kind()] {
		c13Demoed[fp+s.kind()] = true
		extra["consequence"] = c.demoReplaced(s, named)
	}
	c.violation(fp, what, extra)
}

// demoReplaced shows what the not-cancelled member does next: a fence is
// published and awaited on the holder and on the replaced member.
func (c *c13Case) demoReplaced(s, named *c13Sub) map[string]interface{} {
	out := map[string]interface{}{}
	if !s.receiving() {
		out["replaced_member"] = "its consumer has left (it ended its context on the status it was handed); the subscription was never closed by the server, its loop stays parked in its status send (goroutine, reader and subscriber count leak until somebody calls Close())"
		return out
	}
	if named == nil || !named.forever || !named.receiving() || s.ctxCancelAt.Load() != 0 || named.ctxCancelAt.Load() != 0 {
		out["note"] = "the group's holder is not receiving at the end of the log (or a context was cancelled by the client); delivery not demonstrated"
		return out
	}
	ctx, cancel := context.WithTimeout(context.Background(), c13Watchdog)
	defer cancel()
	resp, err := c.srv.api.Publish(ctx, &client.PublishRequest{Stream: c.st.name, Value: []byte("c13-fence"), AckPolicy: client.AckPolicy_ALL})
	if err != nil || resp.Ack == nil {
		out["fence"] = fmt.Sprintf("publish failed: %v", err)
		return out
	}
	off := resp.Ack.Offset
	// a demonstration, not a verdict: bounded by a few seconds
	got := false
	for dl := time.Now().Add(5 * time.Second); !got && time.Now().Before(dl); time.Sleep(200 * time.Microsecond) {
		got = s.lastOff.Load() >= off && named.lastOff.Load() >= off
	}
	out["fence_offset"] = off
	out["fence_received_by_replaced_member"] = s.lastOff.Load() >= off
	out["fence_received_by_the_group's_holder"] = named.lastOff.Load() >= off
	out["replaced_member_still_open"] = s.open()
	if got {
		out["conclusion"] = fmt.Sprintf("two members of group g%d consume the partition at the same time: offset %d was handed to the replaced sub#%d (consumer %s) and to its successor sub#%d (consumer %s)",
			s.call.G, off, s.Idx, s.call.Cid, named.Idx, named.call.Cid)
	}
	return out
}

// ---------------------------------------------------------------- rule (F)

func (c *c13Case) publishFence(tag string) (int64, bool) {
	ctx, cancel := context.WithTimeout(context.Background(), c13Watchdog)
	defer cancel()
	t := c.tick()
	resp, err := c.srv.api.Publish(ctx, &client.PublishRequest{Stream: c.st.name, Value: []byte("c13-fence-" + tag), AckPolicy: client.AckPolicy_ALL})
	if err != nil || resp == nil || resp.Ack == nil {
		c.n("fence_publish_failed(not judged)", 1)
		return 0, false
	}
	c.logf(t, "fence %s published at offset %d", tag, resp.Ack.Offset)
	return resp.Ack.Offset, true
}

// fenceCheck is rule (F).  Called with no harness action in flight.
func (c *c13Case) fenceCheck() {
	if c.lifecycle && (!c.apiWouldSubscribe(c.st.part()) || c.logEnds()) {
		return
	}
	c.mu.Lock()
	subs := append([]*c13Sub(nil), c.subs...)
	c.mu.Unlock()
	type grp struct {
		g      int
		named  *c13Sub
		others []*c13Sub
	}
	var gs []grp
	for g, group := range c.groups {
		e := c.st.part().GetGroupConsumer(group)
		if e == nil {
			c.n("fence_points_without_a_holder", 1)
			continue
		}
		var named *c13Sub
		var others []*c13Sub
		for _, s := range subs {
			if s.call.G != g {
				continue
			}
			if e.sub == s.sub {
				named = s
			} else {
				others = append(others, s)
			}
		}
		if named == nil || !named.forever || !named.receiving() {
			c.n("fence_points_whose_holder_is_not_receiving_at_the_log_end", 1)
			continue
		}
		if a, ok := named.confirmedActive(); !ok || !a {
			c.n("fence_points_whose_holder_is_not_receiving_at_the_log_end", 1)
			continue
		}
		gs = append(gs, grp{g, named, others})
	}
	if len(gs) == 0 {
		return
	}
	// a cancelled subscription whose consumer has not yet looked at Closed()
	// may still be handed one message (both select cases ready): wait until
	// those consumers have left (logical)
	for _, x := range gs {
		for _, s := range x.others {
			if s.open() {
				continue
			}
			s := s
			if !c.wait(func() bool {
				select {
				case <-s.done:
					return true
				default:
					return false
				}
			}) {
				c.inconc = true
				c.rep.Inconc(fmt.Sprintf("%s case %d: watchdog: the consumer of the closed sub#%d did not leave", c.unit, c.id, s.Idx))
				return
			}
		}
	}
	var offs [2]int64
	for i := 0; i < 2; i++ {
		off, ok := c.publishFence(fmt.Sprintf("%d", i+1))
		if !ok {
			return
		}
		offs[i] = off
		for _, x := range gs {
			x := x
			if !c.wait(func() bool { return x.named.lastOff.Load() >= off || !x.named.active() }) {
				c.inconc = true
				c.rep.Inconc(fmt.Sprintf("%s case %d: watchdog: fence at offset %d was not handed to the group's holder sub#%d (ACTIVE, receiving at the end of the log); program %s", c.unit, c.id, off, x.named.Idx, c13ProgString(c.prog)))
				return
			}
		}
	}
	for _, x := range gs {
		if x.named.lastOff.Load() < offs[1] {
			c.n("fence_points_whose_holder_ended_meanwhile(not judged)", 1)
			continue
		}
		c.fencesJudged++
		c.n("fences_judged(holder was handed both fences)", 1)
		if len(x.others) > 0 {
			c.fencedReplaced++
			c.n("fences_judged_next_to_replaced_or_ended_members", 1)
		}
		for _, s := range x.others {
			if s.lastOff.Load() < offs[0] {
				continue
			}
			if !s.open() {
				c.n("fence_handed_to_a_subscription_found_closed_afterwards(not judged)", 1)
				continue
			}
			c.violation("C13:two-active:fence-delivered-to-replaced-member",
				fmt.Sprintf("group g%d: the fence published at offset %d (no call in flight) was handed to the group's holder sub#%d (consumer %s epoch %d) AND to sub#%d (consumer %s epoch %d, consumer kind %s), which is not the group's entry and whose Closed() channel is still open: two members of the group consume the partition at the same time (a replaced member must have been cancelled before the replacing Subscribe returned)",
					x.g, offs[0], x.named.Idx, x.named.call.Cid, x.named.call.Epoch, s.Idx, s.call.Cid, s.call.Epoch, s.kind()),
				map[string]interface{}{"fence_offsets": offs, "replaced_member_last_offset": s.lastOff.Load()})
			return
		}
	}
}

// ---------------------------------------------------------------- unit replaced

type c13RCombo struct {
	OldKind, OldMode, Timing, Cid2 string
	E2                             uint64
	NewKind                        string
	Chain                          string // none | third-equal | third-older
	ViaAPI                         bool
}

func (k c13RCombo) String() string {
	return fmt.Sprintf("old=(%s,%s) replaced=%s new=(%s,e%d,%s) chain=%s api=%v", k.OldKind, k.OldMode, k.Timing, k.Cid2, k.E2, k.NewKind, k.Chain, k.ViaAPI)
}

// c13Consumer sets the consumer kind of a subscribe action.
func c13Consumer(a *c13Act, kind string) {
	switch kind {
	case "cancel": // status => cancel the context
	case "api": // status => Close() + cancel (api.Subscribe)
		a.CloseAfterEnd = true
	case "keep":
		a.Keep = true
	case "keep-linger":
		a.Keep, a.Linger = true, true
	case "noerr":
		a.NoErr = true
	case "gated": // not receiving at all
		a.Gate = true
	}
}

var c13ConsumerKinds = []string{"cancel", "api", "keep", "keep-linger", "noerr", "gated"}

func (k c13RCombo) program() []c13Round {
	first := c13Act{Kind: "sub", G: 0, Cid: "x", Epoch: c13BaseEpoch, Mode: k.OldMode}
	c13Consumer(&first, k.OldKind)
	cid2 := "x"
	if k.Cid2 == "other" {
		cid2 = "y"
	}
	second := c13Act{Kind: "sub", G: 0, Cid: cid2, Epoch: k.E2, Mode: "new"}
	c13Consumer(&second, k.NewKind)
	prog := []c13Round{
		{Acts: []c13Act{first}},
		// Timing "parked": the old member's consumer is back in its select when
		// the new member subscribes; "at-once": the new member subscribes right
		// after the old member's Subscribe returned
		{Acts: []c13Act{second}, Settle: k.Timing == "parked", Fence: true},
	}
	switch k.Chain {
	case "third-equal":
		e3 := k.E2
		if e3 < c13BaseEpoch {
			e3 = c13BaseEpoch
		}
		prog = append(prog, c13Round{Acts: []c13Act{{Kind: "sub", G: 0, Cid: "w", Epoch: e3, Mode: "new", Keep: true}}, Settle: true, Fence: true})
	case "third-older":
		prog = append(prog, c13Round{Acts: []c13Act{{Kind: "sub", G: 0, Cid: "w", Epoch: c13BaseEpoch - 2, Mode: "new", Keep: true}}, Settle: true, Fence: true})
	}
	prog[len(prog)-1].Quiesce = true
	return prog
}

func c13ReplacedCombos() (out []c13RCombo) {
	for _, ok := range c13ConsumerKinds {
		for _, om := range []string{"new", "recent"} {
			for _, timing := range []string{"parked", "at-once"} {
				for _, cid2 := range []string{"same", "other"} {
					for _, e2 := range []uint64{4, 5, 6} {
						for _, nk := range []string{"cancel", "keep", "noerr"} {
							for ci, chain := range []string{"none", "third-equal", "third-older"} {
								// the entry point alternates over the grid
								out = append(out, c13RCombo{ok, om, timing, cid2, e2, nk, chain, (len(out)+ci)%2 == 1})
							}
						}
					}
				}
			}
		}
	}
	return out
}

// c13GenReplacedProgram: a chain of 3..7 members of one or two groups; every
// member subscribes while the consumers of the others are parked in their
// selects (or at once), alone or CONCURRENTLY with another new member, a
// client cancellation or a Close(); consumer kinds are drawn per member; most
// rounds are fenced.
func c13GenReplacedProgram(rng *kit.RNG) (prog []c13Round, ngroups int) {
	ngroups = 1
	if rng.Chance(1, 4) {
		ngroups = 2
	}
	maxE := []uint64{c13BaseEpoch, c13BaseEpoch}
	ncid := 0
	sub := func(g int) c13Act {
		a := c13Act{Kind: "sub", G: g, Pre: rng.Intn(3), Pick: rng.Uint64(), Mode: "new"}
		if rng.Chance(1, 4) {
			a.Mode = "recent" // over a backlog (the fences of earlier cases); EARLIEST would re-read the whole, growing log
		}
		if rng.Chance(1, 40) {
			a.Mode = "earliest"
		}
		if rng.Chance(1, 10) {
			a.Mode = "stopLatest"
		}
		if rng.Chance(1, 3) {
			a.Cid = []string{"x", "y"}[rng.Intn(2)]
		} else {
			ncid++
			a.Cid = fmt.Sprintf("u%d", ncid)
		}
		switch e := rng.Intn(100); {
		case e < 50:
			a.Epoch = maxE[g]
		case e < 75:
			maxE[g]++
			a.Epoch = maxE[g]
		default:
			a.Epoch = maxE[g] - uint64(rng.Range(1, 2))
		}
		c13Consumer(&a, c13ConsumerKinds[rng.Intn(len(c13ConsumerKinds))])
		return a
	}
	n := rng.Range(3, 7)
	for r := 0; r < n; r++ {
		g := rng.Intn(ngroups)
		rd := c13Round{Acts: []c13Act{sub(g)}, Settle: rng.Chance(3, 4), Fence: rng.Chance(3, 4)}
		switch x := rng.Intn(100); {
		case x < 25: // two new members at the same time
			rd.Acts = append(rd.Acts, sub(g))
		case x < 35:
			rd.Acts = append(rd.Acts, c13Act{Kind: "cancel", G: g, Target: "latest", Pick: rng.Uint64(), Pre: rng.Intn(3)})
		case x < 45:
			rd.Acts = append(rd.Acts, c13Act{Kind: "close", G: g, Target: "random", Pick: rng.Uint64(), Pre: rng.Intn(3)})
		case x < 52:
			rd.Acts = append(rd.Acts, c13Act{Kind: "undrain", G: g, Target: "random", Pick: rng.Uint64()})
		}
		rd.Quiesce = rng.Chance(1, 5) || r == n-1
		prog = append(prog, rd)
	}
	return prog, ngroups
}

// TestVerifC13Replaced: the replaced member under every kind of consumer.
func TestVerifC13Replaced(t *testing.T) {
	rep := kit.NewReport("C13", "replaced")
	defer rep.Write()
	defer c13UnitWatchdog(rep, "replaced")()
	rep.SetRule("Part 1, enumeration, one step at a time: member x (epoch 5; NEW_ONLY at the log end or from an offset <= 24 messages back, i.e. over a backlog) is consumed by one of six consumer kinds - one select over Messages()/Errors()/Closed() that on a status cancels its context | Close()s like api.Subscribe | records it and keeps listening (with and without cancelling its context on Closed()); a consumer that does not listen on Errors(); a consumer that is not receiving at all - " +
		"and is replaced while that consumer is PARKED in its select (probe round trip first) or AT ONCE after its own Subscribe returned; the new member has the same / another consumer id, epoch 4 (older: must be refused, x stays), 5, 6 and one of three consumer kinds; optionally a third member with an equal epoch (replaces again) or an older one (refused); entry point partition.Subscribe and apiServer.SubscribeInternal alternate over the grid. " +
		"Part 2, seeded: chains of 3..7 members on 1..2 groups, each round one new member alone or concurrently with a second new member / a context cancellation / a Close() / an un-gating, consumer kinds per member, epochs equal / newer / older, most rounds settled and fenced. " +
		"Judged by the monitor's rules (A)-(D) plus (E) replaced member not cancelled - with no call in flight a subscription that is not the group entry of its partition object and whose Closed() is open needs a passage of ITS loop through the clean-up hook (a state predicate, evaluated the moment the round's calls have returned; a status handed to its consumer does not count as a cancellation) - and (F) fence: two messages are published and awaited on the holder (the entry); no other subscription of the group whose Closed() is still open may have been handed the first one. " +
		"non-trivial = a fence was judged on a group that has at least one replaced / ended member besides the holder; distinct = per-call (round, group, consumer class, epoch relation, mode, consumer kind, result) string")
	rep.Assume("partition.Subscribe cancels the member it replaces synchronously (previousSubscriber.sub.Close() before it returns, under consumersMu) - read off the unchanged code and confirmed by every replacement observed; (E) therefore needs no waiting. 'The replaced member is not handed the fence' is never concluded from elapsed time: (F) only reports a positive observation (fence handed to an open non-entry subscription)")
	workers := kit.Workers()
	env := c13Start(rep, "c13r", workers)
	if env == nil {
		return
	}
	defer env.stop()

	combos := c13ReplacedCombos()
	base := kit.Mix(kit.Seed(), 0xC13E)
	rep.SetInfo("grid_of_enumerated_replacements", len(combos))
	if !kit.Thorough() {
		// quick tier: a seeded third of the grid (another third at another seed);
		// thorough: the whole grid
		var sel []c13RCombo
		for i, k := range combos {
			if kit.Mix(base, uint64(i))%3 == 0 {
				sel = append(sel, k)
			}
		}
		combos = sel
	}
	rep.SetInfo("enumerated_replacements_run", len(combos))
	kit.Parallel(len(combos), workers, func(i int) {
		if rep.NumViolations() >= 6 {
			return
		}
		k := combos[i]
		st := <-env.pool
		c := c13NewCase(rep, "replaced", i, kit.Mix(base, uint64(i)), env.srv, st, 1, "pass", k.program())
		c.viaAPI = k.ViaAPI
		c.ntReplaced = true
		c.label = k.String()
		c.run()
		if i%211 == 0 {
			rep.Sample(map[string]interface{}{"combination": k.String(), "program": c13ProgString(c.prog), "outcome": c.signature()})
		}
		env.pool <- st
	})

	n := kit.Scale(900, 20000)
	root := kit.NewRNG(kit.Mix(kit.Seed(), 0xC13E2))
	seeds := make([]uint64, n)
	for i := range seeds {
		seeds[i] = root.Uint64()
	}
	kit.Parallel(n, workers, func(i int) {
		if rep.NumViolations() >= 6 {
			return
		}
		rng := kit.NewRNG(seeds[i])
		prog, ng := c13GenReplacedProgram(rng)
		st := <-env.pool
		policy := []string{"pass", "random", "random"}[i%3]
		c := c13NewCase(rep, "replaced", 1000000+i, seeds[i], env.srv, st, ng, policy, prog)
		c.viaAPI = i%2 == 1
		c.ntReplaced = true
		c.label = "seeded chain"
		c.run()
		if i < 2 {
			rep.Sample(map[string]interface{}{"case": i, "program": c13ProgString(prog), "outcome": c.signature()})
		}
		env.pool <- st
	})
}
