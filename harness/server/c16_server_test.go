//go:build verif

package server

// C16 — a conditional publish lands only at the offset it expected.
//
// A real single-node server (private NATS, Raft) hosts streams with optimistic
// concurrency control.  For every history N concurrent publishers drive the
// partition through three client boundaries — apiServer.Publish, a
// PublishAsync session (in-process gRPC stream), and raw envelopes over a
// harness NATS connection with their own ack inbox — with expected offsets
// equal / stale / future / 0 / -1.  Every publisher tracks the last offset it
// saw (own acks, a shared hint, or the partition's newest offset as a client
// would get it from FetchPartitionMetadata) so that "equal" guesses are
// frequently right and race with the other publishers.  Call and return of
// every publish are stamped from one monotonic clock.
//
// Oracles:
//   * final log scan (c16CheckLog): offsets consecutive, every positive ack
//     is stored exactly at its acked offset (= e when e != -1) with its tag,
//     every rejected tag is absent, no tag is stored twice, nothing is stored
//     at an offset other than the one it expected, at most one winner per
//     expected offset, every answered -1 publish succeeded, ack policy NONE
//     is refused up front by the API for such streams;
//   * the acks the partition sends (hook ack.send) never contradict each
//     other for one message;
//   * linearizability of the client-boundary history against the sequential
//     model "state = next offset" with porcupine (c16_porc_test.go).
//
// Publishes without an answer (fire-and-forget, expired deadline, raw
// envelope with policy NONE) stay open until the end of the history; their
// fate is read from the final log.

import (
	"context"
	"fmt"
	"io"
	"os"
	"sort"
	"strings"
	"sync"
	"sync/atomic"
	"testing"
	"time"

	client "github.com/liftbridge-io/liftbridge-api/v2/go"
	"github.com/nats-io/nats.go"
	"google.golang.org/grpc/metadata"
	"google.golang.org/grpc/status"

	kit "github.com/liftbridge-io/liftbridge/internal/verifkit"
	proto "github.com/liftbridge-io/liftbridge/server/protocol"
)

// c16Linearize is provided by c16_porc_test.go (build tag verifporc).  It
// returns "ok", "illegal" or "unknown" plus a short description.
var c16Linearize func(ops []*c16Op, timeout time.Duration) (string, string)

const (
	c16OutOK       = "ok"
	c16OutRejected = "rejected" // INCORRECT_OFFSET
	c16OutOpen     = "open"     // no answer observed
	c16OutRefused  = "refused"  // refused by the API before anything was sent (ack policy NONE)
)

type c16Op struct {
	ID     int    `json:"id"`
	Pub    int    `json:"pub"`
	Phase  string `json:"phase"` // seq | conc | fence
	Tag    string `json:"tag"`
	Via    string `json:"via"` // api | api-short | api-nowait | api-none | async | async-none | raw | raw-none
	Policy string `json:"policy"`
	Class  string `json:"class"` // equal | stale | future | zero | any
	E      int64  `json:"e"`
	Call   int64  `json:"call"`
	Ret    int64  `json:"ret"`
	Out    string `json:"out"`
	Off    int64  `json:"off"`
	Err    string `json:"err,omitempty"`
	// Fate of an open operation as read from the final log: "stored" / "absent".
	Fate string `json:"fate,omitempty"`
	// Waited: the publisher waited the full 20 s for an answer and got none.
	Waited bool `json:"waited,omitempty"`
	// Route (cluster histories only): which broker's API the publish went
	// through - leader / follower / nonreplica of the partition, or "nats" for
	// a raw envelope.
	Route string `json:"route,omitempty"`
	// Corr (histories with publisher-chosen correlation ids only, HasCorr set):
	// the correlation id the publish carried.  It is NOT unique there - shared
	// between publishers or empty - while Tag (= the message value) still is.
	Corr    string `json:"corr,omitempty"`
	HasCorr bool   `json:"has_corr,omitempty"`
}

func (o *c16Op) String() string {
	via := o.Via
	if o.Route != "" {
		via += "@" + o.Route
	}
	s := fmt.Sprintf("#%d p%d %s %s %s/%s e=%d [%d,%d] -> %s", o.ID, o.Pub, o.Phase, via, o.Policy, o.Class, o.E, o.Call, o.Ret, o.Out)
	if o.HasCorr {
		s = fmt.Sprintf("#%d p%d %s %s %s/%s e=%d cid=%q [%d,%d] -> %s", o.ID, o.Pub, o.Phase, via, o.Policy, o.Class, o.E, o.Corr, o.Call, o.Ret, o.Out)
	}
	if o.Out == c16OutOK || o.Fate == "stored" {
		s += fmt.Sprintf("@%d", o.Off)
	}
	if o.Fate != "" {
		s += " (" + o.Fate + ")"
	}
	if o.Err != "" {
		s += " err=" + o.Err
	}
	return s
}

type c16Sent struct {
	Err string
	Off int64
}

type c16Profile struct {
	Name                            string
	Equal, Stale, Future, Zero, Any int
}

var c16Profiles = []c16Profile{
	{"contend", 70, 8, 8, 4, 10},
	{"mixed", 40, 15, 15, 5, 25},
	{"hostile", 20, 30, 30, 10, 10},
	{"anyheavy", 25, 5, 5, 5, 60},
}

type c16Hist struct {
	rep     *kit.Report
	c       *vfCluster
	srv     *Server
	part    *partition
	stream  string
	cfgDesc string
	seed    uint64
	mode    string // LEADER | ALL | MIXED
	n       int
	total   int
	seqLen  int
	profile c16Profile
	base    time.Time

	mu   sync.Mutex
	ops  []*c16Op
	hint atomic.Int64

	amu  sync.Mutex
	sent map[string][]c16Sent // correlation id -> acks the partition sent (hook ack.send)

	// corrOf (c16_slowacks_test.go, unit sharedcorr): when set, the correlation
	// id of a publish is chosen by this function (shared between publishers,
	// content-derived, empty) instead of being the unique tag.  Answers are then
	// attributed by ack inbox: every Publish call and every raw envelope gets an
	// inbox of its own (opInbox: inbox -> tag, under amu), a PublishAsync session
	// carries one publish at a time.
	corrOf  func(op *c16Op) string
	opInbox map[string]string

	// cluster histories (c16_cluster_test.go): the broker whose API a publisher
	// talks to and the role of that broker for the partition.  Written before
	// the publishers start.
	pubSrv   map[int]*Server
	pubRoute map[int]string

	failed  atomic.Bool
	inconc  atomic.Bool
	aborted atomic.Bool
	// porcOnly (env C16_PORC_ONLY=1, sensitivity runs only) switches the
	// direct oracles off so that the porcupine check is exercised on its own.
	porcOnly bool
}

func (h *c16Hist) now() int64 { return int64(time.Since(h.base)) }

// srvFor returns the broker publisher pub talks to.
func (h *c16Hist) srvFor(pub int) *Server {
	if s := h.pubSrv[pub]; s != nil {
		return s
	}
	return h.srv
}

func (h *c16Hist) newOp(pub int, phase, via, class string, policy client.AckPolicy, e int64) *c16Op {
	h.mu.Lock()
	defer h.mu.Unlock()
	op := &c16Op{ID: len(h.ops), Pub: pub, Phase: phase, Via: via, Class: class, Policy: policy.String(), E: e, Off: -1, Route: h.pubRoute[pub]}
	op.Tag = fmt.Sprintf("%s-%04d", h.stream, op.ID)
	if h.corrOf != nil {
		op.Corr, op.HasCorr = h.corrOf(op), true
	}
	h.ops = append(h.ops, op)
	return op
}

// corr is the correlation id a publish carries: the unique tag, unless the
// history chooses correlation ids itself.
func (h *c16Hist) corr(op *c16Op) string {
	if op.HasCorr {
		return op.Corr
	}
	return op.Tag
}

// ownInbox gives a publish of a history with shared correlation ids an ack
// inbox of its own and remembers whose it is.
func (h *c16Hist) ownInbox(op *c16Op) string {
	inbox := nats.NewInbox()
	h.amu.Lock()
	if h.opInbox == nil {
		h.opInbox = map[string]string{}
	}
	h.opInbox[inbox] = op.Tag
	h.amu.Unlock()
	return inbox
}

func (h *c16Hist) witness(extra map[string]any) map[string]any {
	h.mu.Lock()
	defer h.mu.Unlock()
	lines := make([]string, 0, len(h.ops))
	for _, o := range h.ops {
		lines = append(lines, o.String())
	}
	w := map[string]any{"history_seed": h.seed, "stream": h.stream, "server_config": h.cfgDesc, "ack_mode": h.mode,
		"publishers": h.n, "profile": h.profile.Name, "sequential_prefix": h.seqLen, "history": lines}
	for k, v := range extra {
		w[k] = v
	}
	return w
}

func (h *c16Hist) fail(fp, what string, extra map[string]any) {
	h.failed.Store(true)
	h.rep.Violation(fp, what, h.witness(extra))
}

func (h *c16Hist) inconclusive(what string) {
	h.inconc.Store(true)
	h.rep.Inconc(fmt.Sprintf("[%s %s seed %d] %s", h.stream, h.cfgDesc, h.seed, what))
}

// ---------------------------------------------------------------- ack hook

var c16HookHists sync.Map // stream name -> *c16Hist

func c16InstallHook() func() {
	return vfHooks.On("ack.send", func(a ...interface{}) error {
		if len(a) < 4 {
			return nil
		}
		stream, _ := a[1].(string)
		v, ok := c16HookHists.Load(stream)
		if !ok {
			return nil
		}
		ack, _ := a[3].(*client.Ack)
		if ack == nil {
			return nil
		}
		h := v.(*c16Hist)
		h.amu.Lock()
		key, ok := ack.CorrelationId, true
		if h.corrOf != nil {
			// correlation ids are not unique in this history: the ack inbox is
			// (acks to a PublishAsync session's inbox are not attributed)
			key, ok = h.opInbox[ack.AckInbox]
		}
		if ok {
			h.sent[key] = append(h.sent[key], c16Sent{Err: ack.AckError.String(), Off: ack.Offset})
		}
		h.amu.Unlock()
		return nil
	})
}

// ---------------------------------------------------------------- client boundaries

const c16IncorrectMsg = "incorrect expected offset"

// c16Unanswered counts publishes that waited the full 20 s for an answer and
// got none.  That does not happen on a healthy server; when it does the
// remaining workload is cut short (inconclusive) instead of waiting 20 s per
// operation until the unit's time limit.
var c16Unanswered atomic.Int64

const c16MaxUnanswered = 6

// viaAPI publishes through apiServer.Publish.  kind: "" (deadline 20 s),
// "short" (deadline of a few hundred microseconds: the answer may or may not
// make it), "nowait" (no deadline: fire and forget), "none" (ack policy NONE:
// must be refused).
func (h *c16Hist) viaAPI(op *c16Op, policy client.AckPolicy, kind string, short time.Duration) {
	h.viaAPIOn(h.srvFor(op.Pub), op, policy, kind, short)
}

func (h *c16Hist) viaAPIOn(srv *Server, op *c16Op, policy client.AckPolicy, kind string, short time.Duration) {
	ctx := context.Background()
	cancel := func() {}
	switch kind {
	case "short":
		ctx, cancel = context.WithTimeout(ctx, short)
	case "nowait":
	default:
		ctx, cancel = context.WithTimeout(ctx, 20*time.Second)
	}
	defer cancel()
	req := &client.PublishRequest{Stream: h.stream, Value: []byte(op.Tag), Key: []byte("k"), AckPolicy: policy,
		CorrelationId: h.corr(op), ExpectedOffset: op.E}
	if op.HasCorr {
		req.AckInbox = h.ownInbox(op)
	}
	op.Call = h.now()
	resp, err := srv.api.Publish(ctx, req)
	op.Ret = h.now()
	if err != nil {
		msg := err.Error()
		if st, ok := status.FromError(err); ok {
			msg = st.Message()
		}
		op.Err = msg
		switch {
		case msg == c16IncorrectMsg:
			op.Out = c16OutRejected
		case policy == client.AckPolicy_NONE && strings.Contains(msg, "must have AckPolicy set"):
			op.Out = c16OutRefused
		default:
			op.Out = c16OutOpen
			if kind == "" && strings.Contains(strings.ToLower(msg), "deadline") {
				op.Waited = true
				c16Unanswered.Add(1)
			}
		}
		return
	}
	if resp == nil || resp.Ack == nil {
		op.Out = c16OutOpen // fire and forget
		return
	}
	op.Out = c16OutOK
	op.Off = resp.Ack.Offset
}

// c16Async is an in-process PublishAsync stream (the RPC every client library
// uses for publishing).
type c16Async struct {
	ctx    context.Context
	cancel context.CancelFunc
	reqs   chan *client.PublishRequest
	mu     sync.Mutex
	wait   map[string]chan *client.PublishResponse
	done   chan error
}

func (s *c16Async) Recv() (*client.PublishRequest, error) {
	select {
	case r, ok := <-s.reqs:
		if !ok {
			return nil, io.EOF
		}
		return r, nil
	case <-s.ctx.Done():
		return nil, io.EOF
	}
}

func (s *c16Async) Send(r *client.PublishResponse) error {
	s.mu.Lock()
	ch := s.wait[r.CorrelationId]
	s.mu.Unlock()
	if ch != nil {
		select {
		case ch <- r:
		default:
		}
	}
	return nil
}
func (s *c16Async) SetHeader(metadata.MD) error  { return nil }
func (s *c16Async) SendHeader(metadata.MD) error { return nil }
func (s *c16Async) SetTrailer(metadata.MD)       {}
func (s *c16Async) Context() context.Context     { return s.ctx }
func (s *c16Async) SendMsg(m any) error          { return nil }
func (s *c16Async) RecvMsg(m any) error          { return io.EOF }

func (h *c16Hist) newAsync() *c16Async { return h.newAsyncOn(h.srv) }

func (h *c16Hist) newAsyncOn(srv *Server) *c16Async {
	ctx, cancel := context.WithCancel(context.Background())
	s := &c16Async{ctx: ctx, cancel: cancel, reqs: make(chan *client.PublishRequest), wait: map[string]chan *client.PublishResponse{}, done: make(chan error, 1)}
	go func() { s.done <- srv.api.PublishAsync(s) }()
	return s
}

func (s *c16Async) close() {
	close(s.reqs)
	select {
	case <-s.done:
	case <-time.After(10 * time.Second):
	}
	s.cancel()
}

func (h *c16Hist) viaAsync(s *c16Async, op *c16Op, policy client.AckPolicy) {
	ch := make(chan *client.PublishResponse, 4)
	s.mu.Lock()
	s.wait[h.corr(op)] = ch // shared correlation ids: one publish at a time per session
	s.mu.Unlock()
	req := &client.PublishRequest{Stream: h.stream, Value: []byte(op.Tag), Key: []byte("k"), AckPolicy: policy,
		CorrelationId: h.corr(op), ExpectedOffset: op.E}
	timer := time.NewTimer(20 * time.Second)
	defer timer.Stop()
	op.Call = h.now()
	select {
	case s.reqs <- req:
	case <-timer.C:
		op.Ret = h.now()
		op.Out, op.Err = c16OutOpen, "session did not take the request"
		c16Unanswered.Add(1)
		return
	}
	select {
	case r := <-ch:
		op.Ret = h.now()
		if r.AsyncError != nil {
			op.Err = r.AsyncError.Code.String() + ": " + r.AsyncError.Message
			switch {
			case r.AsyncError.Code == client.PublishAsyncError_INCORRECT_OFFSET:
				op.Out = c16OutRejected
			case policy == client.AckPolicy_NONE && r.AsyncError.Code == client.PublishAsyncError_BAD_REQUEST &&
				strings.Contains(r.AsyncError.Message, "must have AckPolicy set"):
				op.Out = c16OutRefused
			default:
				op.Out = c16OutOpen
			}
			return
		}
		if r.Ack == nil {
			op.Out, op.Err = c16OutOpen, "response without ack"
			return
		}
		op.Out, op.Off = c16OutOK, r.Ack.Offset
	case <-timer.C:
		op.Ret = h.now()
		op.Out, op.Err = c16OutOpen, "no response on the PublishAsync stream"
		op.Waited = true
		c16Unanswered.Add(1)
	}
}

// c16Raw publishes envelopes over a harness NATS connection with its own ack
// inbox.
type c16Raw struct {
	nc    *nats.Conn
	inbox string
	sub   *nats.Subscription
	late  map[string]*client.Ack // acks that arrived while waiting for another one
}

func c16NewRaw(nc *nats.Conn) (*c16Raw, error) {
	r := &c16Raw{nc: nc, inbox: nats.NewInbox(), late: map[string]*client.Ack{}}
	sub, err := nc.SubscribeSync(r.inbox)
	if err != nil {
		return nil, err
	}
	sub.SetPendingLimits(-1, -1)
	r.sub = sub
	return r, nil
}

func (h *c16Hist) viaRaw(r *c16Raw, op *c16Op, policy client.AckPolicy, wait bool) {
	if op.HasCorr {
		// the correlation id does not identify the publish: an inbox of its own
		own := &c16Raw{nc: r.nc, inbox: h.ownInbox(op), late: map[string]*client.Ack{}}
		sub, err := r.nc.SubscribeSync(own.inbox)
		if err != nil {
			op.Call = h.now()
			op.Ret, op.Out, op.Err = op.Call, c16OutOpen, "ack inbox: "+err.Error()
			return
		}
		defer sub.Unsubscribe()
		// the subscription must be known to the NATS server before the publish
		// can be answered
		r.nc.Flush()
		own.sub, r = sub, own
	}
	data, err := proto.MarshalPublish(&client.Message{Value: []byte(op.Tag), Key: []byte("k"), Stream: h.stream, Subject: h.stream,
		AckInbox: r.inbox, CorrelationId: h.corr(op), AckPolicy: policy, Offset: op.E})
	if err != nil {
		panic(err)
	}
	op.Call = h.now()
	if err := r.nc.Publish(h.stream, data); err != nil {
		op.Ret = h.now()
		op.Out, op.Err = c16OutOpen, err.Error()
		return
	}
	if !wait {
		op.Ret = h.now()
		op.Out = c16OutOpen
		return
	}
	deadline := time.Now().Add(20 * time.Second)
	for {
		m, err := r.sub.NextMsg(time.Until(deadline))
		if err != nil {
			op.Ret = h.now()
			op.Out, op.Err = c16OutOpen, "no ack: "+err.Error()
			op.Waited = true
			c16Unanswered.Add(1)
			return
		}
		ack, err := proto.UnmarshalAck(m.Data)
		if err != nil {
			continue
		}
		if ack.CorrelationId != h.corr(op) {
			r.late[ack.CorrelationId] = ack
			continue
		}
		op.Ret = h.now()
		if ack.AckError == client.Ack_OK {
			op.Out, op.Off = c16OutOK, ack.Offset
		} else if ack.AckError == client.Ack_INCORRECT_OFFSET {
			op.Out, op.Err = c16OutRejected, ack.AckError.String()
		} else {
			op.Out, op.Err = c16OutOpen, "ack error "+ack.AckError.String()
		}
		return
	}
}

// ---------------------------------------------------------------- publishers

func (h *c16Hist) policyFor(rng *kit.RNG) client.AckPolicy {
	switch h.mode {
	case "LEADER":
		return client.AckPolicy_LEADER
	case "ALL":
		return client.AckPolicy_ALL
	}
	if rng.Bool() {
		return client.AckPolicy_ALL
	}
	return client.AckPolicy_LEADER
}

func (h *c16Hist) pickClass(rng *kit.RNG) string {
	p := h.profile
	x := rng.Intn(p.Equal + p.Stale + p.Future + p.Zero + p.Any)
	switch {
	case x < p.Equal:
		return "equal"
	case x < p.Equal+p.Stale:
		if rng.Chance(1, 4) {
			return "negative" // below -1: not "no expectation", can never be right
		}
		return "stale"
	case x < p.Equal+p.Stale+p.Future:
		return "future"
	case x < p.Equal+p.Stale+p.Future+p.Zero:
		return "zero"
	}
	return "any"
}

func c16Expected(rng *kit.RNG, class string, believed int64) int64 {
	switch class {
	case "equal":
		return believed
	case "stale":
		v := believed - int64(rng.Range(1, 3))
		if v < 0 {
			v = 0
		}
		return v
	case "future":
		return believed + int64(rng.Range(1, 3))
	case "zero":
		return 0
	case "negative":
		return []int64{-2, -3, -1000, -1 << 31, -1 << 63}[rng.Intn(5)]
	case "repeat":
		// the offset the newest message took (what a second writer of the same
		// update names)
		if believed > 0 {
			return believed - 1
		}
		return 0
	}
	return -1
}

func (h *c16Hist) learn(op *c16Op, mine *int64, rng *kit.RNG) {
	switch op.Out {
	case c16OutOK:
		*mine = op.Off + 1
		for {
			cur := h.hint.Load()
			if op.Off+1 <= cur || h.hint.CompareAndSwap(cur, op.Off+1) {
				break
			}
		}
	case c16OutRejected:
		// what a client does after a conflict: ask for the newest offset
		// (FetchPartitionMetadata) or take what somebody else saw
		if rng.Chance(3, 5) {
			*mine = h.part.log.NewestOffset() + 1
		} else {
			*mine = h.hint.Load()
		}
	}
}

// publisher runs one concurrent publisher's program.
func (h *c16Hist) publisher(pub int, kind string, nops int, rng *kit.RNG, raw *c16Raw) {
	var mine int64 = h.hint.Load()
	var as *c16Async
	if kind == "async" {
		as = h.newAsyncOn(h.srvFor(pub))
		defer as.close()
	}
	one := func(phase, class string, policy client.AckPolicy, special string) {
		believed := mine
		if class != "any" && phase == "conc" && rng.Chance(1, 3) {
			believed = h.hint.Load()
		}
		e := c16Expected(rng, class, believed)
		switch kind {
		case "api":
			via := "api"
			if special != "" {
				via = "api-" + special
			}
			if special == "none" {
				policy = client.AckPolicy_NONE
			}
			op := h.newOp(pub, phase, via, class, policy, e)
			h.viaAPI(op, policy, special, time.Duration(rng.Range(30, 600))*time.Microsecond)
			h.learn(op, &mine, rng)
		case "async":
			via := "async"
			if special == "none" {
				via, policy = "async-none", client.AckPolicy_NONE
			}
			op := h.newOp(pub, phase, via, class, policy, e)
			h.viaAsync(as, op, policy)
			h.learn(op, &mine, rng)
		case "raw":
			via, wait := "raw", true
			if special == "none" {
				via, policy, wait = "raw-none", client.AckPolicy_NONE, false
			}
			op := h.newOp(pub, phase, via, class, policy, e)
			h.viaRaw(raw, op, policy, wait)
			h.learn(op, &mine, rng)
		}
	}
	for i := 0; i < nops; i++ {
		if c16Unanswered.Load() >= c16MaxUnanswered {
			h.aborted.Store(true)
			return
		}
		special := ""
		switch x := rng.Intn(100); {
		case x < 5:
			special = "none"
		case x < 10 && kind == "api":
			special = "short"
		case x < 14 && kind == "api":
			special = "nowait"
		}
		if h.corrOf != nil && kind == "raw" {
			special = "" // a late nack could not be told from the next publish's
		}
		one("conc", h.pickClass(rng), h.policyFor(rng), special)
		if rng.Chance(1, 10) {
			time.Sleep(time.Duration(rng.Intn(300)) * time.Microsecond)
		}
	}
	// Fence: an unconditional publish on the same connection, answered.  When
	// its ack is here, everything this publisher sent earlier has been
	// processed by the partition and every earlier ack to its inbox arrived.
	op := h.newOp(pub, "fence", kind, "any", client.AckPolicy_LEADER, -1)
	switch kind {
	case "api":
		h.viaAPI(op, client.AckPolicy_LEADER, "", 0)
	case "async":
		h.viaAsync(as, op, client.AckPolicy_LEADER)
	case "raw":
		h.viaRaw(raw, op, client.AckPolicy_LEADER, true)
	}
	if op.Out != c16OutOK {
		h.inconclusive(fmt.Sprintf("publisher %d (%s): fence publish was not acknowledged: %s %s", pub, kind, op.Out, op.Err))
	}
}

// sequential runs the single-publisher prefix: with nobody else publishing
// the publisher knows the next offset exactly, so every verdict is determined.
func (h *c16Hist) sequential(rng *kit.RNG, raw *c16Raw) {
	var next int64
	as := h.newAsync()
	defer as.close()
	for i := 0; i < h.seqLen && !h.failed.Load(); i++ {
		class := []string{"equal", "equal", "stale", "future", "zero", "any", "negative"}[rng.Intn(7)]
		if h.corrOf != nil && rng.Chance(1, 3) {
			class = "repeat"
		}
		e := c16Expected(rng, class, next)
		policy := h.policyFor(rng)
		var op *c16Op
		switch rng.Intn(3) {
		case 0:
			op = h.newOp(0, "seq", "api", class, policy, e)
			h.viaAPI(op, policy, "", 0)
		case 1:
			op = h.newOp(0, "seq", "async", class, policy, e)
			h.viaAsync(as, op, policy)
		default:
			op = h.newOp(0, "seq", "raw", class, policy, e)
			h.viaRaw(raw, op, policy, true)
		}
		should := e == -1 || e == next
		switch {
		case h.porcOnly && op.Out != c16OutOpen:
		case op.Out == c16OutOpen:
			h.inconclusive(fmt.Sprintf("sequential publish %s got no answer: %s", op.Tag, op.Err))
			return
		case should && op.Out == c16OutRejected:
			fp := "C16:spurious-reject"
			if e == -1 {
				fp = "C16:unconditional-rejected"
			}
			h.fail(fp, fmt.Sprintf("a lone publisher published with expected offset %d while the next offset was %d and got INCORRECT_OFFSET (%s, %s)", e, next, op.Via, op.Policy), nil)
			return
		case !should && op.Out == c16OutOK:
			h.fail("C16:accepted-wrong-expected-offset", fmt.Sprintf("a lone publisher published with expected offset %d while the next offset was %d and was acknowledged at offset %d (%s, %s)", e, next, op.Off, op.Via, op.Policy), nil)
			return
		case op.Out == c16OutOK && op.Off != next:
			h.fail("C16:ack-offset-not-next", fmt.Sprintf("a lone publisher (expected offset %d) was acknowledged at offset %d, the next offset was %d", e, op.Off, next), nil)
			return
		}
		if op.Out == c16OutOK {
			next++
		}
	}
	h.hint.Store(next)
}

// ---------------------------------------------------------------- oracle

type c16Stats struct {
	ok, rejected, open, openStored, refused int
	openAnyAbsent                           int
	contested, contestedWon                 int
	futureWon, equalLost                    int
	classes                                 map[string]int
}

// checkLog is the final log scan.
func (h *c16Hist) checkLog(recs []vfLogRec, st *c16Stats) {
	byTag := map[string]*c16Op{}
	for _, o := range h.ops {
		byTag[o.Tag] = o
	}
	// offsets consecutive from 0
	for i, r := range recs {
		if r.Offset != int64(i) {
			h.fail("C16:log-offsets-not-consecutive", fmt.Sprintf("final log record #%d has offset %d", i, r.Offset), map[string]any{"log": c16LogDesc(recs)})
			return
		}
	}
	storedAt := map[string]int64{}
	for _, r := range recs {
		tag := string(r.Value)
		o := byTag[tag]
		if o == nil {
			h.fail("C16:foreign-record", fmt.Sprintf("final log holds %q at offset %d which no publisher of this history sent", tag, r.Offset), map[string]any{"log": c16LogDesc(recs)})
			return
		}
		if prev, dup := storedAt[tag]; dup {
			h.fail("C16:stored-twice", fmt.Sprintf("message %s (expected offset %d) is stored twice, at offsets %d and %d", o, o.E, prev, r.Offset), map[string]any{"log": c16LogDesc(recs)})
			return
		}
		storedAt[tag] = r.Offset
		if o.E != -1 && o.E != r.Offset {
			h.fail("C16:stored-at-other-offset", fmt.Sprintf("message %s was published with expected offset %d but is stored at offset %d", o, o.E, r.Offset), map[string]any{"log": c16LogDesc(recs)})
			return
		}
	}
	winners := map[int64][]*c16Op{}
	competitors := map[int64]int{}
	for _, o := range h.ops {
		off, stored := storedAt[o.Tag]
		if o.E != -1 && o.Out != c16OutRefused {
			competitors[o.E]++
		}
		switch o.Out {
		case c16OutOK:
			st.ok++
			if !stored {
				h.fail("C16:acked-not-stored", fmt.Sprintf("message %s was acknowledged at offset %d but is not in the log", o, o.Off), map[string]any{"log": c16LogDesc(recs)})
				return
			}
			if off != o.Off {
				h.fail("C16:acked-offset-mismatch", fmt.Sprintf("message %s was acknowledged at offset %d but is stored at offset %d", o, o.Off, off), map[string]any{"log": c16LogDesc(recs)})
				return
			}
			if o.E != -1 && o.Off != o.E {
				h.fail("C16:stored-at-other-offset", fmt.Sprintf("message %s with expected offset %d was acknowledged at offset %d", o, o.E, o.Off), nil)
				return
			}
			if o.E != -1 {
				winners[o.E] = append(winners[o.E], o)
				if o.Class == "future" {
					st.futureWon++
				}
			}
		case c16OutRejected:
			st.rejected++
			if o.E == -1 {
				h.fail("C16:unconditional-rejected", fmt.Sprintf("message %s waived the check (expected offset -1) and got INCORRECT_OFFSET", o), nil)
				return
			}
			if stored {
				h.fail("C16:rejected-but-stored", fmt.Sprintf("message %s got INCORRECT_OFFSET but is stored at offset %d", o, off), map[string]any{"log": c16LogDesc(recs)})
				return
			}
			if o.Class == "equal" {
				st.equalLost++
			}
		case c16OutRefused:
			st.refused++
			if stored {
				h.fail("C16:refused-but-stored", fmt.Sprintf("message %s was refused (ack policy NONE) but is stored at offset %d", o, off), nil)
				return
			}
		case c16OutOpen:
			st.open++
			if stored {
				st.openStored++
				o.Fate, o.Off = "stored", off
				if o.E != -1 {
					winners[o.E] = append(winners[o.E], o)
				}
			} else {
				o.Fate = "absent"
				if o.E == -1 && !strings.HasSuffix(o.Via, "-none") {
					st.openAnyAbsent++
				}
				if o.Waited && h.answeredLater(o) && h.acksSent(o.Tag) == 0 && !(o.HasCorr && strings.HasPrefix(o.Via, "async")) {
					// The same publisher's later publish on the same connection
					// was answered, so the partition had processed this one: it
					// neither stored it nor told the publisher.
					h.fail("C16:not-stored-and-no-answer", fmt.Sprintf("publish %s was processed by the partition (a later publish of the same publisher on the same connection was answered) but is not stored and no ack or INCORRECT_OFFSET error was ever sent for it", o), map[string]any{"log": c16LogDesc(recs)})
					return
				}
			}
			if strings.HasSuffix(o.Via, "-none") && o.Via != "raw-none" {
				// apiServer.Publish / PublishAsync accepted ack policy NONE on an OCC stream
				h.fail("C16:ack-policy-none-not-refused", fmt.Sprintf("publish %s with ack policy NONE on a stream with concurrency control was not refused by the API (answer: %q)", o, o.Err), nil)
				return
			}
		}
		st.classes[o.Class+"/"+o.Out]++
	}
	for e, ws := range winners {
		if len(ws) > 1 {
			h.fail("C16:two-winners", fmt.Sprintf("%d publishes with expected offset %d succeeded: %s and %s", len(ws), e, ws[0], ws[1]), map[string]any{"log": c16LogDesc(recs)})
			return
		}
	}
	for e, n := range competitors {
		if n >= 2 {
			st.contested++
			if len(winners[e]) == 1 {
				st.contestedWon++
			}
		}
	}
}

// answeredLater: did the same publisher get an answer for a later publish sent
// over the same connection (NATS delivers one connection's publishes on one
// subject in order)?
func (h *c16Hist) answeredLater(o *c16Op) bool {
	base := strings.SplitN(o.Via, "-", 2)[0]
	for _, x := range h.ops {
		if x.ID > o.ID && x.Pub == o.Pub && strings.SplitN(x.Via, "-", 2)[0] == base && (x.Out == c16OutOK || x.Out == c16OutRejected) && x.Call > o.Call {
			return true
		}
	}
	return false
}

func (h *c16Hist) acksSent(tag string) int {
	h.amu.Lock()
	defer h.amu.Unlock()
	return len(h.sent[tag])
}

func c16LogDesc(recs []vfLogRec) []string {
	out := make([]string, 0, len(recs))
	for _, r := range recs {
		out = append(out, fmt.Sprintf("%d:%s", r.Offset, r.Value))
	}
	return out
}

// checkAcks: the acks the partition sent for one message must not contradict
// each other (two different verdicts, or two different offsets).
func (h *c16Hist) checkAcks() int {
	h.amu.Lock()
	defer h.amu.Unlock()
	n := 0
	keys := make([]string, 0, len(h.sent))
	for k := range h.sent {
		keys = append(keys, k)
	}
	sort.Strings(keys)
	for _, k := range keys {
		ss := h.sent[k]
		n += len(ss)
		for _, s := range ss[1:] {
			if s != ss[0] {
				h.fail("C16:contradicting-acks", fmt.Sprintf("the partition sent contradicting acks for message %s: %v", k, ss), nil)
				return n
			}
		}
	}
	return n
}

// ---------------------------------------------------------------- one history

func c16RunHistory(rep *kit.Report, c *vfCluster, srv *Server, cfgDesc string, serverWide bool, mode string, idx int, seed uint64, pool []*nats.Conn) {
	c16RunHistoryWith(rep, c, srv, cfgDesc, serverWide, mode, idx, seed, pool, nil)
}

// c16RunHistoryWith: setup (may be nil) adjusts the history before anything is
// published (the sharedcorr unit chooses the correlation ids there).
func c16RunHistoryWith(rep *kit.Report, c *vfCluster, srv *Server, cfgDesc string, serverWide bool, mode string, idx int, seed uint64, pool []*nats.Conn, setup func(h *c16Hist)) {
	rng := kit.NewRNG(seed)
	h := &c16Hist{rep: rep, c: c, srv: srv, cfgDesc: cfgDesc, seed: seed, mode: mode, sent: map[string][]c16Sent{}, porcOnly: kit.EnvInt("C16_PORC_ONLY", 0) == 1}
	h.stream = fmt.Sprintf("c16h%d", idx)
	h.n = []int{2, 2, 3, 4, 6, 8, 12, 16}[rng.Intn(8)]
	h.total = rng.Range(100, 300)
	h.seqLen = []int{0, 4, 10, 25}[rng.Intn(4)]
	h.profile = c16Profiles[rng.Intn(len(c16Profiles))]
	req := &client.CreateStreamRequest{Subject: h.stream, Name: h.stream, ReplicationFactor: 1}
	if !serverWide || idx%4 != 0 {
		req.OptimisticConcurrencyControl = &client.NullableBool{Value: true}
	}
	switch rng.Intn(3) {
	case 0:
		req.SegmentMaxBytes = &client.NullableInt64{Value: 2048}
	case 1:
		req.SegmentMaxBytes = &client.NullableInt64{Value: 16384}
	}
	if err := c.CreateStream(req); err != nil {
		rep.Inconc(fmt.Sprintf("create stream %s: %v", h.stream, err))
		return
	}
	if _, err := c.PartitionLeader(h.stream, 0, 30*time.Second); err != nil {
		rep.Inconc(err.Error())
		return
	}
	h.part = c.Nodes["a"].Partition(h.stream, 0)
	if !h.part.log.IsConcurrencyControlEnabled() {
		// show the consequence at the client boundary: a conditional publish
		// that cannot be right is accepted
		h.base = time.Now()
		op := h.newOp(0, "seq", "api", "future", client.AckPolicy_LEADER, 5)
		h.viaAPI(op, client.AckPolicy_LEADER, "", 0)
		how, fp := "CreateStreamRequest.OptimisticConcurrencyControl=true", "C16:occ-not-enabled:request-flag"
		if req.OptimisticConcurrencyControl == nil {
			how, fp = "the server-wide setting streams.concurrency.control=true (no per-stream override)", "C16:occ-not-enabled:server-wide-setting"
		}
		rep.Eval()
		h.fail(fp, fmt.Sprintf("a stream created under %s has a partition log without concurrency control; a publish with expected offset 5 on the empty stream was answered: %s", how, op), nil)
		return
	}
	if setup != nil {
		setup(h)
	}
	c16HookHists.Store(h.stream, h)
	defer c16HookHists.Delete(h.stream)

	kinds := make([]string, h.n)
	for i := range kinds {
		kinds[i] = []string{"api", "raw", "async"}[(i+int(seed%3))%3]
	}
	raws := make([]*c16Raw, h.n+1)
	for i := range raws {
		r, err := c16NewRaw(pool[(i+idx)%len(pool)])
		if err != nil {
			rep.Inconc("ack inbox: " + err.Error())
			return
		}
		raws[i] = r
		defer r.sub.Unsubscribe()
	}
	h.base = time.Now()
	h.sequential(rng.Fork(1), raws[h.n])
	if h.failed.Load() || h.inconc.Load() {
		rep.Eval()
		return
	}
	per := h.total / h.n
	var wg sync.WaitGroup
	start := make(chan struct{})
	for i := 0; i < h.n; i++ {
		wg.Add(1)
		prng := rng.Fork(uint64(100 + i))
		go func(i int) {
			defer wg.Done()
			<-start
			h.publisher(i+1, kinds[i], per, prng, raws[i])
		}(i)
	}
	close(start)
	wg.Wait()
	h.conclude(raws, kinds, idx, "")
}

// conclude closes a history after its publishers have finished: open
// operations are decided, the final log of the partition (h.part: on a cluster
// the partition leader's) is scanned, the acks seen at the hook are compared
// and the client-boundary history is checked for linearizability.  label
// prefixes the counters of the cluster unit.
func (h *c16Hist) conclude(raws []*c16Raw, kinds []string, idx int, label string) {
	rep, cfgDesc, mode, srv := h.rep, h.cfgDesc, h.mode, h.srv
	end := h.now()
	rep.Eval()
	// A history that was cut short or whose fences were not answered is
	// inconclusive as a whole; the safety part of the log scan (everything
	// except the fate of unanswered publishes) is still sound and is run.
	if h.aborted.Load() {
		h.inconclusive(fmt.Sprintf("history cut short: %d publishes of this unit waited 20 s without any answer", c16Unanswered.Load()))
	}
	partial := h.inconc.Load()
	// Open operations stay open until the end of the history.  A raw NONE
	// publish carries an ack inbox: the partition answers a reject with a
	// nack (and a success with nothing), which arrived before the fence ack.
	for _, o := range h.ops {
		if o.Out != c16OutOpen {
			continue
		}
		o.Ret = end
		if o.Via == "raw-none" {
			if ack := raws[o.Pub-1].late[o.Tag]; ack != nil && ack.AckError == client.Ack_INCORRECT_OFFSET {
				o.Out, o.Err = c16OutRejected, "late nack"
			} else if ack != nil && ack.AckError == client.Ack_OK {
				o.Out, o.Off = c16OutOK, ack.Offset
			}
		}
	}
	recs, err := vfReadLog(h.part.log, 0, true)
	if err != nil {
		h.inconclusive("reading the final log: " + err.Error())
		return
	}
	st := &c16Stats{classes: map[string]int{}}
	nacks := 0
	if h.porcOnly {
		at := map[string]int64{}
		for _, r := range recs {
			at[string(r.Value)] = r.Offset
		}
		for _, o := range h.ops {
			if o.Out == c16OutOpen {
				if off, ok := at[o.Tag]; ok {
					o.Fate, o.Off = "stored", off
				} else {
					o.Fate = "absent"
				}
			}
		}
	} else {
		h.checkLog(recs, st)
		if !h.failed.Load() {
			nacks = h.checkAcks()
		}
	}
	lin := "skipped"
	if partial {
		rep.Count("histories_partial_(safety_checks_only)", 1)
		return
	}
	if !h.failed.Load() {
		if c16Linearize == nil {
			rep.Inconc("porcupine checker not built in (unit must be built with the verifporc tag)")
		} else {
			res, info := c16Linearize(h.ops, 30*time.Second)
			lin = res
			switch res {
			case "illegal":
				h.fail("C16:history-not-linearizable", "the client-boundary history has no linearization under the model \"publish(e) succeeds iff e = -1 or e = next offset, returns the old next offset; otherwise INCORRECT_OFFSET and no change\": "+info, map[string]any{"log": c16LogDesc(recs)})
			case "unknown":
				h.inconclusive("porcupine timed out on a history of " + fmt.Sprint(len(h.ops)) + " operations")
			}
		}
	}
	rep.Count("histories", 1)
	rep.Count("ops", int64(len(h.ops)))
	rep.Count("ok", int64(st.ok))
	rep.Count("rejected", int64(st.rejected))
	rep.Count("open", int64(st.open))
	rep.Count("open_found_stored", int64(st.openStored))
	rep.Count("none_policy_refused_by_api", int64(st.refused))
	rep.Count("unanswered_unconditional_publishes_absent_(not_judged)", int64(st.openAnyAbsent))
	rep.Count("expected_offsets_with_2+_competitors", int64(st.contested))
	rep.Count("contested_offsets_with_exactly_one_winner", int64(st.contestedWon))
	rep.Count("future_guesses_that_won", int64(st.futureWon))
	rep.Count("equal_guesses_that_lost_the_race", int64(st.equalLost))
	rep.Count("acks_seen_at_hook", int64(nacks))
	rep.Count("log_records_scanned", int64(len(recs)))
	rep.Count("linearizable_"+lin, 1)
	rep.Count(fmt.Sprintf("histories_with_%02d_publishers", h.n), 1)
	for k, v := range st.classes {
		rep.Count("class_"+k, int64(v))
	}
	segs := 0
	if ents, err := os.ReadDir(fmt.Sprintf("%s/streams/%s/0", srv.config.DataDir, h.stream)); err == nil {
		for _, e := range ents {
			if strings.HasSuffix(e.Name(), ".log") {
				segs++
			}
		}
	}
	rep.Count("log_segments", int64(segs))
	if h.porcOnly {
		rep.Nontrivial(fmt.Sprintf("porc-only|%s|%d", cfgDesc, idx))
	}
	if st.contestedWon > 0 && st.equalLost > 0 && st.classes["any/ok"] > 0 && st.classes["stale/rejected"]+st.classes["zero/rejected"] > 0 && st.classes["future/rejected"] > 0 {
		rep.Nontrivial(fmt.Sprintf(label+"%s|%s|n=%d|%s|ok=%d|rej=%d|open=%d|contested=%d|segs=%d", cfgDesc, mode, h.n, h.profile.Name, st.ok, st.rejected, st.open, st.contested, segs))
	}
	if idx%7 == 0 {
		rep.Sample(map[string]any{"server_config": cfgDesc, "ack_mode": mode, "publishers": h.n, "kinds": kinds, "profile": h.profile.Name, "sequential_prefix": h.seqLen,
			"ops": len(h.ops), "ok": st.ok, "rejected": st.rejected, "open": st.open, "contested_offsets": st.contested, "final_log_len": len(recs), "linearizable": lin})
	}
}

// TestVerifC16Server: C16_MODE selects the ack policies used (LEADER, ALL,
// MIXED).
func TestVerifC16Server(t *testing.T) {
	mode := os.Getenv("C16_MODE")
	if mode == "" {
		mode = "MIXED"
	}
	rep := kit.NewReport("C16", "server-"+strings.ToLower(mode))
	defer rep.Write()
	rep.SetRule("histories on a real single-node server: a fresh stream with optimistic concurrency control (per-stream request flag or server-wide setting), an optional sequential prefix (verdicts fully determined), then N in {2..16} concurrent publishers (apiServer.Publish, PublishAsync session, raw envelopes with own ack inbox; ack policy " + mode + ") with expected offsets equal/stale/future/0/-1/below -1 drawn from what each publisher last saw; server BatchMaxMessages/BatchMaxTime and segment size varied; oracle = final log scan + ack consistency at the ack.send hook + porcupine linearizability of the client-boundary history; non-trivial = history had an expected offset with >=2 competitors and exactly one winner, an equal guess that lost the race, an accepted -1 publish, a rejected stale and a rejected future guess; distinct = config + publishers + outcome counts")
	rep.Assume("publishes without an answer (fire-and-forget, expired deadline, raw envelope with ack policy NONE) are decided from the final log: stored = applied at that offset, absent = never applied; their return time is the end of the history")
	rep.Assume("an unanswered -1 publish that is absent from the final log is not judged (NATS core delivery is at-most-once)")
	remove := c16InstallHook()
	defer remove()
	root := kit.NewRNG(kit.Mix(kit.Seed(), 0xC16+uint64(len(mode))*131+uint64(mode[0])))
	nsrv := kit.Scale(8, 18)
	perSrv := kit.Scale(14, 36)
	hidx := 0
	for s := 0; s < nsrv && rep.NumViolations() < 4 && c16Unanswered.Load() < c16MaxUnanswered; s++ {
		rng := root.Fork(uint64(s))
		bmm := []int{1, 2, 8, 64, 1024}[rng.Intn(5)]
		bmt := []time.Duration{0, 100 * time.Microsecond, time.Millisecond, 5 * time.Millisecond}[rng.Intn(4)]
		serverWide := rng.Bool()
		cfgDesc := fmt.Sprintf("batch.max.messages=%d batch.max.time=%s streams.concurrency.control=%v", bmm, bmt, serverWide)
		c, srv, err := vfSingle(fmt.Sprintf("c16-%d", s), func(cfg *Config) {
			cfg.BatchMaxMessages = bmm
			cfg.BatchMaxTime = bmt
			cfg.Streams.ConcurrencyControl = serverWide
		})
		if err != nil {
			rep.Inconc("server did not start: " + err.Error())
			continue
		}
		pool := []*nats.Conn{c.NC}
		for i := 0; i < 3; i++ {
			nc, err := nats.Connect(c.URL)
			if err != nil {
				break
			}
			pool = append(pool, nc)
		}
		seeds := make([]uint64, perSrv)
		for i := range seeds {
			seeds[i] = rng.Uint64()
		}
		base := hidx
		kit.Parallel(perSrv, 3, func(i int) {
			if rep.NumViolations() >= 4 || c16Unanswered.Load() >= c16MaxUnanswered {
				return
			}
			c16RunHistory(rep, c, srv, cfgDesc, serverWide, mode, base+i, seeds[i], pool)
		})
		hidx += perSrv
		for _, nc := range pool[1:] {
			nc.Close()
		}
		c.Cleanup()
	}
}
