//go:build verif

package server

// C04 — lifecycle unit: the acknowledgement rules on a partition that was
// REBUILT from the stream's stored configuration.
//
// The single and cluster units exercise the ack rules on partitions created a
// moment ago (plus one pause/resume in the cluster unit, with the server-wide
// minimum).  The minimum in-sync-set size a partition enforces comes from
// (server-wide clustering.min.insync.replicas) x (the stream's own MinIsr
// override), and is applied again every time the partition object is built:
// at creation, when a paused stream is resumed, at restart from the Raft log
// and at restart from a Raft snapshot.  Here real single-node servers (server-
// wide minimum 1 or 2) host streams whose override is absent / above / below /
// equal to the server-wide value (and an explicit 0), so that some streams can
// never satisfy ALL (replication factor 1 < minimum) and others always do, and
// a seeded program of lifecycle events runs; after EVERY event each stream is
// judged with the usual ack oracle on its rebuilt partition:
//
//   - minimum > in-sync set (1): no ALL-policy message may ever be acked -
//     decided by later LEADER-policy fences on the same inbox (each append
//     triggers a commit check), never by waiting;
//   - minimum <= 1: an ALL fence is awaited (watchdog => inconclusive), then
//     every earlier ALL/LEADER message has exactly one positive ack, received
//     while the leader HW was >= its offset;
//   - LEADER acked once stored, NONE never, too-large nacked TOO_LARGE and not
//     stored, every positive ack names the offset that holds the message's tag.
//
// A 3-server scenario does the same for a replication-factor-3 stream whose
// override (3) lies above the server-wide minimum (1): one follower is parked
// at the fetch gate so the ISR shrinks to 2; the partition leader's server is
// then snapshotted and restarted (and, in another step, the stream paused and
// resumed); ALL-policy messages published while the ISR has 2 members must not
// be acked as long as the follower stays parked.

import (
	"context"
	"fmt"
	"strings"
	"sync"
	"testing"
	"time"

	client "github.com/liftbridge-io/liftbridge-api/v2/go"

	kit "github.com/liftbridge-io/liftbridge/internal/verifkit"
)

type c04LStream struct {
	name     string
	override *int32 // MinIsr override (nil = absent)
	minISR   int    // the minimum the configuration means
	seq      int
	paused   bool
}

func (s *c04LStream) String() string {
	o := "absent"
	if s.override != nil {
		o = fmt.Sprint(*s.override)
	}
	return fmt.Sprintf("%s(MinIsr override=%s => minimum %d)", s.name, o, s.minISR)
}

type c04Life struct {
	rep    *kit.Report
	c      *vfCluster
	id     int
	wide   int
	events []string
	dead   bool
	pub    *c04Pub
}

func (l *c04Life) srv() *Server { return l.c.Nodes["a"].Server() }

func (l *c04Life) inconc(what string) {
	l.rep.Inconc(fmt.Sprintf("lifecycle scenario %d [%s]: %s", l.id, strings.Join(l.events, " "), what))
	l.dead = true
}

func (l *c04Life) fail(fp, what string, st *c04LStream) {
	l.rep.Violation(fp, what, map[string]any{"scenario": l.id, "seed": kit.Seed(), "server_wide_min_insync_replicas": l.wide,
		"events": append([]string(nil), l.events...), "stream": st.String(), "replication_factor": 1})
	l.dead = true
}

// kick publishes through the API (this is what resumes a paused partition).
func (l *c04Life) kick(st *c04LStream) bool {
	st.seq++
	ctx, cancel := context.WithTimeout(context.Background(), 20*time.Second)
	defer cancel()
	_, err := l.srv().api.Publish(ctx, &client.PublishRequest{Stream: st.name, Value: c04Value(fmt.Sprintf("%s-kick%d", st.name, st.seq), 20), AckPolicy: client.AckPolicy_LEADER})
	if err != nil {
		l.inconc("resuming publish to " + st.name + ": " + err.Error())
		return false
	}
	ok := vfWait(30*time.Second, func() bool {
		p := l.c.Nodes["a"].Partition(st.name, 0)
		return p != nil && !p.IsPaused() && p.IsLeader()
	})
	if !ok {
		l.inconc("partition of " + st.name + " not leading after the resuming publish")
		return false
	}
	l.rep.Count("publishes_that_resumed_a_paused_partition", 1)
	st.paused = false
	return true
}

// judge runs one round of the ack oracle on the stream's current partition.
func (l *c04Life) judge(st *c04LStream, event string, rng *kit.RNG) {
	if l.dead {
		return
	}
	if st.paused && !l.kick(st) {
		return
	}
	part := l.c.Nodes["a"].Partition(st.name, 0)
	if part == nil {
		l.inconc("no partition object for " + st.name)
		return
	}
	subject := st.name + ".subj"
	blocked := st.minISR > 1
	var alls, leads, nones, bigs []*c04Msg
	n := rng.Range(8, 16)
	for i := 0; i < n; i++ {
		st.seq++
		m := &c04Msg{Tag: fmt.Sprintf("%s-m%04d", st.name, st.seq), Expect: -1}
		size := rng.Range(10, 120)
		switch x := rng.Intn(12); {
		case x < 5:
			m.Policy = client.AckPolicy_ALL
			alls = append(alls, m)
		case x < 9:
			m.Policy = client.AckPolicy_LEADER
			leads = append(leads, m)
		case x < 11:
			m.Policy = client.AckPolicy_NONE
			nones = append(nones, m)
		default:
			m.Policy = []client.AckPolicy{client.AckPolicy_ALL, client.AckPolicy_LEADER}[rng.Intn(2)]
			m.Big = true
			size = 700 + rng.Range(50, 300)
			bigs = append(bigs, m)
		}
		if i == 0 && len(alls) == 0 { // the first message after the event is an ALL one
			m.Policy, m.Big, size = client.AckPolicy_ALL, false, 30
			alls, leads, nones, bigs = []*c04Msg{m}, nil, nil, nil
		}
		if err := l.pub.send(st.name, subject, m, c04Value(m.Tag, size)); err != nil {
			l.inconc("publish: " + err.Error())
			return
		}
	}
	// fences
	fencePolicy := client.AckPolicy_ALL
	nf := 1
	if blocked {
		fencePolicy, nf = client.AckPolicy_LEADER, 3
	}
	for i := 0; i < nf; i++ {
		st.seq++
		f := &c04Msg{Tag: fmt.Sprintf("%s-fence%04d", st.name, st.seq), Expect: -1, Policy: fencePolicy}
		if blocked {
			leads = append(leads, f)
		} else {
			alls = append(alls, f)
		}
		l.pub.send(st.name, subject, f, c04Value(f.Tag, 20))
		l.pub.nc.Flush()
		if !l.pub.waitAcked([]*c04Msg{f}, 40*time.Second) {
			l.inconc(fmt.Sprintf("%s fence on %s not acked after [%s]", fencePolicy, st, event))
			return
		}
	}
	l.rep.Eval()
	l.rep.Count("judged_after_"+event, 1)
	desc := fmt.Sprintf("after [%s] on stream %s (replication factor 1, in-sync set of 1, server-wide minimum %d)", event, st, l.wide)
	for _, m := range alls {
		acks := l.pub.acks(m)
		switch {
		case blocked && len(acks) > 0:
			l.fail("C04:lifecycle:all-acked-below-min-isr:"+event, fmt.Sprintf("%s: ALL-policy message %s was acked (error=%s offset=%d) although the in-sync set (1) is below the stream's minimum (%d); partition reports ISR size %d, HW %d",
				desc, m.Tag, acks[0].AckError, acks[0].Offset, st.minISR, part.ISRSize(), part.log.HighWatermark()), st)
			return
		case !blocked && (len(acks) != 1 || acks[0].AckError != client.Ack_OK):
			l.fail("C04:lifecycle:all-ack-missing:"+event, fmt.Sprintf("%s: ALL-policy message %s has %d acks although a later ALL-policy fence on the same inbox was acked", desc, m.Tag, len(acks)), st)
			return
		}
	}
	if blocked {
		l.rep.Count("all_messages_correctly_left_unacked_below_minimum", int64(len(alls)))
	} else {
		l.rep.Count("all_messages_acked_at_or_above_minimum", int64(len(alls)))
	}
	if !blocked {
		// LEADER acks come from another goroutine than ALL acks: await them
		if !l.pub.waitAcked(leads, 40*time.Second) {
			l.inconc("LEADER-policy messages on " + st.String() + " not acked")
			return
		}
	}
	for _, m := range leads {
		if acks := l.pub.acks(m); len(acks) != 1 || acks[0].AckError != client.Ack_OK {
			l.fail("C04:lifecycle:leader-ack:"+event, fmt.Sprintf("%s: LEADER-policy message %s has %d acks %v", desc, m.Tag, len(acks), acks), st)
			return
		}
	}
	for _, m := range nones {
		if acks := l.pub.acks(m); len(acks) > 0 {
			l.fail("C04:lifecycle:none-acked:"+event, fmt.Sprintf("%s: NONE-policy message %s was acked", desc, m.Tag), st)
			return
		}
	}
	stored, _, err := c04FinalScan(part)
	if err != nil {
		l.fail("C04:lifecycle:final-scan", err.Error(), st)
		return
	}
	for _, m := range bigs {
		acks := l.pub.acks(m)
		if _, is := stored[m.Tag]; is {
			l.fail("C04:lifecycle:rejected-stored:too-large:"+event, fmt.Sprintf("%s: oversize message %s was stored", desc, m.Tag), st)
			return
		}
		if len(acks) != 1 || acks[0].AckError != client.Ack_TOO_LARGE {
			l.fail("C04:lifecycle:nack:too-large:"+event, fmt.Sprintf("%s: oversize message %s (policy %s) has acks %v before the later fence ack", desc, m.Tag, m.Policy, acks), st)
			return
		}
		l.rep.Count("too_large_nacked", 1)
	}
	for _, m := range append(append([]*c04Msg(nil), alls...), leads...) {
		acks := l.pub.acks(m)
		if len(acks) == 1 && acks[0].AckError == client.Ack_OK {
			if off, is := stored[m.Tag]; !is || off != acks[0].Offset {
				l.fail("C04:lifecycle:ack-offset-mismatch:"+event, fmt.Sprintf("%s: message %s acked at offset %d but stored=%v at %d", desc, m.Tag, acks[0].Offset, is, off), st)
				return
			}
		}
	}
	for _, m := range nones {
		if _, is := stored[m.Tag]; !is {
			l.fail("C04:lifecycle:none-lost:"+event, fmt.Sprintf("%s: NONE-policy message %s is not in the log although later messages of the same publisher are", desc, m.Tag), st)
			return
		}
	}
}

func (l *c04Life) settle(streams []*c04LStream) bool {
	if _, err := l.c.MetaLeader(40 * time.Second); err != nil {
		l.inconc("no metadata leader after restart: " + err.Error())
		return false
	}
	for _, st := range streams {
		st := st
		ok := vfWait(40*time.Second, func() bool {
			s := l.srv()
			if s == nil {
				return false
			}
			stream := s.metadata.GetStream(st.name)
			if stream == nil {
				return false
			}
			p := stream.GetPartition(0)
			return p != nil && (p.IsPaused() || p.IsLeader())
		})
		if !ok {
			l.inconc("stream " + st.name + " not back after restart")
			return false
		}
	}
	return true
}

func (l *c04Life) restart(streams []*c04LStream) bool {
	if err := l.c.StopNode("a"); err != nil {
		l.inconc("stop: " + err.Error())
		return false
	}
	if err := l.c.StartNode("a"); err != nil {
		l.inconc("restart: " + err.Error())
		return false
	}
	return l.settle(streams)
}

func c04LifeScenario(rep *kit.Report, id int, rng *kit.RNG) {
	wide := 1 + id%2
	c, _, err := vfSingle(fmt.Sprintf("c04l-%d", id), func(cfg *Config) {
		cfg.Clustering.MinISR = wide
		cfg.Clustering.ReplicationMaxBytes = 700
		cfg.BatchMaxMessages = []int{1, 16, 1024}[rng.Intn(3)]
	})
	if err != nil {
		rep.Inconc("server did not start: " + err.Error())
		return
	}
	defer c.Cleanup()
	l := &c04Life{rep: rep, c: c, id: id, wide: wide}
	l.events = append(l.events, fmt.Sprintf("server(clustering.min.insync.replicas=%d)", wide))
	// the online check: a positive ALL ack implies HW >= offset (HW is monotone)
	onAck := func(m *c04Msg, a *client.Ack) {
		if a.AckError != client.Ack_OK || m.Policy != client.AckPolicy_ALL {
			return
		}
		n := c.Nodes["a"]
		if p := n.Partition(a.Stream, 0); p != nil && !p.IsPaused() {
			if hw := p.log.HighWatermark(); hw < a.Offset {
				rep.Violation("C04:lifecycle:all-acked-before-commit", fmt.Sprintf("ALL-policy ack for %s at offset %d received while the leader HW is %d", m.Tag, a.Offset, hw),
					map[string]any{"scenario": id, "events": strings.Join(l.events, " ")})
			}
		}
	}
	pub, err := c04NewPub(c.URL, onAck)
	if err != nil {
		rep.Inconc("publisher: " + err.Error())
		return
	}
	defer pub.close()
	l.pub = pub
	i32 := func(v int32) *int32 { return &v }
	var overrides []*int32
	if wide == 1 {
		overrides = []*int32{i32(2), i32(3), nil, i32(1)} // above, above, absent, equal
	} else {
		overrides = []*int32{i32(1), nil, i32(0), i32(3)} // below, absent, explicit 0, above
	}
	var streams []*c04LStream
	for i, o := range overrides {
		st := &c04LStream{name: fmt.Sprintf("c04l%d-%d", id, i), override: o, minISR: wide}
		req := &client.CreateStreamRequest{Subject: st.name + ".subj", Name: st.name, ReplicationFactor: 1}
		if o != nil {
			st.minISR = int(*o) // a set override wins
			req.MinIsr = &client.NullableInt32{Value: *o}
		}
		if err := c.CreateStream(req); err != nil {
			rep.Inconc("create stream: " + err.Error())
			return
		}
		if _, err := c.PartitionLeader(st.name, 0, 30*time.Second); err != nil {
			rep.Inconc(err.Error())
			return
		}
		streams = append(streams, st)
	}
	for _, st := range streams {
		l.judge(st, "create", rng)
	}
	order := []string{"pause-resume", "restart", "snapshot-restart"}
	for i := len(order) - 1; i > 0; i-- {
		k := rng.Intn(i + 1)
		order[i], order[k] = order[k], order[i]
	}
	order = append(order, []string{"pause-restart", "pause-snapshot-restart", "snapshot"}[rng.Intn(3)])
	if kit.Thorough() {
		order = append(order, "pause-resume", "snapshot-restart")
	}
	pause := func() bool {
		for _, st := range streams {
			if rng.Chance(3, 4) {
				ctx, cancel := context.WithTimeout(context.Background(), 20*time.Second)
				_, err := l.srv().api.PauseStream(ctx, &client.PauseStreamRequest{Name: st.name})
				cancel()
				if err != nil {
					l.inconc("pause " + st.name + ": " + err.Error())
					return false
				}
				st.paused = true
			}
		}
		return true
	}
	snapshot := func() bool {
		if err := l.srv().getRaft().Snapshot().Error(); err != nil {
			l.inconc("raft snapshot: " + err.Error())
			return false
		}
		return true
	}
	for _, ev := range order {
		if l.dead {
			return
		}
		l.events = append(l.events, ev)
		rep.Count("event_"+ev, 1)
		ok := true
		switch ev {
		case "pause-resume":
			ok = pause()
		case "restart":
			ok = l.restart(streams)
		case "snapshot":
			ok = snapshot()
		case "snapshot-restart":
			ok = snapshot() && l.restart(streams)
		case "pause-restart":
			ok = pause() && l.restart(streams)
		case "pause-snapshot-restart":
			ok = pause() && snapshot() && l.restart(streams)
		}
		if !ok {
			return
		}
		for _, st := range streams {
			l.judge(st, ev, rng)
		}
	}
	if l.dead {
		return
	}
	rep.Count("scenarios", 1)
	rep.Nontrivial(fmt.Sprintf("single|wide=%d|%s", wide, strings.Join(order, ",")))
	if id < 2 {
		var ss []string
		for _, st := range streams {
			ss = append(ss, st.String())
		}
		rep.Sample(map[string]any{"scenario": id, "events": l.events, "streams": ss})
	}
}

func TestVerifC04Lifecycle(t *testing.T) {
	rep := kit.NewReport("C04", "lifecycle")
	defer rep.Write()
	rep.SetRule("real single-node servers (Raft + BoltDB + file snapshots, private NATS) with server-wide clustering.min.insync.replicas 1 or 2 and ReplicationMaxBytes 700; 4 replication-factor-1 streams each with a MinIsr override above / equal / below the server-wide value, absent, or explicitly 0; seeded order of lifecycle events (PauseStream + resuming publish, stop+start = Raft log replay, forced Raft snapshot + restart, pause + restart, pause + snapshot + restart, snapshot alone); after creation and after EVERY event each stream gets 8-16 raw-envelope publishes with ALL / LEADER / NONE policies and oversize messages, the first one after the event being ALL-policy; oracle: minimum the configuration means (a set override wins) > 1 => no ALL-policy ack at all, decided by three later LEADER fences on the same inbox; otherwise an ALL fence is awaited and every earlier ALL message has exactly one positive ack (HW >= offset at receipt); LEADER exactly one positive ack, NONE none, oversize nacked TOO_LARGE and absent from the log, acked offsets hold the tag, NONE messages stored; non-trivial = scenario completed with at least one restart from a snapshot; distinct = server-wide minimum + event order")
	rep.Assume("acks of one server reach one inbox in the order they were sent (NATS per-connection ordering); ALL acks (commit loop) and LEADER acks (message loop) are sent by different goroutines, so only fences of the matching kind are used")
	root := kit.NewRNG(kit.Mix(kit.Seed(), 0xC04F))
	n := kit.Scale(2, 8)
	rngs := make([]*kit.RNG, n)
	for i := range rngs {
		rngs[i] = root.Fork(uint64(i))
	}
	var wg sync.WaitGroup
	wg.Add(1)
	go func() {
		defer wg.Done()
		nc := kit.Scale(1, 4)
		for i := 0; i < nc && rep.NumViolations() < 3; i++ {
			c04LifeCluster(rep, i, root.Fork(uint64(1000+i)))
		}
	}()
	kit.Parallel(n, 2, func(i int) {
		if rep.NumViolations() >= 3 {
			return
		}
		c04LifeScenario(rep, i, rngs[i])
	})
	wg.Wait()
}

// ---------------------------------------------------------------- 3 servers

func c04LifeCluster(rep *kit.Report, idx int, rng *kit.RNG) {
	const stream, subject = "c04lc", "c04lc.subj"
	const minISR = 3 // the stream's override; the server-wide minimum is 1
	var trace []string
	var tmu sync.Mutex
	logf := func(f string, a ...interface{}) {
		tmu.Lock()
		trace = append(trace, fmt.Sprintf(f, a...))
		tmu.Unlock()
	}
	witness := map[string]any{"cluster_scenario": idx, "seed": kit.Seed(), "server_wide_min_insync_replicas": 1, "stream_MinIsr_override": minISR, "replication_factor": 3}
	fail := func(fp, what string) {
		tmu.Lock()
		witness["trace"] = append([]string(nil), trace...)
		tmu.Unlock()
		rep.Violation(fp, what, witness)
	}
	inconc := func(what string) {
		tmu.Lock()
		t := strings.Join(trace, " | ")
		tmu.Unlock()
		if len(t) > 600 {
			t = "..." + t[len(t)-600:]
		}
		rep.Inconc(fmt.Sprintf("[lifecycle cluster scenario %d] %s (trace: %s)", idx, what, t))
	}
	c, err := vfNewCluster("c04lc", 3, func(cfg *Config) {
		cfg.Clustering.ReplicaMaxLeaderTimeout = 60 * time.Second // no failovers here
		cfg.Clustering.ReplicaMaxIdleWait = 200 * time.Millisecond
		cfg.Clustering.ReplicaFetchTimeout = 500 * time.Millisecond
		cfg.Clustering.ReplicaMaxLagTime = 1500 * time.Millisecond
		cfg.Clustering.MinISR = 1
		cfg.BatchMaxMessages = []int{1, 16}[rng.Intn(2)]
	})
	if err != nil {
		inconc("cluster start: " + err.Error())
		return
	}
	defer c.Cleanup()
	var gmu sync.Mutex
	gates := map[string]chan struct{}{}
	parked := map[string]bool{}
	rm := vfHooks.On("follower.beforeFetch", func(a ...interface{}) error {
		if a[1].(string) != stream {
			return nil
		}
		gmu.Lock()
		g := gates[a[0].(string)]
		gmu.Unlock()
		if g == nil {
			return nil
		}
		stop, _ := a[5].(<-chan struct{})
		gmu.Lock()
		parked[a[0].(string)] = true
		gmu.Unlock()
		select {
		case <-g:
		case <-stop:
		}
		gmu.Lock()
		parked[a[0].(string)] = false
		gmu.Unlock()
		return nil
	})
	defer rm()
	defer func() {
		gmu.Lock()
		for id, g := range gates {
			close(g)
			delete(gates, id)
		}
		gmu.Unlock()
	}()
	if err := c.CreateStream(&client.CreateStreamRequest{Subject: subject, Name: stream, ReplicationFactor: 3, MinIsr: &client.NullableInt32{Value: minISR}}); err != nil {
		inconc("create stream: " + err.Error())
		return
	}
	ln, err := c.PartitionLeader(stream, 0, 30*time.Second)
	if err != nil {
		inconc(err.Error())
		return
	}
	var fol []string
	for _, id := range c.IDs {
		if id != ln.ID {
			fol = append(fol, id)
		}
	}
	held := fol[rng.Intn(2)]
	heldNow := func() bool { gmu.Lock(); defer gmu.Unlock(); return gates[held] != nil && parked[held] }
	leaderPart := func() *partition { return c.Nodes[ln.ID].Partition(stream, 0) }
	var phase string
	var pmu sync.Mutex
	setPhase := func(s string) { pmu.Lock(); phase = s; pmu.Unlock(); logf("PHASE %s", s) }
	getPhase := func() string { pmu.Lock(); defer pmu.Unlock(); return phase }
	onAck := func(m *c04Msg, a *client.Ack) {
		ph := getPhase()
		logf("ack %s policy=%s err=%s offset=%d phase=%s", m.Tag, m.Policy, a.AckError, a.Offset, ph)
		if a.AckError != client.Ack_OK || m.Policy != client.AckPolicy_ALL {
			return
		}
		// Decisive, non-racy: a "below-" message was published after the ISR
		// had shrunk to 2 and while the third replica is parked (it cannot
		// fetch, so it cannot re-enter the ISR); the gate stays closed across
		// the lifecycle events.
		if strings.HasPrefix(m.Tag, "below") && heldNow() {
			isr := -1
			if lp := leaderPart(); lp != nil {
				isr = lp.ISRSize()
			}
			fail("C04:lifecycle:all-acked-below-min-isr:cluster:"+strings.TrimPrefix(ph, "below-after-"),
				fmt.Sprintf("ALL-policy ack for %s (offset %d) received in phase %q although the in-sync set has had 2 members for the whole life of the message (replica %s is parked at the fetch gate; the leader reports ISR size %d) and the stream's MinIsr override is %d (server-wide minimum 1)", m.Tag, a.Offset, ph, held, isr, minISR))
		}
	}
	pub, err := c04NewPub(c.URL, onAck)
	if err != nil {
		inconc("publisher: " + err.Error())
		return
	}
	defer pub.close()
	seq := 0
	publish := func(prefix string, n int, pol client.AckPolicy) []*c04Msg {
		var out []*c04Msg
		for i := 0; i < n; i++ {
			seq++
			m := &c04Msg{Tag: fmt.Sprintf("%sc%d-m%03d", prefix, idx, seq), Policy: pol, Expect: -1}
			pub.send(stream, subject, m, c04Value(m.Tag, rng.Range(10, 120)))
			out = append(out, m)
		}
		pub.nc.Flush()
		return out
	}
	setPhase("healthy")
	first := publish("ok-", rng.Range(2, 4), client.AckPolicy_ALL)
	if !pub.waitAcked(first, 30*time.Second) {
		inconc("initial ALL publishes not acked with a full in-sync set")
		return
	}
	rep.Count("cluster_all_acked_with_full_isr", int64(len(first)))
	gmu.Lock()
	gates[held] = make(chan struct{})
	gmu.Unlock()
	if !vfWait(20*time.Second, heldNow) {
		inconc("held follower never reached the fetch gate")
		return
	}
	kickL := publish("shrinkL-", 2, client.AckPolicy_LEADER) // something to lag behind
	if !pub.waitAcked(kickL, 20*time.Second) {
		inconc("LEADER-policy publishes not acked while a follower is held")
		return
	}
	if !vfWait(30*time.Second, func() bool { lp := leaderPart(); return lp != nil && lp.ISRSize() == 2 }) {
		inconc("ISR did not shrink to 2 while a follower is held")
		return
	}
	// judgeBelow: ALL must stay unacked, LEADER is acked; decided at ack receipt
	// (onAck) plus a grace period that ends early on a violation.
	var pending []*c04Msg
	judgeBelow := func(event string) bool {
		setPhase("below-after-" + event)
		if !heldNow() {
			inconc("the held follower left the fetch gate (" + event + ")")
			return false
		}
		if !vfWait(15*time.Second, func() bool { lp := leaderPart(); return lp != nil && lp.ISRSize() == 2 }) {
			inconc("the in-sync set is not at 2 members after " + event)
			return false
		}
		below := publish("below-"+event+"-", rng.Range(2, 4), client.AckPolicy_ALL)
		lead := publish("belowL-"+event+"-", 2, client.AckPolicy_LEADER)
		if !pub.waitAcked(lead, 30*time.Second) {
			inconc("LEADER-policy publishes not acked below the minimum after " + event)
			return false
		}
		more := publish("belowL2-"+event+"-", 2, client.AckPolicy_LEADER) // each append triggers a commit check
		if !pub.waitAcked(more, 30*time.Second) {
			inconc("LEADER-policy publishes not acked below the minimum after " + event)
			return false
		}
		vfWait(1500*time.Millisecond, func() bool { return rep.NumViolations() > 0 })
		if rep.NumViolations() > 0 {
			return false
		}
		for _, m := range below {
			if len(pub.acks(m)) > 0 && heldNow() {
				fail("C04:lifecycle:all-acked-below-min-isr:cluster:"+event, fmt.Sprintf("ALL-policy message %s was acked after %s while the in-sync set had 2 members and the stream's MinIsr override is %d", m.Tag, event, minISR))
				return false
			}
		}
		pending = below
		rep.Eval()
		rep.Count("cluster_below_min_phases_after_"+event, 1)
		rep.Count("cluster_all_messages_correctly_left_unacked", int64(len(below)))
		return true
	}
	if !judgeBelow("shrink") {
		return
	}
	events := []string{"snapshot-restart-leader", "pause-resume"}
	if rng.Bool() {
		events[0], events[1] = events[1], events[0]
	}
	done := 0
	for _, ev := range events {
		setPhase(ev)
		switch ev {
		case "snapshot-restart-leader":
			lsrv := c.Nodes[ln.ID].Server()
			if lsrv == nil {
				inconc("leader server not running")
				return
			}
			if err := lsrv.getRaft().Snapshot().Error(); err != nil {
				inconc("raft snapshot on the partition leader: " + err.Error())
				return
			}
			if err := c.StopNode(ln.ID); err != nil {
				inconc("stop leader: " + err.Error())
				return
			}
			if err := c.StartNode(ln.ID); err != nil {
				inconc("restart leader: " + err.Error())
				return
			}
			if _, err := c.MetaLeader(40 * time.Second); err != nil {
				inconc("no metadata leader after the restart")
				return
			}
			// A server restored from a snapshot that covers its whole Raft
			// log starts the restored partitions only when the next Raft
			// entry is applied (fsm.go Apply): as a Raft follower in a quiet
			// cluster that can take arbitrarily long.  Any metadata operation
			// provides one; CreateStream also waits until the restarted
			// server has applied it.
			poke := fmt.Sprintf("c04lc-poke%d", seq)
			if err := c.CreateStream(&client.CreateStreamRequest{Subject: poke, Name: poke, ReplicationFactor: 1}); err != nil {
				inconc("metadata operation after the restart: " + err.Error())
				return
			}
			ok := vfWait(40*time.Second, func() bool {
				p := leaderPart()
				if p == nil || p.IsPaused() || !p.IsLeader() {
					return false
				}
				l, _ := p.GetLeader()
				return l == ln.ID
			})
			if !ok {
				inconc("the restarted server does not lead the partition again")
				return
			}
		case "pause-resume":
			ml, err := c.MetaLeader(20 * time.Second)
			if err != nil {
				inconc(err.Error())
				return
			}
			old := leaderPart()
			ctx, cancel := context.WithTimeout(context.Background(), 20*time.Second)
			_, perr := ml.api.PauseStream(ctx, &client.PauseStreamRequest{Name: stream})
			cancel()
			if perr != nil {
				inconc("pause: " + perr.Error())
				return
			}
			ctx, cancel = context.WithTimeout(context.Background(), 20*time.Second)
			_, rerr := ml.api.Publish(ctx, &client.PublishRequest{Stream: stream, Value: c04Value("resume-kick", 20), AckPolicy: client.AckPolicy_LEADER})
			cancel()
			resumed := rerr == nil && vfWait(30*time.Second, func() bool {
				p := leaderPart()
				if p == nil || p == old || p.IsPaused() || !p.IsLeader() {
					return false
				}
				l, _ := p.GetLeader()
				hp := c.Nodes[held].Partition(stream, 0)
				return l == ln.ID && hp != nil && !hp.IsPaused()
			})
			if !resumed {
				inconc(fmt.Sprintf("stream did not resume on the same leader after pause (%v)", rerr))
				return
			}
		}
		// the held follower's fetch loop was restarted too: wait until it is parked again
		if !vfWait(30*time.Second, heldNow) {
			inconc("held follower not parked at the fetch gate after " + ev)
			return
		}
		if !judgeBelow(ev) {
			return
		}
		done++
	}
	// release: the ISR expands to 3 and what is pending in the CURRENT
	// partition object must be acked
	setPhase("released")
	gmu.Lock()
	close(gates[held])
	delete(gates, held)
	gmu.Unlock()
	if !vfWait(40*time.Second, func() bool { lp := leaderPart(); return lp != nil && lp.ISRSize() == 3 }) {
		inconc("ISR did not expand after release")
		return
	}
	last := publish("end-", 2, client.AckPolicy_ALL)
	if !pub.waitAcked(append(last, pending...), 40*time.Second) {
		inconc("ALL publishes not acked after the in-sync set recovered")
		return
	}
	if lp := leaderPart(); lp != nil {
		if stored, _, err := c04FinalScan(lp); err == nil {
			pub.mu.Lock()
			all := append([]*c04Msg(nil), pub.all...)
			pub.mu.Unlock()
			for _, m := range all {
				acks := pub.acks(m)
				if len(acks) == 1 && acks[0].AckError == client.Ack_OK {
					if off, ok := stored[m.Tag]; !ok || off != acks[0].Offset {
						fail("C04:lifecycle:ack-offset-mismatch:cluster", fmt.Sprintf("message %s acked at offset %d but stored=%v at %d", m.Tag, acks[0].Offset, ok, off))
					}
				}
			}
		}
	}
	if done == len(events) {
		rep.Nontrivial(fmt.Sprintf("cluster|override=3-over-1|%s", strings.Join(events, ",")))
	}
	rep.Sample(map[string]any{"cluster_scenario": idx, "leader": ln.ID, "held": held, "events": events})
}
