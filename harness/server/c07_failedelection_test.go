//go:build verif

package server

// C07, unit "enumctx": small-scope enumeration around leader elections that
// FAIL after the quorum of reports was reached.
//
// A report that completes the quorum makes the controller select a new leader
// and replicate the change through Raft.  That step can fail — the request's
// deadline has passed by the time the change is to be replicated, leadership
// was lost, the precondition refuses the proposal — and the partition then
// keeps its leader.  The other enumerations only ever produce elections that
// succeed at the first attempt.  Here the alphabets contain reports made with
// a context whose deadline has already passed when the call is made (!dead):
// the report itself is taken (ReportLeader does not look at the context before
// registering it), the election it triggers "times out".  What the controller
// keeps of the collected reports after such a failure shows in the programs
// that let more than the timeout pass (X) and report again: a report older than
// the window must never count, whatever the code did with its expiry timer —
// the shadow model ends the window at every X, also when the code has no timer
// pending ("unarmed").  Same per-call / per-entry oracle (I1-I6) as the other
// enumerations.  (Elections refused by their precondition are produced by the
// gated unit; they need a proposal parked in front of them.)

import (
	"fmt"
	"testing"

	kit "github.com/liftbridge-io/liftbridge/internal/verifkit"
)

func TestVerifC07EnumCtx(t *testing.T) {
	rep := kit.NewReport("C07", "enumctx")
	defer rep.Write()
	dead := func(p []c07Op) bool {
		for _, o := range p {
			if o.Ctx != "" {
				return true
			}
		}
		return false
	}
	R := func(who string) c07Op { return c07Op{Kind: "R", Who: who} }
	D := func(who string) c07Op { return c07Op{Kind: "R", Who: who, Ctx: "dead"} }
	X, L, Sfl := c07Op{Kind: "X"}, c07Op{Kind: "L"}, c07Op{Kind: "S", Who: "fl"}
	a3 := []c07Op{R("f0"), R("f1"), D("f1"), Sfl, X}
	a4 := []c07Op{R("f0"), R("f1"), D("f1"), X, L}
	a5 := []c07Op{R("f0"), R("f1"), D("f2"), X}
	n3, n4, n5 := "{R.f0 R.f1 R.f1!dead S.fl X}", "{R.f0 R.f1 R.f1!dead X L}", "{R.f0 R.f1 R.f2!dead X}"
	l3, l4, l5 := kit.Scale(4, 5), kit.Scale(4, 5), 5
	if kit.Thorough() {
		a3 = append(a3, D("f0"))
		n3 = "{R.f0 R.f1 R.f1!dead S.fl X R.f0!dead}"
	}
	rep.SetRule(fmt.Sprintf("small-scope enumeration, simulated expiry: ALL programs that contain a request made with an EXPIRED context (!dead: the deadline has passed when the call is made, so a leader change the report triggers cannot be replicated and the election FAILS) of length 1..%d over %s on 3 replicas, of length 1..%d over %s on 4 replicas and (thorough tier) of length 4..%d over %s on 5 replicas, (quick tier) the programs R.f0 R.f1 + any 3 symbols of that alphabet; X = more than the timeout passes (ends the window of the shadow model whether or not the code has an expiry timer pending); a program is pruned at the first symbol whose role does not exist in the state reached; same per-call / per-entry oracle (I1-I6) as the other units; non-trivial = a leader or ISR change was committed or a stale request refused", l3, n3, l4, n4, l5, n5))
	c07Assumptions(rep)
	rep.Assume("a request whose context deadline has passed is still a request: ReportLeader registers the report before anything is replicated, so the shadow model counts it like any other report of the window")
	rep.SetExhaustive(true)
	var cases []c07Case
	for _, p := range c07Enumerate(a3, l3, dead) {
		cases = append(cases, c07Case{N: 3, Leader: 0, Prog: p})
	}
	for _, p := range c07Enumerate(a4, l4, dead) {
		cases = append(cases, c07Case{N: 4, Leader: 3, Prog: p})
	}
	if kit.Thorough() {
		for _, p := range c07Enumerate(a5, l5, func(p []c07Op) bool { return dead(p) && len(p) >= 4 }) {
			cases = append(cases, c07Case{N: 5, Leader: 1, Prog: p})
		}
	} else {
		// quick tier: the 5-replica programs of length 5 that start with two plain reports
		for _, p := range c07Enumerate(a5, 3, nil) {
			if len(p) == 3 && dead(p) {
				cases = append(cases, c07Case{N: 5, Leader: 1, Prog: append([]c07Op{R("f0"), R("f1")}, p...)})
			}
		}
	}
	for i := range cases {
		cases[i].Label = fmt.Sprintf("enumctx#%d", i)
	}
	rep.SetInfo("programs_enumerated", len(cases))
	c07RunOnControllers(rep, "q", kit.EnvInt("C07_CONTROLLERS", 8), cases, true, func(i int) bool { return i%701 == 57 })
}
