//go:build verif

package server

// C02 — committed messages survive leader changes; replicas never diverge
// below the HW.
//
// Real 3-server in-process clusters (private NATS, Raft, RF=3, short replica
// timeouts) are driven through seeded fault-sequence programs: publish tagged
// messages (ALL / LEADER policy), hold and release a follower's fetch loop,
// isolate a partition leader (pauseReplication) with or without stopping its
// server, restart a stopped server on its old data directory, wait for
// elections / ISR sizes / HWs by polling logical conditions.  After every step
// (and continuously from a sampler goroutine) each live replica is observed:
// HW first, then its log content; everything at or below a replica's HW goes
// into one global "committed" table offset -> digest, and any disagreement is a
// divergence below the HW.  ALL-acks are recorded at the client boundary and
// must be found, with the acked tag, in every later leader.

import (
	"context"
	"fmt"
	"hash/fnv"
	"os"
	"sort"
	"strings"
	"sync"
	"testing"
	"time"

	client "github.com/liftbridge-io/liftbridge-api/v2/go"
	"github.com/nats-io/nats.go"

	kit "github.com/liftbridge-io/liftbridge/internal/verifkit"
	proto "github.com/liftbridge-io/liftbridge/server/protocol"
)

type c02Msg struct {
	Tag    string
	Policy client.AckPolicy
	Acked  bool
	Offset int64
	Err    string
}

type c02Env struct {
	rep     *kit.Report
	c       *vfCluster
	stream  string
	subject string
	family  string
	seed    uint64

	mu        sync.Mutex
	trace     []string
	committed map[int64]uint64 // offset -> digest once covered by any replica's HW
	commitBy  map[int64]string // who first showed it
	tags      map[int64]string // offset -> tag (value) as first seen committed
	acked     map[string]int64 // tag -> offset for positive ALL acks
	elected   map[string]bool  // "server/epoch" seen in becomeLeader
	gates     map[string]chan struct{}
	learned   int // offset responses answered from a replication-learned epoch entry
	failed    bool
	inconc    bool
	nmsg      int
	steps     []string
	removers  []func()
	// quietOracle: the environment is reused by another property's unit; C02's
	// own violations are not reported there.
	quietOracle bool
	f6Reached   bool
	f7Reached   bool
	// unknownEpoch: a follower asked a leader about a leader epoch that leader
	// has no record of (the follower wrote under an epoch the leader never saw)
	unknownEpoch bool
	served       map[int64]c02Served // what the attached consumer was handed, by offset
	nserved      int
	parked       map[string]int // followers currently parked at the beforeFetch gate
	// gates of c02_gates_test.go
	respGates  map[string]*c02RespGate
	applyGates map[string]*c02ApplyGate
	staleFetches int
	f8Reached, f9Reached, f10Reached, f11Reached bool
	fallbackLoss map[string]int64 // replica -> cut offset of a HW-fallback truncation that removed committed messages the replica held
	fallbackHit  bool             // a failure of this scenario was found on such a replica at or beyond its cut
	// families F12/F13 (c02_electrace_test.go, c02_boundary_test.go): named
	// counters for the evidence, and whether the scenario reached the
	// situation it was written for
	counts  map[string]int64
	covered bool
	// a deposed leader's own append after it reconciled its log (see selfAppendedAfterTruncation)
	lastLed    map[string]uint64     // server -> epoch of its latest becomeLeader (elected or resumed after a restart)
	truncs     map[string][]c02Trunc // server -> its truncations, each with the epoch the server had led last
	cepoch     map[int64]uint64      // offset -> leader epoch of the committed message
	selfAppend string                // set once such an append was identified in this scenario
	lastPart   map[string]*partition // server -> partition object last seen by the observer
	// fpClass is appended to the fingerprint of every violation of the
	// scenario: families whose scenarios differ from the others in one named
	// dimension (c02_rfmax_test.go: how the stream's replication factor is
	// expressed) say so in the fingerprint.  Set before the observers start.
	fpClass string
}

type c02Trunc struct {
	to       int64
	ledEpoch uint64
	// what the replica held from the truncation target on when the truncation
	// was announced (read inside the hook, before Truncate runs); nil if it
	// could not be read
	tail map[int64]uint64
}

// selfAppendedAfterTruncation: replica srv holds record r although it
// truncated its log at or below r's offset AFTER the last epoch it led, and r
// carries that epoch: nobody but srv ever wrote messages of that epoch, the
// truncation removed everything from its target on, and what a follower
// appends afterwards comes from the new leader's log (which holds nothing of
// that epoch at or beyond the truncation target, that is how the target was
// computed).  So r was written by srv's own leader loop after srv had been
// deposed and had reconciled its log.  To tell this from a truncation that did
// not remove what it should have (a different defect with the same picture),
// the record must not be one the replica already held at that offset when the
// truncation was announced.  Caller holds e.mu.
func (e *c02Env) selfAppendedAfterTruncation(srv string, r vfLogRec) bool {
	for _, t := range e.truncs[srv] {
		if t.ledEpoch != 0 && t.ledEpoch == r.Epoch && t.to <= r.Offset && t.tail != nil && t.tail[r.Offset] != c02Digest(r) {
			return true
		}
	}
	return false
}

func c02TruncTargets(ts []c02Trunc) []int64 {
	var out []int64
	for _, t := range ts {
		out = append(out, t.to)
	}
	return out
}

const c02SelfAppendSuffix = ":deposed-leader-appended-after-its-truncation"


func (e *c02Env) logf(format string, a ...interface{}) {
	e.mu.Lock()
	if len(e.trace) < 4000 {
		e.trace = append(e.trace, fmt.Sprintf(format, a...))
	}
	e.mu.Unlock()
}

func (e *c02Env) witness() map[string]any {
	e.mu.Lock()
	defer e.mu.Unlock()
	tr := e.trace
	if len(tr) > 300 {
		tr = tr[len(tr)-300:]
	}
	return map[string]any{"family": e.family, "scenario_seed": e.seed, "steps": append([]string(nil), e.steps...), "trace_tail": append([]string(nil), tr...)}
}

func (e *c02Env) fail(fp, what string) { e.failAt(fp, what, "", 0) }

// failAt reports a violation found on replica (the leader that lacks or
// changed something) at offset.  The loss counts as the known HW-fallback
// hazard only if THAT replica cut committed messages it held at or below the
// offset when it took the fallback; once one failure of the scenario has been
// attributed like that, its consequences (other replicas reconciling with
// that leader, consumers) carry the suffix too.  A loss on a replica that
// never cut anything it should have kept is reported as what it is.
func (e *c02Env) failAt(fp, what, replica string, offset int64) {
	e.mu.Lock()
	e.failed = true
	quiet := e.quietOracle
	if cut, ok := e.fallbackLoss[replica]; ok && replica != "" && cut <= offset {
		e.fallbackHit = true
	}
	if e.fpClass != "" && !strings.Contains(fp, e.fpClass) {
		fp += e.fpClass
	}
	if e.selfAppend != "" && !strings.HasSuffix(fp, c02SelfAppendSuffix) {
		fp += c02SelfAppendSuffix
		what += " [" + e.selfAppend + "]"
	} else if e.fallbackHit && !strings.HasSuffix(fp, ":after-hw-fallback-truncation") {
		fp += ":after-hw-fallback-truncation"
		what += fmt.Sprintf(" [a replica of this scenario took the HW-truncation fallback and cut committed messages it held: %v]", e.fallbackLoss)
	}
	e.mu.Unlock()
	if quiet {
		return
	}
	e.rep.Violation(fp, what, e.witness())
}

func (e *c02Env) inconclusive(what string) {
	e.mu.Lock()
	e.inconc = true
	e.mu.Unlock()
	e.rep.Inconc(fmt.Sprintf("[%s seed %d] %s (steps: %s)", e.family, e.seed, what, strings.Join(e.steps, " > ")))
	e.mu.Lock()
	tr := e.trace
	if len(tr) > 80 {
		tr = tr[len(tr)-80:]
	}
	fmt.Fprintf(os.Stderr, "---- trace tail for inconclusive scenario\n%s\n----\n", strings.Join(tr, "\n"))
	e.mu.Unlock()
}

func (e *c02Env) step(format string, a ...interface{}) {
	s := fmt.Sprintf(format, a...)
	e.mu.Lock()
	e.steps = append(e.steps, s)
	e.mu.Unlock()
	e.logf("STEP %s", s)
}

func c02Digest(r vfLogRec) uint64 {
	h := fnv.New64a()
	fmt.Fprintf(h, "%d|%d|%d|", r.Offset, r.Timestamp, r.Epoch)
	h.Write(r.Key)
	h.Write([]byte{0})
	h.Write(r.Value)
	return h.Sum64()
}

// c02FamilyCfg lets a family adjust the servers' configuration (c02_gates_test.go).
var c02FamilyCfg = map[string]func(*Config){}

// c02FamilyStream lets a family adjust the request its scenario's stream is
// created with (c02_rfmax_test.go); the default is an explicit RF of 3.
var c02FamilyStream = map[string]func(*client.CreateStreamRequest){}

func c02NewEnv(rep *kit.Report, family string, seed uint64) (*c02Env, error) {
	e := &c02Env{rep: rep, family: family, seed: seed, stream: "c02s", subject: "c02s.subj",
		committed: map[int64]uint64{}, commitBy: map[int64]string{}, tags: map[int64]string{}, acked: map[string]int64{},
		elected: map[string]bool{}, gates: map[string]chan struct{}{}, served: map[int64]c02Served{}}
	c, err := vfNewCluster("c02", 3, func(cfg *Config) {
		cfg.Clustering.ReplicaMaxLeaderTimeout = 1200 * time.Millisecond
		cfg.Clustering.ReplicaMaxIdleWait = 250 * time.Millisecond
		cfg.Clustering.ReplicaFetchTimeout = 400 * time.Millisecond
		cfg.Clustering.ReplicaMaxLagTime = 1500 * time.Millisecond
		cfg.Clustering.MinISR = 1
		if f := c02FamilyCfg[family]; f != nil {
			f(cfg)
		}
	})
	if err != nil {
		return nil, err
	}
	e.c = c
	e.installGates(on0(e))
	// trace hooks
	on := func(name string, fn vfHookFn) { e.removers = append(e.removers, vfHooks.On(name, fn)) }
	on("partition.becomeLeader", func(a ...interface{}) error {
		if a[1].(string) != e.stream {
			return nil
		}
		e.mu.Lock()
		e.elected[fmt.Sprintf("%s/%d", a[0], a[3])] = true
		if ep, ok := a[3].(uint64); ok {
			if e.lastLed == nil {
				e.lastLed = map[string]uint64{}
			}
			e.lastLed[fmt.Sprint(a[0])] = ep
		}
		e.mu.Unlock()
		e.logf("becomeLeader server=%v epoch=%v newest=%v recovered=%v", a[0], a[3], a[4], a[5])
		return nil
	})
	on("partition.offsetResp", func(a ...interface{}) error {
		if a[1].(string) != e.stream {
			return nil
		}
		srv, reqEpoch, ans := a[0].(string), a[3].(uint64), a[4].(int64)
		// was the boundary used for the answer learned by replication?
		learned := false
		if n := e.c.Nodes[srv]; n != nil && n.IsUp() {
			if p := n.Partition(e.stream, 0); p != nil {
				ents := c02EpochEntries(p)
				knows, newer := reqEpoch == 0, false
				for _, ent := range ents {
					if ent[0] == int64(reqEpoch) {
						knows = true
					}
					if ent[0] > int64(reqEpoch) {
						newer = true
					}
				}
				if !knows && newer {
					// the follower's last leader epoch never reached this leader
					e.mu.Lock()
					e.unknownEpoch = true
					e.mu.Unlock()
				}
				for _, ent := range ents {
					if ent[0] > int64(reqEpoch) {
						e.mu.Lock()
						if !e.elected[fmt.Sprintf("%s/%d", srv, ent[0])] {
							learned = true
							e.learned++
						}
						e.mu.Unlock()
						break
					}
				}
			}
		}
		e.logf("offsetResp leader=%s reqEpoch=%d answer=%d learnedBoundary=%v", srv, reqEpoch, ans, learned)
		return nil
	})
	on("partition.truncate", func(a ...interface{}) error {
		if a[1].(string) != e.stream {
			return nil
		}
		e.logf("truncate server=%v kind=%v lastEpoch=%v to=%v", a[0], a[3], a[4], a[5])
		if to, ok := a[5].(int64); ok {
			srv := fmt.Sprint(a[0])
			// This runs inside SetLeader (metadata and partition mutexes are
			// held): no metadata lookup here, the partition object is the one
			// the observer saw last (a closed log of an earlier incarnation
			// just fails to read).
			var tail map[int64]uint64
			e.mu.Lock()
			p := e.lastPart[srv]
			e.mu.Unlock()
			if p != nil {
				if recs, err := vfReadLog(p.log, to, true); err == nil {
					tail = map[int64]uint64{}
					for _, r := range recs {
						tail[r.Offset] = c02Digest(r)
					}
				}
			}
			e.mu.Lock()
			if e.truncs == nil {
				e.truncs = map[string][]c02Trunc{}
			}
			e.truncs[srv] = append(e.truncs[srv], c02Trunc{to: to, ledEpoch: e.lastLed[srv], tail: tail})
			e.mu.Unlock()
		}
		if kind, _ := a[3].(string); kind == "hw" {
			// The documented lossy fallback (leader could not be asked): the
			// replica cuts its log at its OWN high watermark.  If it HOLDS, at
			// or beyond the cut, messages already known to be committed, it has
			// just dropped committed messages — whatever loss shows up later in
			// this scenario is that known hazard (known_findings.json), and is
			// fingerprinted as such.  A replica whose tail beyond the cut is
			// something else than the committed messages (it never had them:
			// somebody committed without it) loses nothing through the cut, so
			// a loss seen afterwards is not this hazard.  If the tail could not
			// be read, the cut is assumed to have hit (as before).
			to, _ := a[5].(int64)
			e.mu.Lock()
			var tail map[int64]uint64
			if ts := e.truncs[fmt.Sprint(a[0])]; len(ts) > 0 && ts[len(ts)-1].to == to {
				tail = ts[len(ts)-1].tail
			}
			for o, d := range e.committed {
				if o >= to && (tail == nil || tail[o] == d) {
					if e.fallbackLoss == nil {
						e.fallbackLoss = map[string]int64{}
					}
					e.fallbackLoss[fmt.Sprint(a[0])] = to
					break
				}
			}
			e.mu.Unlock()
		}
		return nil
	})
	on("partition.followerAppend", func(a ...interface{}) error {
		if a[1].(string) != e.stream {
			return nil
		}
		e.logf("followerAppend server=%v first=%v n=%v epoch=%v", a[0], a[3], a[4], a[5])
		return nil
	})
	on("follower.beforeFetch", func(a ...interface{}) error {
		if a[1].(string) != e.stream {
			return nil
		}
		srv := a[0].(string)
		e.mu.Lock()
		g := e.gates[srv]
		e.mu.Unlock()
		if g == nil {
			return nil
		}
		stop, _ := a[5].(<-chan struct{})
		e.mu.Lock()
		if e.parked == nil {
			e.parked = map[string]int{}
		}
		e.parked[srv]++
		e.mu.Unlock()
		select {
		case <-g:
		case <-stop:
		}
		e.mu.Lock()
		e.parked[srv]--
		e.mu.Unlock()
		return nil
	})
	req := &client.CreateStreamRequest{Subject: e.subject, Name: e.stream, ReplicationFactor: 3}
	if f := c02FamilyStream[family]; f != nil {
		f(req)
	}
	if err := c.CreateStream(req); err != nil {
		e.close()
		return nil, err
	}
	return e, nil
}

func (e *c02Env) close() {
	e.mu.Lock()
	for id, g := range e.gates {
		close(g)
		delete(e.gates, id)
	}
	e.mu.Unlock()
	e.openAllGates()
	for _, r := range e.removers {
		r()
	}
	e.c.Cleanup()
}

// c02EpochEntries returns the partition log's leader-epoch cache as
// [epoch, startOffset] pairs, read from the checkpoint file (the cache itself
// is unexported in another package).
func c02EpochEntries(p *partition) [][2]int64 {
	return c02EpochEntriesDir(p.srv.config.DataDir + "/streams/" + p.Stream + "/" + fmt.Sprint(p.Id))
}

func c02EpochEntriesDir(dir string) [][2]int64 {
	b, err := os.ReadFile(dir + "/leader-epoch-checkpoint")
	if err != nil {
		return nil
	}
	f := strings.Fields(string(b))
	var out [][2]int64
	for i := 2; i+1 < len(f); i += 2 {
		var ep, off int64
		fmt.Sscan(f[i], &ep)
		fmt.Sscan(f[i+1], &off)
		out = append(out, [2]int64{ep, off})
	}
	return out
}

// ---------------------------------------------------------------- actions

func (e *c02Env) hold(id string) {
	e.step("hold(%s)", id)
	e.mu.Lock()
	if e.gates[id] == nil {
		e.gates[id] = make(chan struct{})
	}
	e.mu.Unlock()
}

func (e *c02Env) release(id string) {
	e.step("release(%s)", id)
	e.mu.Lock()
	if g := e.gates[id]; g != nil {
		close(g)
		delete(e.gates, id)
	}
	e.mu.Unlock()
}

func (e *c02Env) leader() *vfNode {
	n, err := e.c.PartitionLeader(e.stream, 0, 40*time.Second)
	if err != nil {
		e.inconclusive(err.Error())
		return nil
	}
	return n
}

// publish sends n tagged messages as raw envelopes over the harness NATS
// connection and waits for acks (policy != NONE) up to the watchdog.
func (e *c02Env) publish(n int, policy client.AckPolicy, wait time.Duration) []*c02Msg {
	e.step("publish(%d,%s)", n, policy)
	inbox := nats.NewInbox()
	sub, err := e.c.NC.SubscribeSync(inbox)
	if err != nil {
		e.inconclusive("ack inbox: " + err.Error())
		return nil
	}
	defer sub.Unsubscribe()
	msgs := make([]*c02Msg, n)
	byCorr := map[string]*c02Msg{}
	for i := range msgs {
		e.nmsg++
		m := &c02Msg{Tag: fmt.Sprintf("%s-%d-m%04d", e.family, e.seed%1000, e.nmsg), Policy: policy, Offset: -1}
		msgs[i] = m
		byCorr[m.Tag] = m
		data, err := proto.MarshalPublish(&client.Message{Value: []byte(m.Tag), Key: []byte(fmt.Sprintf("k%d", e.nmsg%3)), Stream: e.stream,
			Subject: e.subject, AckInbox: inbox, CorrelationId: m.Tag, AckPolicy: policy})
		if err != nil {
			panic(err)
		}
		if err := e.c.NC.Publish(e.subject, data); err != nil {
			e.inconclusive("publish: " + err.Error())
			return msgs
		}
	}
	e.c.NC.Flush()
	if policy == client.AckPolicy_NONE {
		return msgs
	}
	deadline := time.Now().Add(wait)
	got := 0
	for got < n {
		am, err := sub.NextMsg(time.Until(deadline))
		if err != nil {
			break
		}
		ack, err := proto.UnmarshalAck(am.Data)
		if err != nil {
			continue
		}
		m := byCorr[ack.CorrelationId]
		if m == nil || m.Acked {
			continue
		}
		m.Acked = true
		got++
		if ack.AckError != client.Ack_OK {
			m.Err = ack.AckError.String()
			continue
		}
		m.Offset = ack.Offset
		e.logf("ack tag=%s policy=%s offset=%d", m.Tag, policy, ack.Offset)
		if policy == client.AckPolicy_ALL {
			e.mu.Lock()
			e.acked[m.Tag] = ack.Offset
			e.mu.Unlock()
		}
	}
	return msgs
}

// publishAcked publishes rounds of n messages until one round is completely
// acked (a leader change in the middle of a round legitimately drops pending
// acks; the messages may or may not be committed, which the oracle handles).
func (e *c02Env) publishAcked(n int, policy client.AckPolicy, wait time.Duration) bool {
	for round := 0; round < 3; round++ {
		if e.allAcked(e.publish(n, policy, wait)) {
			return true
		}
		wait = 25 * time.Second
	}
	return false
}

func (e *c02Env) allAcked(msgs []*c02Msg) bool {
	for _, m := range msgs {
		if !m.Acked || m.Err != "" {
			return false
		}
	}
	return true
}

func (e *c02Env) pauseReplication(id string) {
	e.step("pauseReplication(%s)", id)
	if p := e.c.Nodes[id].Partition(e.stream, 0); p != nil {
		p.pauseReplication()
	}
}

// unpause clears the test-only pause switch again once the isolated server
// has been deposed (the switch has no reset in the repository; a real
// isolation ends when connectivity returns).
func (e *c02Env) unpause(id string) {
	if p := e.c.Nodes[id].Partition(e.stream, 0); p != nil {
		p.mu.Lock()
		p.pause = false
		p.mu.Unlock()
	}
}

func (e *c02Env) stop(id string) {
	e.step("stop(%s)", id)
	e.observeNode(e.c.Nodes[id], "before-stop")
	if err := e.c.StopNode(id); err != nil {
		e.inconclusive("stop " + id + ": " + err.Error())
	}
}

func (e *c02Env) restart(id string) bool {
	e.step("restart(%s)", id)
	if err := e.c.StartNode(id); err != nil {
		e.inconclusive("restart " + id + ": " + err.Error())
		return false
	}
	ok := vfWait(30*time.Second, func() bool { return e.c.Nodes[id].Partition(e.stream, 0) != nil })
	if !ok {
		e.inconclusive("restarted " + id + " never recovered the partition")
	}
	return ok
}

// waitLeaderNot waits for an agreed leader different from old.
func (e *c02Env) waitLeaderNot(old string) *vfNode {
	var found *vfNode
	ok := vfWait(45*time.Second, func() bool {
		n, err := e.c.PartitionLeader(e.stream, 0, 10*time.Millisecond)
		if err != nil || n.ID == old {
			return false
		}
		found = n
		return true
	})
	if !ok {
		e.inconclusive("no new leader after " + old)
		return nil
	}
	e.step("newLeader=%s", found.ID)
	return found
}

// waitHW waits until the given nodes' HW is >= hw.
func (e *c02Env) waitHW(hw int64, ids ...string) bool {
	ok := vfWait(40*time.Second, func() bool {
		for _, id := range ids {
			n := e.c.Nodes[id]
			if !n.IsUp() {
				continue
			}
			p := n.Partition(e.stream, 0)
			if p == nil || p.log.HighWatermark() < hw || p.log.NewestOffset() < hw {
				return false
			}
		}
		return true
	})
	if !ok {
		e.inconclusive(fmt.Sprintf("HW %d not reached on %v", hw, ids))
	}
	return ok
}

func (e *c02Env) waitISR(size int) bool {
	ok := vfWait(40*time.Second, func() bool {
		l, err := e.c.PartitionLeader(e.stream, 0, 10*time.Millisecond)
		if err != nil {
			return false
		}
		return l.Partition(e.stream, 0).ISRSize() == size
	})
	if !ok {
		e.inconclusive(fmt.Sprintf("ISR size %d not reached", size))
	}
	return ok
}

// ---------------------------------------------------------------- observation + oracle

func (e *c02Env) observeNode(n *vfNode, label string) {
	if n == nil || !n.IsUp() {
		return
	}
	p := n.Partition(e.stream, 0)
	if p == nil {
		return
	}
	defer func() {
		// the log may be closed/replaced underneath us during a leader change
		recover()
	}()
	hw := p.log.HighWatermark() // sample the HW first: content <= HW must be final
	recs, err := vfReadLog(p.log, 0, true)
	if err != nil {
		return
	}
	e.mu.Lock()
	defer e.mu.Unlock()
	if e.lastPart == nil {
		e.lastPart = map[string]*partition{}
	}
	e.lastPart[n.ID] = p
	for _, r := range recs {
		if r.Offset > hw {
			break
		}
		d := c02Digest(r)
		if old, ok := e.committed[r.Offset]; ok {
			if old != d && !e.failed {
				e.failed = true
				what := fmt.Sprintf("replica %s (%s) holds %q (epoch %d) at offset %d which is <= its HW %d, but %s showed %q committed at that offset",
					n.ID, label, r.Value, r.Epoch, r.Offset, hw, e.commitBy[r.Offset], e.tags[r.Offset])
				quiet := e.quietOracle
				fp := "C02:divergence-below-hw" + e.fpClass
				if e.selfAppendedAfterTruncation(n.ID, r) {
					e.selfAppend = fmt.Sprintf("replica %s wrote offset %d itself, under epoch %d which it had led, after it had been deposed and had truncated its log (targets %v)", n.ID, r.Offset, r.Epoch, c02TruncTargets(e.truncs[n.ID]))
					fp += c02SelfAppendSuffix
					what += " [" + e.selfAppend + "; the committed message carries epoch " + fmt.Sprint(e.cepoch[r.Offset]) + "]"
				} else if e.unknownEpoch {
					fp += ":follower-epoch-unknown-to-leader"
				}
				e.mu.Unlock()
				if !quiet {
					e.rep.Violation(fp, what, e.witness())
				}
				e.mu.Lock()
			}
			continue
		}
		e.committed[r.Offset] = d
		if e.cepoch == nil {
			e.cepoch = map[int64]uint64{}
		}
		e.cepoch[r.Offset] = r.Epoch
		e.commitBy[r.Offset] = n.ID + "@" + label
		e.tags[r.Offset] = string(r.Value)
	}
}

func (e *c02Env) observe(label string) {
	for _, n := range e.c.Running() {
		e.observeNode(n, label)
	}
}

// checkLeaderComplete: the current leader must hold every committed offset with
// the committed content, and every positively ALL-acked tag at its acked offset.
func (e *c02Env) checkLeaderComplete(label string) {
	l, err := e.c.PartitionLeader(e.stream, 0, 30*time.Second)
	if err != nil {
		e.inconclusive("leader completeness: " + err.Error())
		return
	}
	p := l.Partition(e.stream, 0)
	recs, err := vfReadLog(p.log, 0, true)
	if err != nil {
		e.inconclusive("leader read: " + err.Error())
		return
	}
	have := map[int64]vfLogRec{}
	for _, r := range recs {
		have[r.Offset] = r
	}
	e.mu.Lock()
	var offs []int64
	for o := range e.committed {
		offs = append(offs, o)
	}
	sort.Slice(offs, func(i, j int) bool { return offs[i] < offs[j] })
	type bad struct {
		fp, what string
		off      int64
	}
	var bads []bad
	for _, o := range offs {
		r, ok := have[o]
		if !ok {
			bads = append(bads, bad{"C02:committed-lost", fmt.Sprintf("leader %s (%s) does not hold committed offset %d (%q, first shown by %s)", l.ID, label, o, e.tags[o], e.commitBy[o]), o})
			break
		}
		if c02Digest(r) != e.committed[o] {
			if e.selfAppend == "" && e.selfAppendedAfterTruncation(l.ID, r) {
				e.selfAppend = fmt.Sprintf("replica %s wrote offset %d itself, under epoch %d which it had led, after it had been deposed and had truncated its log (targets %v)", l.ID, r.Offset, r.Epoch, c02TruncTargets(e.truncs[l.ID]))
			}
			bads = append(bads, bad{"C02:committed-changed", fmt.Sprintf("leader %s (%s) serves %q at committed offset %d, committed content was %q", l.ID, label, r.Value, o, e.tags[o]), o})
			break
		}
	}
	for tag, o := range e.acked {
		r, ok := have[o]
		if !ok || string(r.Value) != tag {
			got := "<missing>"
			if ok {
				got = string(r.Value)
			}
			bads = append(bads, bad{"C02:acked-lost", fmt.Sprintf("message %q was ALL-acked at offset %d but leader %s (%s) has %q there", tag, o, l.ID, label, got), o})
			break
		}
	}
	e.mu.Unlock()
	for _, b := range bads {
		e.failAt(b.fp, b.what, l.ID, b.off)
	}
}

// sampler observes continuously while the scenario runs.
func (e *c02Env) sampler(stop <-chan struct{}, done chan<- struct{}) {
	defer close(done)
	for {
		select {
		case <-stop:
			return
		case <-time.After(40 * time.Millisecond):
		}
		e.observe("sampler")
	}
}

// settle: wait until all running replicas caught up to the leader, then run
// the full oracle.
func (e *c02Env) settle(label string) {
	l := e.leader()
	if l == nil {
		return
	}
	lp := l.Partition(e.stream, 0)
	target := lp.log.NewestOffset()
	ok := vfWait(40*time.Second, func() bool {
		if lp.log.HighWatermark() < target {
			return false
		}
		for _, n := range e.c.Running() {
			p := n.Partition(e.stream, 0)
			if p == nil {
				return false
			}
			e.mu.Lock()
			held := e.gates[n.ID] != nil
			e.mu.Unlock()
			if held {
				continue
			}
			if p.log.NewestOffset() < target || p.log.HighWatermark() < target {
				return false
			}
		}
		return true
	})
	if !ok {
		e.inconclusive(fmt.Sprintf("replicas did not settle at %d (%s)", target, label))
	}
	e.observe(label)
	e.checkLeaderComplete(label)
}

// ---------------------------------------------------------------- scenario families

func c02Others(c *vfCluster, not ...string) []string {
	var out []string
	for _, id := range c.IDs {
		skip := false
		for _, x := range not {
			if x == id {
				skip = true
			}
		}
		if !skip {
			out = append(out, id)
		}
	}
	return out
}

// F1: lagging follower, commit after ISR shrink, leader dies with an
// uncommitted tail, held follower released afterwards.
func c02F1(e *c02Env, rng *kit.RNG) {
	l := e.leader()
	if l == nil {
		return
	}
	if !e.publishAcked(rng.Range(2, 5), client.AckPolicy_ALL, 30*time.Second) {
		e.inconclusive("initial publishes not acked")
		return
	}
	fol := c02Others(e.c, l.ID)
	lag := fol[rng.Intn(2)]
	e.hold(lag)
	if !e.publishAcked(rng.Range(1, 4), client.AckPolicy_ALL, 40*time.Second) {
		e.inconclusive("publishes with a held follower not acked (ISR shrink expected)")
		return
	}
	e.observe("after-shrink-commit")
	// uncommitted tail on the leader
	e.pauseReplication(l.ID)
	e.publish(rng.Range(1, 3), client.AckPolicy_LEADER, 15*time.Second)
	e.stop(l.ID)
	nl := e.waitLeaderNot(l.ID)
	if nl == nil {
		return
	}
	if nl.ID == lag {
		e.logf("NOTE: the held (lagging) follower %s was elected", lag)
	}
	e.checkLeaderComplete("after-failover")
	e.release(lag)
	e.publish(rng.Range(1, 3), client.AckPolicy_ALL, 40*time.Second)
	e.settle("after-release")
	if e.restart(l.ID) {
		e.publish(2, client.AckPolicy_ALL, 40*time.Second)
		e.settle("after-old-leader-rejoin")
	}
}

// F2: double failover; the second leader is only isolated (stays in the Raft
// quorum), the third replica learned the epoch boundary by replication, and
// the first leader rejoins holding an uncommitted tail.
func c02F2(e *c02Env, rng *kit.RNG) {
	l1 := e.leader()
	if l1 == nil {
		return
	}
	if !e.publishAcked(rng.Range(2, 4), client.AckPolicy_ALL, 30*time.Second) {
		e.inconclusive("initial publishes not acked")
		return
	}
	e.settle("initial")
	e.pauseReplication(l1.ID)
	tail := e.publish(rng.Range(1, 3), client.AckPolicy_LEADER, 15*time.Second)
	if !e.allAcked(tail) {
		e.inconclusive("uncommitted tail not written")
		return
	}
	e.stop(l1.ID)
	l2 := e.waitLeaderNot(l1.ID)
	if l2 == nil {
		return
	}
	e.checkLeaderComplete("after-first-failover")
	if !e.publishAcked(rng.Range(2, 4), client.AckPolicy_ALL, 45*time.Second) {
		e.inconclusive("publishes to the second leader not acked")
		return
	}
	third := c02Others(e.c, l1.ID, l2.ID)[0]
	e.settle("second-leader")
	// isolate the second leader at partition level only
	e.pauseReplication(l2.ID)
	var l3 *vfNode
	ok := vfWait(45*time.Second, func() bool {
		p := e.c.Nodes[third].Partition(e.stream, 0)
		if p == nil {
			return false
		}
		ld, _ := p.GetLeader()
		if ld == third && p.IsLeader() {
			l3 = e.c.Nodes[third]
			return true
		}
		return false
	})
	if !ok {
		e.inconclusive("third replica was not elected after isolating the second leader")
		return
	}
	e.step("newLeader=%s", l3.ID)
	e.unpause(l2.ID)
	e.publish(rng.Range(1, 3), client.AckPolicy_LEADER, 20*time.Second)
	if !e.restart(l1.ID) {
		return
	}
	e.publish(2, client.AckPolicy_ALL, 45*time.Second)
	e.settle("after-first-leader-rejoin")
}

// F3: follower restarts while the leader keeps committing.
func c02F3(e *c02Env, rng *kit.RNG) {
	l := e.leader()
	if l == nil {
		return
	}
	e.publish(rng.Range(2, 5), client.AckPolicy_ALL, 30*time.Second)
	fol := c02Others(e.c, l.ID)
	x := fol[rng.Intn(2)]
	e.stop(x)
	e.publish(rng.Range(2, 5), client.AckPolicy_ALL, 45*time.Second)
	if e.restart(x) {
		e.publish(rng.Range(1, 3), client.AckPolicy_ALL, 45*time.Second)
		e.settle("after-follower-restart")
	}
	// now the leader fails with a tail; the restarted follower may be elected
	l = e.leader()
	if l == nil {
		return
	}
	e.pauseReplication(l.ID)
	e.publish(rng.Range(1, 3), client.AckPolicy_LEADER, 15*time.Second)
	e.stop(l.ID)
	if e.waitLeaderNot(l.ID) == nil {
		return
	}
	e.checkLeaderComplete("after-failover")
	e.publish(2, client.AckPolicy_ALL, 45*time.Second)
	if e.restart(l.ID) {
		e.settle("after-rejoin")
	}
}

// F4: shrink -> commit -> catch-up -> expand -> fail the leader.
func c02F4(e *c02Env, rng *kit.RNG) {
	l := e.leader()
	if l == nil {
		return
	}
	e.publish(rng.Range(2, 4), client.AckPolicy_ALL, 30*time.Second)
	fol := c02Others(e.c, l.ID)
	x := fol[rng.Intn(2)]
	e.hold(x)
	if !e.waitISR(2) {
		return
	}
	if !e.publishAcked(rng.Range(2, 5), client.AckPolicy_ALL, 40*time.Second) {
		e.inconclusive("publishes with ISR of 2 not acked")
		return
	}
	e.release(x)
	if !e.waitISR(3) {
		return
	}
	e.publish(rng.Range(1, 3), client.AckPolicy_ALL, 40*time.Second)
	e.settle("after-expand")
	e.pauseReplication(l.ID)
	e.publish(rng.Range(1, 3), client.AckPolicy_LEADER, 15*time.Second)
	e.stop(l.ID)
	if e.waitLeaderNot(l.ID) == nil {
		return
	}
	e.checkLeaderComplete("after-failover")
	e.publish(2, client.AckPolicy_ALL, 45*time.Second)
	if e.restart(l.ID) {
		e.settle("after-rejoin")
	}
}

// F5: seeded random walk over the same actions.
func c02F5(e *c02Env, rng *kit.RNG) {
	steps := rng.Range(6, 11)
	held := ""
	for i := 0; i < steps; i++ {
		e.mu.Lock()
		bad := e.failed || e.inconc
		e.mu.Unlock()
		if bad {
			return
		}
		up := len(e.c.Running())
		switch x := rng.Intn(10); {
		case x < 3:
			e.publish(rng.Range(1, 4), client.AckPolicy_ALL, 45*time.Second)
		case x < 4:
			e.publish(rng.Range(1, 3), client.AckPolicy_LEADER, 20*time.Second)
		case x < 5 && held == "" && up == 3:
			if l := e.leader(); l != nil {
				held = c02Others(e.c, l.ID)[rng.Intn(2)]
				e.hold(held)
			}
		case x < 6 && held != "":
			e.release(held)
			held = ""
		case x < 8 && up == 3:
			// fail the partition leader (with a tail)
			l := e.leader()
			if l == nil {
				return
			}
			if held != "" {
				e.release(held)
				held = ""
			}
			e.pauseReplication(l.ID)
			e.publish(rng.Range(1, 3), client.AckPolicy_LEADER, 15*time.Second)
			stopped := rng.Bool()
			if stopped {
				e.stop(l.ID)
			}
			if e.waitLeaderNot(l.ID) == nil {
				return
			}
			if !stopped {
				e.unpause(l.ID)
			}
			e.checkLeaderComplete("walk-failover")
		case up < 3:
			for _, id := range e.c.IDs {
				if !e.c.Nodes[id].IsUp() {
					e.restart(id)
				}
			}
		default:
			e.publish(1, client.AckPolicy_ALL, 45*time.Second)
		}
		e.observe(fmt.Sprintf("walk-%d", i))
	}
	if held != "" {
		e.release(held)
	}
	for _, id := range e.c.IDs {
		if !e.c.Nodes[id].IsUp() {
			e.restart(id)
		}
	}
	e.publish(2, client.AckPolicy_ALL, 45*time.Second)
	e.settle("walk-end")
}

// F6: ISR re-expansion.  Both followers are held until the leader is alone in
// the ISR; one follower is released, catches up and is held again; the leader
// then commits (alone) and acks new messages; if the leader re-adds the held
// follower to the ISR while that follower's log ends below the leader's HW,
// the leader is stopped and the follower released: it may be elected without
// the committed messages (the generic oracle reports that).
func c02F6(e *c02Env, rng *kit.RNG) {
	l := e.leader()
	if l == nil {
		return
	}
	if !e.publishAcked(rng.Range(2, 4), client.AckPolicy_ALL, 30*time.Second) {
		e.inconclusive("initial publishes not acked")
		return
	}
	fol := c02Others(e.c, l.ID)
	x, y := fol[0], fol[1]
	if rng.Bool() {
		x, y = y, x
	}
	e.hold(x)
	e.hold(y)
	if !e.waitISR(1) {
		return
	}
	lp := l.Partition(e.stream, 0)
	xp := e.c.Nodes[x].Partition(e.stream, 0)
	reached := false
	for attempt := 0; attempt < 6 && !reached; attempt++ {
		e.release(x)
		if !vfWait(20*time.Second, func() bool { return xp.log.NewestOffset() >= lp.log.NewestOffset() }) {
			e.inconclusive("released follower did not catch up")
			return
		}
		e.hold(x)
		// wait until x is parked again (no request in flight)
		time.Sleep(50 * time.Millisecond)
		if !e.publishAcked(rng.Range(1, 3), client.AckPolicy_ALL, 30*time.Second) {
			e.inconclusive("publishes with the follower held again not acked")
			return
		}
		// does the leader re-add x although x is now behind its HW?
		vfWait(2500*time.Millisecond, func() bool {
			in := false
			for _, r := range lp.GetISR() {
				if r == x {
					in = true
				}
			}
			if in && xp.log.NewestOffset() < lp.log.HighWatermark() {
				reached = true
			}
			return reached
		})
	}
	e.mu.Lock()
	e.f6Reached = reached
	e.mu.Unlock()
	if !reached {
		e.step("isr-expansion-while-behind: not observed")
		e.release(x)
		e.release(y)
		e.settle("f6-not-reached")
		return
	}
	e.step("isr-expansion-while-behind: %s in ISR %v with newest=%d < leader HW=%d", x, lp.GetISR(), xp.log.NewestOffset(), lp.log.HighWatermark())
	e.observe("f6-before-kill")
	e.stop(l.ID)
	e.release(x)
	e.release(y)
	nl := e.waitLeaderNot(l.ID)
	if nl == nil {
		return
	}
	e.checkLeaderComplete("after-expansion-failover")
	e.publish(2, client.AckPolicy_ALL, 40*time.Second)
	if e.restart(l.ID) {
		e.settle("f6-end")
	}
}

// F7: fast double failover back to a former leader (the situation Kafka's
// KIP-279 addresses).  Leader b is stopped with an uncommitted tail; a is
// elected, writes uncommitted messages of its own epoch while the third
// replica is held, and is stopped before anything commits; b restarts and may
// be elected again (it is still in the ISR); a rejoins: its last epoch is
// unknown to b.
func c02F7(e *c02Env, rng *kit.RNG) {
	b := e.leader()
	if b == nil {
		return
	}
	if !e.publishAcked(2, client.AckPolicy_ALL, 30*time.Second) {
		e.inconclusive("initial publishes not acked")
		return
	}
	e.settle("f7-initial")
	others := c02Others(e.c, b.ID)
	e.pauseReplication(b.ID)
	if !e.allAcked(e.publish(rng.Range(3, 5), client.AckPolicy_LEADER, 15*time.Second)) {
		e.inconclusive("tail on first leader not written")
		return
	}
	e.stop(b.ID)
	a := e.waitLeaderNot(b.ID)
	if a == nil {
		return
	}
	var c string
	for _, id := range others {
		if id != a.ID {
			c = id
		}
	}
	e.hold(c)
	// a writes under its epoch; nothing can commit while b (dead) and c (held)
	// are in the ISR, i.e. for one lag period: stop a before that.
	if !e.allAcked(e.publish(rng.Range(2, 3), client.AckPolicy_LEADER, 10*time.Second)) {
		e.inconclusive("tail on second leader not written")
		return
	}
	ap := a.Partition(e.stream, 0)
	if ap.ISRSize() != 3 {
		e.inconclusive("ISR already shrunk before the second leader could be stopped")
		return
	}
	e.stop(a.ID)
	if !e.restart(b.ID) {
		return
	}
	e.release(c)
	nl := e.waitLeaderNot(a.ID)
	if nl == nil {
		return
	}
	e.mu.Lock()
	e.f7Reached = nl.ID == b.ID
	e.mu.Unlock()
	e.step("third-leader=%s (former leader re-elected: %v)", nl.ID, nl.ID == b.ID)
	if !e.restart(a.ID) {
		return
	}
	e.publish(3, client.AckPolicy_ALL, 45*time.Second)
	e.settle("f7-end")
}

var c02Families = map[string]func(*c02Env, *kit.RNG){"F1": c02F1, "F2": c02F2, "F3": c02F3, "F4": c02F4, "F5": c02F5, "F6": c02F6, "F7": c02F7, "F8": c02F8, "F9": c02F9, "F10": c02F10, "F11": c02F11}

// TestVerifC02 runs the scenarios of one family (env C02_FAMILY), one after
// the other, each on a fresh cluster.
func TestVerifC02(t *testing.T) {
	family := os.Getenv("C02_FAMILY")
	if family == "" {
		family = "F2"
	}
	rep := kit.NewReport("C02", family)
	defer rep.Write()
	rep.SetRule("fault-sequence scenarios on real 3-server clusters (RF=3): F1 lagging follower + ISR shrink + leader death with uncommitted tail, F2 double failover with a replication-learned epoch boundary and the first leader rejoining with its tail, F3 follower restart then leader death, F4 shrink/commit/expand then leader death, F5 seeded random walks, F6 ISR re-expansion, F7 former leader re-elected, F8 a deposed leader's answer handled after the follower switched leaders (response held at the follower.afterFetch gate), F9 a follower that applies the leader change late keeps fetching with the old epoch from the new leader (partition.setLeader gate), F11 leader death while both followers have received but not stored a batch (answers held at follower.afterFetch, dropped after the leader change), F10 pause + resume of the stream after an ISR shrink and commits, leader death right after the resume, F12 a leader election at the controller in flight while the leader's ISR shrink of the selected (lagging, held) follower is serialised before / between selection and proposal / after it, with ALL messages committed and acknowledged in the gap (c02_electrace_test.go), F13 double failover with exactly 1 (neighbours 0, 2) message in the middle epoch, learned by replication by the third leader, which is silent when the first leader returns with its tail (c02_boundary_test.go), F14 a publisher that keeps sending (NONE) while a deposed leader — live and applying the change late, or restarted with stale metadata and resuming its old epoch — applies the leader change, reconciles and starts following (c02_zombie_test.go); every replica is observed after each step and by a 40 ms sampler (HW first, then log content): offsets <= HW go into one committed table and must agree across replicas and time, every leader must hold all committed offsets and all ALL-acked tags; non-trivial = scenario completed all its steps (no watchdog) and saw >=1 leader change (F12/F13/F14: and reached the situation the family is about, see the f12_/f13_/f14_ counters); distinct = family+seed")
	rep.Assume("network partitions between NATS clients are not simulated: a leader is isolated with the test-only pauseReplication switch and/or Server.Stop(); Stop() checkpoints the HW")
	fn := c02Families[family]
	if fn == nil {
		t.Fatalf("unknown family %s", family)
	}
	n := kit.Scale(1, 10)
	if family == "F5" {
		n = kit.Scale(2, 14)
	}
	if family == "F7" {
		n = kit.Scale(2, 10) // the decisive election outcome is a coin flip
	}
	if family == "F8" || family == "F9" || family == "F11" || family == "F17" {
		n = kit.Scale(2, 8)
	}
	if family == "F10" {
		n = kit.Scale(4, 12) // which in-sync replica the controller picks is a coin flip
	}
	if family == "F12" {
		n = kit.Scale(3, 9) // one scenario per order of the two proposals and round
	}
	if family == "F13" {
		n = kit.Scale(2, 9) // scenario 0 is the boundary case itself, the others its neighbours
	}
	if family == "F14" {
		n = kit.Scale(2, 8) // the two ways of being a deposed leader that does not know yet
	}
	root := kit.NewRNG(kit.Mix(kit.Seed(), uint64(family[1])+uint64(len(family))*1000))
	for i := 0; i < n && rep.NumViolations() < 3; i++ {
		seed := root.Uint64()
		e, err := c02NewEnv(rep, family, seed)
		if err != nil {
			rep.Inconc(fmt.Sprintf("cluster start failed: %v", err))
			continue
		}
		stop, done := make(chan struct{}), make(chan struct{})
		cdone := make(chan struct{})
		go e.sampler(stop, done)
		go e.consumer(stop, cdone)
		fn(e, kit.NewRNG(seed))
		close(stop)
		<-done
		<-cdone
		e.observe("final")
		e.checkServedCommitted()
		rep.Eval()
		e.mu.Lock()
		changes := len(e.elected)
		complete := !e.inconc
		rep.Count("committed_offsets_observed", int64(len(e.committed)))
		rep.Count("all_acks", int64(len(e.acked)))
		rep.Count("leader_elections_seen", int64(changes))
		rep.Count("offset_responses_from_replication_learned_boundary", int64(e.learned))
		rep.Count("trace_events", int64(len(e.trace)))
		rep.Count("messages_served_to_attached_consumer", int64(e.nserved))
		if e.f6Reached {
			rep.Count("f6_isr_member_behind_leader_hw_reached", 1)
		}
		if e.f7Reached {
			rep.Count("f7_former_leader_reelected_reached", 1)
		}
		if e.f8Reached {
			rep.Count("f8_deposed_leaders_answer_handled_after_the_follower_switched", 1)
		}
		if e.f11Reached {
			rep.Count("f11_leader_died_with_batch_received_but_not_stored_by_followers", 1)
		}
		if e.f10Reached {
			rep.Count("f10_pause_resume_after_isr_shrink_reached", 1)
		}
		if e.f9Reached {
			rep.Count("f9_stale_epoch_fetches_sent_while_new_leader_led", int64(e.staleFetches))
		}
		for k, v := range e.counts {
			rep.Count(k, v)
		}
		covered := e.covered
		steps := append([]string(nil), e.steps...)
		e.mu.Unlock()
		if (family == "F12" || family == "F13" || family == "F14" || family == "F17") && !covered {
			complete = false // ran, but did not reach the situation the family is about
		}
		if complete && (changes >= 2 || family == "F6" || family == "F12") && (family != "F8" || e.f8Reached) && (family != "F9" || e.f9Reached) && (family != "F11" || e.f11Reached) {
			rep.Nontrivial(fmt.Sprintf("%s/%d", family, seed))
		}
		rep.Sample(map[string]any{"family": family, "seed": seed, "steps": steps})
		if os.Getenv("C02_TRACE") != "" {
			e.mu.Lock()
			fmt.Fprintf(os.Stderr, "---- full trace %s/%d\n%s\n----\n", family, seed, strings.Join(e.trace, "\n"))
			e.mu.Unlock()
		}
		e.close()
	}
}

var _ = context.Background
