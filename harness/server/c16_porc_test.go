//go:build verif && verifporc

package server

// C16 — linearizability of the client-boundary publish history against the
// sequential model of a partition with optimistic concurrency control.

import (
	"fmt"
	"sort"
	"strings"
	"time"

	"github.com/anishathalye/porcupine"
)

type c16In struct {
	ID int
	E  int64
}

type c16Outp struct {
	OK  bool
	Off int64
}

// c16Model: state = next offset of the partition.  publish(e) succeeds iff
// e = -1 or e = state, returns the old state and moves to state+1; otherwise
// it is answered INCORRECT_OFFSET and the state does not change.
var c16Model = porcupine.Model{
	Init: func() interface{} { return int64(0) },
	Step: func(state, input, output interface{}) (bool, interface{}) {
		s := state.(int64)
		in := input.(c16In)
		out := output.(c16Outp)
		pass := in.E == -1 || in.E == s
		if out.OK {
			if !pass || out.Off != s {
				return false, s
			}
			return true, s + 1
		}
		if pass {
			return false, s
		}
		return true, s
	},
	Equal: func(a, b interface{}) bool { return a.(int64) == b.(int64) },
	DescribeOperation: func(input, output interface{}) string {
		in := input.(c16In)
		out := output.(c16Outp)
		if out.OK {
			return fmt.Sprintf("#%d publish(e=%d) -> ok@%d", in.ID, in.E, out.Off)
		}
		return fmt.Sprintf("#%d publish(e=%d) -> INCORRECT_OFFSET", in.ID, in.E)
	},
	DescribeState: func(state interface{}) string { return fmt.Sprintf("next=%d", state.(int64)) },
}

func init() {
	c16Linearize = func(ops []*c16Op, timeout time.Duration) (string, string) {
		var hist []porcupine.Operation
		for _, o := range ops {
			var out c16Outp
			switch {
			case o.Out == c16OutOK:
				out = c16Outp{OK: true, Off: o.Off}
			case o.Out == c16OutRejected:
				out = c16Outp{}
			case o.Out == c16OutOpen && o.Fate == "stored":
				// decided from the final log; return time = end of history
				out = c16Outp{OK: true, Off: o.Off}
			default:
				// refused before anything was sent, or open and never applied
				continue
			}
			hist = append(hist, porcupine.Operation{ClientId: o.Pub, Input: c16In{ID: o.ID, E: o.E}, Call: o.Call, Output: out, Return: o.Ret})
		}
		res, info := porcupine.CheckOperationsVerbose(c16Model, hist, timeout)
		switch res {
		case porcupine.Ok:
			return "ok", ""
		case porcupine.Unknown:
			return "unknown", ""
		}
		// Illegal: describe the longest partial linearization and the
		// operations that could not be placed after it.
		desc := ""
		if pl := info.PartialLinearizationsOperations(); len(pl) > 0 {
			var longest []porcupine.Operation
			for _, l := range pl[0] {
				if len(l) > len(longest) {
					longest = l
				}
			}
			placed := map[int]bool{}
			next := int64(0)
			for _, op := range longest {
				placed[op.Input.(c16In).ID] = true
				if op.Output.(c16Outp).OK {
					next++
				}
			}
			var stuck []porcupine.Operation
			for _, op := range hist {
				if !placed[op.Input.(c16In).ID] {
					stuck = append(stuck, op)
				}
			}
			sort.Slice(stuck, func(i, j int) bool { return stuck[i].Call < stuck[j].Call })
			var sb strings.Builder
			fmt.Fprintf(&sb, "longest linearizable prefix has %d of %d operations and ends with next offset %d; first operations that cannot follow: ", len(longest), len(hist), next)
			for i, op := range stuck {
				if i == 4 {
					break
				}
				fmt.Fprintf(&sb, "%s [%d,%d]; ", c16Model.DescribeOperation(op.Input, op.Output), op.Call, op.Return)
			}
			desc = sb.String()
		}
		return "illegal", desc
	}
}
