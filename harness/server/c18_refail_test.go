//go:build verif

package server

// C18 — REPEATED failures of ONE event, and a dispatcher that stops retrying.
//
// The dispatcher publishes the committed operations head-of-line: an event that
// cannot be published is retried with a growing back-off (1, 2, 4, 8, 10, 10 ...
// seconds) and everything committed later waits behind it.  The other C18 units
// inject at most two faults per event and judge a dispatcher that never comes
// back only by the watchdog (inconclusive).  This file adds
//
//   - the unit `refail`: k = 1..5 consecutive failed attempts of ONE event
//     (publish failing, bookkeeping failing, alternating, the attempt outliving
//     its own timeout), at the positions first event of a fresh controller /
//     first event after a restart / in the middle of a busy stream / last event
//     before a quiet period, two different events failing back to back, REAL
//     unavailability (the activity stream read-only for as long as it takes the
//     dispatcher to fail m times; in a cluster a replica of __activity stopped so
//     that publishes with ack policy ALL time out until the ISR shrinks / a new
//     partition leader is there), and the controller stopped while the
//     dispatcher sits in the back-off after its j-th failure;
//
//   - a stuck-state predicate used by EVERY C18 unit while it waits for the
//     fence (c18Env.dispatcherParked) and whenever a unit stops a server
//     (c18Env.stopNode): the goroutine that runs this server's
//     activityManager.dispatch is parked, in dispatch's own body, in a wait that
//     is not a `select` (plain channel receive / send, lock, condition variable),
//     and stays exactly there - same goroutine, same source line, same wait
//     reason, no new publish attempt at the hook, last-published index unchanged
//     - over inspections that span more than the longest back-off plus a publish
//     timeout.  Every wait of the dispatcher that has a way out (a new commit,
//     the back-off timer, leadership loss, shutdown) is either a select or sits in
//     a callee (api.Publish, the Raft future); a plain wait in the loop itself
//     that outlasts the longest back-off has none: the pending event and
//     everything after it is never listed, and Server.Stop() - which waits for
//     the goroutine - never returns.  The time span is a LOWER bound (it excludes
//     a wait that ends by a timer); a longer one never turns a healthy dispatcher
//     into a stuck one, because a healthy one is found in a select, in a callee,
//     or at a new attempt.

import (
	"errors"
	"fmt"
	"regexp"
	"runtime"
	"sort"
	"strings"
	"testing"
	"time"

	"github.com/hashicorp/raft"

	kit "github.com/liftbridge-io/liftbridge/internal/verifkit"
)

// ---------------------------------------------------------------- the dispatcher goroutine

// c18DispGoroutine: what a goroutine dump says about one goroutine that
// executes activityManager.dispatch.
type c18DispGoroutine struct {
	Gid    string // goroutine number
	Reason string // wait reason of the header line ("select", "chan receive", "running", ...)
	Recv   string // receiver pointer of the dispatch frame ("" when the dump does not show it)
	// OwnLoc is "file:line" of the dispatch frame when dispatch is the innermost
	// frame outside the runtime / sync / time packages, i.e. when the goroutine
	// waits in the loop's own body and not in something it called; "" otherwise.
	OwnLoc string
	Inner  string // innermost frame outside runtime / sync / time
	Stack  string
}

var (
	c18GoHeaderRe   = regexp.MustCompile(`^goroutine (\d+) \[([^\]]*)\]:`)
	c18DispRecvRe   = regexp.MustCompile(`\(\*activityManager\)\.dispatch\((0x[0-9a-f]+)?`)
	c18ParkedReason = map[string]bool{
		"chan receive": true, "chan send": true, "chan receive (nil chan)": true, "chan send (nil chan)": true,
		"select (no cases)": true, "sync.Mutex.Lock": true, "sync.RWMutex.RLock": true, "sync.RWMutex.Lock": true,
		"semacquire": true, "sync.Cond.Wait": true, "sync.WaitGroup.Wait": true,
	}
)

// c18DispatchGoroutines lists the goroutines of this process that execute
// activityManager.dispatch.
func c18DispatchGoroutines() []c18DispGoroutine {
	buf := make([]byte, 16<<20)
	n := runtime.Stack(buf, true)
	var out []c18DispGoroutine
	for _, g := range strings.Split(string(buf[:n]), "\n\n") {
		if !strings.Contains(g, "(*activityManager).dispatch(") {
			continue
		}
		lines := strings.Split(strings.TrimSpace(g), "\n")
		h := c18GoHeaderRe.FindStringSubmatch(lines[0])
		if h == nil {
			continue
		}
		d := c18DispGoroutine{Gid: h[1], Reason: strings.TrimSpace(strings.Split(h[2], ",")[0]), Stack: g}
		if len(d.Stack) > 6000 {
			d.Stack = d.Stack[:6000]
		}
		if m := c18DispRecvRe.FindStringSubmatch(g); m != nil {
			d.Recv = m[1]
		}
		for i := 1; i+1 < len(lines); i += 2 {
			fn := lines[i]
			if strings.HasPrefix(fn, "created by ") {
				break
			}
			if strings.HasPrefix(fn, "runtime.") || strings.HasPrefix(fn, "sync.") || strings.HasPrefix(fn, "sync/") ||
				strings.HasPrefix(fn, "internal/") || strings.HasPrefix(fn, "time.") {
				continue
			}
			d.Inner = fn
			if strings.Contains(fn, "(*activityManager).dispatch(") {
				loc := strings.TrimSpace(lines[i+1])
				if k := strings.Index(loc, " +0x"); k > 0 {
					loc = loc[:k]
				}
				d.OwnLoc = loc
			}
			break
		}
		out = append(out, d)
	}
	return out
}

// c18ParkedDispatcherOf returns the goroutine that runs srv's dispatcher and is
// parked, in dispatch's own body, in a wait that is not a select (nil: there is
// none, or the dump does not tell whose dispatcher it is).
func c18ParkedDispatcherOf(srv *Server) *c18DispGoroutine {
	all := c18DispatchGoroutines()
	want := fmt.Sprintf("%p", srv.activity)
	for i := range all {
		d := &all[i]
		if d.OwnLoc == "" || !c18ParkedReason[d.Reason] {
			continue
		}
		if d.Recv == want || (d.Recv == "" && len(all) == 1) {
			return d
		}
	}
	return nil
}

// c18ParkObs: successive inspections that found the same parked state.
type c18ParkObs struct {
	key   string
	first time.Time
	last  time.Time
	n     int
}

// c18ParkSpan is the lower bound of the observation span: longer than any wait
// of a dispatcher that ends by itself (the longest back-off, one publish
// attempt) - see the file comment.
func c18ParkSpan(srv *Server) time.Duration {
	return maxActivityPublishBackoff + srv.config.ActivityStream.PublishTimeout + 2*time.Second
}

// attemptCount: everything the hooks have seen of the dispatchers so far; it
// changes with every publish attempt.
func (e *c18Env) attemptCount() int {
	e.mu.Lock()
	defer e.mu.Unlock()
	n := e.hitsBefore + e.hitsAfter + e.nFail + e.nDup + e.gateWaiting
	if e.plan != nil {
		n += e.plan.hooksSeen
	}
	return n
}

// observeParked does one inspection (at most one per 700 ms) and returns a
// description once the same parked state has been seen on >= 3 inspections
// spanning c18ParkSpan.  extra is whatever else must stay unchanged.
func (e *c18Env) observeParked(srv *Server, extra string) (what, stack string) {
	now := time.Now()
	if !e.park.last.IsZero() && now.Sub(e.park.last) < 700*time.Millisecond {
		return "", ""
	}
	d := c18ParkedDispatcherOf(srv)
	e.rep.Count("dispatcher_goroutine_inspections", 1)
	if d == nil {
		e.rep.Count("dispatcher_goroutine_inspections_that_found_it_in_a_select_/_a_callee_/_running_/_gone", 1)
		e.park = c18ParkObs{last: now}
		return "", ""
	}
	key := fmt.Sprintf("g%s|%s|%s|attempts=%d|%s", d.Gid, d.Reason, d.OwnLoc, e.attemptCount(), extra)
	if key != e.park.key {
		e.park = c18ParkObs{key: key, first: now, last: now, n: 1}
		return "", ""
	}
	e.park.n++
	e.park.last = now
	span := c18ParkSpan(srv)
	if e.park.n < 3 || now.Sub(e.park.first) < span {
		return "", ""
	}
	e.rep.Count("parked_dispatcher_inspections_that_led_to_a_verdict", int64(e.park.n))
	return fmt.Sprintf("goroutine %s, which runs the activity dispatcher of server %s, is parked in [%s] at %s - in the body of activityManager.dispatch itself, not in a select and not in a callee - and was found exactly there on %d successive inspections over %.1f s (more than the longest back-off %s plus a publish timeout %s), with no publish attempt reaching the hooks in between; a wait of the dispatch loop that has a way out (new commit, back-off timer, leadership loss, shutdown) is a select",
		d.Gid, srv.config.Clustering.ServerID, d.Reason, d.OwnLoc, e.park.n, now.Sub(e.park.first).Seconds(), maxActivityPublishBackoff, srv.config.ActivityStream.PublishTimeout), d.Stack
}

// dispatcherParked is the stuck-state predicate for a wait on pendingIdx (a
// committed listed operation that is not recorded as published): srv is and
// stays the metadata leader in one Raft term, the harness holds no publish at
// its gate, the last-published index stays behind pendingIdx and does not move,
// and the dispatcher goroutine is parked outside a select (observeParked).
func (e *c18Env) dispatcherParked(srv *Server, pendingIdx uint64) (what, stack string) {
	if srv == nil || !srv.config.ActivityStream.Enabled || !srv.IsRunning() {
		return "", ""
	}
	rn := srv.getRaft()
	if rn == nil || !srv.IsLeader() || rn.State() != raft.Leader {
		e.park = c18ParkObs{}
		return "", ""
	}
	last := srv.activity.LastPublishedRaftIndex()
	if last >= pendingIdx {
		e.park = c18ParkObs{}
		return "", ""
	}
	e.mu.Lock()
	gated := e.gate != nil
	e.mu.Unlock()
	if gated {
		return "", ""
	}
	what, stack = e.observeParked(srv, fmt.Sprintf("term=%s|lastPublished=%d", rn.Stats()["term"], last))
	if what == "" {
		return "", ""
	}
	return fmt.Sprintf("the committed operation #%d is pending (last published Raft index %d, Raft term %s unchanged, server still metadata leader) and %s: the pending event and everything committed after it is never listed while this server stays controller",
		pendingIdx, last, rn.Stats()["term"], what), stack
}

// failParked reports the stuck state.
func (e *c18Env) failParked(what, stack string, events []c18Event) {
	e.absorbAll()
	ops, _, _ := e.listedOps()
	w := e.witness(events, ops)
	w["dispatcher_goroutine"] = stack
	e.mu.Lock()
	e.failed = true
	e.parkReported = true
	if e.plan != nil {
		w["fault_plan"] = e.plan.describe()
	}
	e.mu.Unlock()
	e.rep.Violation("C18:"+e.unit+":stuck:dispatcher-parked-outside-select", fmt.Sprintf("[%s run %d] %s", e.unit, e.run, what), w)
}

// ---------------------------------------------------------------- stopping a server, judged

// stopNode stops a server like vfCluster.StopNode, but does not hang with it:
// Server.Stop() waits for the server's goroutines, the dispatcher among them.
// While Stop() has not returned and the shutdown channel is closed, the parked-
// dispatcher predicate is evaluated; a Stop() that does not return for any
// other reason is left to the watchdog (inconclusive).  false: the server did
// not stop (the scenario must end).
func (e *c18Env) stopNode(id string) bool {
	n := e.c.Nodes[id]
	if n == nil {
		return true
	}
	srv := n.Server()
	if srv == nil {
		return true
	}
	done := make(chan error, 1)
	go func() { done <- e.c.StopNode(id) }()
	wd := time.After(90 * time.Second)
	if e.parkReported {
		// the parked dispatcher has been reported; Stop() will wait for it
		select {
		case <-done:
			return true
		case <-time.After(3 * time.Second):
			e.logf("Server.Stop() of %s does not return (parked dispatcher already reported)", id)
			return false
		}
	}
	tick := time.NewTicker(200 * time.Millisecond)
	defer tick.Stop()
	e.park = c18ParkObs{}
	for {
		select {
		case err := <-done:
			if err != nil {
				e.logf("stop %s: %v", id, err)
			}
			e.rep.Count("server_stops_that_returned", 1)
			return true
		case <-wd:
			buf := make([]byte, 8<<20)
			e.inconclusive(fmt.Sprintf("watchdog: Server.Stop() of %s did not return; blocked server goroutines: %s", id, c18HangSummary(string(buf[:runtime.Stack(buf, true)]))))
			return false
		case <-tick.C:
			select {
			case <-srv.shutdownCh:
			default:
				continue // Stop() has not got as far as announcing the shutdown
			}
			what, stack := e.observeParked(srv, "stopping")
			if what == "" {
				continue
			}
			e.failParked(fmt.Sprintf("Server.Stop() of %s does not return: the shutdown channel is closed, Stop() waits for the server's goroutines, and %s: a controller in this state can be neither stopped nor restarted, its pending operations are never listed", id, what), stack, nil)
			return false
		}
	}
}

// ---------------------------------------------------------------- fault plan: k failures of ONE event

// c18Plan: sequences of faults, each bound to ONE event.  A sequence is a
// string over
//
//	P  the publish fails (error returned at activity.beforePublish)
//	B  the event is published but the bookkeeping fails (error at activity.afterPublish)
//	T  the attempt outlives its own timeout (the hook returns only after the
//	   context of this attempt has expired; the real api.Publish / Raft apply then
//	   fail - or not - on their own)
//
// The next event with a Raft index >= minIndex that the dispatcher attempts and
// that has no sequence yet takes the next pending sequence; every attempt of
// that event consumes one letter, so the event fails len(sequence) times IN A
// ROW before it is let through.
type c18Plan struct {
	minIndex  uint64
	pending   []string
	rem       map[uint64]string
	given     map[uint64]string
	tries     map[uint64]int // attempts of the event by the current controller incarnation
	fails     map[uint64]int // injected faults consumed by the event, all incarnations
	okAfter   map[uint64]bool
	hooksSeen int
	hist      map[int]int // events by the number of failed attempts in a row before the one that went through
	timeout   time.Duration
	log       []string
}

func c18NewPlan() *c18Plan {
	return &c18Plan{rem: map[uint64]string{}, given: map[uint64]string{}, tries: map[uint64]int{}, fails: map[uint64]int{},
		okAfter: map[uint64]bool{}, hist: map[int]int{}}
}

func (p *c18Plan) describe() []string {
	out := append([]string(nil), p.log...)
	ids := make([]uint64, 0, len(p.given))
	for id := range p.given {
		ids = append(ids, id)
	}
	sort.Slice(ids, func(i, j int) bool { return ids[i] < ids[j] })
	for _, id := range ids {
		out = append(out, fmt.Sprintf("event #%d: planned %q, faults consumed %d, left %q, attempts by the current controller %d", id, p.given[id], p.fails[id], p.rem[id], p.tries[id]))
	}
	return out
}

// arm queues fault sequences for the next events with index >= minIndex.
func (e *c18Env) arm(minIndex uint64, seqs ...string) {
	e.mu.Lock()
	e.plan.minIndex = minIndex
	e.plan.pending = append(e.plan.pending, seqs...)
	e.plan.log = append(e.plan.log, fmt.Sprintf("armed %q for the next events with Raft index >= %d", seqs, minIndex))
	e.tracef("plan: armed %q for events >= %d", seqs, minIndex)
	e.mu.Unlock()
}

// newIncarnation: a controller (re)starts; its dispatcher's back-off starts over.
func (e *c18Env) newIncarnation() {
	e.mu.Lock()
	e.plan.tries = map[uint64]int{}
	e.mu.Unlock()
}

// installPlanHooks installs the plan's handlers (instead of installHooks).
func (e *c18Env) installPlanHooks() {
	e.plan = c18NewPlan()
	e.mu.Lock()
	e.faultsOn = true
	e.mu.Unlock()
	e.removers = append(e.removers, vfHooks.On("activity.beforePublish", func(a ...interface{}) error {
		sid, _ := a[0].(string)
		if !strings.HasPrefix(sid, e.prefix) {
			return nil
		}
		id, _ := a[1].(uint64)
		e.mu.Lock()
		p := e.plan
		p.hooksSeen++
		e.hitsBefore++
		p.tries[id]++
		if _, ok := p.given[id]; !ok && e.faultsOn && len(p.pending) > 0 && id >= p.minIndex {
			p.given[id], p.rem[id] = p.pending[0], p.pending[0]
			p.pending = p.pending[1:]
		}
		var f byte
		if r := p.rem[id]; r != "" && e.faultsOn {
			f = r[0]
		}
		switch f {
		case 'P':
			p.rem[id] = p.rem[id][1:]
			p.fails[id]++
			e.nFail++
			e.tracef("hook beforePublish server=%s id=%d attempt %d -> INJECT publish failure (%d of %q)", sid, id, p.tries[id], p.fails[id], p.given[id])
			e.mu.Unlock()
			return errors.New("c18: injected publish failure")
		case 'T':
			p.rem[id] = p.rem[id][1:]
			p.fails[id]++
			e.nFail++
			d := p.timeout + 40*time.Millisecond
			e.tracef("hook beforePublish server=%s id=%d attempt %d -> attempt held for %s, beyond its own timeout (%d of %q)", sid, id, p.tries[id], d, p.fails[id], p.given[id])
			e.mu.Unlock()
			time.Sleep(d)
			return nil
		}
		e.tracef("hook beforePublish server=%s id=%d attempt %d", sid, id, p.tries[id])
		e.mu.Unlock()
		return nil
	}))
	e.removers = append(e.removers, vfHooks.On("activity.afterPublish", func(a ...interface{}) error {
		sid, _ := a[0].(string)
		if !strings.HasPrefix(sid, e.prefix) {
			return nil
		}
		id, _ := a[1].(uint64)
		e.mu.Lock()
		defer e.mu.Unlock()
		p := e.plan
		p.hooksSeen++
		e.hitsAfter++
		if r := p.rem[id]; r != "" && r[0] == 'B' && e.faultsOn {
			p.rem[id] = r[1:]
			p.fails[id]++
			e.nDup++
			e.tracef("hook afterPublish server=%s id=%d attempt %d -> INJECT published-but-not-recorded (%d of %q)", sid, id, p.tries[id], p.fails[id], p.given[id])
			return errors.New("c18: injected failure to record the published index")
		}
		// this attempt has published the event and goes on to record it
		if !p.okAfter[id] {
			p.okAfter[id] = true
			p.hist[p.tries[id]-1]++
		}
		e.tracef("hook afterPublish server=%s id=%d attempt %d", sid, id, p.tries[id])
		return nil
	}))
}

// failsOfArmed: the newest event that was given a fault sequence, read from the hook counters.
func (e *c18Env) failsOfArmed() (id uint64, fails, tries int) {
	e.mu.Lock()
	defer e.mu.Unlock()
	for i := range e.plan.given {
		if i > id {
			id = i
		}
	}
	return id, e.plan.fails[id], e.plan.tries[id]
}

// triesNow copies the attempt counters; newTries returns the event with the
// most attempts begun since such a copy was taken (the event at the head of the
// line, whichever it is).
func (e *c18Env) triesNow() map[uint64]int {
	e.mu.Lock()
	defer e.mu.Unlock()
	out := make(map[uint64]int, len(e.plan.tries))
	for id, n := range e.plan.tries {
		out[id] = n
	}
	return out
}

func (e *c18Env) newTries(base map[uint64]int) (id uint64, n int) {
	e.mu.Lock()
	defer e.mu.Unlock()
	for i, t := range e.plan.tries {
		if d := t - base[i]; d > n || (d == n && d > 0 && i < id) {
			id, n = i, d
		}
	}
	return id, n
}

// c18Seq builds a fault sequence of length k.
func c18Seq(kind, k int, rng *kit.RNG) string {
	b := make([]byte, k)
	for i := range b {
		switch kind {
		case 0:
			b[i] = 'P'
		case 1:
			b[i] = 'B'
		case 2:
			b[i] = "PB"[i%2]
		case 3:
			b[i] = "BP"[i%2]
		case 5:
			b[i] = 'T'
		default:
			b[i] = "PB"[rng.Intn(2)]
		}
	}
	return string(b)
}

// lastListed: index of the newest committed listed operation known.
func (e *c18Env) lastListed() uint64 {
	e.absorbAll()
	if ops, _, _ := e.listedOps(); len(ops) > 0 {
		return ops[len(ops)-1].Index
	}
	return 0
}

// awaitPublished waits (watchdog: the scenario just goes on) until the
// controller has recorded every listed operation committed so far; the parked-
// dispatcher predicate is evaluated meanwhile.  false: the scenario has failed.
func (e *c18Env) awaitPublished(d time.Duration) bool {
	srv := e.c.metaLeaderNow()
	if srv == nil {
		return true
	}
	target := e.lastListed()
	deadline := time.Now().Add(d)
	for time.Now().Before(deadline) && !e.bad() {
		if srv.activity.LastPublishedRaftIndex() >= target {
			return true
		}
		if e.c.metaLeaderNow() == srv {
			if what, stack := e.dispatcherParked(srv, target); what != "" {
				e.failParked(what, stack, nil)
				return false
			}
		}
		time.Sleep(25 * time.Millisecond)
	}
	return !e.bad()
}

// awaitFaults waits (watchdog: the rest of the plan is dropped and counted)
// until the dispatcher has consumed every fault of the plan, so that the fence
// does not cut a sequence short; the parked-dispatcher predicate is evaluated
// meanwhile.
func (e *c18Env) awaitFaults(d time.Duration) {
	target := e.lastListed()
	deadline := time.Now().Add(d)
	for time.Now().Before(deadline) && !e.bad() {
		e.mu.Lock()
		queued, left := len(e.plan.pending), 0
		for _, r := range e.plan.rem {
			left += len(r)
		}
		e.mu.Unlock()
		srv := e.c.metaLeaderNow()
		if left == 0 && (queued == 0 || (srv != nil && srv.activity.LastPublishedRaftIndex() >= target)) {
			return
		}
		if srv != nil {
			if what, stack := e.dispatcherParked(srv, target); what != "" {
				e.failParked(what, stack, nil)
				return
			}
		}
		time.Sleep(25 * time.Millisecond)
	}
}

// ---------------------------------------------------------------- the unit

const (
	c18RefailSeq      = 0 // one event, k faults in a row from the hooks
	c18RefailPair     = 1 // two different events back to back
	c18RefailReadonly = 2 // __activity really read-only until the dispatcher has failed m times
	c18RefailTimeout  = 3 // attempts that outlive their own timeout
	c18RefailStop     = 4 // controller stopped in the back-off after the j-th failure
	c18RefailCluster  = 5 // 3 servers, a replica of __activity stopped
)

// c18Refail runs one scenario.  k: failures in a row (pair: 10*k1+k2; read-only /
// cluster: failed attempts awaited); kind: the letters of the sequence.
func c18Refail(rep *kit.Report, run int, seed uint64, class, k, kind int) {
	if class == c18RefailCluster {
		c18RefailInCluster(rep, run, seed, k)
		return
	}
	e := c18NewEnv(rep, "refail", run, seed)
	rng := e.rng
	e.installPlanHooks()
	e.noAuto = true
	timeout := 2 * time.Second
	if class == c18RefailTimeout {
		timeout = time.Duration(rng.Range(150, 400)) * time.Millisecond
		kind = 5
	}
	e.plan.timeout = timeout
	// position of the failing event
	const (
		posMid = iota
		posAfterRestart
		posBeforeQuiet
		posVeryFirst
	)
	pos := rng.Intn(4)
	if class != c18RefailSeq && class != c18RefailTimeout {
		pos = []int{posMid, posBeforeQuiet}[rng.Intn(2)]
	}
	var seqs []string
	switch class {
	case c18RefailPair:
		seqs = []string{c18Seq(rng.Intn(5), k/10, rng), c18Seq(rng.Intn(5), k%10, rng)}
	case c18RefailReadonly:
	default:
		seqs = []string{c18Seq(kind, k, rng)}
	}
	if pos == posVeryFirst {
		// the first event a fresh controller ever publishes (the creation of
		// __activity itself)
		e.arm(0, seqs...)
	}
	c, _, err := vfSingle("c18f", e.mut(func(cfg *Config) {
		cfg.Groups.ConsumerTimeout = time.Hour
		cfg.ActivityStream.PublishTimeout = timeout
	}))
	if err != nil {
		rep.Inconc(fmt.Sprintf("[refail run %d] server start failed: %v", run, err))
		return
	}
	e.c = c
	defer e.close()
	e.attach("a")
	posName := []string{"mid-stream", "first-after-restart", "last-before-quiet", "first-of-a-fresh-controller"}[pos]
	e.step("refail(class=%d,k=%d,seq=%q,position=%s,publishTimeout=%s)", class, k, seqs, posName, timeout)
	gen := func(lo, hi int) {
		for i, n := 0, rng.Range(lo, hi); i < n && !e.bad(); i++ {
			e.doOp(e.genOp(1, false))
		}
	}
	commit := func() uint64 {
		if srv := e.c.metaLeaderNow(); srv != nil && srv.getRaft() != nil {
			return srv.getRaft().getCommitIndex()
		}
		return 0
	}
	gen(2, 4)
	switch {
	case e.bad():
	case class == c18RefailReadonly:
		// REAL unavailability: every attempt is refused by the read-only stream,
		// for as long as it takes the dispatcher to fail k times on ONE event: the
		// event at the head of the line (the read-only operation's own, or an
		// earlier one when the dispatcher is behind)
		base := e.triesNow()
		e.doOp(c18Op{Kind: "readonly", Stream: c18ActivityStream, Flag: true})
		gen(0, 3) // pile up behind it
		got := vfWait(60*time.Second, func() bool { _, n := e.newTries(base); return n >= k || e.bad() })
		head, n := e.newTries(base)
		e.step("readonly-held(event #%d, failed attempts seen %d, wanted %d)", head, n, k)
		if !got {
			// watchdog: fewer failures than planned, or a dispatcher that has stopped
			// retrying - lift the fault and let the predicates decide
			e.logf("the dispatcher did not make %d attempts while %s was read-only", k, c18ActivityStream)
		}
		rep.Count("refail_real_failed_attempts_while_the_activity_stream_was_read-only", int64(n))
		e.doOp(c18Op{Kind: "readonly", Stream: c18ActivityStream, Flag: false})
		if pos == posBeforeQuiet {
			e.awaitPublished(60 * time.Second)
		}
	case class == c18RefailStop:
		e.arm(commit()+1, seqs...)
		gen(1, 1)
		gen(0, 2)
		j := rng.Range(1, k)
		ok := vfWait(60*time.Second, func() bool { _, f, _ := e.failsOfArmed(); return f >= j || e.bad() })
		id, f, _ := e.failsOfArmed()
		e.step("stop-in-back-off(event #%d, after failure %d of %d)", id, f, k)
		if !ok {
			e.logf("the dispatcher did not reach failure %d of event #%d", j, id)
		}
		rep.Count("refail_controller_stopped_in_the_back-off_after_failure_j", 1)
		e.newIncarnation()
		if !e.restartNode("a") || e.leader() == nil {
			e.account()
			return
		}
	case pos == posVeryFirst:
		// armed before the start; the warm-up operations above are already piled
		// up behind the failing first event
	case pos == posAfterRestart:
		e.awaitPublished(60 * time.Second)
		e.arm(commit()+1, seqs...)
		e.newIncarnation()
		if !e.restartNode("a") || e.leader() == nil {
			e.account()
			return
		}
		gen(1, 1)
		gen(0, 2)
	case pos == posBeforeQuiet:
		e.arm(commit()+1, seqs...)
		gen(1, 1)
		if len(seqs) > 1 {
			gen(1, 1)
		}
		// quiet: nothing is committed until the dispatcher has got through on its
		// own (only its back-off timer wakes it up)
		e.awaitPublished(90 * time.Second)
	default:
		e.arm(commit()+1, seqs...)
		gen(1, 1)
		gen(1, 4) // operations piling up behind the failing event
	}
	if !e.bad() {
		gen(1, 3)
		if rng.Bool() {
			e.awaitPublished(90 * time.Second)
			gen(1, 2)
		}
	}
	e.awaitFaults(90 * time.Second)
	e.finish(fmt.Sprintf("fence%d", run))
	e.refailAccount(class, k, posName)
}

// refailAccount: evidence of what the dispatchers were really put through.
func (e *c18Env) refailAccount(class, k int, posName string) {
	e.account()
	e.mu.Lock()
	maxk, hist := 0, map[int]int{}
	for kk, n := range e.plan.hist {
		hist[kk] = n
		if kk > maxk {
			maxk = kk
		}
	}
	left := 0
	for _, r := range e.plan.rem {
		left += len(r)
	}
	left += len(e.plan.pending)
	e.mu.Unlock()
	for kk, n := range hist {
		if kk > 0 {
			e.rep.Count(fmt.Sprintf("refail_events_published_after_%d_failed_attempts_in_a_row_(by_one_controller_incarnation)", kk), int64(n))
		}
	}
	e.rep.Count("refail_planned_faults_never_consumed", int64(left))
	if !e.bad() && maxk >= 1 {
		c18WriteSig(e.rep, fmt.Sprintf("refail|class=%d|k=%d|max_failed_in_a_row=%d|%s|%s", class, k, maxk, posName, strings.Join(e.steps, " ")))
	}
}

// c18RefailInCluster: REAL unavailability in a 3-server cluster whose
// __activity partition is replicated on all servers (ack policy ALL, the
// default): a replica of __activity that is not the controller is stopped - the
// partition leader where that is another server (publishes fail until a new
// partition leader is there), else a follower (publishes time out until it has
// left the ISR).  The controller's dispatcher fails on ONE event again and
// again meanwhile.
func c18RefailInCluster(rep *kit.Report, run int, seed uint64, k int) {
	e := c18NewEnv(rep, "refail", run, seed)
	rng := e.rng
	e.installPlanHooks()
	e.noAuto = true
	e.plan.timeout = time.Second
	lag := time.Duration(rng.Range(3000, 6000)) * time.Millisecond
	c, err := vfNewCluster("c18g", 3, e.mut(func(cfg *Config) {
		cfg.Clustering.RaftBootstrapSeed = false
		cfg.Clustering.RaftBootstrapPeers = []string{e.prefix + "a", e.prefix + "b", e.prefix + "c"}
		cfg.Clustering.ReplicaMaxLeaderTimeout = 1500 * time.Millisecond
		cfg.Clustering.ReplicaMaxIdleWait = 250 * time.Millisecond
		cfg.Clustering.ReplicaFetchTimeout = 400 * time.Millisecond
		cfg.Clustering.ReplicaMaxLagTime = lag
		cfg.Groups.ConsumerTimeout = time.Hour
		cfg.Groups.CoordinatorTimeout = time.Hour
		cfg.ActivityStream.PublishTimeout = time.Second
	}))
	if err != nil {
		rep.Inconc(fmt.Sprintf("[refail run %d] cluster start failed: %v", run, err))
		return
	}
	e.c = c
	defer e.close()
	for _, id := range c.IDs {
		e.attach(id)
	}
	e.step("refail(class=cluster,activityReplicas=%d,failed attempts wanted %d)", e.activityReplicas(), k)
	for i, n := 0, rng.Range(2, 4); i < n && !e.bad(); i++ {
		e.doOp(e.genOp(3, false))
	}
	l := e.leader()
	if l == nil || e.bad() {
		e.account()
		return
	}
	e.awaitPublished(60 * time.Second)
	home := e.nodeOf(l)
	var al *vfNode
	if !vfWait(20*time.Second, func() bool {
		al = nil
		for _, n := range c.Running() {
			p := n.Partition(c18ActivityStream, 0)
			if p == nil || len(p.GetISR()) != 3 {
				return false
			}
			if p.IsLeader() {
				al = n
			}
		}
		return al != nil
	}) {
		e.inconclusive("__activity not replicated on all three servers")
		e.account()
		return
	}
	victim, role := "", "follower"
	if al.ID != home {
		victim, role = al.ID, "partition leader"
	} else {
		for _, id := range c.IDs {
			if id != home {
				victim = id
			}
		}
	}
	e.step("stop(%s, %s of %s; controller %s)", victim, role, c18ActivityStream, home)
	e.absorbAll()
	if !e.stopNode(victim) {
		e.account()
		return
	}
	// the event that cannot be acknowledged by all replicas: a metadata-only
	// operation (needs no replica of its own), until one is committed
	before := e.lastListed()
	head := before
	base := e.triesNow()
	for i := 0; i < 4 && head == before && !e.bad(); i++ {
		if ex := e.existing(); len(ex) > 0 {
			e.doOp(c18Op{Kind: "readonly", Stream: ex[0], Flag: i%2 == 0})
		} else {
			e.doOp(e.genOp(2, false))
		}
		head = e.lastListed()
	}
	if head == before {
		e.inconclusive("no operation could be committed after the replica was stopped")
		e.account()
		return
	}
	for i, n := 0, rng.Range(0, 2); i < n && !e.bad(); i++ {
		e.doOp(e.genOp(1, false))
	}
	// logical condition: the controller's dispatcher has begun k+1 attempts of that
	// event, or has got it through (the ISR shrank / the new partition leader is
	// there early)
	vfWait(45*time.Second, func() bool {
		_, n := e.newTries(base)
		return n > k || l.activity.LastPublishedRaftIndex() >= head || e.bad()
	})
	hol, tries := e.newTries(base)
	e.step("unavailable(event #%d at the head of the line, attempts begun %d, lastPublished=%d)", hol, tries, l.activity.LastPublishedRaftIndex())
	rep.Count("refail_cluster_attempts_of_the_event_that_met_the_missing_replica", int64(tries))
	if rng.Bool() {
		e.step("restart(%s)", victim)
		if !e.startNode(victim) {
			e.account()
			return
		}
	}
	for i, n := 0, rng.Range(1, 3); i < n && !e.bad(); i++ {
		e.doOp(e.genOp(2, false))
	}
	e.finish(fmt.Sprintf("fence%d", run))
	e.account()
	e.mu.Lock()
	failedInARow := 0
	for kk := range e.plan.hist {
		if kk > failedInARow {
			failedInARow = kk
		}
	}
	e.mu.Unlock()
	if failedInARow > 0 {
		rep.Count(fmt.Sprintf("refail_events_published_after_%d_failed_attempts_in_a_row_(by_one_controller_incarnation)", failedInARow), 1)
	}
	if !e.bad() && tries >= 2 {
		c18WriteSig(rep, fmt.Sprintf("refail|class=cluster|%s stopped|attempts=%d|%s", role, tries, strings.Join(e.steps, " ")))
	}
}

// TestVerifC18Refail: k consecutive failures of one event, real unavailability,
// stops in the back-off; parked-dispatcher predicate.
func TestVerifC18Refail(t *testing.T) {
	rep := kit.NewReport("C18", "refail")
	defer rep.Write()
	rep.SetRule(c18Rule + " ; refail unit: ONE event fails k times in a row before it is let through - k = 1..5 (back-off 1+2+4+8+10 s) as publish failures, bookkeeping failures (published, index not recorded), alternating or seeded mixtures of both, or attempts held by the hook beyond their own timeout (publish timeout 150..400 ms; the real api.Publish / Raft apply then run into the expired context) - at the positions: first event of a fresh controller (the creation of __activity; the hooks are armed before the server starts), first event after a restart, in the middle of a stream with operations piling up behind it, last event before a quiet period (only the back-off timer wakes the dispatcher); two different events failing back to back (k1,k2 in 1..3); REAL unavailability: __activity read-only through the API until the hook has seen the dispatcher begin m = 2..4 attempts of one event, then writable again; a 3-server cluster (peer bootstrap, __activity on all servers, ack policy ALL, publish timeout 1 s, replica.max.lag.time 3..6 s) in which a replica of __activity that is not the controller is stopped - the partition leader when that is another server, else a follower - until the dispatcher has begun >= 3 attempts of one event or got it through; the controller stopped (Server.Stop()) while its dispatcher is in the back-off after the j-th of k failures and restarted, the rest of the sequence meets the next incarnation; every scenario ends with the fence and the full oracle; how many failed attempts in a row each event really saw is read from the hooks (attempts begun by one controller incarnation before the one that got past the publish) and counted; non-trivial = completed and some event got through after >= 1 failed attempt in a row (cluster: >= 2 attempts begun against the missing replica)")
	rep.Assume("stuck-state predicate 'dispatcher parked outside select' (evaluated by every C18 unit while it waits for the fence, in the refail unit's quiet periods, and whenever a unit stops a server): the goroutine executing this server's activityManager.dispatch (receiver pointer compared) has dispatch itself as its innermost frame outside runtime / sync / time, its wait reason is a plain channel operation, a lock or a condition variable - not a select, not sleeping, not running - and goroutine id, source line, wait reason, the hooks' attempt counter, the Raft term and the last-published index are the same on every inspection (>= 3, in fact one per 0.7 s) over a span longer than the longest back-off (10 s) + the publish timeout + 2 s.  The span is a lower bound only: it rules out a wait that a timer ends; the verdict does not depend on the dispatcher being fast")
	root := kit.NewRNG(kit.Mix(kit.Seed(), 0xC18A))
	type cls struct{ class, k, kind int }
	var list []cls
	// k failures of one event: every k with every kind of sequence over the list
	quickK := []int{1, 2, 3, 2, 4, 5, 3}
	for i, k := range quickK {
		list = append(list, cls{c18RefailSeq, k, (i + int(kit.Seed()%5)) % 5})
	}
	list = append(list,
		cls{c18RefailPair, 10*root.Range(1, 3) + root.Range(1, 3), 0},
		cls{c18RefailReadonly, root.Range(2, 4), 0},
		cls{c18RefailTimeout, root.Range(2, 3), 5},
		cls{c18RefailStop, root.Range(2, 3), root.Intn(5)},
		cls{c18RefailCluster, 2, 0},
	)
	if kit.Thorough() {
		for i := 0; i < 30; i++ {
			list = append(list, cls{c18RefailSeq, 1 + i%5, (i / 5) % 5})
		}
		for i := 0; i < 6; i++ {
			list = append(list,
				cls{c18RefailPair, 10*root.Range(1, 3) + root.Range(1, 3), 0},
				cls{c18RefailReadonly, root.Range(2, 5), 0},
				cls{c18RefailTimeout, root.Range(1, 4), 5},
				cls{c18RefailStop, root.Range(1, 4), root.Intn(5)})
		}
		for i := 0; i < 4; i++ {
			list = append(list, cls{c18RefailCluster, root.Range(2, 3), 0})
		}
	}
	// the long scenarios first (the back-off of k failures in a row is 1+2+4+8+10.. s)
	cost := func(c cls) int {
		sum := func(k int) int { return []int{0, 1, 3, 7, 15, 25, 35}[k] }
		switch c.class {
		case c18RefailPair:
			return sum(c.k/10) + sum(c.k%10)
		case c18RefailCluster:
			return 20
		}
		return sum(c.k)
	}
	sort.SliceStable(list, func(i, j int) bool { return cost(list[i]) > cost(list[j]) })
	specs := make([]c18ChildSpec, len(list))
	for i, c := range list {
		specs[i] = c18ChildSpec{Unit: "refail", Run: i, Seed: root.Uint64(), Variant: c.class, Bulk: c.k, Trailing: c.kind}
	}
	c18RunChildren(rep, "refail", specs, kit.Workers())
}
