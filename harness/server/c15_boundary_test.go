//go:build verif

package server

// C15, input class "boundary policy files on reload".  The reload unit rewrites
// the policy file with other, equally large generated sets.  This unit reloads
// (file rewritten + real SIGHUP) policy files at the edges of the format and of
// the permission lattice, each derived from the full generated set that was in
// force before:
//
//   empty                     zero bytes: every permission revoked
//   blank-and-comments        only blank lines and '#' comments (the former
//                             lines commented out): every permission revoked
//   unknown-client-only       a non-empty file whose lines name a client nobody
//                             uses: every permission of every caller revoked
//   one-line                  the file shrinks to ONE line of one client
//   one-line-no-newline       the same without the final newline
//   admin-lost-everything     the most powerful client loses all its lines,
//                             the others keep theirs
//   admin-only                only the admin's lines remain
//   same-again                the same content once more
//
// After every reload the usual probes run: read-only decision probes for every
// caller kind, then every API method x request shape by the admin, a seeded
// client and a caller without lines.  What the new file revokes must be refused
// and change nothing; what remains must still work.  Then a full generated set
// is reloaded (the permissions grow back) and must work again.
//
// While the admin client is powerless (the first six kinds) the harness cannot
// repair or fence the world with authorised calls, so a reduced oracle is used:
// before/after digest per call (flags, groups, cursors, subscriptions, newest
// offsets read in-process); allowed calls are restricted to acknowledged
// publishes, cursor and read-only calls (their appends are known exactly); and
// after the full set is back one authorised fence per partition shows that
// nothing else was appended meanwhile (fire-and-forget publishes included).

import (
	"context"
	"fmt"
	"os"
	"sort"
	"strconv"
	"strings"
	"syscall"
	"testing"
	"time"

	client "github.com/liftbridge-io/liftbridge-api/v2/go"
	gproto "google.golang.org/protobuf/proto"

	kit "github.com/liftbridge-io/liftbridge/internal/verifkit"
)

var c15bKinds = []string{"empty", "admin-only", "blank-and-comments", "one-line", "same-again", "unknown-client-only", "admin-lost-everything", "one-line-no-newline"}

// c15bPowerless: kinds under which the admin client holds no line.
func c15bPowerless(kind string) bool { return kind != "admin-only" && kind != "same-again" }

// c15bFile builds the boundary file from the full set in force and the policy
// it means.  owner/line: the surviving line of the one-line kinds.
func c15bFile(kind string, full *c15Policy, rng *kit.RNG) (content string, exp *c15Policy, owner string, line [2]string) {
	exp = &c15Policy{Gen: full.Gen, Lines: map[string]map[string]bool{}}
	copyOf := func(c string) {
		exp.Lines[c] = map[string]bool{}
		for k := range full.Lines[c] {
			exp.Lines[c][k] = true
		}
	}
	switch kind {
	case "empty":
	case "blank-and-comments":
		var sb strings.Builder
		sb.WriteString("\n\n# all permissions revoked\n   \n")
		for i, l := range strings.Split(strings.TrimSpace(full.csv()), "\n") {
			if i >= 40 {
				break
			}
			sb.WriteString("#" + l + "\n\t\n")
		}
		content = sb.String()
	case "unknown-client-only":
		content = "p, nobody, s0, Publish\np, nobody, *, FetchMetadata\np, nobody, s1, Subscribe\n"
		exp.grant("nobody", "s0", "Publish")
		exp.grant("nobody", "*", "FetchMetadata")
		exp.grant("nobody", "s1", "Subscribe")
	case "one-line", "one-line-no-newline":
		// a line one of c1..c3 holds on a live stream for a call whose effect
		// is known exactly; synthetic if the set holds none
		acts := []string{"Publish", "FetchPartitionMetadata"} // calls one line alone authorises
		type cand struct{ c, obj, act string }
		var cs []cand
		for _, c := range c15Cli {
			for _, s := range c15Live {
				for _, a := range acts {
					if full.has(c, s, a) {
						cs = append(cs, cand{c, s, a})
					}
				}
			}
		}
		pick := cand{"c1", "s0", "FetchPartitionMetadata"}
		if len(cs) > 0 {
			sort.Slice(cs, func(i, j int) bool { return fmt.Sprint(cs[i]) < fmt.Sprint(cs[j]) })
			pick = cs[rng.Intn(len(cs))]
		}
		owner, line = pick.c, [2]string{pick.obj, pick.act}
		exp.grant(pick.c, pick.obj, pick.act)
		content = fmt.Sprintf("p, %s, %s, %s\n", pick.c, pick.obj, pick.act)
		if kind == "one-line-no-newline" {
			content = strings.TrimSuffix(content, "\n")
		}
	case "admin-lost-everything":
		var lines []string
		for _, l := range strings.Split(strings.TrimSpace(full.csv()), "\n") {
			if !strings.HasPrefix(l, "p, "+c15Admin+",") {
				lines = append(lines, l)
			}
		}
		content = strings.Join(lines, "\n") + "\n"
		for _, c := range c15Cli {
			copyOf(c)
		}
	case "admin-only":
		var lines []string
		for _, l := range strings.Split(strings.TrimSpace(full.csv()), "\n") {
			if strings.HasPrefix(l, "p, "+c15Admin+",") {
				lines = append(lines, l)
			}
		}
		content = strings.Join(lines, "\n") + "\n"
		copyOf(c15Admin)
	case "same-again":
		content = full.csv()
		for c := range full.Lines {
			copyOf(c)
		}
	}
	if exp.Lines[c15Stranger] == nil {
		exp.Lines[c15Stranger] = map[string]bool{}
	}
	return
}

// c15bParse: the set of (sub|obj|act) rules a policy file means under the
// documented CSV format (blank lines and '#' comments carry nothing).
func c15bParse(content string) map[string]bool {
	out := map[string]bool{}
	for _, l := range strings.Split(content, "\n") {
		l = strings.TrimSpace(l)
		if l == "" || strings.HasPrefix(l, "#") {
			continue
		}
		f := strings.Split(l, ",")
		for i := range f {
			f[i] = strings.TrimSpace(f[i])
		}
		if len(f) == 4 && f[0] == "p" {
			out[f[1]+"|"+f[2]+"|"+f[3]] = true
		}
	}
	return out
}

// loaded: the rules the enforcer holds right now.
func (w *c15World) c15bLoaded() map[string]bool {
	e := w.srv.authzEnforcer
	e.authzLock.RLock()
	defer e.authzLock.RUnlock()
	out := map[string]bool{}
	rules, err := e.enforcer.GetPolicy()
	if err != nil {
		return nil
	}
	for _, r := range rules {
		out[strings.Join(r, "|")] = true
	}
	return out
}

func c15bSameSet(a, b map[string]bool) bool {
	if a == nil || b == nil || len(a) != len(b) {
		return false
	}
	for k := range a {
		if !b[k] {
			return false
		}
	}
	return true
}

// c15bInstall writes the file (atomically by rename, or in place: truncate and
// write, then signal) and delivers SIGHUP.  applied=false is returned only
// under the stuck-state predicate of setPolicy: the signal was dispatched (twin
// channel), re-delivered three times, and the process kept making progress
// (NATS round trip and Raft barrier) while the enforcer kept the old rules.
func (w *c15World) c15bInstall(content string, inPlace bool) (applied bool, err error) {
	if inPlace {
		if err := os.WriteFile(w.policyPath, []byte(content), 0644); err != nil {
			return false, err
		}
	} else {
		tmp := w.policyPath + ".tmp"
		if err := os.WriteFile(tmp, []byte(content), 0644); err != nil {
			return false, err
		}
		if err := os.Rename(tmp, w.policyPath); err != nil {
			return false, err
		}
	}
	want := c15bParse(content)
	for attempt := 0; attempt < 3; attempt++ {
		for len(w.hup) > 0 {
			<-w.hup
		}
		if err := syscall.Kill(os.Getpid(), syscall.SIGHUP); err != nil {
			return false, err
		}
		w.reloads++
		select {
		case <-w.hup:
		case <-time.After(c15Wait):
			return false, fmt.Errorf("SIGHUP not dispatched to the process within %v: %w", c15Wait, errVfTimeout)
		}
		if vfWait(c15Wait/2, func() bool { return c15bSameSet(w.c15bLoaded(), want) }) {
			return true, nil
		}
		// progress proof that needs no authorisation
		if err := w.c.NC.FlushTimeout(c15Wait); err != nil {
			return false, fmt.Errorf("NATS round trip failed while waiting for the reload: %v: %w", err, errVfTimeout)
		}
		if err := w.srv.getRaft().Barrier(c15Wait).Error(); err != nil {
			return false, fmt.Errorf("Raft barrier failed while waiting for the reload: %v: %w", err, errVfTimeout)
		}
		w.hupBarrier++
	}
	return false, nil
}

func c15bDecide(c *c15Call, exp *c15Policy) c15Dec {
	if c.GroupRPC {
		switch {
		case len(exp.Lines[c.Client]) == 0:
			return c15Denied // no line at all, whatever the matching entry would be
		case c.Client == c15Admin:
			return c15Allowed
		}
		return c15Undet
	}
	return c.decide(exp)
}

// c15bExactEffect: calls whose allowed execution appends a known number of
// messages and changes nothing the harness would need the admin to repair.
func c15bExactEffect(c *c15Call) bool {
	switch c.Method {
	case "FetchMetadata", "FetchPartitionMetadata", "FetchCursor", "SetCursor":
		return true
	case "Publish":
		return c.Shape == "ack"
	case "PublishToSubject":
		return c.Shape == "ack" || c.Shape == "partition-subject"
	case "PublishAsync":
		return c.Shape == "single-stream"
	case "Subscribe":
		return c.Shape == "plain" || c.Shape == "group-fresh"
	}
	return false
}

type c15bPhase struct {
	kind    string
	round   int
	n0      map[string]int64 // newest offset per partition when the phase began
	expect  map[string]int64 // appends of the allowed calls of the phase
	denied  []string         // denied calls executed (for the late-append witness)
	skipped int
}

func c15bNewest(d c15Digest) map[string]int64 {
	out := map[string]int64{}
	for k, v := range d {
		if strings.HasPrefix(k, "newest/") {
			n, _ := strconv.ParseInt(v, 10, 64)
			out[strings.TrimPrefix(k, "newest/")] = n
		}
	}
	return out
}

// c15bExec runs one call while the admin is powerless (reduced oracle).
func (w *c15World) c15bExec(ph *c15bPhase, call *c15Call, exp *c15Policy) {
	rep := w.rep
	tag := fmt.Sprintf("round %d boundary=%s %s/%s client=%s target=%s", ph.round, ph.kind, call.Method, call.Shape, call.Client, call.Target)
	dec := c15bDecide(call, exp)
	if dec == c15Undet || call.prep != nil || (dec == c15Allowed && !c15bExactEffect(call)) {
		ph.skipped++
		return
	}
	d0 := w.digest()
	res := &c15Res{}
	call.run(res)
	if res.inconc != "" {
		rep.Inconc(tag + ": " + res.inconc)
		return
	}
	if call.settle != nil {
		call.settle()
	}
	// what the call may legitimately append (for a refused batch: the messages
	// of it the file still allows); acknowledged, but the handler may return
	// before the append is visible: wait for it (logical condition)
	delta := call.expectedDelta(exp, dec)
	nb := c15bNewest(d0)
	for k, v := range delta {
		k, want := k, nb[k]+v
		if _, known := nb[k]; !known || v == 0 || res.err != nil {
			continue
		}
		i := strings.LastIndex(k, "/")
		pid, _ := strconv.Atoi(k[i+1:])
		vfWait(5*time.Second, func() bool {
			p := w.srv.metadata.GetPartition(k[:i], int32(pid))
			return p == nil || p.log.NewestOffset() >= want
		})
	}
	d1 := w.digest()
	rep.Eval()
	rep.Count("calls/"+call.Method, 1)
	rep.Count("boundary/"+ph.kind+"/"+dec.String(), 1)
	diff := c15DiffKeys(d0, d1)
	// more than the call accounts for (fewer = not yet visible: the fence
	// after the phase settles the total)
	var appended []string
	na := c15bNewest(d1)
	for k, a := range na {
		if b, ok := nb[k]; ok && a-b > delta[k] {
			appended = append(appended, fmt.Sprintf("%s: %d message(s) appended, %d expected", k, a-b, delta[k]))
		}
	}
	sort.Strings(appended)
	for k, v := range delta {
		ph.expect[k] += v
	}
	witness := map[string]interface{}{"seed": kit.Seed(), "round": ph.round, "boundary_file": ph.kind, "client": call.Client, "client_identity": c15DescribeClient(call.Client),
		"client_policy_lines_in_the_new_file": len(exp.Lines[call.Client]), "method": call.Method, "shape": call.Shape, "request": call.Req, "expected": dec.String(),
		"returned_error": fmt.Sprint(res.err), "state_diff": c15DescribeDiff(d0, d1, diff), "appended": appended, "messages_handed_to_the_caller": res.delivered}
	if dec == c15Allowed {
		reason := call.worked(res, d0, d1)
		denied := c15AuthzError(res.err)
		for _, p := range res.resps {
			if p.AsyncError != nil && strings.Contains(fmt.Sprint(p.AsyncError), "PERMISSION_DENIED") {
				denied = true
			}
		}
		switch {
		case denied:
			// nothing was appended then
			for k, v := range delta {
				ph.expect[k] -= v
			}
			rep.Violation("C15:"+call.Method+":refused-although-authorised:after-boundary-reload",
				fmt.Sprintf("%s: the reloaded file still holds every entry the documentation requires for this call, yet it was refused: %v %s", tag, res.err, reason), witness)
		case reason != "":
			rep.Inconc(tag + ": authorised call did not work (not an authorisation error): " + reason)
		default:
			rep.Count("allowed_and_worked/"+call.Method, 1)
			rep.Nontrivial(ph.kind + "/" + call.Method + "/" + call.Shape + "/allowed")
		}
		return
	}
	// ---- denied
	ph.denied = append(ph.denied, fmt.Sprintf("%s/%s by %s on %s", call.Method, call.Shape, call.Client, call.Target))
	rep.Nontrivial(ph.kind + "/" + call.Method + "/" + call.Shape + "/denied")
	refused := res.err != nil
	if len(call.Msgs) > 0 && res.err == nil {
		refused = true
		for _, m := range call.Msgs {
			got := false
			for _, p := range res.resps {
				if p.CorrelationId == m.corr && p.AsyncError != nil {
					got = true
				}
			}
			if call.msgDenied(exp, m) && !got {
				refused = false
			}
		}
	}
	effect := ""
	switch {
	case !refused:
		effect = "not-refused"
	case call.Method == "Subscribe" && res.delivered > 0:
		effect = "delivered-despite-denial"
	case len(appended) > 0:
		effect = "published-despite-denial"
	case len(diff) > 0:
		cls := diff[0]
		if i := strings.Index(cls, "/"); i > 0 {
			cls = cls[:i]
		}
		effect = "state-changed:" + cls
	}
	if effect == "" {
		rep.Count("denied_refused_unchanged/"+call.Method, 1)
		return
	}
	if effect == "not-refused" && call.ReadOnlyNoDocAction && len(diff) == 0 && len(appended) == 0 {
		rep.Count("observed_unguarded_readonly/"+call.Method, 1)
		return
	}
	// one fingerprint per method and effect (as in the ACL unit); the kind of
	// file is in the text and the witness
	fp := "C15:" + call.Method + ":" + effect + ":after-boundary-reload"
	if effect == "published-despite-denial" {
		// a fire-and-forget publish of an EARLIER refused call may become
		// visible only now: the append is certain, its author is not
		fp = "C15:boundary:appended-while-revoked"
	}
	rep.Violation(fp,
		fmt.Sprintf("%s: the reloaded policy file gives this caller no entry for the call (expected: refused, nothing changes). Observed: refused=%v err=%v; state changed:%s; %s",
			tag, refused, res.err, c15DescribeDiff(d0, d1, diff), strings.Join(appended, "; ")), witness)
}

// c15bCalls: every method x shape by the admin, a seeded client and a caller
// without lines (stranger or an identity-less caller in rotation), seeded target.
func (w *c15World) c15bCalls(methods []string, rng *kit.RNG, round int) []*c15Call {
	var out []*c15Call
	for mi, m := range methods {
		d := c15Drivers[m]
		for si, shape := range d.Shapes {
			ts := d.Targets(shape)
			lineless := c15Stranger
			if (mi+si+round)%2 == 0 {
				lineless = c15IdentityKinds[(mi+si+round/2)%len(c15IdentityKinds)]
			}
			for _, cli := range []string{c15Admin, c15Cli[rng.Intn(len(c15Cli))], lineless} {
				t := ts[rng.Intn(len(ts))]
				c := d.Build(w, shape, cli, t, rng.Fork(uint64(len(out))))
				c.Method, c.Shape, c.Client, c.buildTarget = m, shape, cli, t
				if c.Target == "" {
					c.Target = t
				}
				out = append(out, c)
			}
		}
	}
	for i := len(out) - 1; i > 0; i-- {
		j := rng.Intn(i + 1)
		out[i], out[j] = out[j], out[i]
	}
	return out
}

// c15bOwnerCall: the call the surviving line of a one-line file authorises.
func (w *c15World) c15bOwnerCall(owner string, line [2]string, rng *kit.RNG) *c15Call {
	m, shape := line[1], ""
	switch m {
	case "Publish":
		shape = "ack"
	case "FetchPartitionMetadata":
		shape = "partition"
	case "SetCursor":
		shape = "overwrite"
	case "FetchCursor":
		shape = "existing"
	case "Subscribe":
		shape = "plain"
	default:
		return nil
	}
	c := c15Drivers[m].Build(w, shape, owner, line[0], rng)
	c.Method, c.Shape, c.Client, c.buildTarget, c.Target = m, shape, owner, line[0], line[0]
	return c
}

type c15bProbe struct {
	method, cli, obj string
	req              gproto.Message
}

// c15bProbes: read-only decision probes for every caller kind.
func (w *c15World) c15bProbes(ph *c15bPhase, old, exp *c15Policy) {
	rep := w.rep
	callers := append(append([]string{c15Admin}, c15Cli...), c15Stranger,
		c15IdentityKinds[(int(kit.Seed()%9)+2*ph.round)%len(c15IdentityKinds)], c15IdentityKinds[(int(kit.Seed()%9)+2*ph.round+1)%len(c15IdentityKinds)])
	var probes []c15bProbe
	for _, cli := range callers {
		probes = append(probes, c15bProbe{"FetchMetadata", cli, "*", &client.FetchMetadataRequest{}})
		for _, s := range c15Live {
			probes = append(probes, c15bProbe{"FetchPartitionMetadata", cli, s, &client.FetchPartitionMetadataRequest{Stream: s, Partition: 0}})
		}
	}
	for _, p := range probes {
		_, err := w.call(p.method, p.cli, p.req, c15Wait)
		was, now := old.has(p.cli, p.obj, p.method), exp.has(p.cli, p.obj, p.method)
		rep.Eval()
		if err != nil && !c15AuthzError(err) {
			rep.Inconc(fmt.Sprintf("round %d boundary=%s: probe %s by %s on %s failed for another reason: %v", ph.round, ph.kind, p.method, p.cli, p.obj, err))
			continue
		}
		rep.Count("probes", 1)
		if was != now {
			rep.Nontrivial(fmt.Sprintf("%s/probe/%s/%v→%v", ph.kind, p.method, was, now))
			rep.Count("probes_flipped", 1)
		}
		if (err == nil) == now {
			continue
		}
		fp := "C15:reload:wrong-decision:boundary=" + ph.kind
		if was != now {
			fp = "C15:reload:stale-policy:boundary=" + ph.kind
		}
		if cls := c15IdentityClass(p.cli); cls != "" {
			fp = "C15:" + p.method + ":not-refused:caller=" + cls
		}
		rep.Violation(fp, fmt.Sprintf("round %d: after reloading the %s policy file %s by %s on %s must be allowed=%v (file before: %v) but returned err=%v", ph.round, ph.kind, p.method, p.cli, p.obj, now, was, err),
			map[string]interface{}{"seed": kit.Seed(), "round": ph.round, "boundary_file": ph.kind, "client_lines_in_the_new_file": exp.linesOf(p.cli, p.obj), "client_identity": c15DescribeClient(p.cli)})
	}
}

// TestVerifC15Boundary: reloads of boundary policy files.
func TestVerifC15Boundary(t *testing.T) {
	rep := kit.NewReport("C15", "boundary")
	defer rep.Write()
	rep.SetRule("Rounds rotate through the boundary policy files " + strings.Join(c15bKinds, ", ") + " (the rotation starts at a seeded kind; every kind comes up in every run), each derived from the full generated set in force (admin every line, c1..c3 seeded subsets, stranger none): " +
		"the file is rewritten (seeded: atomically by rename, or truncated and written in place) and a real SIGHUP is delivered; the reload is awaited on its logical effect (the enforcer's rule set equals the rules the file means). " +
		"Then (1) FetchMetadata / FetchPartitionMetadata probes for admin, c1..c3, the stranger and two identity-less callers must be decided by the NEW file; " +
		"(2) every method of client.APIServer x request shape is called by the admin, a seeded client and a caller without lines: a call the new file denies must be refused and leave the digest unchanged " +
		"(streams, flags, groups, cursors, standing subscriptions, newest offsets), a call it still allows must work. While the admin holds its lines (admin-only, same-again) the full oracle of the ACL unit runs (fences included). " +
		"While the admin is powerless, shapes that need an authorised preparation are skipped, allowed calls are limited to those with an exactly known effect (acknowledged publishes, cursors, read-only calls, plain / fresh-group subscribes), " +
		"and after (3) a full generated set is reloaded, one authorised fence per partition must land on newest-before + appends-of-the-allowed-calls + 1 (nothing was appended late by a refused fire-and-forget publish); " +
		"(4) a few full cases under the regained set must work. non-trivial = a determined case executed under a boundary file; signature = kind/method/shape/decision, kind/probe/method/old→new.")
	c15Assumptions(rep)
	rep.Assume("A policy file that is empty, or holds only blank lines and '#' comments, means the empty policy set (casbin's file adapter loads no rule and reports no error; documentation/authentication_authorization.md describes the file as the list of permissions and SIGHUP as 'reload authorization policy'): after the reload every client, the admin included, must be refused. A file without a final newline and a file that repeats the content in force are ordinary files. Malformed files (wrong field count, broken CSV) are not exercised: what a failed load leaves in force is not specified.")
	methods := c15CheckMethodCoverage(rep)
	rounds := kit.EnvInt("C15_BOUNDARY_ROUNDS", kit.Scale(2*len(c15bKinds), 12*len(c15bKinds)))
	base := kit.NewRNG(kit.Mix(kit.Seed(), 0xc15d))
	full := c15GenPolicy(base.Fork(0), 0)
	w, err := c15NewWorld(rep, "bd", full)
	if err != nil {
		rep.Inconc("server with authorisation did not come up: " + err.Error())
		return
	}
	defer w.close()
	start := int(kit.Seed() % uint64(len(c15bKinds)))
	stuck := map[string]bool{}
	for round := 1; round <= rounds; round++ {
		if rep.NumViolations() >= 12 {
			break
		}
		rng := base.Fork(uint64(round))
		kind := c15bKinds[(start+round-1)%len(c15bKinds)]
		if stuck[kind] {
			continue // already reported; every further attempt costs three watchdog periods
		}
		if err := w.normalize(); err != nil {
			rep.Inconc(fmt.Sprintf("round %d: restoring the default world: %v", round, err))
			return
		}
		if !w.quiesce() {
			rep.Inconc(fmt.Sprintf("round %d: subscription loops did not wind down", round))
			return
		}
		full = w.pol
		content, exp, owner, line := c15bFile(kind, full, rng.Fork(1))
		inPlace := rng.Bool()
		ph := &c15bPhase{kind: kind, round: round, expect: map[string]int64{}}
		ph.n0 = c15bNewest(w.digest())
		applied, err := w.c15bInstall(content, inPlace)
		if err != nil {
			rep.Inconc(fmt.Sprintf("round %d boundary=%s: policy reload: %v", round, kind, err))
			return
		}
		how := "renamed into place"
		if inPlace {
			how = "truncated and rewritten in place"
		}
		rep.Eval()
		rep.Count("boundary_reloads/"+kind, 1)
		if !applied {
			stuck[kind] = true
			rep.Violation("C15:reload:not-applied:boundary="+kind,
				fmt.Sprintf("round %d: the policy file was replaced by the %s file (%d bytes, %d rule(s); %s) and SIGHUP delivered 3 times (each seen on the twin signal channel; NATS round trips and Raft barriers completed in between), but the enforcer still holds the %d rule(s) of the previous file after %v: the permissions the new file revokes stay in force",
					round, kind, len(content), len(c15bParse(content)), how, len(w.c15bLoaded()), 3*c15Wait/2),
				map[string]interface{}{"seed": kit.Seed(), "round": round, "boundary_file": kind, "file_bytes": len(content), "written": how,
					"still_allowed_example": fmt.Sprintf("enforce(admin, s0, Publish)=%v", w.enforce(c15Admin, "s0", "Publish"))})
		} else {
			w.pol = exp
			w.c15bProbes(ph, full, exp)
			if c15bPowerless(kind) {
				calls := w.c15bCalls(methods, rng.Fork(2), round)
				if owner != "" {
					if oc := w.c15bOwnerCall(owner, line, rng.Fork(3)); oc != nil {
						calls = append([]*c15Call{oc}, calls...)
					}
				}
				for _, c := range calls {
					w.c15bExec(ph, c, exp)
				}
				rep.Count("calls_skipped_while_admin_powerless(need authorised preparation / effect not exactly known / undetermined)", int64(ph.skipped))
			} else {
				n := 0
				for _, c := range w.genCalls(methods, rng.Fork(2)) {
					if n >= kit.Scale(14, 60) {
						break
					}
					if c.decide(exp) == c15Undet {
						continue
					}
					w.exec(round, c)
					n++
				}
			}
		}
		// (3) the permissions grow back
		next := c15GenPolicy(rng.Fork(4), 1000+round)
		ok, err := w.setPolicy(next)
		if err != nil {
			rep.Inconc(fmt.Sprintf("round %d: reload of the full set after the %s file: %v", round, kind, err))
			return
		}
		if !ok {
			rep.Violation("C15:reload:not-applied:after-boundary="+kind, fmt.Sprintf("round %d: a full policy set written after the %s file did not take effect after three SIGHUPs", round, kind),
				map[string]interface{}{"seed": kit.Seed(), "round": round})
			return
		}
		rep.Count("policy_reloads_by_sighup", 1)
		if applied && c15bPowerless(kind) {
			w.c15bLateAppends(ph)
		}
		// (4) regained permissions work / revoked ones stay refused
		if err := w.normalize(); err != nil {
			rep.Inconc(fmt.Sprintf("round %d: restoring the default world after the %s file: %v", round, kind, err))
			return
		}
		n := 0
		for _, c := range w.genCalls(methods, rng.Fork(5)) {
			if n >= 3 {
				break
			}
			if c.decide(next) != c15Allowed {
				continue
			}
			w.exec(round, c)
			n++
		}
		if round <= 2 {
			rep.Sample(map[string]interface{}{"round": round, "boundary_file": kind, "bytes": len(content), "rules": len(c15bParse(content)), "written": how, "applied": applied,
				"denied_calls_executed": len(ph.denied), "calls_skipped": ph.skipped})
		}
	}
	rep.Count("sighup_sent", int64(w.reloads))
}

// c15bLateAppends: with the full set back, one authorised fence per partition
// shows how many messages were appended since the boundary phase began.
func (w *c15World) c15bLateAppends(ph *c15bPhase) {
	rep := w.rep
	d := w.digest()
	for _, s := range c15Live {
		for p := int32(0); p < 2; p++ {
			k := c15PartKey(s, p)
			if d["paused/"+k] != "false" || d["readonly/"+k] != "false" {
				rep.Count("late_append_check_skipped(partition paused or read-only)", 1)
				return
			}
		}
	}
	if err := w.ensureStanding(); err != nil {
		rep.Inconc(fmt.Sprintf("round %d: standing subscriptions after the %s file: %v", ph.round, ph.kind, err))
		return
	}
	f := w.fence(d, d)
	if len(f.inconc) > 0 {
		for _, s := range f.inconc {
			rep.Inconc(fmt.Sprintf("round %d boundary=%s: late-append fence: %s", ph.round, ph.kind, s))
		}
		return
	}
	rep.Eval()
	var bad []string
	for k, off := range f.offsets {
		n0, ok := ph.n0[k]
		if !ok {
			continue
		}
		if want := n0 + ph.expect[k] + 1; off != want {
			bad = append(bad, fmt.Sprintf("%s: fence landed on offset %d, expected %d (newest before the phase %d + %d append(s) of allowed calls)", k, off, want, n0, ph.expect[k]))
		}
	}
	sort.Strings(bad)
	if len(bad) == 0 {
		rep.Count("late_append_fences_clean", int64(len(f.offsets)))
		return
	}
	rep.Violation("C15:boundary:appended-while-revoked",
		fmt.Sprintf("round %d: while the %s policy file was in force more messages were appended than the calls it allowed account for: %s", ph.round, ph.kind, strings.Join(bad, "; ")),
		map[string]interface{}{"seed": kit.Seed(), "round": ph.round, "boundary_file": ph.kind, "denied_calls_executed": ph.denied})
}

var _ = context.Background
